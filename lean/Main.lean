import Lean.Data.Json
import PteraModel.Driver.Tools
import PteraModel.Driver.Selector
import PteraModel.Driver.Handlers
import PteraModel.Driver.Lifecycle
import PteraModel.Driver.Ctx
import PteraModel.Driver.Sched
import PteraModel.Driver.Registry
import PteraModel.Driver.Rewrite
import PteraModel.Driver.Exec
open Lean

def dispatch (j : Json) : Json :=
  match (j.getObjValAs? String "op").toOption.getD "" with
  | "tools" => Ptera.Driver.Tools.handle j
  | "lex" | "ptree" | "parse" | "select0" | "hashvar" => Ptera.Driver.Selector.handle j
  | "handlers" => Ptera.Driver.Handlers.handle j
  | "registry" => Ptera.Driver.Registry.handle j
  | "sched" => Ptera.Driver.Sched.handle j
  | "sched_run" => Ptera.Driver.Sched.handleRun j
  | "ctx" => Ptera.Driver.Ctx.handle j
  | "lifecycle" => Ptera.Driver.Lifecycle.handle j
  | "tagmatch" => Ptera.Driver.Handlers.handleTag j
  | "rewrite" => Ptera.Driver.Rewrite.handle j
  | "exec" => Ptera.Driver.Exec.handle j
  | "ping" => Json.mkObj [("ok", "pong")]
  | _ => Json.mkObj [("err", "bad-op")]

partial def loop (hin hout : IO.FS.Stream) : IO Unit := do
  let line ← hin.getLine
  if line.isEmpty then return ()
  let out := match Json.parse line with
    | .ok j => dispatch j
    | .error e => Json.mkObj [("err", "bad-json"), ("msg", e)]
  hout.putStrLn out.compress
  hout.flush
  loop hin hout

def main : IO Unit := do
  loop (← IO.getStdin) (← IO.getStdout)
