import PteraModel.Model.PyAst
/-!
# M2 — `ExternalVariableCollector`: which names a function uses / assigns, and their provenance
-/
namespace Ptera.Py

mutual
/-- names loaded by an expression (`visit_Name` with a Load context) -/
def Expr.loads : Expr → List String
  | .int _ | .str _ | .noneLit | .bool _ | .constOther _ => []
  | .name id => [id]
  | .call f args => f.loads ++ Expr.loadsL args
  | .attr v _ => v.loads
  | .sub v i => v.loads ++ i.loads
  | .tuple es => Expr.loadsL es
  | .list es => Expr.loadsL es
  | .binop _ l r => l.loads ++ r.loads
  | .walrus _ v => v.loads
  | .yield none => []
  | .yield (some v) => v.loads
  | .interact _ k a v _ => k.loads ++ a.loads ++ v.loads
  | .opaque _ loads _ _ => loads
def Expr.loadsL : List Expr → List String
  | [] => []
  | e :: es => e.loads ++ Expr.loadsL es
end

mutual
/-- names bound inside an expression (walrus targets; comprehension targets and lambda parameters of
    opaque nodes, which the collector does not tell apart from the function's own) -/
def Expr.stores : Expr → List String
  | .int _ | .str _ | .noneLit | .bool _ | .constOther _ | .name _ => []
  | .call f args => f.stores ++ Expr.storesL args
  | .attr v _ => v.stores
  | .sub v i => v.stores ++ i.stores
  | .tuple es => Expr.storesL es
  | .list es => Expr.storesL es
  | .binop _ l r => l.stores ++ r.stores
  | .walrus t v => t :: v.stores
  | .yield none => []
  | .yield (some v) => v.stores
  | .interact _ k a v _ => k.stores ++ a.stores ++ v.stores
  | .opaque _ _ stores args => stores ++ args
def Expr.storesL : List Expr → List String
  | [] => []
  | e :: es => e.stores ++ Expr.storesL es
end

mutual
/-- parameters of lambdas inside an expression: `visit_arg` records them as arguments -/
def Expr.largs : Expr → List String
  | .int _ | .str _ | .noneLit | .bool _ | .constOther _ | .name _ => []
  | .call f args => f.largs ++ Expr.largsL args
  | .attr v _ => v.largs
  | .sub v i => v.largs ++ i.largs
  | .tuple es => Expr.largsL es
  | .list es => Expr.largsL es
  | .binop _ l r => l.largs ++ r.largs
  | .walrus _ v => v.largs
  | .yield none => []
  | .yield (some v) => v.largs
  | .interact _ k a v _ => k.largs ++ a.largs ++ v.largs
  | .opaque _ _ _ args => args
def Expr.largsL : List Expr → List String
  | [] => []
  | e :: es => e.largs ++ Expr.largsL es
end

mutual
/-- the names a target binds, in binding order -/
def Target.names : Target → List String
  | .name id => [id]
  | .tuple ts => Target.namesL ts
  | .list ts => Target.namesL ts
  | .starred t => t.names
  | .attr _ _ => []
  | .sub _ _ => []
def Target.namesL : List Target → List String
  | [] => []
  | t :: ts => t.names ++ Target.namesL ts
end

mutual
/-- names loaded while storing to a target (`O` in `O.a = …`, `O` and `i` in `O[i] = …`) -/
def Target.loads : Target → List String
  | .name _ => []
  | .tuple ts => Target.loadsL ts
  | .list ts => Target.loadsL ts
  | .starred t => t.loads
  | .attr v _ => v.loads
  | .sub v i => v.loads ++ i.loads
def Target.loadsL : List Target → List String
  | [] => []
  | t :: ts => t.loads ++ Target.loadsL ts
end

mutual
def Target.stores : Target → List String
  | .name _ => []
  | .tuple ts => Target.storesL ts
  | .list ts => Target.storesL ts
  | .starred t => t.stores
  | .attr v _ => v.stores
  | .sub v i => v.stores ++ i.stores
def Target.storesL : List Target → List String
  | [] => []
  | t :: ts => t.stores ++ Target.storesL ts
end

mutual
def Target.largs : Target → List String
  | .name _ => []
  | .tuple ts => Target.largsL ts
  | .list ts => Target.largsL ts
  | .starred t => t.largs
  | .attr v _ => v.largs
  | .sub v i => v.largs ++ i.largs
def Target.largsL : List Target → List String
  | [] => []
  | t :: ts => t.largs ++ Target.largsL ts
end

/-- every `Name` node inside a target (`SimpleVariableCollector`) -/
def Target.allNames (t : Target) : List String := t.names ++ t.loads

def optLoads : Option Expr → List String
  | none => []
  | some e => e.loads

def optStores : Option Expr → List String
  | none => []
  | some e => e.stores

mutual
def Stmt.used : Stmt → List String
  | .assign ts v => Target.loadsL ts ++ v.loads
  | .augassign t _ v => t.loads ++ v.loads
  | .annassign t ann v => t.loads ++ ann.expr.loads ++ optLoads v
  | .expr e => e.loads
  | .ret v => optLoads v
  | .pass | .brk | .cont => []
  | .raise e => optLoads e
  | .ite c b o => c.loads ++ Stmt.usedL b ++ Stmt.usedL o
  | .while c b o => c.loads ++ Stmt.usedL b ++ Stmt.usedL o
  | .for t it b o => t.loads ++ it.loads ++ Stmt.usedL b ++ Stmt.usedL o
  | .try b hs o f => Stmt.usedL b ++ Handler.usedL hs ++ Stmt.usedL o ++ Stmt.usedL f
  | .with c t b => c.loads ++ (match t with | none => [] | some t => t.loads) ++ Stmt.usedL b
  | .defn _ _ loads => loads
  | .cls _ _ loads => loads
  | .imp _ _ => []
  | .glob _ | .nonloc _ => []
  | .opaque _ loads _ => loads
def Stmt.usedL : List Stmt → List String
  | [] => []
  | s :: ss => s.used ++ Stmt.usedL ss
def Handler.used : Handler → List String
  | .mk typ _ body => optLoads typ ++ Stmt.usedL body
def Handler.usedL : List Handler → List String
  | [] => []
  | h :: hs => h.used ++ Handler.usedL hs
end

mutual
def Stmt.assigned : Stmt → List String
  | .assign ts v => Target.namesL ts ++ Target.storesL ts ++ v.stores
  | .augassign t _ v => t.names ++ t.stores ++ v.stores
  | .annassign t _ v => t.names ++ t.stores ++ optStores v
  | .expr e => e.stores
  | .ret v => optStores v
  | .pass | .brk | .cont => []
  | .raise e => optStores e
  | .ite c b o => c.stores ++ Stmt.assignedL b ++ Stmt.assignedL o
  | .while c b o => c.stores ++ Stmt.assignedL b ++ Stmt.assignedL o
  | .for t it b o => t.names ++ t.stores ++ it.stores ++ Stmt.assignedL b ++ Stmt.assignedL o
  | .try b hs o f => Stmt.assignedL b ++ Handler.assignedL hs ++ Stmt.assignedL o ++ Stmt.assignedL f
  | .with c t b => c.stores ++ (match t with | none => [] | some t => t.names ++ t.stores) ++ Stmt.assignedL b
  | .defn name _ _ => [name]
  | .cls name _ _ => [name]
  | .imp bound _ => bound
  | .glob _ | .nonloc _ => []
  | .opaque _ _ stores => stores
def Stmt.assignedL : List Stmt → List String
  | [] => []
  | s :: ss => s.assigned ++ Stmt.assignedL ss
def Handler.assigned : Handler → List String
  | .mk typ name body => optStores typ ++ (match name with | none => [] | some n => [n]) ++ Stmt.assignedL body
def Handler.assignedL : List Handler → List String
  | [] => []
  | h :: hs => h.assigned ++ Handler.assignedL hs
end

def optLargs : Option Expr → List String
  | none => []
  | some e => e.largs

mutual
def Stmt.largs : Stmt → List String
  | .assign ts v => Target.largsL ts ++ v.largs
  | .augassign t _ v => t.largs ++ v.largs
  | .annassign t _ v => t.largs ++ optLargs v
  | .expr e => e.largs
  | .ret v => optLargs v
  | .pass | .brk | .cont => []
  | .raise e => optLargs e
  | .ite c b o => c.largs ++ Stmt.largsL b ++ Stmt.largsL o
  | .while c b o => c.largs ++ Stmt.largsL b ++ Stmt.largsL o
  | .for t it b o => t.largs ++ it.largs ++ Stmt.largsL b ++ Stmt.largsL o
  | .try b hs o f => Stmt.largsL b ++ Handler.largsL hs ++ Stmt.largsL o ++ Stmt.largsL f
  | .with c t b => c.largs ++ (match t with | none => [] | some t => t.largs) ++ Stmt.largsL b
  | .defn _ _ _ => []
  | .cls _ _ _ => []
  | .imp _ _ => []
  | .glob _ | .nonloc _ => []
  | .opaque _ _ _ => []
def Stmt.largsL : List Stmt → List String
  | [] => []
  | s :: ss => s.largs ++ Stmt.largsL ss
def Handler.largs : Handler → List String
  | .mk typ _ body => optLargs typ ++ Stmt.largsL body
def Handler.largsL : List Handler → List String
  | [] => []
  | h :: hs => h.largs ++ Handler.largsL hs
end


structure Collected where
  used : List String
  assigned : List String
  free : List String
  params : List String
  deriving Repr

def collect (f : FunDef) : Collected :=
  let assigned := f.params.map (·.name) ++ Stmt.assignedL f.body
    ++ (f.defaults.flatMap Expr.stores) ++ optStores f.returns
  let used0 := (f.defaults.flatMap Expr.loads) ++ optLoads f.returns ++ Stmt.usedL f.body
  -- the function's own name (recursion) is not one of its variables unless it assigns it
  let used := if assigned.contains f.name then used0 else used0.filter (· != f.name)
  { used := used.eraseDups, assigned := assigned.eraseDups, free := f.freevars,
    params := f.params.map (·.name) ++ Stmt.largsL f.body ++ (f.defaults.flatMap Expr.largs)
      ++ optLargs f.returns }

def Collected.external (c : Collected) : List String :=
  c.used.filter fun x => !c.assigned.contains x && !c.free.contains x

def Collected.allVars (c : Collected) : List String := (c.used ++ c.assigned).eraseDups

/-- the provenance ptera records in `__ptera_info__` -/
def Collected.provenance (c : Collected) (x : String) : Option String :=
  if c.external.contains x then some "external"
  else if c.params.contains x then some "argument"
  else if c.free.contains x then some "closure"
  else if c.assigned.contains x then some "body"
  else none

end Ptera.Py
