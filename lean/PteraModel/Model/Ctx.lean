/-
  M6 (generators) — the handler context around suspended generators
  (`ptera/overlay.py` `proceed.__enter__/suspend/resume/__exit__`, `BaseOverlay.__enter__/__exit__`;
  the rewritten `yield` of `ptera/transform.py`).

  The context value is abstracted to what matters for the property: which overlays' handlers
  are installed, and inside which instrumented generator activations the running code is
  (the pending call-path state that `HandlerCollection.proceed` derives).
-/
namespace Ptera.Ctx

structure CtxVal where
  overlays : List Nat        -- overlays whose handlers are installed, in order
  inside : List Nat          -- generator activations the collection was derived through
  deriving DecidableEq, Repr, Inhabited

inductive GenPhase where
  | created                  -- generator object exists, body not started
  | suspended                -- at a yield
  | finished                 -- exhausted, closed or dropped
  deriving DecidableEq, Repr, Inhabited

structure Gen where
  phase : GenPhase := .created
  inner : CtxVal := default  -- the collection derived at first entry
  remaining : Nat            -- how many more yields the body has
  deriving Repr, Inhabited

structure State where
  current : CtxVal := { overlays := [], inside := [] }
  gens : List Gen
  deriving Repr, Inhabited

inductive Op where
  | enter (o : Nat)          -- with overlay o:
  | leave (o : Nat)          -- … block left
  | next (g : Nat)           -- next(gen) / first next
  | close (g : Nat)          -- gen.close()
  | drop (g : Nat)           -- last reference dropped (garbage collection)
  | call                     -- the driver calls the plain function the generators also call
  deriving Repr, Inhabited

/-- what is observed: for a driver call, the context it runs under; for `next`, the context the
    generator body ran under (`none` if the generator did not run) -/
inductive Out where
  | none
  | ranUnder (c : CtxVal)
  deriving DecidableEq, Repr, Inhabited

def setGen (gens : List Gen) (g : Nat) (x : Gen) : List Gen :=
  gens.mapIdx fun i y => if i = g then x else y

/-- `proceed.__enter__` … body until the next `yield` (suspend) or to the end (`__exit__`) -/
def step (s : State) : Op → State × Out
  | .enter o => ({ s with current := { s.current with overlays := s.current.overlays ++ [o] } }, .none)
  | .leave o => ({ s with current := { s.current with overlays := s.current.overlays.filter (· != o) } }, .none)
  | .call => (s, .ranUnder s.current)
  | .next g =>
    match s.gens[g]? with
    | Option.none => (s, .none)
    | some gen =>
      match gen.phase with
      | .finished => (s, .none)                      -- StopIteration, nothing runs
      | .created =>
        -- __enter__: outer := current; inner := derived; current := inner; body runs …
        let inner : CtxVal := { overlays := s.current.overlays, inside := s.current.inside ++ [g] }
        -- … then either suspends (current := outer) or finishes (__exit__: current := outer)
        let gen' : Gen := if gen.remaining = 0 then { gen with phase := .finished, inner := inner }
                          else { phase := .suspended, inner := inner, remaining := gen.remaining - 1 }
        -- the segment up to a yield calls the observed function once; the last segment does not
        ({ s with gens := setGen s.gens g gen' }, if gen.remaining = 0 then .none else .ranUnder inner)
      | .suspended =>
        -- resume: outer := current; current := inner; body runs; suspend/exit: current := outer
        let gen' : Gen := if gen.remaining = 0 then { gen with phase := .finished }
                          else { gen with remaining := gen.remaining - 1 }
        ({ s with gens := setGen s.gens g gen' }, if gen.remaining = 0 then .none else .ranUnder gen.inner)
  | .close g | .drop g =>
    match s.gens[g]? with
    | Option.none => (s, .none)
    | some gen =>
      -- GeneratorExit at the yield: the frame is not `running`, `__exit__` leaves the context alone
      ({ s with gens := setGen s.gens g { gen with phase := .finished } }, .none)

def run (s : State) : List Op → State × List Out
  | [] => (s, [])
  | op :: ops =>
    match step s op with
    | (s', o) =>
      match run s' ops with
      | (s'', os) => (s'', o :: os)

def trace (s : State) : List Op → List (State × Out)
  | [] => []
  | op :: ops =>
    match step s op with
    | (s', o) => (s', o) :: trace s' ops

end Ptera.Ctx
