/-
  M5 — life-cycle bookkeeping (`ptera/probe.py` `Probe._enter/_exit`, giving's
  `SourceProxy.__enter__/__exit__`; `ptera/overlay.py` `autotool`, `_tooler`, `_untooler`,
  `BaseOverlay.__enter__/__exit__`; `ptera/transform.py` `StackedTransforms.push/pop/get`,
  `SyncedStackedTransforms._apply`).

  A probe names, for some functions, the capture elements it instruments there.  The code
  installed on a function is a function of its counters (`get()` is recomputed by `_apply`
  after every push/pop), so it is derived, not stored.
-/
namespace Ptera.Lifecycle

structure ProbeSpec where
  targets : List (Nat × List Nat)     -- function ↦ capture elements instrumented there
  focus : List Nat := []              -- the capture elements that fire events (carry `!`)
  refused : Bool := false             -- `verify` finds a problem (unknown variable, …)
  deriving Repr, Inhabited, DecidableEq

structure FnState where
  count : Nat := 0                    -- `instrument_count`
  caps : List Nat := []               -- `captures` (a Counter) as a multiset: one entry per push
  deriving Repr, Inhabited, DecidableEq

structure Probe where
  spec : ProbeSpec
  activated : Bool := false           -- `_activated`: set once, never cleared
  active : Bool := false              -- between `_enter` and `_exit`
  stages : List Nat := []             -- subscribed observers (ids), cleared when the stream completes
  deriving Repr, Inhabited

structure State where
  fns : List FnState
  current : List Nat := []            -- probes whose handlers are in `HandlerCollection.current`, in order
  probes : List Probe
  completed : List (Nat × Nat) := []  -- (probe, stage) pairs that received `on_completed`, in order
  deriving Repr, Inhabited

/-- `StackedTransforms.push` -/
def FnState.push (f : FnState) (caps : List Nat) : FnState :=
  { count := f.count + 1, caps := f.caps ++ caps }

/-- `StackedTransforms.pop` -/
def FnState.pop (f : FnState) (caps : List Nat) : FnState :=
  { count := f.count - 1, caps := caps.foldl List.erase f.caps }

/-- `StackedTransforms.get`: `none` = the original code object, `some S` = the variant that
    instruments exactly the capture elements in `S` (those with a positive count) -/
def FnState.installed (f : FnState) : Option (List Nat) :=
  if f.count = 0 then none else some f.caps.eraseDups

def modifyNth {α} (l : List α) (i : Nat) (g : α → α) : List α :=
  l.mapIdx fun j x => if j = i then g x else x

def pushAll (fns : List FnState) (targets : List (Nat × List Nat)) : List FnState :=
  targets.foldl (fun fns (f, caps) => modifyNth fns f (·.push caps)) fns

def popAll (fns : List FnState) (targets : List (Nat × List Nat)) : List FnState :=
  targets.foldl (fun fns (f, caps) => modifyNth fns f (·.pop caps)) fns

inductive Op where
  | activate (p : Nat)       -- `__enter__` / `activate()`
  | deactivate (p : Nat)     -- `__exit__` (normally or by exception) / `deactivate()`
  | attach (p stage : Nat)   -- subscribe one more pipeline stage
  | call (f : Nat)           -- call function f (its body binds `body f` in order)
  deriving Repr, Inhabited

inductive Out where
  | ok
  | refusedTwice             -- "An instance of Probe can only be entered once"
  | refusedSelector          -- SelectorError from `verify`, nothing changed
  | notActive                -- deactivate of a probe that is not active (outside every history considered)
  | events (evs : List (Nat × Nat × List Nat))   -- (probe, variable, stages that received it)
  deriving Repr, Inhabited

/-- `Probe._enter` -/
def activate (s : State) (p : Nat) : State × Out :=
  match s.probes[p]? with
  | none => (s, .notActive)
  | some pr =>
    if pr.activated then (s, .refusedTwice)
    else if pr.spec.refused then
      -- autotool: push everything, verify raises, undo the pushes: net effect none
      ({ s with fns := popAll (pushAll s.fns pr.spec.targets) pr.spec.targets.reverse }, .refusedSelector)
    else
      ({ s with fns := pushAll s.fns pr.spec.targets,
                current := s.current ++ [p],
                probes := modifyNth s.probes p fun pr => { pr with activated := true, active := true } }, .ok)

/-- `SourceProxy.__exit__` then `Probe._exit` -/
def deactivate (s : State) (p : Nat) : State × Out :=
  match s.probes[p]? with
  | none => (s, .notActive)
  | some pr =>
    if !pr.active then
      -- refused (`global_probes.remove` raises) — but the stream's `__exit__` has run first: stages attached
      -- since the stream completed are completed now
      ({ s with completed := s.completed ++ pr.stages.map fun st => (p, st),
                probes := modifyNth s.probes p fun pr => { pr with stages := [] } }, .notActive)
    else
      ({ s with fns := popAll s.fns pr.spec.targets,
                current := s.current.filter (· != p),
                completed := s.completed ++ pr.stages.map fun st => (p, st),
                probes := modifyNth s.probes p fun pr => { pr with active := false, stages := [] } }, .ok)

def attach (s : State) (p stage : Nat) : State × Out :=
  ({ s with probes := modifyNth s.probes p fun pr => { pr with stages := pr.stages ++ [stage] } }, .ok)

/-- what a call of `f` delivers: for each variable bound by the body, in order, to each installed
    handler (in order) for each of its capture elements on that variable (`varOf` maps a capture
    element to the variable it names) — provided the installed code instruments that element -/
def callEvents (body : Nat → List Nat) (varOf : Nat → Nat) (s : State) (f : Nat) :
    List (Nat × Nat × List Nat) :=
  match (s.fns[f]?.map (·.installed)).getD none with
  | none => []
  | some inst =>
    (body f).flatMap fun v =>
      s.current.flatMap fun p =>
        match s.probes[p]? with
        | some pr =>
          (pr.spec.targets.flatMap fun (g, caps) =>
            if g == f then caps.filter (fun c => varOf c == v && inst.contains c && pr.spec.focus.contains c)
            else []).map
              fun _ => (p, v, pr.stages)
        | none => []

def step (body : Nat → List Nat) (varOf : Nat → Nat) (s : State) : Op → State × Out
  | .activate p => activate s p
  | .deactivate p => deactivate s p
  | .attach p st => attach s p st
  | .call f => (s, .events (callEvents body varOf s f))

def run (body : Nat → List Nat) (varOf : Nat → Nat) (s : State) : List Op → State × List Out
  | [] => (s, [])
  | op :: ops =>
    match step body varOf s op with
    | (s', o) =>
      match run body varOf s' ops with
      | (s'', os) => (s'', o :: os)

/-- all intermediate states, for the correspondence check -/
def trace (body : Nat → List Nat) (varOf : Nat → Nat) (s : State) : List Op → List (State × Out)
  | [] => []
  | op :: ops =>
    match step body varOf s op with
    | (s', o) => (s', o) :: trace body varOf s' ops

end Ptera.Lifecycle
