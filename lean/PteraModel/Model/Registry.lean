/-
  M7 — the code registry seen through ptera (`codefind.code_registry`: `currcodes`, `backcodes`,
  `update_cache_entry`, `find_code`, `get_functions`; `ptera/selector.py` `dict_resolver` slash
  branch; `ptera/transform.py` `transform` (registration of the original code under its qualified
  path), `TransformSet` (variant and base function objects are marked `__ptera_discard__`),
  `SyncedStackedTransforms._apply`).  codefind itself is external: modelled, validated by
  correspondence.

  Functions are numbered; function `f` lives at path `f` (its reference string).  Code objects:
  the original code of `f`, or the variant of `f` for a capture set.
-/
namespace Ptera.Registry

inductive Code where
  | orig (f : Nat)
  | variant (f : Nat) (caps : List Nat)
  deriving DecidableEq, Repr, Inhabited

def Code.owner : Code → Nat
  | .orig f => f
  | .variant f _ => f

structure State where
  installed : List Code                 -- `fn.__code__` of every function
  curr : List (Option Code)             -- `currcodes[path]`, path = function number
  back : List (Code × Nat)              -- `backcodes`: (code, path) pairs, a code may have several
  deriving Repr, Inhabited

def backOf (back : List (Code × Nat)) (c : Code) : List Nat :=
  (back.filter (·.1 == c)).map (·.2)

def backAdd (back : List (Code × Nat)) (c : Code) (ps : List Nat) : List (Code × Nat) :=
  back ++ ps.map fun p => (c, p)

def setNth {α} (l : List α) (i : Nat) (x : α) : List α := l.mapIdx fun j y => if j = i then x else y

/-- `_setcodepaths(paths, code)` -/
def setCodePaths (s : State) (paths : List Nat) (c : Code) : State :=
  { s with curr := paths.foldl (fun cur p => setNth cur p (some c)) s.curr, back := backAdd s.back c paths }

/-- `update_cache_entry(fn, old, new)` followed by `fn.__code__ = new` (in `_apply`) -/
def applyCode (s : State) (f : Nat) (new : Code) : State :=
  match s.installed[f]? with
  | none => s
  | some old =>
    let s1 := setCodePaths s (backOf s.back old) new
    { s1 with installed := setNth s1.installed f new }

/-- `transform()` registers the ORIGINAL code of the function under its qualified path -/
def registerOrig (s : State) (f : Nat) : State := setCodePaths s [f] (.orig f)

inductive Resolved where
  | ok (f : Nat)
  | notFound
  | ambiguous (n : Nat)
  deriving DecidableEq, Repr, Inhabited

/-- `dict_resolver` on `/module/path`: `find_code`, then the functions that have that code and are
    not marked `__ptera_discard__` (only target functions are not) -/
def resolve (s : State) (p : Nat) : Resolved :=
  match s.curr[p]? with
  | some (some c) =>
    match (List.range s.installed.length).filter fun f => s.installed[f]? == some c with
    | [f] => .ok f
    | [] => .notFound
    | fs => .ambiguous fs.length
  | _ => .notFound

inductive Op where
  /-- a probe on `f` becomes active / inactive or the set of captured variables changes: the variant
      for `caps` is (re)compiled if `fresh` (then `transform` runs and registers the original code)
      and installed; `caps = none` puts the original code back -/
  | install (f : Nat) (caps : Option (List Nat)) (fresh : Bool)
  | resolve (f : Nat)
  deriving Repr, Inhabited

def step (s : State) : Op → State × Option Resolved
  | .install f caps fresh =>
    let s := if fresh then registerOrig s f else s
    let new := match caps with | none => Code.orig f | some cs => Code.variant f cs
    (applyCode s f new, none)
  | .resolve f => (s, some (resolve s f))

def run (s : State) : List Op → State × List (Option Resolved)
  | [] => (s, [])
  | op :: ops =>
    match step s op with
    | (s', o) =>
      match run s' ops with
      | (s'', os) => (s'', o :: os)

/-- after import: every function is on its original code, registered under its own path -/
def init (n : Nat) : State :=
  { installed := (List.range n).map Code.orig,
    curr := (List.range n).map fun f => some (Code.orig f),
    back := (List.range n).map fun f => (Code.orig f, f) }

end Ptera.Registry
