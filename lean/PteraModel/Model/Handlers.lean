/-
  M3 — the matching runtime (`ptera/overlay.py`: `fits_selector`, `HandlerCollection.proceed`,
  `proceed.__enter__/__exit__`; `ptera/interpret.py`: `Interactor`, `WorkingFrame`, `Capture`,
  `BaseAccumulator`, `Immediate`, `Total`; `ptera/selector.py`: `check_element`,
  `Selector.check_captures`; `ptera/tags.py`: `match_tag`).

  Accumulators live in an explicit heap (they are shared and mutated by nested activations);
  user callbacks are identified by the handler's index and what they are called with is the
  observable output (`Event`).
-/
namespace Ptera.Handlers

/-- a bound value: `v` is what `==` compares, `oid` is the object identity (`is`) -/
structure Val where
  v : Int
  oid : Nat := 0
  deriving DecidableEq, Repr, Inhabited

/-- an annotation as the runtime sees it -/
inductive Cat where
  | none                       -- no annotation (`None` passed to interact)
  | tags (ts : List String)    -- a Tag (one member) or a TagSet
  | other                      -- any other object (ABSENT, int, …)
  deriving DecidableEq, Repr, Inhabited

/-- `ptera.tags.match_tag` -/
def matchTag (toMatch : Option String) (tg : Cat) : Bool :=
  match toMatch, tg with
  | Option.none, _ => true
  | some _, .none => false
  | some t, .tags ts => ts.contains t
  | some _, .other => false

/-- value conditions -/
inductive Pred where
  | every (n start : Int) (stop : Option Int)
  | between (a b : Int)
  | lt (a : Int) | gt (a : Int) | lte (a : Int) | gte (a : Int)
  deriving DecidableEq, Repr, Inhabited

def Pred.holds : Pred → Int → Bool
  | .every n s e, v => decide (s ≤ v) && (match e with | Option.none => true | some e => decide (v < e)) &&
      (n != 0 && Int.fmod (v - s) n == 0)
  | .between a b, v => decide (a ≤ v) && decide (v < b)
  | .lt a, v => decide (v < a)
  | .gt a, v => decide (v > a)
  | .lte a, v => decide (v ≤ a)
  | .gte a, v => decide (v ≥ a)

inductive Cond where
  | eq (v : Val)          -- `x=V` : `==`
  | is_ (v : Val)         -- receiver constraint of a bound method (`_Receiver`): identity
  | pred (p : Pred)       -- `x~p`
  deriving DecidableEq, Repr, Inhabited

def Cond.holds : Cond → Val → Bool
  | .eq w, v => w.v == v.v
  | .is_ w, v => w.oid == v.oid
  | .pred p, v => p.holds v.v

/-- a capture element of a resolved selector -/
structure El where
  name : Option String
  category : Option String := Option.none
  capture : String
  focus : Bool := false      -- 1 ∈ tags
  tag2 : Bool := false       -- 2 ∈ tags
  value : Option Cond := Option.none
  deriving DecidableEq, Repr, Inhabited

def El.hasTags (e : El) : Bool := e.focus || e.tag2

/-- `check_element` -/
def checkElement (name : Option String) (category : Option String) (varname : String) (cat : Cat) : Bool :=
  (match name with | Option.none => true | some n => n == varname) && matchTag category cat

def El.check (e : El) (varname : String) (cat : Cat) : Bool := checkElement e.name e.category varname cat

/-- a resolved `Call` -/
inductive Sel where
  | mk (fn : Option Nat) (fcat : Option String) (captures : List El) (children : List Sel) (immediate : Bool)
  deriving Repr, Inhabited

def Sel.fn : Sel → Option Nat | .mk f _ _ _ _ => f
def Sel.fcat : Sel → Option String | .mk _ c _ _ _ => c
def Sel.captures : Sel → List El | .mk _ _ c _ _ => c
def Sel.children : Sel → List Sel | .mk _ _ _ c _ => c
def Sel.immediate : Sel → Bool | .mk _ _ _ _ i => i

/-- first character test, kernel-reducible (`str.startswith` with a one-character prefix) -/
def startsWithChar (s : String) (c : Char) : Bool :=
  match s.toList with
  | c' :: _ => c' == c
  | [] => false

mutual
def Sel.focus : Sel → Bool
  | .mk _ _ caps ch _ => caps.any (·.focus) || focusList ch
def focusList : List Sel → Bool
  | [] => false
  | s :: rest => s.focus || focusList rest
end

mutual
def Sel.allValues : Sel → List El
  | .mk _ _ caps ch _ => caps.filter (·.value.isSome) ++ allValuesList ch
def allValuesList : List Sel → List El
  | [] => []
  | s :: rest => s.allValues ++ allValuesList rest
end

mutual
def Sel.allCaptures : Sel → List String
  | .mk _ _ caps ch _ => (caps.filter (fun e => !startsWithChar e.capture '/')).map (·.capture) ++ allCapturesList ch
def allCapturesList : List Sel → List String
  | [] => []
  | s :: rest => s.allCaptures ++ allCapturesList rest
end

/-- what the runtime knows about a function: its variable table and return annotation -/
structure FnInfo where
  vars : List (String × Cat)
  ret : Cat := .none
  deriving Repr, Inhabited

def FnInfo.hasVar (f : FnInfo) (n : String) : Bool := f.vars.any (·.1 == n)

/-- `name.split(".")[0]` -/
def baseName (n : String) : String := String.ofList (n.toList.takeWhile (· != '.'))

/-- `fits_selector`: `none` = False, `some capmap` = list of (element, variable names) -/
def fitsSelector (fnId : Nat) (info : FnInfo) (sel : Sel) : Option (List (El × List String)) :=
  let fnOk := (match sel.fn with | Option.none => true | some f => f == fnId) && matchTag sel.fcat info.ret
  if !fnOk then Option.none else
  let rec go (caps : List El) (acc : List (El × List String)) : Option (List (El × List String)) :=
    match caps with
    | [] => some acc.reverse
    | cap :: rest =>
      match cap.name with
      | Option.none =>
        let names := (info.vars.filter fun (v, ann) => cap.check v ann).map (·.1)
        if names.isEmpty then Option.none
        else go rest (if acc.any (·.1 == cap) then acc else (cap, names) :: acc)
      | some n =>
        if !startsWithChar n '#' && !info.hasVar (baseName n) then Option.none
        else go rest (if acc.any (·.1 == cap) then acc else (cap, [n]) :: acc)
  go sel.captures []

/-! accumulators -/

inductive Kind where
  | immediate | total
  deriving DecidableEq, Repr, Inhabited

/-- `Capture`: names and values, index-aligned -/
structure Capture where
  names : List String := []
  values : List Val := []
  deriving DecidableEq, Repr, Inhabited

/-- how a user override function answers, as data -/
inductive Override where
  | const (v : Int)                       -- lambda _: v
  | addTo (cap : String) (k : Int)        -- value of capture `cap` (must be present, single) + k, else declines
  | ifEq (cap : String) (v : Int) (res : Int)  -- res if capture `cap` currently == v, else declines (ABSENT)
  deriving DecidableEq, Repr, Inhabited

/-- a user handler (an `Immediate` or `Total` created by the user, i.e. a template accumulator) -/
structure Handler where
  kind : Kind
  sel : Sel
  hasTrigger : Bool := false
  intercept : Option Override := Option.none
  hasClose : Bool := false
  deriving Repr, Inhabited

structure Acc where
  handler : Nat                 -- index of the user handler
  leafOf : Option El := Option.none    -- `some e` when this accumulator's selector is the element `e`
  parent : Option Nat := Option.none
  template : Bool := false
  captures : List (String × Capture) := []     -- insertion-ordered dict
  children : List Nat := []
  deriving Repr, Inhabited

abbrev Heap := Array Acc

abbrev Snapshot := List (String × Capture)

inductive Event where
  | trigger (handler : Nat) (args : Snapshot)
  | intercept (handler : Nat) (args : Snapshot) (reply : Option Int)
  | close (handler : Nat) (args : Snapshot)
  deriving Repr, Inhabited

inductive RErr where
  | overrideException (varname : String)
  | pteraNameError (varname : String)
  | badHeap                       -- dangling accumulator index (never happens)
  | userRaise                     -- the activation's own code raised
  deriving DecidableEq, Repr, Inhabited

def dictSet (d : List (String × Capture)) (k : String) (c : Capture) : List (String × Capture) :=
  if d.any (·.1 == k) then d.map fun (k', c') => if k' == k then (k', c) else (k', c')
  else d ++ [(k, c)]

def dictGet (d : List (String × Capture)) (k : String) : Option Capture :=
  (d.find? (·.1 == k)).map (·.2)

def dictDel (d : List (String × Capture)) (k : String) : List (String × Capture) :=
  d.filter (·.1 != k)

/-- `dict.update` : later keys overwrite, order of first insertion kept -/
def dictUpdate (d e : List (String × Capture)) : List (String × Capture) :=
  e.foldl (fun acc (k, c) => dictSet acc k c) d

/-- `BaseAccumulator.build` (fuel = heap size bounds the parent chain) -/
def build (heap : Heap) : Nat → Nat → Snapshot
  | 0, _ => []
  | fuel + 1, a =>
    match heap[a]? with
    | Option.none => []
    | some acc =>
      match acc.parent with
      | Option.none => acc.captures
      | some p => dictUpdate acc.captures (build heap fuel p)

def buildOf (heap : Heap) (a : Nat) : Snapshot := build heap (heap.size + 1) a

/-- `Selector.check_captures` -/
def checkCaptures (sel : Sel) (args : Snapshot) : Bool :=
  sel.allValues.all fun el =>
    match el.value, dictGet args el.capture with
    | some cond, some cap => cap.values.all cond.holds
    | _, _ => true

mutual
def Sel.hasval : Sel → Bool
  | .mk _ _ caps ch _ => caps.any (·.value.isSome) || hasvalList ch
def hasvalList : List Sel → Bool
  | [] => false
  | s :: rest => s.hasval || hasvalList rest
end

/-- the `__check` wrapper: the user callback runs only if the captured values satisfy the conditions -/
def passes (h : Handler) (args : Snapshot) : Bool :=
  !h.sel.hasval || checkCaptures h.sel args

def Override.answer (o : Override) (args : Snapshot) : Option Int :=
  match o with
  | .const v => some v
  | .addTo cap k =>
    match dictGet args cap with
    | some { values := [x], .. } => some (x.v + k)
    | _ => Option.none
  | .ifEq cap v res =>
    match dictGet args cap with
    | some { values := [x], .. } => if x.v == v then some res else Option.none
    | _ => Option.none

/-- `BaseAccumulator.fork` -/
def fork (heap : Heap) (a : Nat) (leaf : Option El) : Heap × Nat :=
  match heap[a]? with
  | Option.none => (heap, a)
  | some acc =>
    let parent := if acc.template then Option.none else some a
    let newId := heap.size
    let heap := heap.push { handler := acc.handler, leafOf := (match leaf with | some e => some e | Option.none => acc.leafOf),
                            parent := parent, template := false }
    -- `Total.__init__`: a non-root accumulator registers itself in its parent's children
    let heap := match parent with
      | some p => heap.modify p fun pa => { pa with children := pa.children ++ [newId] }
      | Option.none => heap
    (heap, newId)

/-- the per-activation `Interactor` -/
structure Interactor where
  fn : Nat
  accs : List (String × List (El × Nat)) := []    -- defaultdict(list), registration order
  toClose : List Nat := []
  deriving Repr, Inhabited

def Interactor.add (it : Interactor) (v : String) (e : El) (a : Nat) : Interactor :=
  if it.accs.any (·.1 == v) then
    { it with accs := it.accs.map fun (k, l) => if k == v then (k, l ++ [(e, a)]) else (k, l) }
  else { it with accs := it.accs ++ [(v, [(e, a)])] }

/-- `acc.close` is truthy: only `Total` accumulators are closed at exit -/
def canCloseAcc (handlers : Array Handler) (heap : Heap) (a : Nat) : Bool :=
  match heap[a]? with
  | some acc => (match handlers[acc.handler]? with | some h => h.kind == .total | Option.none => false)
  | Option.none => false

/-- the registration part of `Interactor.register` -/
def Interactor.addAll (it : Interactor) (a : Nat) (capmap : List (El × List String)) : Interactor :=
  capmap.foldl (fun it (p : El × List String) => p.2.foldl (fun it v => it.add v p.1 a) it) it

/-- `Interactor.register` -/
def Interactor.register (it : Interactor) (handlers : Array Handler) (heap : Heap) (a : Nat)
    (capmap : List (El × List String)) (closeAtExit : Bool) : Interactor :=
  if closeAtExit && canCloseAcc handlers heap a then
    { it.addAll a capmap with toClose := (it.addAll a capmap).toClose ++ [a] }
  else it.addAll a capmap

abbrev Coll := List (Sel × Nat)

/-- the body of the loop of `HandlerCollection.proceed` for one pending pair -/
def proceedStep (handlers : Array Handler) (info : FnInfo) (fnId : Nat)
    (st : Interactor × Coll × Heap) (pair : Sel × Nat) : Interactor × Coll × Heap :=
  let keep : Coll := if !pair.1.immediate then [pair] else []
  match fitsSelector fnId info pair.1 with
  | Option.none => (st.1, st.2.1 ++ keep, st.2.2)
  | some capmap =>
    let isTemplate := (st.2.2[pair.2]?.map (·.template)).getD false
    let fk := if pair.1.focus || isTemplate then fork st.2.2 pair.2 Option.none else (st.2.2, pair.2)
    let it := st.1.register handlers fk.1 fk.2 capmap isTemplate
    (it, st.2.1 ++ keep ++ pair.1.children.map (fun c => (c, fk.2)), fk.1)

/-- `HandlerCollection.proceed` -/
def proceedEnter (handlers : Array Handler) (infos : Array FnInfo) (fnId : Nat) (coll : Coll) (heap : Heap) :
    Interactor × Coll × Heap :=
  coll.foldl (proceedStep handlers (infos.getD fnId default) fnId) ({ fn := fnId }, [], heap)

def setCapture (heap : Heap) (a : Nat) (k : String) (c : Capture) : Heap :=
  heap.modify a fun acc => { acc with captures := dictSet acc.captures k c }

/-- `Immediate.log` (`set`) / `Total.log` (`accum`) -/
def logValue (handlers : Array Handler) (heap : Heap) (a : Nat) (e : El) (varname : String) (v : Val) : Heap :=
  match heap[a]? with
  | Option.none => heap
  | some acc =>
    let kind := (handlers[acc.handler]?.map (·.kind)).getD .immediate
    let old := (dictGet acc.captures e.capture).getD {}
    let cap : Capture := match kind with
      | .immediate => { names := [varname], values := [v] }
      | .total => { names := old.names ++ [varname], values := old.values ++ [v] }
    setCapture heap a e.capture cap

/-- the working set of `WorkingFrame.__init__`: filter by `check_element`, then `accumulator_for` -/
def workingSet (handlers : Array Handler) (heap : Heap) (it : Interactor) (varname : String) (cat : Cat) :
    Heap × List (El × Nat) :=
  let regs := ((it.accs.find? (·.1 == varname)).map (·.2)).getD []
  regs.foldl (fun (st : Heap × List (El × Nat)) (p : El × Nat) =>
    let (heap, ws) := st
    let (e, a) := p
    if !e.check varname cat then (heap, ws) else
    let kind := ((heap[a]?.bind fun acc => handlers[acc.handler]?).map (·.kind)).getD .immediate
    if kind == .total && e.focus then
      let (heap, a') := fork heap a (some e)
      (heap, ws ++ [(e, a')])
    else (heap, ws ++ [(e, a)])) (heap, [])

/-- one iteration of `WorkingFrame.intercept`: state = (heap, events, reply so far) -/
def interceptStep (handlers : Array Handler) (varname : String) (value : Option Val)
    (st : Heap × List Event × Option Int) (p : El × Nat) : Heap × List Event × Option Int :=
  match st, p with
  | (heap, evs, reply), (e, a) =>
    match heap[a]? with
    | Option.none => (heap, evs, reply)
    | some acc =>
      match handlers[acc.handler]? with
      | Option.none => (heap, evs, reply)
      | some h =>
        match h.intercept with
        | Option.none => (heap, evs, reply)
        | some ov =>
          if !e.hasTags then (heap, evs, reply) else
          -- tentative capture, snapshot, call, delete
          match setCapture heap a e.capture
              { names := [varname], values := (match value with | some v => [v] | Option.none => []) } with
          | heap1 =>
            match buildOf heap1 a with
            | args =>
              -- the `__check` wrapper: the user function runs only if the conditions hold
              match (if passes h args then some (ov.answer args) else Option.none) with
              | Option.none =>
                (heap1.modify a fun acc => { acc with captures := dictDel acc.captures e.capture }, evs, reply)
              | some ans =>
                (heap1.modify a fun acc => { acc with captures := dictDel acc.captures e.capture },
                 evs ++ [Event.intercept acc.handler args ans],
                 match ans with | some r => some r | Option.none => reply)

/-- `WorkingFrame.intercept`: the last answer that is not ABSENT wins -/
def interceptAll (handlers : Array Handler) (heap : Heap) (ws : List (El × Nat)) (varname : String)
    (value : Option Val) : Heap × List Event × Option Int :=
  ws.foldl (interceptStep handlers varname value) (heap, [], Option.none)

/-- what `interact` stores and returns, given the original value and the overriding reply -/
def finalValue (varname : String) (value : Option Val) (reply : Option Int) (overridable : Bool) :
    Except RErr Val :=
  match reply, overridable with
  | some _, false => .error (.overrideException varname)
  | some r, true => .ok { v := r, oid := 0 }
  | Option.none, _ =>
    match value with
    | some v => .ok v
    | Option.none => .error (.pteraNameError varname)

def logAll (handlers : Array Handler) (heap : Heap) (ws : List (El × Nat)) (varname : String) (v : Val) : Heap :=
  ws.foldl (fun heap (p : El × Nat) => logValue handlers heap p.2 p.1 varname v) heap

def triggerAll (handlers : Array Handler) (heap : Heap) (ws : List (El × Nat)) : List Event :=
  ws.foldl (fun evs (p : El × Nat) =>
    match heap[p.2]? with
    | Option.none => evs
    | some acc =>
      match handlers[acc.handler]? with
      | some h =>
        if p.1.hasTags && h.hasTrigger then
          if passes h (buildOf heap p.2) then evs ++ [Event.trigger acc.handler (buildOf heap p.2)] else evs
        else evs
      | Option.none => evs) []

/-- `Interactor.interact` -/
def interact (handlers : Array Handler) (heap : Heap) (it : Interactor)
    (varname : String) (cat : Cat) (value : Option Val) (overridable : Bool) :
    Heap × List Event × Except RErr Val :=
  match workingSet handlers heap it varname cat with
  | (heap1, ws) =>
    match interceptAll handlers heap1 ws varname value with
    | (heap2, evs, reply) =>
      match finalValue varname value reply overridable with
      | .error e => (heap2, evs, .error e)
      | .ok v =>
        match logAll handlers heap2 ws varname v with
        | heap3 => (heap3, evs ++ triggerAll handlers heap3 ws, .ok v)

/-- `Total.leaves` (fuel bounds the depth) -/
def leaves (heap : Heap) : Nat → Nat → List Nat
  | 0, _ => []
  | fuel + 1, a =>
    match heap[a]? with
    | Option.none => []
    | some acc =>
      if acc.leafOf.isSome then [a]
      else acc.children.flatMap (leaves heap fuel)

/-- `Total.close` -/
def closeAcc (handlers : Array Handler) (heap : Heap) (a : Nat) : List Event :=
  match heap[a]? with
  | Option.none => []
  | some acc =>
    if acc.parent.isSome then [] else
    match handlers[acc.handler]? with
    | Option.none => []
    | some h =>
      let ls := leaves heap (heap.size + 1) a
      let ls := if ls.isEmpty then [a] else ls
      let names := h.sel.allCaptures
      ls.foldl (fun evs l =>
        let args := buildOf heap l
        let keys := args.map (·.1)
        if keys.all names.contains && names.all keys.contains then
          if h.hasClose && passes h args then evs ++ [Event.close acc.handler args] else evs
        else evs) []

/-! activation trees -/

/-- one `interact` call made by the rewritten code of an activation -/
structure BindItem where
  name : String
  cat : Cat := .none
  value : Option Val       -- `none` = the ABSENT marker (declaration without a value)
  overridable : Bool := true
  deriving Repr, Inhabited

/-- what an activation does, in order: bind a variable, or call another instrumented function -/
inductive Tr where
  | node (fn : Nat) (items : List (BindItem ⊕ Tr))
  deriving Inhabited

/-- run one activation: enter (`proceed.__enter__`), the items in order, exit (`Interactor.exit`).
    A runtime error (OverrideException / PteraNameError) propagates out of every enclosing
    activation, each of which still runs its exit (the `with` block). -/
def runTr (handlers : Array Handler) (infos : Array FnInfo) (coll : Coll) (heap : Heap) :
    Tr → Heap × List Event × Option RErr
  | .node fn items =>
    let (it, inner, heap) := proceedEnter handlers infos fn coll heap
    let rec go (items : List (BindItem ⊕ Tr)) (heap : Heap) (evs : List Event) :
        Heap × List Event × Option RErr :=
      match items with
      | [] => (heap, evs, Option.none)
      | .inl b :: rest =>
        if b.name == "!raise" then (heap, evs, some .userRaise) else
        let (heap, es, r) := interact handlers heap it b.name b.cat b.value b.overridable
        match r with
        | .ok _ => go rest heap (evs ++ es)
        | .error e => (heap, evs ++ es, some e)
      | .inr t :: rest =>
        let (heap, es, r) := runTr handlers infos inner heap t
        match r with
        | Option.none => go rest heap (evs ++ es)
        | some e => (heap, evs ++ es, some e)
    let (heap, evs, r) := go items heap []
    let closes := it.toClose.flatMap (closeAcc handlers heap)
    (heap, evs ++ closes, r)

/-- a whole run: the overlay's handlers are installed as template accumulators, then the tree runs -/
def runAll (handlers : Array Handler) (infos : Array FnInfo) (trees : List Tr) : List Event × Option RErr :=
  let heap : Heap := (handlers.mapIdx fun i _ => ({ handler := i, template := true } : Acc))
  let coll : Coll := (handlers.toList.zipIdx).map fun (h, i) => (h.sel, i)
  let rec go (trees : List Tr) (heap : Heap) (evs : List Event) : List Event × Option RErr :=
    match trees with
    | [] => (evs, Option.none)
    | t :: rest =>
      let (heap, es, r) := runTr handlers infos coll heap t
      match r with
      | Option.none => go rest heap (evs ++ es)
      | some e => (evs ++ es, some e)
  go trees heap []

end Ptera.Handlers
