/-
  M1b — the operator-precedence parser (`ptera/opparse.py`: `OperatorPrecedenceTower`,
  `Parser.process`, `Parser.finalize`, `ASTNode`).

  The operator table is a parameter; property theorems instantiate it with
  `Ptera.Generated.Tables.operators`, regenerated from the source on every run.
-/
import PteraModel.Model.Lex
namespace Ptera.Parse
open Ptera.Lex

/-- key ↦ (right_prio, left_prio) -/
abbrev Table := List (String × Int × Int)

def Table.find? (tbl : Table) (k : String) : Option (Int × Int) :=
  match tbl with
  | [] => none
  | (k', p) :: rest => if k' == k then some p else Table.find? rest k

/-- parse tree: a token, or an `ASTNode` whose parts are
    `[first, op₁, arg₁, …, opₙ, argₙ]` -/
inductive PTree where
  | tok (t : Token)
  | node (first : Option PTree) (rest : List (Token × Option PTree))
  deriving Repr, Inhabited

inductive KeyPart where
  | X | U
  | op (s : String)
  deriving DecidableEq, Repr

def argPart : Option PTree → KeyPart
  | none => .U
  | some _ => .X

/-- `ASTNode.key`, kept structured (the Python string is these parts joined by one space) -/
def keyOf (first : Option PTree) (rest : List (Token × Option PTree)) : List KeyPart :=
  argPart first :: rest.flatMap fun (o, a) => [KeyPart.op o.value, argPart a]

def KeyPart.render : KeyPart → String
  | .X => "X" | .U => "_" | .op s => s

def renderKey (k : List KeyPart) : String := " ".intercalate (k.map KeyPart.render)

inductive PErr where
  /-- `SyntaxError` raised by `resolve` ("Invalid token"), with `err.offset` -/
  | invalidToken (offset : Nat)
  /-- `stack.pop()` on an empty stack — an internal error (`IndexError`) -/
  | index
  /-- the model ran out of fuel (never happens: theorem `process_fuel_suffices`) -/
  | fuel
  deriving DecidableEq, Repr

/-- `OperatorPrecedenceTower.resolve` for a real token -/
def resolve (tbl : Table) (op : Token) : Except PErr (Int × Int) :=
  match tbl.find? op.value with
  | some p => .ok p
  | none =>
    match tbl.find? (": " ++ op.type.pyName) with
    | some p => .ok p
    | none => .error (.invalidToken (op.start + 1))

inductive Order where
  | done | opn | cls | mrg
  deriving DecidableEq, Repr

/-- `OperatorPrecedenceTower.__call__` (`None` has priorities `-inf`) -/
def order (tbl : Table) (left right : Option Token) : Except PErr Order :=
  match left, right with
  | none, none => .ok .done
  | none, some r => do let _ ← resolve tbl r; pure .opn
  | some l, none => do let _ ← resolve tbl l; pure .cls
  | some l, some r => do
    let (_, lprio) ← resolve tbl l
    let (rprio, _) ← resolve tbl r
    pure (if rprio > lprio then .opn else if rprio < lprio then .cls else .mrg)

/-- a handle under construction: the Python list `[first, op₁, a₁, …, op_k]`
    (`mids` holds `(opᵢ, aᵢ)` for `i < k`, most recent first; `lastOp = op_k`,
    `none` only for the bottom sentinel `[None, None]`) -/
structure Handle where
  first : Option PTree
  mids : List (Token × Option PTree)
  lastOp : Option Token
  deriving Inhabited

/-- `Parser.finalize` of `current + [middle]` -/
def finalize (h : Handle) (op : Token) (middle : Option PTree) : PTree :=
  match h.first, h.mids, middle with
  | none, [], none => .tok op
  | first, mids, middle => .node first (mids.reverse ++ [(op, middle)])

structure PState where
  tokens : List Token          -- not yet read
  stack : List Handle
  current : Handle
  middle : Option PTree
  right : Option Token

def PState.init (tokens : List Token) : PState :=
  match tokens with
  | [] => { tokens := [], stack := [], current := ⟨none, [], none⟩, middle := none, right := none }
  | t :: ts => { tokens := ts, stack := [], current := ⟨none, [], none⟩, middle := none, right := some t }

def PState.next (s : PState) : Option Token × List Token :=
  match s.tokens with
  | [] => (none, [])
  | t :: ts => (some t, ts)

/-- one iteration of the `while True` loop: either the result or the next state -/
def step (tbl : Table) (s : PState) : Except PErr (Option PTree ⊕ PState) := do
  match ← order tbl s.current.lastOp s.right with
  | .done => pure (.inl s.middle)
  | .opn =>
    let (r, ts) := s.next
    pure (.inr { tokens := ts, stack := s.current :: s.stack,
                 current := ⟨s.middle, [], s.right⟩, middle := none, right := r })
  | .mrg =>
    let (r, ts) := s.next
    match s.current.lastOp with
    | some l =>
      pure (.inr { s with tokens := ts,
                          current := ⟨s.current.first, (l, s.middle) :: s.current.mids, s.right⟩,
                          middle := none, right := r })
    | none => .error .index   -- unreachable: `order` answers mrg only for two real tokens
  | .cls =>
    match s.current.lastOp, s.stack with
    | some l, h :: stack' =>
      pure (.inr { s with stack := stack', current := h,
                          middle := some (finalize s.current l s.middle) })
    | _, _ => .error .index     -- `stack.pop()` on an empty list

def run (tbl : Table) : Nat → PState → Except PErr (Option PTree)
  | 0, _ => .error .fuel
  | fuel + 1, s => do
    match ← step tbl s with
    | .inl r => pure r
    | .inr s' => run tbl fuel s'

/-- `Parser.process` -/
def process (tbl : Table) (tokens : List Token) : Except PErr (Option PTree) :=
  run tbl (2 * tokens.length + 2) (PState.init tokens)

end Ptera.Parse
