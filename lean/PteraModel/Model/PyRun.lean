import PteraModel.Model.PySem
/-!
# M2 — running a whole function: plain / reference (`runRef`) and instrumented (`runInstr`)
-/
namespace Ptera.Sem
open Ptera.Py

variable {W HS : Type}

/-- `try: x = interact('x', …, globals['x']) except PteraNameError: pass` — an instrumented global is
    read at entry and may be supplied from outside; if it is neither set nor supplied it stays unbound -/
def fetchRef (env : Env W HS) (x : String) : M W HS Unit :=
  match env.hk with
  | none => pure ()
  | some cfg =>
    if shouldInstr cfg x [] then fun st =>
      match interactSem env x .noneV (annValOpt env none) ((env.host.glob x).getD .absent) true st with
      | (.ok r, st1) => setLoc x (some r) st1
      | (.err e, st1) =>
        if isFatal e then (.err e, st1) else
        match env.host.glob nNameError with
        | some c => if env.host.isinst e c then (.ok (), st1) else (.err e, st1)
        | none => (.err (env.host.nameError nNameError), st1)
    else pure ()

def fetchRefs (env : Env W HS) : List String → M W HS Unit
  | [] => pure ()
  | x :: xs => do fetchRef env x; fetchRefs env xs

/-- a closure variable is read at entry (`try: x` or `try: interact('x', None, None, x, False)`, `except NameError:
    pass`): the handler is shown the value and may not override it; nothing is bound; a cell that is still empty
    is left alone (using the variable raises the name error where it is used, as in the original function) -/
def freeHook (env : Env W HS) (x : String) : M W HS Unit :=
  match env.hk with
  | none => pure ()
  | some cfg => fun st =>
    match (lookup env x >>= fun v =>
        if shouldInstr cfg x [] then interactSem env x .noneV (annValOpt env none) v false else pure v) st with
    | (.ok _, st1) => (.ok (), st1)
    | (.err e, st1) =>
      if isFatal e then (.err e, st1) else
      match env.host.glob nPyNameError with
      | some c => if env.host.isinst e c then (.ok (), st1) else (.err e, st1)
      | none => (.err (env.host.nameError nPyNameError), st1)

def freeHooks (env : Env W HS) : List String → M W HS Unit
  | [] => pure ()
  | x :: xs => do freeHook env x; freeHooks env xs

/-- parameters are bound by the call; the handler sees each of them in order -/
def paramHook (env : Env W HS) (p : Param) : M W HS Unit :=
  match env.hk with
  | none => pure ()
  | some _ => do
    let v ← lookup env p.name
    let r ← hook env p.name p.ann v
    setLoc p.name (some r)

def paramHooks (env : Env W HS) : List Param → M W HS Unit
  | [] => pure ()
  | p :: ps => do paramHook env p; paramHooks env ps

def bodyWithReturn (f : FunDef) : List Stmt :=
  match hoistB f.body with
  | (b, _) => if endsWithReturn b then b else b ++ [.ret none]

/-- `#error`: the handler is told, the exception goes on -/
def errorHook (env : Env W HS) (e : Val) : Exec W HS :=
  match env.hk with
  | none => done (.exc e)
  | some cfg =>
    if shouldInstr cfg "#error" [] then
      stepM (interactSem env "#error" .noneV (annValOpt env none) e false) fun _ => done (.exc e)
    else done (.exc e)

/-- the reference semantics of a call (plain Python when `env.hk = none`) -/
def runRef (env : Env W HS) (fuel : Nat) (f : FunDef) : Exec W HS :=
  let c := collect f
  let core : Exec W HS :=
    seqX (stepM (do
        hookMetas env (some enterAnn) ["#enter"]
        fetchRefs env (sortNames c.external)
        freeHooks env (sortNames c.free)
        paramHooks env f.params) fun _ => done .normal)
      (execB env fuel (bodyWithReturn f))
  match env.hk with
  | none => core
  | some cfg =>
    if !shouldInstr cfg "#error" [] && !shouldInstr cfg "#exit" ["exit"] then core
    else
      tryFinally (tryExcept core (errorHook env) (done .normal))
        (stepM (hookMetas env (some exitAnn) ["#exit"]) fun _ => done .normal)

/-- the rewritten function: the body of `with proceed(self) as frame:` -/
def runInstr (env : Env W HS) (fuel : Nat) (r : Instrumented) : Exec W HS := execB env fuel r.body

/-- the local variables at entry: the parameters, positionally -/
def initLoc (params : List String) (args : List Val) (extra : List (String × Val) := []) : String → Option Val :=
  fun x => match (params.zip args ++ extra).find? (fun p => p.1 == x) with
    | some p => some p.2
    | none => none

def isTemp (x : String) : Bool := "_ptera__".toList.isPrefixOf x.toList

/-- the names that are local in the function itself -/
def scopeOf (f : FunDef) : String → Bool := fun x => (collect f).assigned.contains x

/-- … in the reference semantics: an instrumented global is read once, at entry -/
def scopeRef (cfg : Cfg) (f : FunDef) : String → Bool := fun x =>
  (collect f).assigned.contains x || ((collect f).external.contains x && shouldInstr cfg x [])

/-- … and in the rewritten function: every global it reads, ptera's frame and temporaries -/
def scopeInstr (f : FunDef) : String → Bool := fun x =>
  (collect f).assigned.contains x || (collect f).external.contains x || x == "#error" || isTemp x

end Ptera.Sem
