/-!
# M2 — the fragment of Python's `ast` that ptera's rewriter (`PteraTransformer`) distinguishes

Everything the rewriter does not look into is an `opaque` node that carries its source text and the
names it loads / stores (that is all `ExternalVariableCollector` wants to know about it).
-/
namespace Ptera.Py

inductive Expr where
  | int (n : Int)
  | str (s : String)
  | noneLit
  | bool (b : Bool)
  | constOther (repr : String)
  | name (id : String)
  | call (f : Expr) (args : List Expr)
  | attr (v : Expr) (a : String)
  | sub (v : Expr) (i : Expr)
  | tuple (es : List Expr)
  | list (es : List Expr)
  | binop (op : String) (l r : Expr)
  | walrus (t : String) (v : Expr)
  | yield (v : Option Expr)
  /-- `__ptera_frame.interact(name, key, ann, value, overridable)` -/
  | interact (name : String) (key ann value : Expr) (ovr : Bool)
  /-- lambda, comprehension, comparison, … : not looked into by the rewriter -/
  | opaque (src : String) (loads stores args : List String)
  deriving Repr, BEq, Inhabited

inductive Target where
  | name (id : String)
  | tuple (ts : List Target)
  | list (ts : List Target)
  | starred (t : Target)
  | attr (v : Expr) (a : String)
  | sub (v : Expr) (i : Expr)
  deriving Repr, BEq, Inhabited

/-- an annotation: its expression and the tags it evaluates to (evaluated by Python's `eval`, as
    `PteraTransformer._evaluate` does; empty when it is not a `Tag`/`TagSet`) -/
structure Ann where
  expr : Expr
  tags : List String
  deriving Repr, BEq, Inhabited

mutual
inductive Stmt where
  | assign (targets : List Target) (value : Expr)
  | augassign (t : Target) (op : String) (value : Expr)
  | annassign (t : Target) (ann : Ann) (value : Option Expr)
  | expr (e : Expr)
  | ret (v : Option Expr)
  | pass
  | brk
  | cont
  | raise (e : Option Expr)
  | ite (c : Expr) (body orelse : List Stmt)
  | while (c : Expr) (body orelse : List Stmt)
  | for (t : Target) (iter : Expr) (body orelse : List Stmt)
  | try (body : List Stmt) (handlers : List Handler) (orelse final : List Stmt)
  | with (ctx : Expr) (t : Option Target) (body : List Stmt)
  /-- nested `def`: a scope of its own; `loads` are the names its decorators and defaults load -/
  | defn (name : String) (src : String) (loads : List String)
  | cls (name : String) (src : String) (loads : List String)
  /-- `import …` / `from … import …`: the names it binds, in order -/
  | imp (bound : List String) (src : String)
  | glob (names : List String)
  | nonloc (names : List String)
  | opaque (src : String) (loads stores : List String)
inductive Handler where
  | mk (typ : Option Expr) (name : Option String) (body : List Stmt)
end

instance : Inhabited Stmt := ⟨.pass⟩

structure Param where
  name : String
  ann : Option Ann
  deriving Repr, BEq, Inhabited

structure FunDef where
  name : String
  params : List Param
  /-- default values (positional and keyword-only) and the `returns` annotation: only read -/
  defaults : List Expr
  returns : Option Expr
  /-- the docstring statement, if the body starts with one -/
  doc : Option String
  body : List Stmt
  freevars : List String
  deriving Inhabited

/-- an element of a capture set: `name` (none = any variable) and `category` (none = any) -/
structure El where
  name : Option String
  cat : Option String
  deriving Repr, BEq, Inhabited

abbrev Cfg := List El

end Ptera.Py
