/-
  M1a — the selector lexer (`ptera/opparse.py` `Lexer.__call__` with the three
  regular expressions of `ptera/selector.py`).

  Characters carry two flags that say how Python classifies a NON-ASCII code
  point (`str.isspace` / `\s`, and `\w`); ASCII classification is fixed here.
  Theorems quantify over all flag assignments, so Python's Unicode tables are
  not part of the model.
-/
namespace Ptera.Lex

structure Ch where
  c : Char
  uSpace : Bool := false
  uWord : Bool := false
  deriving DecidableEq, Repr, Inhabited

def asciiSpace (c : Char) : Bool :=
  c == ' ' || (9 ≤ c.val && c.val ≤ 13) || (28 ≤ c.val && c.val ≤ 31)

def asciiWord (c : Char) : Bool :=
  c.isAlphanum || c == '_'

def Ch.isSpace (ch : Ch) : Bool :=
  if ch.c.val < 128 then asciiSpace ch.c else ch.uSpace

def Ch.isWord (ch : Ch) : Bool :=
  if ch.c.val < 128 then asciiWord ch.c else (ch.uWord && !ch.uSpace)

inductive TokType where
  | operator | word | string | unknown
  deriving DecidableEq, Repr, Inhabited

def TokType.pyName : TokType → String
  | .operator => "OPERATOR"
  | .word => "WORD"
  | .string => "STRING"
  | .unknown => "None"

structure Token where
  value : String
  type : TokType
  start : Nat
  stop : Nat
  deriving DecidableEq, Repr, Inhabited

/-- number of leading whitespace characters -/
def spanSpaces : List Ch → Nat
  | [] => 0
  | ch :: rest => if ch.isSpace then spanSpaces rest + 1 else 0

def spanBang : List Ch → Nat
  | [] => 0
  | ch :: rest => if ch.c == '!' then spanBang rest + 1 else 0

def isOpChar (c : Char) : Bool :=
  c == '(' || c == ')' || c == '{' || c == '}' || c == '[' || c == ']' || c == '>' ||
  c == ':' || c == ',' || c == '$' || c == '=' || c == '~'

/-- `(?:\bas\b|>>|!+|\[\[|\]\]|[(){}\[\]>:,$=~])` at the front of `l`;
    `prevWord` = the character before is a word character (for the first `\b`). -/
def matchAlt (prevWord : Bool) : List Ch → Option Nat
  | [] => none
  | a :: rest =>
    let asMatch : Bool :=
      match rest with
      | s :: rest' =>
        a.c == 'a' && s.c == 's' && (prevWord != a.isWord) &&
          (s.isWord != (match rest' with | [] => false | n :: _ => n.isWord))
      | [] => false
    if asMatch then some 2
    else if a.c == '>' && (match rest with | b :: _ => b.c == '>' | [] => false) then some 2
    else if a.c == '!' then some (spanBang (a :: rest))
    else if a.c == '[' && (match rest with | b :: _ => b.c == '[' | [] => false) then some 2
    else if a.c == ']' && (match rest with | b :: _ => b.c == ']' | [] => false) then some 2
    else if isOpChar a.c then some 1
    else none

/-- `\s*(?:…)\s*|\s+` matched at the start of `l` (as `re.match` does). -/
def matchOperator (l : List Ch) : Option Nat :=
  let k := spanSpaces l
  let rest := l.drop k
  let prevW := match k with
    | 0 => false
    | k' + 1 => (l.getD k' default).isWord
  match matchAlt prevW rest with
  | some a => some (k + a + spanSpaces (rest.drop a))
  | none => if k > 0 then some k else none

def isWordTokChar (c : Char) : Bool :=
  (c.val < 128 && c.isAlphanum) || c == '_' || c == '#' || c == '@' || c == '*' || c == '.' ||
  c == '/' || c == '-'

def spanWordTok : List Ch → Nat
  | [] => 0
  | ch :: rest => if isWordTokChar ch.c then spanWordTok rest + 1 else 0

def matchWord (l : List Ch) : Option Nat :=
  let n := spanWordTok l
  if n > 0 then some n else none

def spanNotQuote : List Ch → Nat
  | [] => 0
  | ch :: rest => if ch.c != '\'' then spanNotQuote rest + 1 else 0

/-- `'[^']*'` -/
def matchString : List Ch → Option Nat
  | [] => none
  | q :: rest =>
    if q.c == '\'' then
      let n := spanNotQuote rest
      match rest.drop n with
      | _ :: _ => some (n + 2)
      | [] => none
    else none

def dropWhileSpace : List Ch → List Ch
  | [] => []
  | ch :: rest => if ch.isSpace then dropWhileSpace rest else ch :: rest

/-- Python `str.strip()` -/
def strip (l : List Ch) : List Ch :=
  (dropWhileSpace (dropWhileSpace l).reverse).reverse

def chsToString (l : List Ch) : String := String.ofList (l.map (·.c))

/-- one lexing step on non-empty `code`: the token type and the match length -/
def lexStep (code : List Ch) : TokType × Nat :=
  match matchOperator code with
  | some n => (.operator, n)
  | none =>
    match matchWord code with
    | some n => (.word, n)
    | none =>
      match matchString code with
      | some n => (.string, n)
      | none => (.unknown, 1)

def lexAux : Nat → List Ch → Nat → List Token
  | 0, _, _ => []
  | _ + 1, [], _ => []
  | fuel + 1, code@(_ :: _), pos =>
    let (ty, n) := lexStep code
    { value := chsToString (strip (code.take n)), type := ty, start := pos, stop := pos + n }
      :: lexAux fuel (code.drop n) (pos + n)

/-- `Lexer.__call__` -/
def lex (code : List Ch) : List Token :=
  let code := strip code
  lexAux code.length code 0

def ofString (s : String) : List Ch := s.toList.map fun c => { c := c }

end Ptera.Lex
