import PteraModel.Model.PySem
/-!
# M2 — a concrete host: the helper library of the generated PyLite programs (`harness/pylite.py`)

Used by the executable correspondence (the model interpreter against CPython and against real probes)
and as the witness that the assumptions the theorems make about a host are satisfiable.
-/
namespace Ptera.Sem.PyLite
open Ptera.Py Ptera.Sem

structure World where
  log : List Val := []
  script : List Bool := []
  oa : Val := .int 0
  ob : Val := .int 0
  items : List (Val × Val) := []
  deriving Repr, Inhabited

def exc (cls : String) (args : List Val := []) : Val := .obj "exc" (.str cls :: args)
def cls (name : String) : Val := .obj "class" [.str name]
def fn (name : String) : Val := .obj "function" [.str name]

mutual
/-- `_plain`: what the helpers log -/
def plain : Val → Val
  | .int n => .int n
  | .str s => .str s
  | .noneV => .noneV
  | .bool b => .bool b
  | .tuple vs => .tuple (plainL vs)
  | .list vs => .tuple (plainL vs)
  | .obj "exc" (.str c :: _) => .str c
  | .obj kind _ => .str kind
  | .absent => .str "Absent"
def plainL : List Val → List Val
  | [] => []
  | v :: vs => plain v :: plainL vs
end

mutual
/-- Python's `repr` of a plain value -/
def pyRepr : Val → String
  | .int n => toString n
  | .str s => "'" ++ s ++ "'"
  | .noneV => "None"
  | .bool true => "True"
  | .bool false => "False"
  | .tuple [v] => "(" ++ pyRepr v ++ ",)"
  | .tuple vs => "(" ++ ", ".intercalate (pyReprL vs) ++ ")"
  | .list vs => "[" ++ ", ".intercalate (pyReprL vs) ++ "]"
  | .obj kind _ => "<" ++ kind ++ ">"
  | .absent => "ABSENT"
def pyReprL : List Val → List String
  | [] => []
  | v :: vs => pyRepr v :: pyReprL vs
end

def typeName : Val → String
  | .int _ => "int"
  | .str _ => "str"
  | .noneV => "NoneType"
  | .bool _ => "bool"
  | .tuple _ => "tuple"
  | .list _ => "list"
  | .obj "exc" (.str c :: _) => c
  | .obj kind _ => kind
  | .absent => "Absent"

/-- the classes an exception class derives from -/
def bases : String → List String
  | "Boom" => ["Boom", "Exception", "BaseException"]
  | "ValueError" => ["ValueError", "Exception", "BaseException"]
  | "TypeError" => ["TypeError", "Exception", "BaseException"]
  | "KeyError" => ["KeyError", "Exception", "BaseException"]
  | "NameError" => ["NameError", "Exception", "BaseException"]
  | "RuntimeError" => ["RuntimeError", "Exception", "BaseException"]
  | "AttributeError" => ["AttributeError", "Exception", "BaseException"]
  | "PteraNameError" => ["PteraNameError", "NameError", "Exception", "BaseException"]
  | "GeneratorExit" => ["GeneratorExit", "BaseException"]
  | "Exception" => ["Exception", "BaseException"]
  | c => [c, "BaseException"]

def isinst1 (e : Val) (c : Val) : Bool :=
  match e, c with
  | .obj "exc" (.str ec :: _), .obj "class" [.str cn] => (bases ec).contains cn
  | _, _ => false

/-- everything that is raised is a `BaseException` -/
def isBase (c : Val) : Bool :=
  match c with
  | .obj "class" [.str "BaseException"] => true
  | _ => false

def isinst (e : Val) (c : Val) : Bool :=
  isBase c ||
  match c with
  | .tuple cs => cs.any (isinst1 e)
  | c => isinst1 e c

def globalsObj : Val := .obj "DictPile" []

def glob : String → Option Val
  | "H" => some (fn "H")
  | "R" => some (fn "R")
  | "RQ" => some (fn "RQ")
  | "C" => some (fn "C")
  | "T" => some (fn "T")
  | "CM" => some (cls "CM")
  | "GLOB1" => some (.int 11)
  | "GLOB2" => some (.int 22)
  | "K1" => some (.int 31)     -- variables of an enclosing function (closure cells)
  | "K2" => some (.int 32)
  | "O" => some (.obj "Obj" [])
  | "Boom" => some (cls "Boom")
  | "Quit" => some (cls "Quit")          -- a BaseException that is not an Exception
  | "Exception" => some (cls "Exception")
  | "BaseException" => some (cls "BaseException")
  | "ValueError" => some (cls "ValueError")
  | "int" => some (cls "int")
  | "__ptera_globals" => some globalsObj
  | "__ptera_Key" => some (cls "Key")
  | "__ptera_suspend" => some (fn "__ptera_suspend")
  | "__ptera_resume" => some (fn "__ptera_resume")
  | "__ptera_PteraNameError" => some (cls "PteraNameError")
  | "__ptera_NameError" => some (cls "NameError")
  | "__ptera_ABSENT" => some .absent
  | "__ptera_frame" => some (.obj "frame" [])
  | _ => none

def asInt : Val → Option Int
  | .int n => some n
  | .bool true => some 1
  | .bool false => some 0
  | _ => none

def hValue (k : Int) (args : List Val) : Int :=
  (args.foldl (fun s a => s * 3 + (match asInt a with
    | some n => n
    | none => ((pyRepr (plain a)).length : Int))) k) % 1000

def rangeVals (k : Int) (n : Nat) : List Int := (List.range n).map fun (i : Nat) => k * 10 + (i : Int)

def unmodelled : Val := fatal "unmodelled"

def call (f : Val) (args : List Val) (w : World) : Res Val × World :=
  match f, args with
  | .obj "function" [.str "H"], .int k :: rest =>
    (.ok (.int (hValue k rest)), { w with log := w.log ++ [.tuple [.str "H", .int k, .tuple (plainL rest)]] })
  | .obj "function" [.str "R"], [.int k] =>
    (.err (exc "Boom" [.int k]), { w with log := w.log ++ [.tuple [.str "R", .int k]] })
  | .obj "function" [.str "RQ"], [.int k] =>
    (.err (exc "Quit" [.int k]), { w with log := w.log ++ [.tuple [.str "RQ", .int k]] })
  | .obj "function" [.str "C"], [.int k] =>
    let v := w.script.head?.getD false
    (.ok (.bool v), { w with log := w.log ++ [.tuple [.str "C", .int k, .bool v]], script := w.script.tail })
  | .obj "function" [.str "T"], [.int k, .str kind, .int n] =>
    let vals := rangeVals k n.toNat
    let w' := { w with log := w.log ++ [.tuple [.str "T", .int k, .str kind, .int n]] }
    (match kind with
     | "tuple" => (.ok (.tuple (vals.map .int)), w')
     | "list" => (.ok (.list (vals.map .int)), w')
     | "gen" => (.ok (.obj "generator" (vals.map .int)), w')
     | "dict" => (.ok (.obj "dict" (vals.map .int)), w')
     | "nested" => (.ok (.tuple (vals.map fun v => .tuple [.int v, .int (v + 1)])), w')
     | _ => (.err (exc "ValueError"), w'))
  | .obj "class" [.str "CM"], [.int k] => (.ok (.obj "CM" [.int k, .bool false]), w)
  | .obj "class" [.str "CM"], [.int k, .bool s] => (.ok (.obj "CM" [.int k, .bool s]), w)
  | .obj "class" [.str "Key"], [.str kind, v] => (.ok (keyVal kind v), w)
  | .obj "function" [.str "__ptera_suspend"], [_, v] => (.ok v, w)
  | .obj "function" [.str "__ptera_resume"], [_, v] => (.ok v, w)
  | .obj "function" _, _ => (.err unmodelled, w)
  | .obj "class" _, _ => (.err unmodelled, w)
  | _, _ => (.err (exc "TypeError"), w)

def binop (op : String) (a b : Val) (w : World) : Res Val × World :=
  match op, a, b with
  | "In", .str x, .obj "DictPile" [] => (.ok (.bool (glob x).isSome), w)
  | _, _, _ =>
    match asInt a, asInt b with
    | some x, some y =>
      (match op with
       | "Add" => (.ok (.int (x + y)), w)
       | "Sub" => (.ok (.int (x - y)), w)
       | "Mult" => (.ok (.int (x * y)), w)
       | "Gt" => (.ok (.bool (x > y)), w)
       | "Lt" => (.ok (.bool (x < y)), w)
       | _ => (.err unmodelled, w))
    | _, _ => (.err unmodelled, w)

/-- the keys the model of `Obj.__setitem__ / __getitem__` knows about: integers, strings, booleans, `None` (whether
    any other value is hashable, and how it compares, is Python's business: not modelled) -/
def scalarKey : Val → Bool
  | .int _ | .str _ | .bool _ | .noneV => true
  | _ => false

def getitem (o k : Val) (w : World) : Res Val × World :=
  match o, k with
  | .obj "DictPile" [], .str x => (.ok ((glob x).getD .absent), w)
  | .obj "Obj" [], k =>
    if scalarKey k then
      (match w.items.find? (fun p => p.1 == k) with
       | some p => (.ok p.2, w)
       | none => (.err (exc "KeyError"), w))
    else (.err unmodelled, w)
  | _, _ => (.err unmodelled, w)

def setitem (o k v : Val) (w : World) : Res Unit × World :=
  match o with
  | .obj "Obj" [] =>
    if scalarKey k then (.ok (), { w with items := (w.items.filter fun p => !(p.1 == k)) ++ [(k, v)] })
    else (.err unmodelled, w)
  | _ => (.err unmodelled, w)

def getattr (o : Val) (a : String) (w : World) : Res Val × World :=
  match o, a with
  | .obj "Obj" [], "a" => (.ok w.oa, w)
  | .obj "Obj" [], "b" => (.ok w.ob, w)
  | _, _ => (.err unmodelled, w)

def setattr (o : Val) (a : String) (v : Val) (w : World) : Res Unit × World :=
  match o, a with
  | .obj "Obj" [], "a" => (.ok (), { w with oa := v })
  | .obj "Obj" [], "b" => (.ok (), { w with ob := v })
  | _, _ => (.err unmodelled, w)

def iter (v : Val) (w : World) : Res (List Val) × World :=
  match v with
  | .tuple vs => (.ok vs, w)
  | .list vs => (.ok vs, w)
  | .obj "generator" vs => (.ok vs, w)
  | .obj "dict" vs => (.ok vs, w)
  | _ => (.err (exc "TypeError"), w)

def truthy (v : Val) (w : World) : Res Bool × World :=
  match v with
  | .bool b => (.ok b, w)
  | .int n => (.ok (n != 0), w)
  | .noneV => (.ok false, w)
  | .tuple vs => (.ok (!vs.isEmpty), w)
  | .list vs => (.ok (!vs.isEmpty), w)
  | .str s => (.ok (s != ""), w)
  | _ => (.ok true, w)

def enter (cm : Val) (w : World) : Res Val × World :=
  match cm with
  | .obj "CM" [.int k, _] => (.ok (.int (k * 7)), { w with log := w.log ++ [.tuple [.str "enter", .int k]] })
  | _ => (.err (exc "AttributeError"), w)

def exit (cm : Val) (e : Option Val) (w : World) : Res Bool × World :=
  match cm with
  | .obj "CM" [.int k, .bool swallow] =>
    let tn : Val := match e with | none => .noneV | some e => .str (typeName e)
    (.ok (swallow && (match e with | none => false | some e => isinst e (cls "Boom"))),
     { w with log := w.log ++ [.tuple [.str "exit", .int k, tn]] })
  | _ => (.err (exc "AttributeError"), w)

def startsWith (s p : String) : Bool := p.toList.isPrefixOf s.toList

def bindStmt (src : String) (_ : List (String × Option Val)) (w : World) : Res (List Val) × World :=
  if startsWith src "def " then (.ok [.obj "function" [.str "inner"]], w)
  else if startsWith src "class " then (.ok [.obj "type" []], w)
  else if startsWith src "import " then (.ok [.obj "module" []], w)
  else if startsWith src "from " then (.ok [.obj "builtin_function_or_method" []], w)
  else (.err unmodelled, w)

def annVal : Expr → Val
  | .noneLit => .noneV
  | .call (.name "__ptera_get_tags") args => .obj "tags" (args.map fun a => match a with | .str s => .str s | _ => .noneV)
  | .name "__ptera_enter_tag" => .obj "tags" [.str "enter"]
  | .name "__ptera_exit_tag" => .obj "tags" [.str "exit"]
  | .name x => .obj "ann" [.str x]
  | .str s => .str s
  | _ => .obj "ann" []

/-- the recording handler: every interaction is logged; optionally the value of one variable is
    overridden (`name`, `delta`: integers bound to `name` are answered `value + delta`) -/
structure HState where
  events : List Interaction := []
  override : Option (String × Int) := none
  deriving Repr, Inhabited

def hnd (i : Interaction) (hs : HState) : Res Val × HState :=
  let hs' := { hs with events := hs.events ++ [i] }
  match hs.override, i.value with
  | some (n, d), .int v =>
    if n == i.name then
      if i.ovr then (.ok (.int (v + d)), hs') else (.err (exc "OverrideException"), hs')
    else (.ok i.value, hs')
  | _, _ => (.ok i.value, hs')

def host : Host World HState where
  glob := glob
  call := call
  binop := binop
  getattr := getattr
  getitem := getitem
  setattr := setattr
  setitem := setitem
  iter := iter
  truthy := truthy
  enter := enter
  exit := exit
  isinst := isinst
  opaqueE := fun _ _ w => (.err unmodelled, w)
  bindStmt := bindStmt
  nameError := fun x => exc "NameError" [.str x]
  unpackError := exc "ValueError"
  genExit := exc "GeneratorExit"
  noActiveExc := exc "RuntimeError"
  pteraNameError := fun x => exc "PteraNameError" [.str x]
  annVal := annVal
  hnd := hnd

end Ptera.Sem.PyLite
