/-
  PyVal — the tiny value domain used by code translated from `ptera/tools.py`.
  Python semantics of the operators the translated subset uses, with the
  exceptions Python raises kept explicit (never totalised away).
-/
namespace Ptera.PyVal

inductive PyV where
  | none
  | int (i : Int)
  | bool (b : Bool)
  deriving DecidableEq, Repr, Inhabited

inductive PyErr where
  | typeError
  | zeroDivision
  deriving DecidableEq, Repr

abbrev PyM := Except PyErr

/-- Python truthiness of the three value kinds. -/
def PyV.truthy : PyV → Bool
  | .none => false
  | .int i => i != 0
  | .bool b => b

/-- The numeric reading of a value (`bool` is a subclass of `int`); `None` has none. -/
def PyV.num? : PyV → Option Int
  | .none => Option.none
  | .int i => some i
  | .bool b => some (if b then 1 else 0)

def arith (f : Int → Int → PyM PyV) (a b : PyV) : PyM PyV :=
  match a.num?, b.num? with
  | some x, some y => f x y
  | _, _ => .error .typeError

def pyAdd := arith fun x y => .ok (.int (x + y))
def pySub := arith fun x y => .ok (.int (x - y))
/-- Python `%` on ints: floored modulo, `ZeroDivisionError` on a zero divisor. -/
def pyMod := arith fun x y => if y = 0 then .error .zeroDivision else .ok (.int (Int.fmod x y))
def pyLt := arith fun x y => .ok (.bool (decide (x < y)))
def pyLe := arith fun x y => .ok (.bool (decide (x ≤ y)))
def pyGt := arith fun x y => .ok (.bool (decide (x > y)))
def pyGe := arith fun x y => .ok (.bool (decide (x ≥ y)))

/-- Python `==` never raises on these kinds; `None == 0` is `False`, `True == 1` is `True`. -/
def pyEq (a b : PyV) : PyM PyV :=
  match a.num?, b.num? with
  | some x, some y => .ok (.bool (decide (x = y)))
  | Option.none, Option.none => .ok (.bool true)
  | _, _ => .ok (.bool false)

def pyNe (a b : PyV) : PyM PyV := do
  let r ← pyEq a b
  pure (.bool (!r.truthy))

def pyIsNone (a : PyV) : PyM PyV := .ok (.bool (a == .none))
def pyIsNotNone (a : PyV) : PyM PyV := .ok (.bool (a != .none))
def pyNot (a : PyV) : PyM PyV := .ok (.bool (!a.truthy))

/-- strict binary operator application, operands evaluated left to right -/
def lift2 (f : PyV → PyV → PyM PyV) (a b : PyM PyV) : PyM PyV := do
  let x ← a
  let y ← b
  f x y

def lift1 (f : PyV → PyM PyV) (a : PyM PyV) : PyM PyV := do
  let x ← a
  f x

/-- `a and b` : short-circuit, returns the deciding operand -/
def pyAnd (a : PyM PyV) (b : Unit → PyM PyV) : PyM PyV := do
  let x ← a
  if x.truthy then b () else pure x

/-- `a or b` -/
def pyOr (a : PyM PyV) (b : Unit → PyM PyV) : PyM PyV := do
  let x ← a
  if x.truthy then pure x else b ()

end Ptera.PyVal
