/-
  M6 (threads) — small-step semantics of the tooling life-cycle steps under thread interleaving
  (`ptera/overlay.py` `_tooler/_untooler`, `ptera/transform.py` `SyncedStackedTransforms.push/pop/
  _apply`, `StackedTransforms.push/pop/get`).  The step lists themselves are GENERATED from the
  source (`Generated/Steps.lean`); this file gives each step its meaning on the shared state of one
  function.  Atomicity unit of the scheduler: one source line (a group of steps).
-/
namespace Ptera.Sched

inductive Step where
  | acquire | release
  | readStack | createStackIfAbsent
  | readCount | writeCountInc | writeCountDec
  | capsAdd | capsSub
  | getReadCount | getReadCaps | lookupVariant
  | readCode | writeCode | writeMeta
  | writeToken                 -- `fn.__globals__[token] = fn`: the variant's self-reference denotes the target
  | call                       -- the thread calls the function while its own probe is active
  | setInfo                    -- `fn.__ptera_info__ = info` (reached when the variant is not the original code)
  | dropInfo                   -- `delattr(fn, "__ptera_info__")` (reached when it is)
  | callFetch                  -- a bystander (its probe is on another function) calls: the code object is read …
  | callEnter                  -- … and the code it got looks its function's `__ptera_info__` up (raises if absent)
  | callEnterTolerant          -- … or looks it up with a default
  deriving DecidableEq, Repr, Inhabited

/-- the shared instrumentation state of one function -/
structure Shared where
  stackExists : Bool := false
  count : Int := 0                       -- `instrument_count` (a lost update can corrupt it)
  caps : List Nat := []                  -- `captures`, as a multiset
  code : Option (List Nat) := none       -- installed variant: none = original code
  toks : List (List Nat) := []           -- variants whose self-reference denotes the target function
  info : Bool := false                   -- the function has a `__ptera_info__` attribute
  lockOwner : Option Nat := none
  lockDepth : Nat := 0
  deriving DecidableEq, Repr, Inhabited

structure Thread where
  prog : List (List Step)                -- remaining line groups
  own : List Nat                         -- capture elements of this thread's probe
  tmpHas : Bool := false
  tmpCount : Int := 0
  tmpVariant : Option (List Nat) := none
  covered : List Bool := []              -- per call: did the installed code instrument `own`?
  tmpCode : Option (List Nat) := none    -- the code object a bystander's call is running
  raised : Bool := false                 -- a call of this thread raised because of the others
  deriving DecidableEq, Repr, Inhabited

structure State where
  sh : Shared := {}
  threads : List Thread
  deriving DecidableEq, Repr, Inhabited

def subset (a b : List Nat) : Bool := a.all b.contains

def insertNat (x : Nat) : List Nat → List Nat
  | [] => [x]
  | y :: ys => if x ≤ y then x :: y :: ys else y :: insertNat x ys

/-- a variant is keyed by the *set* of its captures -/
def variantKey (l : List Nat) : List Nat := l.eraseDups.foldr insertNat []

/-- one atomic step of thread `t` (its lock operations are assumed enabled) -/
def doStep (t : Nat) (sh : Shared) (th : Thread) : Step → Shared × Thread
  | .acquire => ({ sh with lockOwner := some t, lockDepth := sh.lockDepth + 1 }, th)
  | .release =>
    (if sh.lockDepth ≤ 1 then { sh with lockOwner := none, lockDepth := 0 }
     else { sh with lockDepth := sh.lockDepth - 1 }, th)
  | .readStack => (sh, { th with tmpHas := sh.stackExists })
  | .createStackIfAbsent =>
    if th.tmpHas then (sh, th)
    else ({ sh with stackExists := true, count := 0, caps := [] }, th)     -- a NEW stack object
  | .readCount => (sh, { th with tmpCount := sh.count })
  | .writeCountInc => ({ sh with count := th.tmpCount + 1 }, th)
  | .writeCountDec => ({ sh with count := th.tmpCount - 1 }, th)
  | .capsAdd => ({ sh with caps := sh.caps ++ th.own }, th)
  | .capsSub => ({ sh with caps := th.own.foldl List.erase sh.caps }, th)
  | .getReadCount => (sh, { th with tmpCount := sh.count })
  | .getReadCaps =>
    (sh, { th with tmpVariant := if th.tmpCount = 0 then none else some (variantKey sh.caps) })
  | .lookupVariant | .readCode | .writeMeta => (sh, th)
  | .writeCode => ({ sh with code := th.tmpVariant }, th)
  | .writeToken =>
    (match th.tmpVariant with
     | some v => if sh.toks.contains v then (sh, th) else ({ sh with toks := sh.toks ++ [v] }, th)
     | none => (sh, th))
  | .setInfo => (if th.tmpVariant.isSome then { sh with info := true } else sh, th)
  | .dropInfo => (if th.tmpVariant.isNone then { sh with info := false } else sh, th)
  | .callFetch => (sh, { th with tmpCode := sh.code })
  | .callEnter => (sh, { th with raised := th.raised || (th.tmpCode.isSome && !sh.info) })
  | .callEnterTolerant => (sh, th)
  | .call =>
    (sh, { th with covered := th.covered ++ [match sh.code with
                                              | none => false
                                              -- the installed code instruments `own`, and it can find
                                              -- its own function (otherwise no selector matches the call)
                                              | some c => subset th.own c && sh.toks.contains c] })

def doLine (t : Nat) (sh : Shared) (th : Thread) : List Step → Shared × Thread
  | [] => (sh, th)
  | s :: rest =>
    match doStep t sh th s with
    | (sh', th') => doLine t sh' th' rest

/-- can thread `t` execute its next line now? (a line starting with `acquire` needs the lock free
    or already held by `t`: the lock is re-entrant) -/
def enabled (t : Nat) (sh : Shared) (th : Thread) : Bool :=
  match th.prog with
  | [] => false
  | line :: _ =>
    if line.contains .acquire then (sh.lockOwner == none || sh.lockOwner == some t) else true

def setThread (ths : List Thread) (t : Nat) (x : Thread) : List Thread :=
  ths.mapIdx fun i y => if i = t then x else y

/-- run the next line of thread `t`; `none` if it is blocked or finished -/
def stepThread (s : State) (t : Nat) : Option State :=
  match s.threads[t]? with
  | none => none
  | some th =>
    if !enabled t s.sh th then none else
    match th.prog with
    | [] => none
    | line :: rest =>
      match doLine t s.sh th line with
      | (sh', th') => some { sh := sh', threads := setThread s.threads t { th' with prog := rest } }

/-- follow a schedule (a disabled choice is skipped) -/
def exec (s : State) : List Nat → State
  | [] => s
  | t :: rest =>
    match stepThread s t with
    | some s' => exec s' rest
    | none => exec s rest

def finished (s : State) : Bool := s.threads.all fun th => th.prog.isEmpty

/-- what the property demands of a finished run: every call was covered, and the function is back
    on its original code with zero counters -/
def good (s : State) : Bool :=
  (s.threads.all fun th => th.covered.all id && !th.raised) &&
  (!finished s || (s.sh.code == none && s.sh.count == 0 && s.sh.caps.isEmpty))

/-- the program of a thread: activate, call, deactivate -/
def program (tool untool : List (List Step)) : List (List Step) :=
  tool ++ [[Step.call]] ++ untool

def initState (tool untool : List (List Step)) (owns : List (List Nat)) : State :=
  { threads := owns.map fun o => { prog := program tool untool, own := o } }

/-- … with bystanders (an empty capture list): threads whose own probe is on another function and
    that call the shared function once -/
def initStateB (tool untool bystander : List (List Step)) (owns : List (List Nat)) : State :=
  { threads := owns.map fun o =>
      if o.isEmpty then { prog := bystander, own := [] } else { prog := program tool untool, own := o } }

/-- breadth-first closure of the reachable states (fuel bounds the number of rounds) -/
def successors (s : State) : List State :=
  (List.range s.threads.length).filterMap (stepThread s)

def reachAux : Nat → List State → List State → List State
  | 0, seen, _ => seen
  | fuel + 1, seen, frontier =>
    let next := (frontier.flatMap successors).eraseDups.filter fun s => !seen.contains s
    -- the exploration gives up beyond 600 states (the result is then not closed and the
    -- theorems that use it fail quickly instead of exhausting the kernel)
    if next.isEmpty || seen.length > 600 then seen else reachAux fuel (seen ++ next) next

def reachable (s0 : State) (fuel : Nat) : List State := reachAux fuel [s0] [s0]

/-- is the set closed under every thread's step? -/
def closed (R : List State) : Bool :=
  R.all fun s => (successors s).all R.contains

end Ptera.Sched

namespace Ptera.Sched

/-- leaving a `with lock:` block is not a line of its own: the release happens together with the
    last line of the block -/
def mergeRelease (l : List (List Step)) : List (List Step) :=
  (l.foldl (fun (acc : List (List Step)) g =>
    match acc with
    | h :: t => if g == [Step.release] then (h ++ g) :: t else g :: acc
    | [] => [g]) []).reverse

/-- does the step read or write the shared instrumentation state of the function? -/
def touchesShared : Step → Bool
  | .acquire | .release | .call | .lookupVariant | .callFetch | .callEnter | .callEnterTolerant => false
  | _ => true

/-- lock discipline of one program: every shared access happens while the lock is held (depth ≥ 1),
    releases never exceed acquires, and the program ends with the lock released -/
def disciplinedAux : Nat → List Step → Bool
  | d, [] => d == 0
  | d, .acquire :: rest => disciplinedAux (d + 1) rest
  | 0, .release :: _ => false
  | d + 1, .release :: rest => disciplinedAux d rest
  | d, s :: rest => (!touchesShared s || d ≥ 1) && disciplinedAux d rest

/-- `readStack` before the lock in `_untooler` only tests that a stack exists (it always does once
    the probe is active): it is the one access allowed outside -/
def disciplined (prog : List Step) (allowReadStackOutside : Bool) : Bool :=
  disciplinedAux 0 (if allowReadStackOutside then prog.filter (· != .readStack) else prog)

/-- breadth-first search for a reachable state that is not `good`, remembering the schedule -/
def searchAux : Nat → List State → List (State × List Nat) → Option (List Nat)
  | 0, _, _ => none
  | fuel + 1, seen, frontier =>
    match frontier.find? (fun p => !good p.1) with
    | some p => some p.2.reverse
    | none =>
      let next := frontier.flatMap fun (s, sched) =>
        (List.range s.threads.length).filterMap fun t => (stepThread s t).map fun s' => (s', t :: sched)
      let next := next.foldl (fun acc p => if seen.contains p.1 || acc.any (·.1 == p.1) then acc else acc ++ [p]) []
      if next.isEmpty then none else searchAux fuel (seen ++ next.map (·.1)) next

def searchBad (s0 : State) (fuel : Nat) : Option (List Nat) := searchAux fuel [s0] [(s0, [])]

end Ptera.Sched
