import PteraModel.Model.Collect
/-!
# M2 — `PteraTransformer`: the source-to-source rewrite, as a function on the PyLite AST

Written by hand after `ptera/transform.py`; tied to it by the AST correspondence check, which feeds the
same function and capture set to the real `transform()` and to `instrument` and compares the trees.
-/
namespace Ptera.Py

/-! ## which variables are instrumented (`should_instrument`, `check_element`, `match_tag`) -/

def matchTag (cat : Option String) (tags : List String) : Bool :=
  match cat with
  | none => true
  | some c => tags.contains c

def checkEl (el : El) (name : String) (tags : List String) : Bool :=
  (match el.name with | none => true | some n => n == name) && matchTag el.cat tags

/-- `re.split(r"[.\[]", s)[0]` -/
def baseName (s : String) : String :=
  String.ofList (s.toList.takeWhile fun c => c != '.' && c != '[')

def keyedEl (el : El) (name : String) (tags : List String) : Bool :=
  match el.name with
  | none => false
  | some n => baseName n == name && n != name && matchTag el.cat tags

def shouldInstr (cfg : Cfg) (name : String) (tags : List String) (keyed : Bool := false) : Bool :=
  cfg.any (fun el => checkEl el name tags) || (keyed && cfg.any (fun el => keyedEl el name tags))

/-! ## names of the runtime library the rewritten code refers to -/

def nFrame := "__ptera_frame"
def nAbsent := "__ptera_ABSENT"
def nNameError := "__ptera_PteraNameError"
def nPyNameError := "__ptera_NameError"
def nKey := "__ptera_Key"
def nGetTags := "__ptera_get_tags"
def nSuspend := "__ptera_suspend"
def nResume := "__ptera_resume"
def nEnterTag := "__ptera_enter_tag"
def nExitTag := "__ptera_exit_tag"
def nGlobals := "__ptera_globals"
def nProceed := "__ptera_proceed"
def gensym (n : Nat) : String := "_ptera__" ++ toString n

def enterAnn : Ann := { expr := .name nEnterTag, tags := ["enter"] }
def exitAnn : Ann := { expr := .name nExitTag, tags := ["exit"] }

/-! ## `_ann`: a string annotation `"@a & @b"` becomes `get_tags("a", "b")` -/

def dropSpacesEnd (cs : List Char) : List Char := (cs.reverse.dropWhile (· == ' ')).reverse

/-- split at every `&` -/
def splitAmpRaw : List Char → List Char → List (List Char)
  | cur, [] => [cur.reverse]
  | cur, '&' :: tl => cur.reverse :: splitAmpRaw [] tl
  | cur, c :: tl => splitAmpRaw (c :: cur) tl

/-- trim the spaces next to the separators: every part but the first loses its leading spaces, every
    part but the last its trailing ones -/
def trimParts : Bool → List (List Char) → List (List Char)
  | _, [] => []
  | first, [p] => [if first then p else p.dropWhile (· == ' ')]
  | first, p :: ps =>
    dropSpacesEnd (if first then p else p.dropWhile (· == ' ')) :: trimParts false ps

/-- `re.split(r" *& *", s)` on a list of characters -/
def splitAmp (cs : List Char) : List (List Char) := trimParts true (splitAmpRaw [] cs)

def annExpr (a : Ann) : Expr :=
  match a.expr with
  | .str s =>
    if s.toList.head? == some '@' then
      .call (.name nGetTags)
        (((splitAmp s.toList).filter (fun p => p.head? == some '@')).map fun p => .str (String.ofList p.tail))
    else a.expr
  | e => e

def annArg : Option Ann → Expr
  | none => .noneLit
  | some a => annExpr a

def annTags : Option Ann → List String
  | none => []
  | some a => a.tags

/-! ## `_interact`, `make_interaction`, `generate_interactions` -/

/-- `_interact(varname, key, ann, value, overridable)`: the call, or just the value when the variable is
    not instrumented -/
def interactE (cfg : Cfg) (name : String) (key : Expr) (ann : Option Ann) (value : Expr) (ovr : Bool)
    (keyed : Bool := false) (force : Bool := false) : Expr :=
  if force || shouldInstr cfg name (annTags ann) keyed then .interact name key (annArg ann) value ovr
  else value

def keyAttr (a : String) : Expr := .call (.name nKey) [.str "attr", .str a]
def keyIndex (i : Expr) : Expr := .call (.name nKey) [.str "index", i]

def isConst : Expr → Bool
  | .int _ | .str _ | .noneLit | .bool _ | .constOther _ => true
  | _ => false

/-- `make_interaction` in statement position.  `value = none` is a declaration without a value. -/
def mkInteraction (cfg : Cfg) (t : Target) (ann : Option Ann) (value : Option Expr) (n : Nat) :
    List Stmt × Nat :=
  let valueArg := value.getD (.name nAbsent)
  let force := value.isNone
  match t with
  | .name x => ([.assign [t] (interactE cfg x .noneLit ann valueArg true false force)], n)
  | .sub (.name b) slc =>
    if !isConst slc && shouldInstr cfg b (annTags ann) true then
      let vv := gensym n
      let vi := gensym (n + 1)
      ([.assign [.name vv] valueArg, .expr (.name b), .assign [.name vi] slc,
        .assign [.sub (.name b) (.name vi)]
          (interactE cfg b (keyIndex (.name vi)) ann (.name vv) true true false)], n + 2)
    else
      ([.assign [t] (interactE cfg b (keyIndex slc) ann valueArg true true force)], n)
  | .attr (.name b) a => ([.assign [t] (interactE cfg b (keyAttr a) ann valueArg true true force)], n)
  | _ => ([.assign [t] valueArg], n)

mutual
/-- `generate_interactions` on a target: one `x = interact('x', None, None, x, True)` per bound name -/
def genInteractions (cfg : Cfg) : Target → List Stmt
  | .name x => [.assign [.name x] (interactE cfg x .noneLit none (.name x) true)]
  | .tuple ts => genInteractionsL cfg ts
  | .list ts => genInteractionsL cfg ts
  | .starred t => genInteractions cfg t
  | .attr _ _ => []
  | .sub _ _ => []
def genInteractionsL (cfg : Cfg) : List Target → List Stmt
  | [] => []
  | t :: ts => genInteractions cfg t ++ genInteractionsL cfg ts
end

def genName (cfg : Cfg) (x : String) : List Stmt := genInteractions cfg (.name x)

def genParam (cfg : Cfg) (p : Param) : List Stmt :=
  [.assign [.name p.name] (interactE cfg p.name .noneLit p.ann (.name p.name) true)]

/-! ## expressions: walrus and yield are the only forms the rewriter changes -/

mutual
def instrE (cfg : Cfg) : Expr → Expr
  | .call f args => .call (instrE cfg f) (instrEL cfg args)
  | .attr v a => .attr (instrE cfg v) a
  | .sub v i => .sub (instrE cfg v) (instrE cfg i)
  | .tuple es => .tuple (instrEL cfg es)
  | .list es => .list (instrEL cfg es)
  | .binop op l r => .binop op (instrE cfg l) (instrE cfg r)
  | .walrus t v => .walrus t (interactE cfg t .noneLit none (instrE cfg v) true)
  | .yield v =>
    let v' := match v with | Option.none => Expr.noneLit | Option.some e => instrE cfg e
    interactE cfg "#receive" .noneLit (some enterAnn)
      (.call (.name nResume) [.name nFrame,
        .yield (some (.call (.name nSuspend) [.name nFrame,
          interactE cfg "#yield" .noneLit (some exitAnn) v' true]))])
      true
  | e => e
def instrEL (cfg : Cfg) : List Expr → List Expr
  | [] => []
  | e :: es => instrE cfg e :: instrEL cfg es
end

def instrOpt (cfg : Cfg) : Option Expr → Option Expr
  | none => none
  | some e => some (instrE cfg e)

mutual
def instrT (cfg : Cfg) : Target → Target
  | .name x => .name x
  | .tuple ts => .tuple (instrTL cfg ts)
  | .list ts => .list (instrTL cfg ts)
  | .starred t => .starred (instrT cfg t)
  | .attr v a => .attr (instrE cfg v) a
  | .sub v i => .sub (instrE cfg v) (instrE cfg i)
def instrTL (cfg : Cfg) : List Target → List Target
  | [] => []
  | t :: ts => instrT cfg t :: instrTL cfg ts
end

/-! ## `delimit` -/

def standalone (cfg : Cfg) (sym : String) (ann : Option Ann) (value : Expr) : List Stmt :=
  match interactE cfg sym .noneLit ann value false with
  | e@(.interact ..) => [.expr e]
  | _ => []

def errorHandler (cfg : Cfg) (sym : String) : Handler :=
  .mk (some (.name "BaseException")) (some "#error")
    (standalone cfg sym none (.name "#error") ++ [.raise none])

def delimit (cfg : Cfg) (body : List Stmt) (enter error exit : List String)
    (enterTag exitTag : Option Ann) : List Stmt :=
  let enter := enter.filter fun x => shouldInstr cfg x (annTags enterTag)
  let error := error.filter fun x => shouldInstr cfg x []
  let exit := exit.filter fun x => shouldInstr cfg x (annTags exitTag)
  let body := (enter.flatMap fun sym => standalone cfg sym enterTag (.bool true)) ++ body
  if error.isEmpty && exit.isEmpty then body
  else
    [.try body (error.map (errorHandler cfg)) []
      (exit.flatMap fun sym => standalone cfg sym exitTag (.bool true))]

/-! ## statements -/

/-- a single-target assignment whose value has been rewritten already -/
def assignOne (cfg : Cfg) (t : Target) (value : Expr) (n : Nat) : List Stmt × Nat :=
  match t with
  | .tuple _ | .list _ => (.assign [t] value :: genInteractions cfg t, n)
  | _ => mkInteraction cfg t none (some value) n

def assignChain (cfg : Cfg) (tmp : Expr) : List Target → Nat → List Stmt × Nat
  | [], n => ([], n)
  | t :: ts, n =>
    match assignOne cfg t tmp n with
    | (s1, n1) =>
      match assignChain cfg tmp ts n1 with
      | (s2, n2) => (s1 ++ s2, n2)

mutual
def instrS (cfg : Cfg) : Stmt → Nat → List Stmt × Nat
  | .assign targets value, n =>
    let v := instrE cfg value
    -- the expressions inside of the targets (container, index, object) are rewritten like any other
    match targets with
    | [t] => assignOne cfg (instrT cfg t) v n
    | ts =>
      let tmp := gensym n
      match assignChain cfg (.name tmp) (instrTL cfg ts) (n + 1) with
      | (ss, n') => (.assign [.name tmp] v :: ss, n')
  | .augassign t op value, n =>
    let s := Stmt.augassign (instrT cfg t) op (instrE cfg value)
    match t with
    | .name x =>
      if shouldInstr cfg x [] then
        ([s, .assign [.name x] (interactE cfg x .noneLit none (.name x) true)], n)
      else ([s], n)
    | _ => ([s], n)
  | .annassign t ann value, n => mkInteraction cfg (instrT cfg t) (some ann) (instrOpt cfg value) n
  | .expr e, n => ([.expr (instrE cfg e)], n)
  | .ret v, n =>
    let v' := match v with | Option.none => Expr.noneLit | Option.some e => instrE cfg e
    ([.ret (some (interactE cfg "#value" .noneLit none v' true))], n)
  | .pass, n => ([.pass], n)
  | .brk, n => ([.brk], n)
  | .cont, n => ([.cont], n)
  | .raise e, n => ([.raise (instrOpt cfg e)], n)
  | .ite c b o, n =>
    match instrB cfg b n with
    | (b', n1) =>
      match instrB cfg o n1 with
      | (o', n2) => ([.ite (instrE cfg c) b' o'], n2)
  | .while c b o, n =>
    match instrB cfg b n with
    | (b', n1) =>
      match instrB cfg o n1 with
      | (o', n2) => ([.while (instrE cfg c) b' o'], n2)
  | .for t it b o, n =>
    match instrB cfg b n with
    | (b', n1) =>
      match instrB cfg o n1 with
      | (o', n2) =>
        let vars := t.allNames.eraseDups
        let body := delimit cfg (genInteractions cfg t ++ b') (vars.map ("#loop_" ++ ·)) []
          (vars.map ("#endloop_" ++ ·)) none none
        ([.for (instrT cfg t) (instrE cfg it) body o'], n2)
  | .try b hs o f, n =>
    match instrB cfg b n with
    | (b', n1) =>
      match instrHL cfg hs n1 with
      | (hs', n2) =>
        match instrB cfg o n2 with
        | (o', n3) =>
          match instrB cfg f n3 with
          | (f', n4) => ([.try b' hs' o' f'], n4)
  | .with c t b, n =>
    match instrB cfg b n with
    | (b', n1) =>
      ([.with (instrE cfg c) (t.map (instrT cfg))
          ((match t with | Option.none => [] | Option.some t => genInteractions cfg t) ++ b')], n1)
  | .defn name src loads, n => (.defn name src loads :: genName cfg name, n)
  | .cls name src loads, n => (.cls name src loads :: genName cfg name, n)
  | .imp bound src, n => (.imp bound src :: bound.flatMap (genName cfg), n)
  | .glob names, n => ([.glob names], n)
  | .nonloc names, n => ([.nonloc names], n)
  | .opaque src loads stores, n => ([.opaque src loads stores], n)
def instrB (cfg : Cfg) : List Stmt → Nat → List Stmt × Nat
  | [], n => ([], n)
  | s :: ss, n =>
    match instrS cfg s n with
    | (s', n1) =>
      match instrB cfg ss n1 with
      | (ss', n2) => (s' ++ ss', n2)
def instrH (cfg : Cfg) : Handler → Nat → Handler × Nat
  | .mk typ name body, n =>
    match instrB cfg body n with
    | (b', n1) =>
      (.mk (instrOpt cfg typ) name ((match name with | Option.none => [] | Option.some x => genName cfg x) ++ b'), n1)
def instrHL (cfg : Cfg) : List Handler → Nat → List Handler × Nat
  | [], n => ([], n)
  | h :: hs, n =>
    match instrH cfg h n with
    | (h', n1) =>
      match instrHL cfg hs n1 with
      | (hs', n2) => (h' :: hs', n2)
end

/-! ## the function: prologue (externals, closure variables, parameters), hoisting, body, delimiters -/

/-! `global` / `nonlocal` statements of the function's own body (not of nested scopes) are replaced by `pass` -/
mutual
def hoistS : Stmt → Stmt × List Stmt
  | .glob names => (.pass, [.glob names])
  | .nonloc names => (.pass, [.nonloc names])
  | .ite c b o =>
    match hoistB b with
    | (b', d1) => match hoistB o with
      | (o', d2) => (.ite c b' o', d1 ++ d2)
  | .while c b o =>
    match hoistB b with
    | (b', d1) => match hoistB o with
      | (o', d2) => (.while c b' o', d1 ++ d2)
  | .for t it b o =>
    match hoistB b with
    | (b', d1) => match hoistB o with
      | (o', d2) => (.for t it b' o', d1 ++ d2)
  | .try b hs o f =>
    match hoistB b with
    | (b', d1) => match hoistHL hs with
      | (hs', d2) => match hoistB o with
        | (o', d3) => match hoistB f with
          | (f', d4) => (.try b' hs' o' f', d1 ++ d2 ++ d3 ++ d4)
  | .with c t b =>
    match hoistB b with
    | (b', d) => (.with c t b', d)
  | s => (s, [])
def hoistB : List Stmt → List Stmt × List Stmt
  | [] => ([], [])
  | s :: ss =>
    match hoistS s with
    | (s', d1) => match hoistB ss with
      | (ss', d2) => (s' :: ss', d1 ++ d2)
def hoistH : Handler → Handler × List Stmt
  | .mk typ name body =>
    match hoistB body with
    | (b', d) => (.mk typ name b', d)
def hoistHL : List Handler → List Handler × List Stmt
  | [] => ([], [])
  | h :: hs =>
    match hoistH h with
    | (h', d1) => match hoistHL hs with
      | (hs', d2) => (h' :: hs', d1 ++ d2)
end

/-- insertion sort on names, by code points like Python's `sorted` on `str` -/
def insertName (x : String) : List String → List String
  | [] => [x]
  | y :: ys => if x < y then x :: y :: ys else y :: insertName x ys

def sortNames (xs : List String) : List String := xs.foldr insertName []

def fetchExternal (cfg : Cfg) (x : String) : Stmt :=
  let fetch : List Stmt :=
    [.assign [.name x] (interactE cfg x .noneLit none (.sub (.name nGlobals) (.str x)) true)]
  if shouldInstr cfg x [] then
    .try fetch [.mk (some (.name nNameError)) none [.pass]] [] []
  else
    .ite (.binop "In" (.str x) (.name nGlobals)) fetch []

/-- `try: interact('x', None, None, x, False) except NameError: pass` (or `try: x except …`): the cell of a closure
    variable may still be empty when the function is called -/
def fetchFree (cfg : Cfg) (x : String) : Stmt :=
  .try [.expr (interactE cfg x .noneLit none (.name x) false)]
    [.mk (some (.name nPyNameError)) none [.pass]] [] []

def endsWithReturn : List Stmt → Bool
  | [] => false
  | [.ret _] => true
  | [_] => false
  | _ :: ss => endsWithReturn ss

structure Instrumented where
  name : String
  doc : Option String
  declarations : List Stmt
  /-- the body of `with proceed(self) as frame:` -/
  body : List Stmt
  /-- number of fresh symbols used (the first one is the function's own token) -/
  syms : Nat

def instrument (cfg : Cfg) (f : FunDef) : Instrumented :=
  let c := collect f
  let prologue := (sortNames c.external).map (fetchExternal cfg)
    ++ (sortNames c.free).map (fetchFree cfg)
    ++ f.params.flatMap (genParam cfg)
  match hoistB f.body with
  | (body0, decls) =>
    let body1 := if endsWithReturn body0 then body0 else body0 ++ [.ret none]
    match instrB cfg body1 1 with
    | (body2, n) =>
      { name := f.name, doc := f.doc, declarations := decls,
        body := delimit cfg (prologue ++ body2) ["#enter"] ["#error"] ["#exit"] (some enterAnn) (some exitAnn),
        syms := n }

end Ptera.Py
