import PteraModel.Model.Instrument
/-!
# M2 — an executable semantics for the PyLite fragment

One interpreter serves three purposes:
  * `hk = none`: plain Python — what the untouched function does;
  * `hk = some cfg`: the *reference* semantics of a probed function — plain Python in which every
    binding of an instrumented name consults the handler (ptera's runtime, M3) first;
  * running the output of `instrument`, in which the `interact` calls consult the handler.
Everything Python does that the rewriter does not care about (calls, arithmetic, iteration, context
managers, imports, …) is delegated to an abstract `Host`.
-/
namespace Ptera.Sem
open Ptera.Py

inductive Val where
  | int (n : Int)
  | str (s : String)
  | noneV
  | bool (b : Bool)
  | tuple (vs : List Val)
  | list (vs : List Val)
  /-- anything else: functions, modules, classes, exceptions, context managers, tags, keys … -/
  | obj (kind : String) (payload : List Val)
  /-- ptera's ABSENT marker -/
  | absent
  deriving Repr, BEq, Inhabited

inductive Res (α : Type) where
  | ok (a : α)
  | err (e : Val)
  deriving Repr, Inhabited

/-- how a statement ends -/
inductive Ctl where
  | normal
  | brk
  | cont
  | ret (v : Val)
  | exc (e : Val)
  deriving Repr, BEq, Inhabited

/-- one call of `frame.interact(name, key, category, value, overridable)` -/
structure Interaction where
  name : String
  key : Val
  ann : Val
  value : Val
  ovr : Bool
  deriving Repr, BEq, Inhabited

/-- what the driver of a generator does at a suspension point -/
inductive GenCmd where
  | send (v : Val)
  | throw (e : Val)
  deriving Repr, Inhabited

/-- the part of Python (and of the program's environment) that is not modelled: `W` is the state of the
    world (heap, side-effect log, …), `HS` the state of ptera's handlers -/
structure Host (W HS : Type) where
  glob : String → Option Val
  call : Val → List Val → W → Res Val × W
  binop : String → Val → Val → W → Res Val × W
  getattr : Val → String → W → Res Val × W
  getitem : Val → Val → W → Res Val × W
  setattr : Val → String → Val → W → Res Unit × W
  setitem : Val → Val → Val → W → Res Unit × W
  /-- all the items of an iterable -/
  iter : Val → W → Res (List Val) × W
  truthy : Val → W → Res Bool × W
  enter : Val → W → Res Val × W
  /-- `__exit__`: does it swallow the exception? -/
  exit : Val → Option Val → W → Res Bool × W
  isinst : Val → Val → Bool
  opaqueE : String → List (String × Option Val) → W → Res Val × W
  /-- `def`, `class`, `import`: the values of the names the statement binds -/
  bindStmt : String → List (String × Option Val) → W → Res (List Val) × W
  nameError : String → Val
  unpackError : Val
  genExit : Val
  noActiveExc : Val
  pteraNameError : String → Val
  /-- the (static) value of an annotation expression -/
  annVal : Expr → Val
  /-- ptera's runtime: what `interact` answers -/
  hnd : Interaction → HS → Res Val × HS

structure St (W HS : Type) where
  loc : String → Option Val
  w : W
  hs : HS
  inp : List GenCmd
  out : List Val
  /-- exceptions being handled, innermost first -/
  cur : List Val
  /-- the generator has been closed (its driver is gone) -/
  closed : Bool := false

structure Env (W HS : Type) where
  host : Host W HS
  /-- the names that are local to the function -/
  sc : String → Bool
  /-- `some cfg`: bindings of the names selected by `cfg` consult the handler -/
  hk : Option Cfg

variable {W HS : Type}

def M (W HS α : Type) := St W HS → Res α × St W HS

@[inline] def M.pure {α} (a : α) : M W HS α := fun st => (.ok a, st)
@[inline] def M.bind {α β} (m : M W HS α) (f : α → M W HS β) : M W HS β := fun st =>
  match m st with
  | (.ok a, st1) => f a st1
  | (.err e, st1) => (.err e, st1)
@[inline] def M.throw {α} (e : Val) : M W HS α := fun st => (.err e, st)

instance : Monad (M W HS) where
  pure := M.pure
  bind := M.bind

/-- run a host operation on the world -/
@[inline] def liftW {α} (f : W → Res α × W) : M W HS α := fun st =>
  match f st.w with
  | (r, w) => (r, { st with w := w })

def setLoc (x : String) (v : Option Val) : M W HS Unit := fun st =>
  (.ok (), { st with loc := fun y => if y = x then v else st.loc y })

def lookupV (env : Env W HS) (st : St W HS) (x : String) : Option Val :=
  if env.sc x then st.loc x else env.host.glob x

def lookup (env : Env W HS) (x : String) : M W HS Val := fun st =>
  match lookupV env st x with
  | some v => (.ok v, st)
  | none => (.err (env.host.nameError x), st)

/-- `interact`: ask the handler; ptera's marker as the answer is a name error -/
def interactSem (env : Env W HS) (name : String) (key ann value : Val) (ovr : Bool) : M W HS Val := fun st =>
  match env.host.hnd { name := name, key := key, ann := ann, value := value, ovr := ovr } st.hs with
  | (.ok .absent, hs) => (.err (env.host.pteraNameError name), { st with hs := hs })
  | (.ok r, hs) => (.ok r, { st with hs := hs })
  | (.err e, hs) => (.err e, { st with hs := hs })

def annValOpt (env : Env W HS) (ann : Option Ann) : Val := env.host.annVal (annArg ann)

/-- a binding of `name` to `v` in the reference semantics: instrumented names consult the handler -/
def hook (env : Env W HS) (name : String) (ann : Option Ann) (v : Val) (keyed : Bool := false)
    (key : Val := .noneV) : M W HS Val :=
  match env.hk with
  | none => pure v
  | some cfg =>
    if shouldInstr cfg name (annTags ann) keyed then interactSem env name key (annValOpt env ann) v true
    else pure v

def hookOn (env : Env W HS) (name : String) (tags : List String) (keyed : Bool := false) : Bool :=
  match env.hk with
  | none => false
  | some cfg => shouldInstr cfg name tags keyed

/-- a meta event (`#enter`, `#loop_x`, …): not overridable, nothing is bound -/
def hookMeta (env : Env W HS) (name : String) (ann : Option Ann) (v : Val) : M W HS Unit :=
  match env.hk with
  | none => pure ()
  | some cfg =>
    if shouldInstr cfg name (annTags ann) then do
      let _ ← interactSem env name .noneV (annValOpt env ann) v false
      pure ()
    else pure ()

def hookMetas (env : Env W HS) (ann : Option Ann) : List String → M W HS Unit
  | [] => pure ()
  | x :: xs => do hookMeta env x ann (.bool true); hookMetas env ann xs

/-- after Python has bound `x` itself (unpacking, loop target, import, …): the handler sees the value
    and the name is bound again to what it answers -/
def postBind1 (env : Env W HS) (x : String) : M W HS Unit :=
  match env.hk with
  | none => pure ()
  | some _ => do
    let v ← lookup env x
    let r ← hook env x none v
    setLoc x (some r)

def postBind (env : Env W HS) : List String → M W HS Unit
  | [] => pure ()
  | x :: xs => do postBind1 env x; postBind env xs

/-- an outcome no `except` or `finally` gets to see: the activation is abandoned (a closed generator
    that yields again; a loop that ran out of fuel) -/
def isFatal : Val → Bool
  | .obj "fatal" _ => true
  | _ => false

def fatal (why : String) : Val := .obj "fatal" [.str why]

/-- suspension of a generator: hand `y` out, take what the driver sends in.  An exhausted driver script
    is the generator being closed; a closed generator that yields again is abandoned there. -/
def doYield (env : Env W HS) (y : Val) : M W HS Val := fun st =>
  match st.inp with
  | [] =>
    if st.closed then (.err (fatal "abandoned"), st)
    else (.err env.host.genExit, { st with out := st.out ++ [y], closed := true })
  | .send v :: rest => (.ok v, { st with out := st.out ++ [y], inp := rest })
  | .throw e :: rest => (.err e, { st with out := st.out ++ [y], inp := rest })

def keyVal (kind : String) (v : Val) : Val := .obj "Key" [.str kind, v]

mutual
def evalE (env : Env W HS) : Expr → M W HS Val
  | .int n => pure (.int n)
  | .str s => pure (.str s)
  | .noneLit => pure .noneV
  | .bool b => pure (.bool b)
  | .constOther r => pure (.obj "const" [.str r])
  | .name x => lookup env x
  | .call f args => do
    let fv ← evalE env f
    let avs ← evalEL env args
    liftW (env.host.call fv avs)
  | .attr v a => do
    let x ← evalE env v
    liftW (env.host.getattr x a)
  | .sub v i => do
    let x ← evalE env v
    let k ← evalE env i
    liftW (env.host.getitem x k)
  | .tuple es => do
    let vs ← evalEL env es
    pure (.tuple vs)
  | .list es => do
    let vs ← evalEL env es
    pure (.list vs)
  | .binop op l r => do
    let a ← evalE env l
    let b ← evalE env r
    liftW (env.host.binop op a b)
  | .walrus t v => do
    let x ← evalE env v
    let r ← hook env t none x
    setLoc t (some r)
    pure r
  | .yield v => do
    let x ← (match v with
      | Option.none => pure Val.noneV
      | Option.some e => evalE env e)
    let y ← hook env "#yield" (some exitAnn) x
    let r ← doYield env y
    hook env "#receive" (some enterAnn) r
  | .interact name key ann value ovr => do
    let k ← evalE env key
    let v ← evalE env value
    interactSem env name k (env.host.annVal ann) v ovr
  | .opaque src loads _ _ => fun st =>
    match env.host.opaqueE src (loads.map fun x => (x, lookupV env st x)) st.w with
    | (r, w) => (r, { st with w := w })
def evalEL (env : Env W HS) : List Expr → M W HS (List Val)
  | [] => pure []
  | e :: es => do
    let v ← evalE env e
    let vs ← evalEL env es
    pure (v :: vs)
end

/-! ### storing into targets, as Python does it (no handler involved) -/

/-- how the items of an unpacked iterable are distributed over targets with at most one starred one -/
def splitStar (before after : Nat) (items : List Val) : Option (List Val × List Val × List Val) :=
  if items.length < before + after then none
  else some (items.take before, (items.drop before).take (items.length - before - after),
             items.drop (items.length - after))

def countBefore : List Target → Nat
  | [] => 0
  | .starred _ :: _ => 0
  | _ :: ts => countBefore ts + 1

def hasStar : List Target → Bool
  | [] => false
  | .starred _ :: _ => true
  | _ :: ts => hasStar ts

/-- does the number of items fit the targets (at most one of them starred)? -/
def fits (ts : List Target) (n : Nat) : Bool :=
  if hasStar ts then ts.length ≤ n + 1 else ts.length = n

mutual
def storeT (env : Env W HS) : Target → Val → M W HS Unit
  | .name x, v => setLoc x (some v)
  | .tuple ts, v => do
    let items ← liftW (env.host.iter v)
    if fits ts items.length then storeTL env ts items else M.throw env.host.unpackError
  | .list ts, v => do
    let items ← liftW (env.host.iter v)
    if fits ts items.length then storeTL env ts items else M.throw env.host.unpackError
  | .starred t, v => storeT env t v
  | .attr e a, v => do
    let o ← evalE env e
    liftW (env.host.setattr o a v)
  | .sub e i, v => do
    let o ← evalE env e
    let k ← evalE env i
    liftW (env.host.setitem o k v)
/-- distribute `items` over the targets (the first starred target takes what is left over) -/
def storeTL (env : Env W HS) : List Target → List Val → M W HS Unit
  | [], _ => pure ()
  | .starred t :: ts, items => do
    storeT env t (.list (items.take (items.length - ts.length)))
    storeTL env ts (items.drop (items.length - ts.length))
  | _ :: _, [] => M.throw env.host.unpackError
  | t :: ts, v :: vs => do
    storeT env t v
    storeTL env ts vs
end

/-- a single assignment target receiving `v`, with the handler consulted as the reference semantics says -/
def assignT (env : Env W HS) (t : Target) (ann : Option Ann) (v : Val) : M W HS Unit :=
  match t with
  | .name x => do
    let r ← hook env x ann v
    setLoc x (some r)
  | .tuple _ | .list _ => do
    storeT env t v
    postBind env t.names
  | .attr (.name b) a => do
    let r ← hook env b ann v true (keyVal "attr" (.str a))
    storeT env t r
  | .sub (.name b) idx =>
    if hookOn env b (annTags ann) true then do
      -- Python looks the container up, then evaluates the index; the handler is told the index
      if !isConst idx then (do let _ ← lookup env b; pure ()) else pure ()
      let k ← evalE env idx
      let r ← hook env b ann v true (keyVal "index" k)
      let o ← lookup env b
      liftW (env.host.setitem o k r)
    else storeT env t v
  | _ => storeT env t v

def assignTs (env : Env W HS) (v : Val) : List Target → M W HS Unit
  | [] => pure ()
  | t :: ts => do assignT env t none v; assignTs env v ts

/-! ### statements -/

abbrev Exec (W HS : Type) := St W HS → Ctl × St W HS

/-- run an expression-level computation as a statement step -/
@[inline] def stepM {α} (m : M W HS α) (k : α → Exec W HS) : Exec W HS := fun st =>
  match m st with
  | (.ok a, st1) => k a st1
  | (.err e, st1) => (.exc e, st1)

@[inline] def done (c : Ctl) : Exec W HS := fun st => (c, st)

/-- sequencing: the second part runs only if the first completes normally -/
@[inline] def seqX (a b : Exec W HS) : Exec W HS := fun st =>
  match a st with
  | (.normal, st1) => b st1
  | (c, st1) => (c, st1)

def ctlFatal : Ctl → Bool
  | .exc e => isFatal e
  | _ => false

def tryFinally (body fin : Exec W HS) : Exec W HS := fun st =>
  match body st with
  | (c, st1) =>
    if ctlFatal c then (c, st1)
    else
      match fin st1 with
      | (.normal, st2) => (c, st2)
      | (c', st2) => (c', st2)

/-- `try: body except …: handlers else: orelse` -/
def tryExcept (body : Exec W HS) (handlers : Val → Exec W HS) (orelse : Exec W HS) : Exec W HS := fun st =>
  match body st with
  | (.exc e, st1) => if isFatal e then (.exc e, st1) else handlers e st1
  | (.normal, st1) => orelse st1
  | (c, st1) => (c, st1)

/-- the body of an `except … as name:` clause: the exception is current and bound, then unbound -/
def inHandler (e : Val) (name : Option String) (body : Exec W HS) : Exec W HS := fun st =>
  let st0 : St W HS := { st with cur := e :: st.cur,
                                 loc := match name with
                                   | none => st.loc
                                   | some n => fun y => if y = n then some e else st.loc y }
  match body st0 with
  | (c, st1) =>
    (c, { st1 with cur := st1.cur.tail,
                   loc := match name with
                     | none => st1.loc
                     | some n => fun y => if y = n then none else st1.loc y })

def forLoop (items : List Val) (iteration : Val → Exec W HS) (orelse : Exec W HS) : Exec W HS :=
  match items with
  | [] => orelse
  | v :: rest => fun st =>
    match iteration v st with
    | (.normal, st1) => forLoop rest iteration orelse st1
    | (.cont, st1) => forLoop rest iteration orelse st1
    | (.brk, st1) => (.normal, st1)
    | (c, st1) => (c, st1)

/-- at most `fuel` iterations; running out of fuel abandons the activation -/
def whileLoop (fuel : Nat) (cond : M W HS Bool) (body orelse : Exec W HS) : Exec W HS :=
  match fuel with
  | 0 => done (.exc (fatal "fuel"))
  | fuel + 1 => stepM cond fun b =>
    if b then fun st =>
      match body st with
      | (.normal, st1) => whileLoop fuel cond body orelse st1
      | (.cont, st1) => whileLoop fuel cond body orelse st1
      | (.brk, st1) => (.normal, st1)
      | (c, st1) => (c, st1)
    else orelse

def withBlock (env : Env W HS) (cm : Val) (body : Exec W HS) : Exec W HS := fun st =>
  match body st with
  | (.exc e, st1) =>
    if isFatal e then (.exc e, st1) else
    (match env.host.exit cm (some e) st1.w with
     | (.ok true, w) => (.normal, { st1 with w := w })
     | (.ok false, w) => (.exc e, { st1 with w := w })
     | (.err e', w) => (.exc e', { st1 with w := w }))
  | (c, st1) =>
    (match env.host.exit cm none st1.w with
     | (.ok _, w) => (c, { st1 with w := w })
     | (.err e', w) => (.exc e', { st1 with w := w }))

/-- every name an import statement binds gets a value -/
def padVals (n : Nat) (vals : List Val) : List Val := vals ++ List.replicate (n - vals.length) .noneV

def optTargetNames : Option Target → List String
  | none => []
  | some t => t.names

/-- loop markers are reported for every `Name` in the loop target -/
def loopVars (t : Target) : List String := t.allNames.eraseDups

def truthyE (env : Env W HS) (c : Expr) : M W HS Bool := do
  let v ← evalE env c
  liftW (env.host.truthy v)

mutual
def execS (env : Env W HS) (fuel : Nat) : Stmt → Exec W HS
  | .assign targets value => stepM (evalE env value) fun v =>
      stepM (assignTs env v targets) fun _ => done .normal
  | .augassign t op value =>
    match t with
    | .name x => stepM (do
        let a ← lookup env x
        let b ← evalE env value
        let c ← liftW (env.host.binop op a b)
        setLoc x (some c)
        postBind1 env x) fun _ => done .normal
    | .attr e a => stepM (do
        let o ← evalE env e
        let cur ← liftW (env.host.getattr o a)
        let b ← evalE env value
        let c ← liftW (env.host.binop op cur b)
        liftW (env.host.setattr o a c)) fun _ => done .normal
    | .sub e i => stepM (do
        let o ← evalE env e
        let k ← evalE env i
        let cur ← liftW (env.host.getitem o k)
        let b ← evalE env value
        let c ← liftW (env.host.binop op cur b)
        liftW (env.host.setitem o k c)) fun _ => done .normal
    | _ => done (.exc (.obj "SyntaxError" []))
  | .annassign t ann value =>
    match value with
    | Option.some e => stepM (evalE env e) fun v => stepM (assignT env t (some ann) v) fun _ => done .normal
    | Option.none =>
      -- a declaration: Python does nothing; ptera requires a value from outside
      match env.hk, t with
      | Option.some _, .name x => stepM (do
          let r ← interactSem env x .noneV (annValOpt env (some ann)) .absent true
          setLoc x (some r)) fun _ => done .normal
      | _, _ => done .normal
  | .expr e => stepM (evalE env e) fun _ => done .normal
  | .ret v => stepM (do
      let x ← (match v with
        | Option.none => pure Val.noneV
        | Option.some e => evalE env e)
      hook env "#value" none x) fun r => done (.ret r)
  | .pass => done .normal
  | .brk => done .brk
  | .cont => done .cont
  | .raise e =>
    match e with
    | Option.some e => stepM (evalE env e) fun v => done (.exc v)
    | Option.none => fun st =>
      match st.cur with
      | e :: _ => (.exc e, st)
      | [] => (.exc env.host.noActiveExc, st)
  | .ite c b o => stepM (truthyE env c) fun t => if t then execB env fuel b else execB env fuel o
  | .while c b o => whileLoop fuel (truthyE env c) (execB env fuel b) (execB env fuel o)
  | .for t it b o => stepM (do
      let v ← evalE env it
      liftW (env.host.iter v)) fun items =>
    forLoop items
      (fun item => stepM (storeT env t item) fun _ =>
        tryFinally
          (stepM (do hookMetas env none ((loopVars t).map ("#loop_" ++ ·)); postBind env t.names) fun _ =>
            execB env fuel b)
          (stepM (hookMetas env none ((loopVars t).map ("#endloop_" ++ ·))) fun _ => done .normal))
      (execB env fuel o)
  | .try b hs o f =>
    tryFinally (tryExcept (execB env fuel b) (execHL env fuel hs) (execB env fuel o)) (execB env fuel f)
  | .with c t b => stepM (do
      let cm ← evalE env c
      let v ← liftW (env.host.enter cm)
      pure (cm, v)) fun (cm, v) =>
    withBlock env cm
      (stepM (match t with
          | Option.none => pure ()
          | Option.some t => do storeT env t v; postBind env t.names) fun _ =>
        execB env fuel b)
  | .defn name src loads => fun st =>
    stepM (liftW (env.host.bindStmt src (loads.map fun x => (x, lookupV env st x)))) (fun vals =>
      stepM (do setLoc name (some (vals.headD .noneV)); postBind1 env name) fun _ => done .normal) st
  | .cls name src loads => fun st =>
    stepM (liftW (env.host.bindStmt src (loads.map fun x => (x, lookupV env st x)))) (fun vals =>
      stepM (do setLoc name (some (vals.headD .noneV)); postBind1 env name) fun _ => done .normal) st
  | .imp bound src =>
    stepM (liftW (env.host.bindStmt src [])) fun vals =>
      stepM (do
        (bound.zip (padVals bound.length vals)).forM (fun (x, v) => setLoc x (some v))
        postBind env bound) fun _ => done .normal
  | .glob _ => done .normal
  | .nonloc _ => done .normal
  | .opaque _ _ _ => done (.exc (.obj "unmodelled" []))
def execB (env : Env W HS) (fuel : Nat) : List Stmt → Exec W HS
  | [] => done .normal
  | s :: ss => seqX (execS env fuel s) (execB env fuel ss)
/-- the `except` clauses, tried in order -/
def execHL (env : Env W HS) (fuel : Nat) : List Handler → Val → Exec W HS
  | [], e => done (.exc e)
  | .mk typ name body :: hs, e =>
    match typ with
    | Option.none => inHandler e name (stepM (postBind env (match name with | Option.none => [] | Option.some n => [n])) fun _ =>
        execB env fuel body)
    | Option.some te => stepM (evalE env te) fun tv =>
      if env.host.isinst e tv then
        inHandler e name (stepM (postBind env (match name with | Option.none => [] | Option.some n => [n])) fun _ =>
          execB env fuel body)
      else execHL env fuel hs e
end

end Ptera.Sem
