/-
  M1c — the evaluator that turns a parse tree into a selector
  (`ptera/selector.py`: `Evaluator`, the registered actions of `evaluate` and
  `value_evaluate`, `_guarantee_call`, `parse`, `_select`, `Element`, `Call`).

  Every place where the Python code can raise is explicit: syntax errors carry
  the 1-based offset Python puts in `SyntaxError.offset`; anything that would be
  an AssertionError / AttributeError / TypeError / IndexError inside ptera is
  `Err.internal`.
-/
import PteraModel.Model.Parse
namespace Ptera.Selector
open Ptera.Lex Ptera.Parse

inductive Internal where
  | assertion | attribute | typeError | index | fuel
  deriving DecidableEq, Repr

inductive Err where
  | syntax (offset : Nat)
  | selector
  | typeCategory
  | codeNotFound
  | internal (k : Internal)
  deriving DecidableEq, Repr

def Err.isInternal : Err → Bool
  | .internal _ => true
  | _ => false

/-- value expressions (`VSymbol`, `VCall`, `VKeyword`, argument lists, the `MatchFunction` class) -/
inductive VNode where
  | sym (s : String)
  | call (fn : VNode) (args : List VNode)
  | kw (key : String) (value : VNode)
  | list (xs : List VNode)
  | matchFn
  deriving Repr, Inhabited, BEq

inductive NameRef where
  | none
  | str (s : String)
  | vsym (s : String)
  deriving DecidableEq, Repr, Inhabited

structure Element where
  name : NameRef
  value : Option VNode := none
  category : Option VNode := none
  capture : Option String := none
  tag1 : Bool := false
  tag2 : Bool := false
  deriving Repr, Inhabited, BEq

inductive Call where
  | mk (element : Element) (children : List Call) (captures : List Element) (immediate : Bool)
  deriving Repr, Inhabited

def Call.element : Call → Element | .mk e _ _ _ => e
def Call.children : Call → List Call | .mk _ c _ _ => c
def Call.captures : Call → List Element | .mk _ _ c _ => c
def Call.immediate : Call → Bool | .mk _ _ _ i => i

inductive Item where
  | elem (e : Element)
  | call (c : Call)
  | list (xs : List Item)
  deriving Repr, Inhabited

inductive Ctx where
  | root | incall
  deriving DecidableEq, Repr

def Element.withFocus (e : Element) : Element := { e with tag1 := true }
def Element.withoutFocus (e : Element) : Element := { e with tag1 := false }

/-- `node.location.start` -/
def locStart : PTree → Nat
  | .tok t => t.start
  | .node (some a) _ => locStart a
  | .node none ((o, _) :: _) => o.start
  | .node none [] => 0

/-- the offset of the "Unrecognized operator" error: `ast.ops[0].location` -/
def opsStart : List (Token × Option PTree) → Nat
  | (o, _) :: _ => o.start
  | [] => 0

/-- `_guarantee_call` (the caller has checked that the operand is an Element or a Call) -/
def guaranteeCall : Item → Except Err Call
  | .elem e =>
    let name := match e.name with
      | .str s => if s ≠ "" then NameRef.vsym s else NameRef.str s
      | n => n
    .ok (.mk { e with capture := none, name := name, tag1 := false } [] [] false)
  | .call c => .ok c
  | .list _ => .error (.internal .assertion)

def nameToCapture : NameRef → Option String
  | .str s => some s
  | .vsym s => some s
  | .none => none

/-- `value_evaluate` (dispatch on the node's key: the shape of the arguments and the operator texts) -/
def valueEvaluate : PTree → Except Err VNode
  | .tok t => .ok (.sym t.value)
  -- "X , X"  vmake_sequence / "X = X"  vmake_keyword
  | .node (some a) [(o, some b)] =>
    if o.value = "," then do
      let a ← valueEvaluate a
      let b ← valueEvaluate b
      match b with
      | .list xs => pure (.list (a :: xs))
      | b => pure (.list [a, b])
    else if o.value = "=" then do
      let key ← valueEvaluate a
      match key with
      | .sym s =>
        let value ← valueEvaluate b
        pure (.kw s value)
      | _ => .error (.syntax (locStart a + 1))
    else .error (.syntax (o.start + 1))
  -- "X ( _ ) _"  vmake_call
  | .node (some fn) [(o1, none), (o2, none)] =>
    if o1.value = "(" ∧ o2.value = ")" then do
      let fn ← valueEvaluate fn
      pure (.call fn [])
    else .error (.syntax (o1.start + 1))
  -- "X ( X ) _"  vmake_call
  | .node (some fn) [(o1, some args), (o2, none)] =>
    if o1.value = "(" ∧ o2.value = ")" then do
      let fn ← valueEvaluate fn
      let args ← valueEvaluate args
      match args with
      | .list xs => pure (.call fn xs)
      | a => pure (.call fn [a])
    else .error (.syntax (o1.start + 1))
  | .node _ rest => .error (.syntax (opsStart rest + 1))

/-! the evaluation actions, on already evaluated operands (`here` = `node.location.start + 1`) -/

def makeNestedImm (here : Nat) (parent child : Item) : Except Err Item :=
  match parent, child with
  | .list _, _ => .error (.syntax here)
  | _, .list _ => .error (.syntax here)
  | parent, .elem e => do
    let pc ← guaranteeCall parent
    pure (.call (.mk pc.element pc.children (pc.captures ++ [e.withFocus]) pc.immediate))
  | parent, .call (.mk ce cch ccap _) => do
    let pc ← guaranteeCall parent
    pure (.call (.mk pc.element (pc.children ++ [.mk ce cch ccap false]) pc.captures pc.immediate))

def makeClass (here : Nat) (element : Item) (tag : Except Err VNode) : Except Err Item :=
  match element with
  | .elem el => do
    let tag ← tag
    pure (.elem { el with category := some tag })
  | _ => .error (.syntax here)

def makeFocus (here : Nat) : Item → Except Err Item
  | .elem el => pure (.elem el.withFocus)
  | _ => .error (.syntax here)

def makeDoubleFocus (here : Nat) : Item → Except Err Item
  | .elem el => pure (.elem { el with tag1 := false, tag2 := true })
  | _ => .error (.syntax here)

def makeDollar (here : Nat) : Item → Except Err Item
  | .elem nm =>
    pure (.elem { name := .none, capture := nameToCapture nm.name, tag1 := nm.tag1, tag2 := nm.tag2 })
  | _ => .error (.syntax here)

def makeCallCapture (here : Nat) (fn : Item) (names : List Item) : Except Err Item :=
  match fn with
  | .list _ => .error (.syntax here)
  | fn => do
    let fc ← guaranteeCall fn
    let caps := names.filterMap fun | .elem e => some e | _ => none
    let children := names.filterMap fun | .call c => some c | _ => none
    pure (.call (.mk fc.element (fc.children ++ children) (fc.captures ++ caps) fc.immediate))

def listify : Item → List Item
  | .list xs => xs
  | x => [x]

def makeSequence (a b : Item) : Item := .list (a :: listify b)

def makeAs (ctx : Ctx) (here : Nat) (element name : Item) : Except Err Item :=
  match element, name with
  | .elem el, .elem nm =>
    pure (.elem { el with capture := nameToCapture nm.name,
                          tag1 := el.tag1 || nm.tag1, tag2 := el.tag2 || nm.tag2 })
  | .call (.mk ce cch ccap imm), .elem nm =>
    let noTags := !nm.tag1 && !nm.tag2
    let newCap : Element :=
      { name := .str "#value", capture := nameToCapture nm.name,
        tag1 := if noTags then ctx == .root else nm.tag1, tag2 := nm.tag2 }
    pure (.call (.mk ce cch (ccap ++ [newCap]) imm))
  | _, _ => .error (.syntax here)

def makeEquals (here : Nat) (matchfn : Bool) (element : Item) (value : Except Err VNode) :
    Except Err Item :=
  match element with
  | .list _ => .error (.syntax here)
  | .elem el => do
    let value ← value
    let value := if matchfn then VNode.call .matchFn [value] else value
    pure (.elem { el with value := some value })
  | .call (.mk ce cch ccap imm) => do
    let value ← value
    let value := if matchfn then VNode.call .matchFn [value] else value
    pure (.call (.mk ce cch (ccap ++ [{ name := .str "#value", value := some value,
                                         capture := some "#value" }]) imm))

def makeSymbol (ctx : Ctx) (t : Token) : Item :=
  if t.value = "*" then .elem { name := .none }
  else .elem { name := .str t.value, capture := some t.value, tag1 := ctx == .root }

/-- `evaluate`: dispatch on the node's key (argument shape and operator texts) -/
def evaluate (ctx : Ctx) : PTree → Except Err Item
  | .tok t => .ok (makeSymbol ctx t)
  -- "X op X"
  | .node (some a) [(o, some b)] =>
    let here := locStart a + 1
    if o.value = ">" then do
      let parent ← evaluate ctx a
      let child ← evaluate ctx b
      makeNestedImm here parent child
    else if o.value = ":" then do
      let element ← evaluate ctx a
      makeClass here element (valueEvaluate b)
    else if o.value = "," then do
      let x ← evaluate ctx a
      let y ← evaluate ctx b
      pure (makeSequence x y)
    else if o.value = "as" then do
      let element ← evaluate ctx a
      let name ← evaluate ctx b
      makeAs ctx here element name
    else if o.value = "=" then do
      let element ← evaluate ctx a
      makeEquals here false element (valueEvaluate b)
    else if o.value = "~" then do
      let element ← evaluate ctx a
      makeEquals here true element (valueEvaluate b)
    else .error (.syntax (o.start + 1))
  -- "_ op X"
  | .node none [(o, some x)] =>
    let here := o.start + 1
    if o.value = ":" then
      makeClass here (.elem { name := .none }) (valueEvaluate x)
    else if o.value = "!" then do
      makeFocus here (← evaluate ctx x)
    else if o.value = "!!" then do
      makeDoubleFocus here (← evaluate ctx x)
    else if o.value = "$" then do
      makeDollar here (← evaluate ctx x)
    else .error (.syntax (o.start + 1))
  -- "_ ( X ) _"
  | .node none [(o1, some e), (o2, none)] =>
    if o1.value = "(" ∧ o2.value = ")" then evaluate ctx e
    else .error (.syntax (o1.start + 1))
  -- "X ( _ ) _"
  | .node (some f) [(o1, none), (o2, none)] =>
    if o1.value = "(" ∧ o2.value = ")" then do
      let fn ← evaluate ctx f
      makeCallCapture (locStart f + 1) fn []
    else .error (.syntax (o1.start + 1))
  -- "X ( X ) _"
  | .node (some f) [(o1, some ns), (o2, none)] =>
    if o1.value = "(" ∧ o2.value = ")" then do
      let fn ← evaluate ctx f
      let names ← evaluate .incall ns
      makeCallCapture (locStart f + 1) fn (listify names)
    else .error (.syntax (o1.start + 1))
  | .node _ rest => .error (.syntax (opsStart rest + 1))

/-- keys handled by `evaluate` / `valueEvaluate`, with the Python action each one mirrors -/
def evaluateKeys : List (String × String) :=
  [("_ ( X ) _", "make_group"), ("X > X", "make_nested_imm"), ("_ : X", "make_class"),
   ("X : X", "make_class"), ("_ ! X", "make_focus"), ("_ !! X", "make_double_focus"),
   ("_ $ X", "make_dollar"), ("X ( _ ) _", "make_call_capture"), ("X ( X ) _", "make_call_capture"),
   ("X , X", "make_sequence"), ("X as X", "make_as"), ("X = X", "make_equals"),
   ("X ~ X", "make_matchfn"), ("SYMBOL", "make_symbol")]

def valueEvaluateKeys : List (String × String) :=
  [("X , X", "vmake_sequence"), ("X ( _ ) _", "vmake_call"), ("X ( X ) _", "vmake_call"),
   ("X = X", "vmake_keyword"), ("SYMBOL", "vmake_symbol")]

/-- `Call.problems` on a capture whose name starts with `#`: `#loop_X` / `#endloop_X` are always
    accepted, otherwise the name must be one of the documented meta-variables -/
def isPrefixOf (p s : List Char) : Bool :=
  match p, s with
  | [], _ => true
  | _ :: _, [] => false
  | a :: p', b :: s' => a == b && isPrefixOf p' s'

def hashvarAccepted (valid : List String) (name : String) : Bool :=
  isPrefixOf "#loop_".toList name.toList || isPrefixOf "#endloop_".toList name.toList ||
    valid.contains name

def liftP {α} : Except PErr α → Except Err α
  | .ok a => .ok a
  | .error (.invalidToken off) => .error (.syntax off)
  | .error .index => .error (.internal .index)
  | .error .fuel => .error (.internal .fuel)

/-- `ptera.selector.parse` -/
def parse (tbl : Table) (code : List Ch) : Except Err Item := do
  match ← liftP (process tbl (lex code)) with
  | none => .error (.syntax 1)
  | some t => evaluate .root t

/-- `_select` on a string -/
def select0 (tbl : Table) (code : List Ch) : Except Err Call := do
  match ← parse tbl code with
  | .elem e => pure (.mk { name := .none } [] [e.withFocus] false)
  | .call c => pure c
  | .list _ => .error .selector

end Ptera.Selector
