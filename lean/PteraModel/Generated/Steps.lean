-- GENERATED (fallback: extraction failed: ExtractError: SyncedStackedTransforms.push: unrecognised statement at line 1206)
import PteraModel.Model.Sched
namespace Ptera.Generated.Steps
open Ptera.Sched
def toolerLines : List (String × Nat × List Step) := []
def untoolerLines : List (String × Nat × List Step) := []
end Ptera.Generated.Steps
