import PteraModel.Proofs.InvEvents
/-!
# Loop markers are balanced (C06)

With the recording handler, for every variable `x`: along the events of an activation of the reference
semantics, `#loop_x` / `#endloop_x` form a balanced sequence (the depth never goes below its start and ends
where it started) however the activation ends — and a prefix of one if the activation is abandoned.

Expression-level computations record no loop marker at all (an instance of the generic invariant theorem,
`markKit`); statements are handled by a relational induction (`balS`): the events a statement appends are
`Open` (never below the start) and, unless the activation is abandoned, `Neutral`.
-/
namespace Ptera.Sem
open Ptera.Py

abbrev PW := PyLite.World
abbrev PH := PyLite.HState

/-- a loop marker -/
def isMark (n : String) : Bool :=
  "#loop_".toList.isPrefixOf n.toList || "#endloop_".toList.isPrefixOf n.toList

def NotMark (n : String) : Prop := isMark n = false

def evNames (st : St PW PH) : List String := st.hs.events.map (·.name)

theorem isMark_loop (x : String) : isMark ("#loop_" ++ x) = true := by
  have : "#loop_".toList.isPrefixOf ("#loop_" ++ x).toList = true := by simp [String.toList_append]
  simp [isMark, this]

theorem isMark_endloop (x : String) : isMark ("#endloop_" ++ x) = true := by
  have : "#endloop_".toList.isPrefixOf ("#endloop_" ++ x).toList = true := by simp [String.toList_append]
  simp [isMark, this]

theorem notMark_of_user (x : String) (h : isUser x = true) : NotMark x := by
  unfold NotMark isMark
  unfold isUser at h
  simp only [Bool.not_eq_true', Bool.or_eq_false_iff] at h
  have hh : "#".toList.isPrefixOf x.toList = false := h.1.2
  cases hx : x.toList with
  | nil => simp [hx]
  | cons c cs =>
    rw [hx] at hh
    have hc : c ≠ '#' := by
      intro e; subst e
      simp [List.isPrefixOf] at hh
    have e1 : "#loop_".toList = '#' :: "loop_".toList := by decide
    have e2 : "#endloop_".toList = '#' :: "endloop_".toList := by decide
    have hc' : ('#' == c) = false := by simpa using (Ne.symm hc)
    rw [e1, e2]
    simp only [List.isPrefixOf, hc', Bool.false_and, Bool.or_self]

/-! ## depth of the markers of one variable -/

def depth (x : String) : Nat → List String → Option Nat
  | d, [] => some d
  | d, n :: ns =>
    if n = "#loop_" ++ x then depth x (d + 1) ns
    else if n = "#endloop_" ++ x then
      (match d with
       | 0 => none
       | d' + 1 => depth x d' ns)
    else depth x d ns

/-- never below the start, back at the start -/
def Neutral (x : String) (w : List String) : Prop := ∀ d, depth x d w = some d
/-- never below the start -/
def Open (x : String) (w : List String) : Prop := ∀ d, ∃ k, depth x d w = some (d + k)

theorem depth_append (x : String) : ∀ (a b : List String) (d : Nat),
    depth x d (a ++ b) = (depth x d a).bind fun d' => depth x d' b
  | [], b, d => by simp [depth]
  | n :: ns, b, d => by
    simp only [List.cons_append, depth]
    split
    · exact depth_append x ns b (d + 1)
    · split
      · cases d with
        | zero => simp
        | succ d' => exact depth_append x ns b d'
      · exact depth_append x ns b d

theorem neutral_nil (x : String) : Neutral x [] := fun _ => rfl

theorem open_of_neutral {x : String} {w : List String} (h : Neutral x w) : Open x w :=
  fun d => ⟨0, by simpa using h d⟩

theorem neutral_append {x : String} {a b : List String} (ha : Neutral x a) (hb : Neutral x b) :
    Neutral x (a ++ b) := by
  intro d
  rw [depth_append, ha d]
  exact hb d

theorem open_append {x : String} {a b : List String} (ha : Open x a) (hb : Open x b) : Open x (a ++ b) := by
  intro d
  obtain ⟨k1, h1⟩ := ha d
  obtain ⟨k2, h2⟩ := hb (d + k1)
  refine ⟨k1 + k2, ?_⟩
  rw [depth_append, h1]
  simp only [Option.bind_some]
  rw [h2, Nat.add_assoc]

theorem neutral_of_notMark (x : String) : ∀ (w : List String), (∀ n ∈ w, NotMark n) → Neutral x w
  | [], _ => neutral_nil x
  | n :: ns, h => by
    intro d
    have hn : NotMark n := h n (by simp)
    have h1 : n ≠ "#loop_" ++ x := by
      intro e; rw [e] at hn; unfold NotMark at hn; rw [isMark_loop] at hn; exact absurd hn (by decide)
    have h2 : n ≠ "#endloop_" ++ x := by
      intro e; rw [e] at hn; unfold NotMark at hn; rw [isMark_endloop] at hn; exact absurd hn (by decide)
    simp only [depth, h1, h2, if_false]
    exact neutral_of_notMark x ns (fun m hm => h m (by simp [hm])) d

/-- the depth function counts: begins minus ends -/
theorem depth_counts (x : String) : ∀ (w : List String) (d d' : Nat), depth x d w = some d' →
    d + w.count ("#loop_" ++ x) = d' + w.count ("#endloop_" ++ x)
  | [], d, d', h => by simp [depth] at h; simp [h]
  | n :: ns, d, d', h => by
    simp only [depth] at h
    by_cases h1 : n = "#loop_" ++ x
    · subst h1
      have hne : "#loop_" ++ x ≠ "#endloop_" ++ x := by
        intro e
        have := congrArg String.toList e
        simp [String.toList_append] at this
      simp only [if_true] at h
      have ih := depth_counts x ns (d + 1) d' h
      simp only [List.count_cons_self, List.count_cons_of_ne hne]
      omega
    · simp only [h1, if_false] at h
      by_cases h2 : n = "#endloop_" ++ x
      · subst h2
        simp only [if_true] at h
        cases d with
        | zero => simp at h
        | succ d0 =>
          simp only at h
          have ih := depth_counts x ns d0 d' h
          have hne : "#endloop_" ++ x ≠ "#loop_" ++ x := by
            intro e
            have := congrArg String.toList e
            simp [String.toList_append] at this
          simp only [List.count_cons_self, List.count_cons_of_ne hne]
          omega
      · simp only [h2, if_false] at h
        have ih := depth_counts x ns d d' h
        simp only [List.count_cons_of_ne h1, List.count_cons_of_ne h2]
        exact ih

/-- a neutral sequence has as many ends as begins -/
theorem neutral_counts {x : String} {w : List String} (h : Neutral x w) :
    w.count ("#loop_" ++ x) = w.count ("#endloop_" ++ x) := by
  have := depth_counts x w 0 0 (h 0)
  omega

/-! ## expression level: no loop marker is recorded -/

/-- since `base`, no loop marker has been recorded -/
def NoMarkSince (base : List String) (st : St PW PH) : Prop :=
  ∃ w, evNames st = base ++ w ∧ ∀ n ∈ w, NotMark n

theorem noMarkSince_sameHs {base : List String} {st st2 : St PW PH} (h : NoMarkSince base st)
    (hh : st2.hs = st.hs) : NoMarkSince base st2 := by
  obtain ⟨w, h1, h2⟩ := h
  exact ⟨w, by unfold evNames at h1 ⊢; rw [hh]; exact h1, h2⟩

theorem markKitS (sc : String → Bool) (hk : Option Cfg) (base : List String) :
    InvKitS ({ host := PyLite.hostObs, sc := sc, hk := hk } : Env PW PH) (NoMarkSince base) (fun _ => True) NotMark where
  nUser := notMark_of_user
  nYield := by unfold NotMark; decide
  nReceive := by unfold NotMark; decide
  int := fun _ => trivial
  str := fun _ => trivial
  noneV := trivial
  bool := fun _ => trivial
  const := fun _ => trivial
  tuple := fun _ _ => trivial
  list := fun _ _ => trivial
  look := fun _ _ _ _ _ _ => trivial
  nameError := fun _ => trivial
  unpackError := trivial
  noActiveExc := trivial
  call := fun st f a hp _ _ => ⟨noMarkSince_sameHs hp rfl, by cases (PyLite.hostObs.call f a st.w).1 <;> simp [ResQ]⟩
  binop := fun st op a b hp _ _ => ⟨noMarkSince_sameHs hp rfl, by cases (PyLite.hostObs.binop op a b st.w).1 <;> simp [ResQ]⟩
  getattr := fun st o a hp _ => ⟨noMarkSince_sameHs hp rfl, by cases (PyLite.hostObs.getattr o a st.w).1 <;> simp [ResQ]⟩
  getitem := fun st o k hp _ _ => ⟨noMarkSince_sameHs hp rfl, by cases (PyLite.hostObs.getitem o k st.w).1 <;> simp [ResQ]⟩
  setattr := fun st o a v hp _ _ => ⟨noMarkSince_sameHs hp rfl, by cases (PyLite.hostObs.setattr o a v st.w).1 <;> simp [ResQ]⟩
  setitem := fun st o k v hp _ _ _ => ⟨noMarkSince_sameHs hp rfl, by cases (PyLite.hostObs.setitem o k v st.w).1 <;> simp [ResQ]⟩
  iter := fun st v hp _ => ⟨noMarkSince_sameHs hp rfl, by cases (PyLite.hostObs.iter v st.w).1 <;> simp [ResQ]⟩
  truthy := fun st v hp _ => ⟨noMarkSince_sameHs hp rfl, by cases (PyLite.hostObs.truthy v st.w).1 <;> simp [ResQ]⟩
  enter := fun st cm hp _ => ⟨noMarkSince_sameHs hp rfl, by cases (PyLite.hostObs.enter cm st.w).1 <;> simp [ResQ]⟩
  exit := fun st cm e hp _ _ => ⟨noMarkSince_sameHs hp rfl, by cases (PyLite.hostObs.exit cm e st.w).1 <;> simp [ResQ]⟩
  opaqueE := fun st src args hp _ => ⟨noMarkSince_sameHs hp rfl, by cases (PyLite.hostObs.opaqueE src args st.w).1 <;> simp [ResQ]⟩
  bindStmt := fun st src args hp _ => ⟨noMarkSince_sameHs hp rfl, by cases (PyLite.hostObs.bindStmt src args st.w).1 <;> simp [ResQ]⟩
  setLoc := fun _ _ _ hp _ => noMarkSince_sameHs hp rfl
  unsetLoc := fun _ _ hp => noMarkSince_sameHs hp rfl
  interact := fun st name key ann v ovr hp hn _ => by
    obtain ⟨w, h1, h2⟩ := hp
    unfold interactSem
    simp only [PyLite.hostObs]
    have hP : NoMarkSince base { st with hs := { st.hs with events := st.hs.events ++ [{ name := name, key := key, ann := ann, value := v, ovr := ovr }] } } := by
      refine ⟨w ++ [name], by simp [evNames] at h1 ⊢; rw [h1, List.append_assoc], ?_⟩
      intro n hn'
      simp only [List.mem_append, List.mem_singleton] at hn'
      rcases hn' with hn' | hn'
      · exact h2 n hn'
      · subst hn'; exact hn
    cases v <;> exact ⟨hP, by simp [ResQ]⟩
  yield := fun st y hp _ => by
    unfold doYield
    cases st.inp with
    | nil =>
      simp only
      split
      · exact ⟨hp, Or.inl rfl⟩
      · exact ⟨noMarkSince_sameHs hp rfl, Or.inr trivial⟩
    | cons cmd rest =>
      cases cmd with
      | send v => exact ⟨noMarkSince_sameHs hp rfl, trivial⟩
      | throw e => exact ⟨noMarkSince_sameHs hp rfl, Or.inr trivial⟩
  pushCur := fun _ _ hp _ => noMarkSince_sameHs hp rfl
  popCur := fun _ hp => noMarkSince_sameHs hp rfl
  curQ := fun _ _ _ _ => trivial

theorem markKit (sc : String → Bool) (hk : Option Cfg) (base : List String) :
    InvKitN ({ host := PyLite.hostObs, sc := sc, hk := hk } : Env PW PH) (NoMarkSince base) (fun _ => True) NotMark :=
  (markKitS sc hk base).toN

/-- the computation records no loop marker -/
def BalM {α} (m : M PW PH α) : Prop :=
  ∀ b, InvM (NoMarkSince b) (fun _ => True) (fun _ => True) m

theorem balM_of {α} {QA : α → Prop} {m : M PW PH α}
    (h : ∀ b, InvM (NoMarkSince b) (fun _ => True) QA m) : BalM m :=
  fun b => invM_mono (h b) fun _ _ => trivial

theorem balM_bind {α β} {m : M PW PH α} {f : α → M PW PH β} (hm : BalM m) (hf : ∀ a, BalM (f a)) :
    BalM (m >>= f) := fun b => invM_bind (hm b) fun a _ => hf a b

theorem balM_pure {α} (a : α) : BalM (pure a : M PW PH α) := fun _ => invM_pure _ a trivial

theorem balM_liftW {α} (f : PW → Res α × PW) : BalM (liftW f : M PW PH α) := by
  intro b st hp
  unfold liftW
  rcases hfw : f st.w with ⟨r, w⟩
  refine ⟨noMarkSince_sameHs hp rfl, ?_⟩
  cases r <;> simp [ResQ]

theorem balM_grow {α} {m : M PW PH α} (h : BalM m) (st : St PW PH) :
    ∃ w, evNames (m st).2 = evNames st ++ w ∧ ∀ n ∈ w, NotMark n :=
  (h (evNames st) st ⟨[], by simp, by simp⟩).1

/-! ## statement level -/

/-- what a statement appends to the recorded names never goes below the depth it started at and — unless the
    activation is abandoned — comes back to it -/
def BalX (x : String) (a : Exec PW PH) : Prop :=
  ∀ st, ∃ w, evNames (a st).2 = evNames st ++ w ∧ Open x w ∧ (ctlFatal (a st).1 = false → Neutral x w)

theorem balX_done (x : String) (c : Ctl) : BalX x (done c) :=
  fun st => ⟨[], by simp [done], open_of_neutral (neutral_nil x), fun _ => neutral_nil x⟩

theorem balX_stepM {α} {x : String} {m : M PW PH α} {k : α → Exec PW PH} (hm : BalM m)
    (hk : ∀ a, BalX x (k a)) : BalX x (stepM m k) := by
  intro st
  obtain ⟨w1, h1, h2⟩ := balM_grow hm st
  unfold stepM
  rcases hms : m st with ⟨r, st1⟩
  rw [hms] at h1
  simp only at h1
  cases r with
  | err e =>
    exact ⟨w1, h1, open_of_neutral (neutral_of_notMark x w1 h2), fun _ => neutral_of_notMark x w1 h2⟩
  | ok a =>
    simp only
    obtain ⟨w2, g1, g2, g3⟩ := hk a st1
    exact ⟨w1 ++ w2, by rw [g1, h1, List.append_assoc],
      open_append (open_of_neutral (neutral_of_notMark x w1 h2)) g2,
      fun hf => neutral_append (neutral_of_notMark x w1 h2) (g3 hf)⟩

theorem balX_seqX {x : String} {a b : Exec PW PH} (ha : BalX x a) (hb : BalX x b) : BalX x (seqX a b) := by
  intro st
  obtain ⟨wa, ha1, ha2, ha3⟩ := ha st
  unfold seqX
  rcases hast : a st with ⟨c, st1⟩
  rw [hast] at ha1 ha3
  simp only at ha1 ha3
  cases c with
  | normal =>
    simp only
    obtain ⟨wb, hb1, hb2, hb3⟩ := hb st1
    exact ⟨wa ++ wb, by rw [hb1, ha1, List.append_assoc], open_append ha2 hb2,
      fun hf => neutral_append (ha3 rfl) (hb3 hf)⟩
  | brk => exact ⟨wa, ha1, ha2, ha3⟩
  | cont => exact ⟨wa, ha1, ha2, ha3⟩
  | ret v => exact ⟨wa, ha1, ha2, ha3⟩
  | exc e => exact ⟨wa, ha1, ha2, ha3⟩

theorem balX_tryFinally {x : String} {a b : Exec PW PH} (ha : BalX x a) (hb : BalX x b) :
    BalX x (tryFinally a b) := by
  intro st
  obtain ⟨wa, ha1, ha2, ha3⟩ := ha st
  unfold tryFinally
  rcases hast : a st with ⟨c, st1⟩
  rw [hast] at ha1 ha3
  simp only at ha1 ha3 ⊢
  by_cases hf : ctlFatal c = true
  · simp only [hf, if_true]
    exact ⟨wa, ha1, ha2, fun h => absurd h (by decide)⟩
  · have hf' : ctlFatal c = false := by simpa using hf
    simp only [hf', Bool.false_eq_true, if_false]
    obtain ⟨wb, hb1, hb2, hb3⟩ := hb st1
    rcases hbst : b st1 with ⟨c2, st2⟩
    rw [hbst] at hb1 hb3
    simp only at hb1 hb3
    have hcomp : evNames st2 = evNames st ++ (wa ++ wb) := by rw [hb1, ha1, List.append_assoc]
    cases c2 with
    | normal => exact ⟨wa ++ wb, hcomp, open_append ha2 hb2, fun _ => neutral_append (ha3 hf') (hb3 rfl)⟩
    | brk => exact ⟨wa ++ wb, hcomp, open_append ha2 hb2, fun h => neutral_append (ha3 hf') (hb3 h)⟩
    | cont => exact ⟨wa ++ wb, hcomp, open_append ha2 hb2, fun h => neutral_append (ha3 hf') (hb3 h)⟩
    | ret v => exact ⟨wa ++ wb, hcomp, open_append ha2 hb2, fun h => neutral_append (ha3 hf') (hb3 h)⟩
    | exc e => exact ⟨wa ++ wb, hcomp, open_append ha2 hb2, fun h => neutral_append (ha3 hf') (hb3 h)⟩

theorem balX_tryExcept {x : String} {a o : Exec PW PH} {hd : Val → Exec PW PH} (ha : BalX x a)
    (hh : ∀ e, BalX x (hd e)) (ho : BalX x o) : BalX x (tryExcept a hd o) := by
  intro st
  obtain ⟨wa, ha1, ha2, ha3⟩ := ha st
  unfold tryExcept
  rcases hast : a st with ⟨c, st1⟩
  rw [hast] at ha1 ha3
  simp only at ha1 ha3 ⊢
  cases c with
  | exc e =>
    simp only
    by_cases hf : isFatal e = true
    · simp only [hf, if_true]
      exact ⟨wa, ha1, ha2, ha3⟩
    · have hf' : isFatal e = false := by simpa using hf
      simp only [hf', Bool.false_eq_true, if_false]
      obtain ⟨wb, hb1, hb2, hb3⟩ := hh e st1
      exact ⟨wa ++ wb, by rw [hb1, ha1, List.append_assoc], open_append ha2 hb2,
        fun h => neutral_append (ha3 (by simp [ctlFatal, hf'])) (hb3 h)⟩
  | normal =>
    simp only
    obtain ⟨wb, hb1, hb2, hb3⟩ := ho st1
    exact ⟨wa ++ wb, by rw [hb1, ha1, List.append_assoc], open_append ha2 hb2,
      fun h => neutral_append (ha3 rfl) (hb3 h)⟩
  | brk => exact ⟨wa, ha1, ha2, ha3⟩
  | cont => exact ⟨wa, ha1, ha2, ha3⟩
  | ret v => exact ⟨wa, ha1, ha2, ha3⟩

theorem balX_forLoop {x : String} (items : List Val) {it : Val → Exec PW PH} {o : Exec PW PH}
    (hi : ∀ v, BalX x (it v)) (ho : BalX x o) : BalX x (forLoop items it o) := by
  induction items with
  | nil => simpa [forLoop] using ho
  | cons v rest ih =>
    intro st
    obtain ⟨wa, ha1, ha2, ha3⟩ := hi v st
    unfold forLoop
    rcases hast : it v st with ⟨c, st1⟩
    rw [hast] at ha1 ha3
    simp only at ha1 ha3 ⊢
    cases c with
    | normal =>
      simp only
      obtain ⟨wb, hb1, hb2, hb3⟩ := ih st1
      exact ⟨wa ++ wb, by rw [hb1, ha1, List.append_assoc], open_append ha2 hb2,
        fun h => neutral_append (ha3 rfl) (hb3 h)⟩
    | cont =>
      simp only
      obtain ⟨wb, hb1, hb2, hb3⟩ := ih st1
      exact ⟨wa ++ wb, by rw [hb1, ha1, List.append_assoc], open_append ha2 hb2,
        fun h => neutral_append (ha3 rfl) (hb3 h)⟩
    | brk => exact ⟨wa, ha1, ha2, fun _ => ha3 rfl⟩
    | ret r => exact ⟨wa, ha1, ha2, ha3⟩
    | exc e => exact ⟨wa, ha1, ha2, ha3⟩

theorem balX_whileLoop {x : String} (fuel : Nat) {cd : M PW PH Bool} {b o : Exec PW PH}
    (hc : BalM cd) (hb : BalX x b) (ho : BalX x o) : BalX x (whileLoop fuel cd b o) := by
  induction fuel with
  | zero =>
    unfold whileLoop
    intro st
    exact ⟨[], by simp [done], open_of_neutral (neutral_nil x), fun h => by
      simp only [done] at h; exact absurd h (by decide)⟩
  | succ n ih =>
    unfold whileLoop
    refine balX_stepM hc fun t => ?_
    cases t with
    | false => simpa using ho
    | true =>
      simp only [if_true]
      intro st
      dsimp only
      obtain ⟨wa, ha1, ha2, ha3⟩ := hb st
      rcases hast : b st with ⟨c, st1⟩
      rw [hast] at ha1 ha3
      simp only at ha1 ha3 ⊢
      cases c with
      | normal =>
        simp only
        obtain ⟨wb, hb1, hb2, hb3⟩ := ih st1
        exact ⟨wa ++ wb, by rw [hb1, ha1, List.append_assoc], open_append ha2 hb2,
          fun h => neutral_append (ha3 rfl) (hb3 h)⟩
      | cont =>
        simp only
        obtain ⟨wb, hb1, hb2, hb3⟩ := ih st1
        exact ⟨wa ++ wb, by rw [hb1, ha1, List.append_assoc], open_append ha2 hb2,
          fun h => neutral_append (ha3 rfl) (hb3 h)⟩
      | brk => exact ⟨wa, ha1, ha2, fun _ => ha3 rfl⟩
      | ret r => exact ⟨wa, ha1, ha2, ha3⟩
      | exc e => exact ⟨wa, ha1, ha2, ha3⟩

theorem evNames_setW (st : St PW PH) (w : PW) : evNames { st with w := w } = evNames st := rfl

theorem balX_withBlock {x : String} (env : Env PW PH) (cm : Val) {b : Exec PW PH} (hb : BalX x b) :
    BalX x (withBlock env cm b) := by
  intro st
  obtain ⟨wa, ha1, ha2, ha3⟩ := hb st
  unfold withBlock
  rcases hast : b st with ⟨c, st1⟩
  rw [hast] at ha1 ha3
  simp only at ha1 ha3 ⊢
  cases c with
  | exc e =>
    simp only
    by_cases hf : isFatal e = true
    · simp only [hf, if_true]
      exact ⟨wa, ha1, ha2, ha3⟩
    · have hf' : isFatal e = false := by simpa using hf
      have hn : Neutral x wa := ha3 (by simp [ctlFatal, hf'])
      simp only [hf', Bool.false_eq_true, if_false]
      rcases env.host.exit cm (some e) st1.w with ⟨r, w⟩
      cases r with
      | ok t => cases t <;> exact ⟨wa, by simpa [evNames_setW] using ha1, ha2, fun _ => hn⟩
      | err e' => exact ⟨wa, by simpa [evNames_setW] using ha1, ha2, fun _ => hn⟩
  | normal =>
    simp only
    rcases env.host.exit cm none st1.w with ⟨r, w⟩
    cases r <;> exact ⟨wa, by simpa [evNames_setW] using ha1, ha2, fun _ => ha3 rfl⟩
  | brk =>
    simp only
    rcases env.host.exit cm none st1.w with ⟨r, w⟩
    cases r <;> exact ⟨wa, by simpa [evNames_setW] using ha1, ha2, fun _ => ha3 rfl⟩
  | cont =>
    simp only
    rcases env.host.exit cm none st1.w with ⟨r, w⟩
    cases r <;> exact ⟨wa, by simpa [evNames_setW] using ha1, ha2, fun _ => ha3 rfl⟩
  | ret v =>
    simp only
    rcases env.host.exit cm none st1.w with ⟨r, w⟩
    cases r <;> exact ⟨wa, by simpa [evNames_setW] using ha1, ha2, fun _ => ha3 rfl⟩

theorem balX_inHandler {x : String} (e : Val) (name : Option String) {b : Exec PW PH} (hb : BalX x b) :
    BalX x (inHandler e name b) := by
  intro st
  unfold inHandler
  cases name with
  | none =>
    simp only
    obtain ⟨wa, ha1, ha2, ha3⟩ := hb { st with cur := e :: st.cur }
    rcases hast : b { st with cur := e :: st.cur } with ⟨c, st1⟩
    rw [hast] at ha1 ha3
    exact ⟨wa, ha1, ha2, ha3⟩
  | some n =>
    simp only
    obtain ⟨wa, ha1, ha2, ha3⟩ := hb { st with cur := e :: st.cur, loc := fun y => if y = n then some e else st.loc y }
    rcases hast : b { st with cur := e :: st.cur, loc := fun y => if y = n then some e else st.loc y } with ⟨c, st1⟩
    rw [hast] at ha1 ha3
    exact ⟨wa, ha1, ha2, ha3⟩

/-! ## the markers of one iteration -/

theorem hookMetas_rec (sc : String → Bool) (cfg : Cfg) (ann : Option Ann) : (xs : List String) → (st : St PW PH) →
    ∃ st', hookMetas (recEnv sc cfg) ann xs st = (.ok (), st') ∧
      evNames st' = evNames st ++ xs.filter (fun x => shouldInstr cfg x (annTags ann))
  | [], st => ⟨st, rfl, by simp⟩
  | x :: xs, st => by
    simp only [hookMetas]
    rw [bind_def_M]
    by_cases hi : shouldInstr cfg x (annTags ann) = true
    · rw [hookMeta_rec sc cfg x ann (.bool true) hi (by simp) st]
      simp only
      obtain ⟨st', h1, h2⟩ := hookMetas_rec sc cfg ann xs
        { st with hs := { st.hs with events := st.hs.events ++ [metaEv x ann (.bool true)] } }
      refine ⟨st', h1, ?_⟩
      rw [h2]
      simp [evNames, hi, metaEv]
    · have hi' : shouldInstr cfg x (annTags ann) = false := by simpa using hi
      have : hookMeta (recEnv sc cfg) x ann (.bool true) st = (.ok (), st) := by
        unfold hookMeta; simp [recEnv, hi']; rfl
      rw [this]
      simp only
      obtain ⟨st', h1, h2⟩ := hookMetas_rec sc cfg ann xs st
      exact ⟨st', h1, by rw [h2]; simp [hi']⟩

theorem loop_ne_endloop (y x : String) : "#loop_" ++ y ≠ "#endloop_" ++ x := by
  intro h
  have := congrArg String.toList h
  simp [String.toList_append] at this

/-- how many of the loop variables are `x` with captured markers -/
def cnt (cfg : Cfg) (x : String) (vars : List String) : Nat :=
  (vars.filter fun y => shouldInstr cfg ("#loop_" ++ y) [] && y == x).length

theorem depth_opens (cfg : Cfg) (x : String) : ∀ (vars : List String) (d : Nat),
    depth x d ((vars.map ("#loop_" ++ ·)).filter fun n => shouldInstr cfg n []) = some (d + cnt cfg x vars)
  | [], d => by simp [depth, cnt]
  | y :: ys, d => by
    simp only [List.map_cons, List.filter_cons, cnt]
    by_cases hc : shouldInstr cfg ("#loop_" ++ y) [] = true
    · simp only [hc, if_true, Bool.true_and]
      by_cases hyx : y = x
      · subst hyx
        simp only [depth, if_true, beq_self_eq_true, List.length_cons]
        have := depth_opens cfg y ys (d + 1)
        simp only [cnt] at this
        rw [this]; congr 1; omega
      · have hne : "#loop_" ++ y ≠ "#loop_" ++ x := fun h => hyx ((String.append_right_inj _).1 h)
        have hb : (y == x) = false := by simpa using hyx
        simp only [depth, hne, loop_ne_endloop y x, if_false, hb, Bool.false_eq_true]
        exact depth_opens cfg x ys d
    · have hc' : shouldInstr cfg ("#loop_" ++ y) [] = false := by simpa using hc
      simp only [hc', Bool.false_eq_true, if_false, Bool.false_and]
      exact depth_opens cfg x ys d

theorem depth_closes (cfg : Cfg) (x : String)
    (hsym : ∀ y, shouldInstr cfg ("#endloop_" ++ y) [] = shouldInstr cfg ("#loop_" ++ y) []) :
    ∀ (vars : List String) (d : Nat),
    depth x (d + cnt cfg x vars) ((vars.map ("#endloop_" ++ ·)).filter fun n => shouldInstr cfg n []) = some d
  | [], d => by simp [depth, cnt]
  | y :: ys, d => by
    simp only [List.map_cons, List.filter_cons, cnt, hsym y]
    by_cases hc : shouldInstr cfg ("#loop_" ++ y) [] = true
    · simp only [hc, if_true, Bool.true_and]
      by_cases hyx : y = x
      · subst hyx
        have hne : "#endloop_" ++ y ≠ "#loop_" ++ y := fun h => loop_ne_endloop y y h.symm
        simp only [depth, hne, if_false, if_true, beq_self_eq_true, List.length_cons]
        have := depth_closes cfg y hsym ys d
        simp only [cnt] at this
        exact this
      · have hne : "#endloop_" ++ y ≠ "#endloop_" ++ x := fun h => hyx ((String.append_right_inj _).1 h)
        have hne2 : "#endloop_" ++ y ≠ "#loop_" ++ x := fun h => loop_ne_endloop x y h.symm
        have hb : (y == x) = false := by simpa using hyx
        simp only [depth, hne, hne2, if_false, hb, Bool.false_eq_true]
        exact depth_closes cfg x hsym ys d
    · have hc' : shouldInstr cfg ("#loop_" ++ y) [] = false := by simpa using hc
      simp only [hc', Bool.false_eq_true, if_false, Bool.false_and]
      exact depth_closes cfg x hsym ys d

/-- an opening part that goes up by `c`, a body, a closing part (run on every non-abandoned way out) that
    goes down by `c` -/
theorem balX_bracket {x : String} {O B C : Exec PW PH} (c : Nat)
    (hO : ∀ st, ∃ st' wo, O st = (.normal, st') ∧ evNames st' = evNames st ++ wo ∧ ∀ d, depth x d wo = some (d + c))
    (hC : ∀ st, ∃ st' wc, C st = (.normal, st') ∧ evNames st' = evNames st ++ wc ∧ ∀ d, depth x (d + c) wc = some d)
    (hB : BalX x B) : BalX x (tryFinally (seqX O B) C) := by
  intro st
  obtain ⟨sto, wo, hO1, hO2, hO3⟩ := hO st
  obtain ⟨wb, hb1, hb2, hb3⟩ := hB sto
  unfold tryFinally seqX
  rw [hO1]
  simp only
  rcases hbst : B sto with ⟨cb, stb⟩
  rw [hbst] at hb1 hb3
  simp only at hb1 hb3 ⊢
  by_cases hf : ctlFatal cb = true
  · simp only [hf, if_true]
    refine ⟨wo ++ wb, by rw [hb1, hO2, List.append_assoc], ?_, fun h => absurd h (by decide)⟩
    intro d
    obtain ⟨k, hk⟩ := hb2 (d + c)
    exact ⟨c + k, by rw [depth_append, hO3 d]; simp only [Option.bind_some]; rw [hk, Nat.add_assoc]⟩
  · have hf' : ctlFatal cb = false := by simpa using hf
    simp only [hf', Bool.false_eq_true, if_false]
    obtain ⟨stc, wc, hC1, hC2, hC3⟩ := hC stb
    rw [hC1]
    simp only
    have hn : Neutral x (wo ++ wb ++ wc) := by
      intro d
      rw [depth_append, depth_append, hO3 d]
      simp only [Option.bind_some]
      rw [hb3 hf' (d + c)]
      simp only [Option.bind_some]
      exact hC3 d
    exact ⟨wo ++ wb ++ wc, by rw [hC2, hb1, hO2, List.append_assoc, List.append_assoc, List.append_assoc],
      open_of_neutral hn, fun _ => hn⟩

/-! ## expressions, targets and bindings record no marker -/

section
variable (sc : String → Bool) (cfg : Cfg)

theorem bE (e : Expr) (h : coreE e = true) : BalM (evalE (recEnv sc cfg) e) :=
  balM_of fun b => invE (markKit sc (some cfg) b) e h

theorem bT (t : Target) (h : coreT t = true) (v : Val) : BalM (storeT (recEnv sc cfg) t v) :=
  balM_of fun b => invT (markKit sc (some cfg) b) t h v trivial

theorem bAssignT (t : Target) (h : coreAssignT t = true) (ann : Option Ann) (v : Val) :
    BalM (assignT (recEnv sc cfg) t ann v) :=
  balM_of fun b => invM_assignT (markKit sc (some cfg) b) t h ann v trivial

theorem bAssignTs (ts : List Target) (h : coreAssignTL ts = true) (v : Val) :
    BalM (assignTs (recEnv sc cfg) v ts) :=
  balM_of fun b => invM_assignTs (markKit sc (some cfg) b) ts h v trivial

theorem bPostBind (xs : List String) (h : ∀ x ∈ xs, isUser x = true) : BalM (postBind (recEnv sc cfg) xs) :=
  balM_of fun b => invM_postBind (markKit sc (some cfg) b) xs h

theorem bPostBind1 (x : String) (h : isUser x = true) : BalM (postBind1 (recEnv sc cfg) x) :=
  balM_of fun b => invM_postBind1 (markKit sc (some cfg) b) x h

theorem bLookup (x : String) (h : isUser x = true) : BalM (lookup (recEnv sc cfg) x) :=
  balM_of fun b => invM_lookup (markKit sc (some cfg) b) x h

theorem bSetLoc (x : String) (v : Val) : BalM (setLoc x (some v) : M PW PH Unit) :=
  balM_of fun b => invM_setLoc (markKit (fun _ => false) none b) x v trivial

theorem bHook (name : String) (hn : NotMark name) (ann : Option Ann) (v : Val) (keyed : Bool) (key : Val) :
    BalM (hook (recEnv sc cfg) name ann v keyed key) :=
  balM_of fun b => invM_hook (markKit sc (some cfg) b) name hn ann v trivial keyed key

theorem bForM (l : List (String × Val)) :
    BalM (l.forM fun (x, v) => (setLoc x (some v) : M PW PH Unit)) :=
  balM_of fun b => invM_forM_setLoc (markKit (fun _ => false) none b) l fun _ _ => trivial

theorem bTruthyE (e : Expr) (h : coreE e = true) : BalM (truthyE (recEnv sc cfg) e) := by
  unfold truthyE
  exact balM_bind (bE sc cfg e h) fun v => balM_liftW _

/-- the markers an iteration opens -/
theorem opens_rec (x : String) (vars : List String) (st : St PW PH) :
    ∃ st' wo, (stepM (hookMetas (recEnv sc cfg) none (vars.map ("#loop_" ++ ·))) fun _ => done .normal) st = (.normal, st')
      ∧ evNames st' = evNames st ++ wo ∧ ∀ d, depth x d wo = some (d + cnt cfg x vars) := by
  obtain ⟨st', h1, h2⟩ := hookMetas_rec sc cfg none (vars.map ("#loop_" ++ ·)) st
  refine ⟨st', _, ?_, h2, fun d => depth_opens cfg x vars d⟩
  unfold stepM
  rw [h1]
  rfl

theorem closes_rec (x : String) (hsym : ∀ y, shouldInstr cfg ("#endloop_" ++ y) [] = shouldInstr cfg ("#loop_" ++ y) [])
    (vars : List String) (st : St PW PH) :
    ∃ st' wc, (stepM (hookMetas (recEnv sc cfg) none (vars.map ("#endloop_" ++ ·))) fun _ => done .normal) st = (.normal, st')
      ∧ evNames st' = evNames st ++ wc ∧ ∀ d, depth x (d + cnt cfg x vars) wc = some d := by
  obtain ⟨st', h1, h2⟩ := hookMetas_rec sc cfg none (vars.map ("#endloop_" ++ ·)) st
  refine ⟨st', _, ?_, h2, fun d => depth_closes cfg x hsym vars d⟩
  unfold stepM
  rw [h1]
  rfl

/-! ## statements -/

mutual
theorem balS (x : String) (hsym : ∀ y, shouldInstr cfg ("#endloop_" ++ y) [] = shouldInstr cfg ("#loop_" ++ y) [])
    (fuel : Nat) : (s : Stmt) → coreS s = true → BalX x (execS (recEnv sc cfg) fuel s)
  | .assign ts v, h => by
    simp only [coreS, Bool.and_eq_true] at h
    simp only [execS]
    exact balX_stepM (bE sc cfg v h.2) fun u =>
      balX_stepM (bAssignTs sc cfg ts (by simpa using h.1.2) u) fun _ => balX_done x _
  | .augassign t op v, h => by
    simp only [coreS, Bool.and_eq_true] at h
    have hv := bE sc cfg v h.2
    cases t with
    | name y =>
      have hu : isUser y = true := by simpa [coreAugT] using h.1
      simp only [execS]
      refine balX_stepM ?_ fun _ => balX_done x _
      exact balM_bind (bLookup sc cfg y hu) fun a => balM_bind hv fun b =>
        balM_bind (balM_liftW _) fun cc => balM_bind (bSetLoc y cc) fun _ => bPostBind1 sc cfg y hu
    | attr e a =>
      simp only [coreAugT, Bool.and_eq_true] at h
      simp only [execS]
      refine balX_stepM ?_ fun _ => balX_done x _
      exact balM_bind (bE sc cfg e h.1.1) fun o => balM_bind (balM_liftW _) fun cur =>
        balM_bind hv fun b => balM_bind (balM_liftW _) fun r => balM_liftW _
    | sub e i =>
      simp only [coreAugT, Bool.and_eq_true] at h
      simp only [execS]
      refine balX_stepM ?_ fun _ => balX_done x _
      exact balM_bind (bE sc cfg e h.1.1.1.1) fun o => balM_bind (bE sc cfg i h.1.1.2) fun k =>
        balM_bind (balM_liftW _) fun cur => balM_bind hv fun b => balM_bind (balM_liftW _) fun r => balM_liftW _
    | tuple ts => simp [coreAugT] at h
    | list ts => simp [coreAugT] at h
    | starred t => simp [coreAugT] at h
  | .annassign t ann v, h => by
    simp only [coreS, Bool.and_eq_true] at h
    cases t with
    | name y =>
      have hu : isUser y = true := by simpa using h.1
      cases v with
      | some e =>
        simp only [execS]
        exact balX_stepM (bE sc cfg e (by simpa [coreOptE] using h.2)) fun u =>
          balX_stepM (bAssignT sc cfg (.name y) (by simpa [coreAssignT] using hu) (some ann) u)
            fun _ => balX_done x _
      | none =>
        simp only [execS]
        refine balX_stepM ?_ fun _ => balX_done x _
        refine balM_bind (balM_of (QA := fun _ => True) fun b st hp => ?_) fun r => bSetLoc y r
        exact (markKit sc (some cfg) b).interact st y .noneV _ .absent true hp (notMark_of_user y hu) (Or.inl rfl)
    | tuple ts => simp at h
    | list ts => simp at h
    | starred t => simp at h
    | attr e a => simp at h
    | sub e i => simp at h
  | .expr e, h => by
    simp only [coreS] at h
    simp only [execS]
    exact balX_stepM (bE sc cfg e h) fun _ => balX_done x _
  | .ret v, h => by
    simp only [coreS] at h
    simp only [execS]
    have hval : NotMark "#value" := by unfold NotMark; decide
    cases v with
    | none =>
      simp only [pure_bind_M]
      exact balX_stepM (bHook sc cfg "#value" hval none .noneV false .noneV) fun r => balX_done x _
    | some e =>
      simp only
      refine balX_stepM ?_ fun r => balX_done x _
      exact balM_bind (bE sc cfg e (by simpa [coreOptE] using h)) fun u =>
        bHook sc cfg "#value" hval none u false .noneV
  | .pass, _ => by simp only [execS]; exact balX_done x _
  | .brk, _ => by simp only [execS]; exact balX_done x _
  | .cont, _ => by simp only [execS]; exact balX_done x _
  | .raise e, h => by
    simp only [coreS] at h
    cases e with
    | none =>
      simp only [execS]
      intro st
      dsimp only
      cases st.cur with
      | nil => exact ⟨[], by simp, open_of_neutral (neutral_nil x), fun _ => neutral_nil x⟩
      | cons e0 rest => exact ⟨[], by simp, open_of_neutral (neutral_nil x), fun _ => neutral_nil x⟩
    | some e =>
      simp only [execS]
      exact balX_stepM (bE sc cfg e (by simpa [coreOptE] using h)) fun v => balX_done x _
  | .ite cnd b o, h => by
    simp only [coreS, Bool.and_eq_true] at h
    simp only [execS]
    refine balX_stepM (bTruthyE sc cfg cnd h.1.1) fun t => ?_
    cases t
    · simpa using balB x hsym fuel o h.2
    · simpa using balB x hsym fuel b h.1.2
  | .while cnd b o, h => by
    simp only [coreS, Bool.and_eq_true] at h
    simp only [execS]
    exact balX_whileLoop fuel (bTruthyE sc cfg cnd h.1.1) (balB x hsym fuel b h.1.2) (balB x hsym fuel o h.2)
  | .for t it b o, h => by
    simp only [coreS, Bool.and_eq_true] at h
    simp only [execS]
    refine balX_stepM (balM_bind (bE sc cfg it h.1.1.2) fun v => balM_liftW _) fun items => ?_
    refine balX_forLoop items (fun item => ?_) (balB x hsym fuel o h.2)
    refine balX_stepM (bT sc cfg t h.1.1.1 item) fun _ => ?_
    rw [stepM_bind, stepM_as_seq]
    exact balX_bracket (cnt cfg x (loopVars t)) (opens_rec sc cfg x (loopVars t))
      (closes_rec sc cfg x hsym (loopVars t))
      (balX_stepM (bPostBind sc cfg _ (coreT_names_user t h.1.1.1)) fun _ => balB x hsym fuel b h.1.2)
  | .try b hds o f, h => by
    simp only [coreS, Bool.and_eq_true] at h
    simp only [execS]
    exact balX_tryFinally (balX_tryExcept (balB x hsym fuel b h.1.1.1) (fun e => balHL x hsym fuel hds h.1.1.2 e)
      (balB x hsym fuel o h.1.2)) (balB x hsym fuel f h.2)
  | .with ctx t b, h => by
    simp only [coreS, Bool.and_eq_true] at h
    simp only [execS]
    refine balX_stepM (balM_bind (bE sc cfg ctx h.1.1) fun cm =>
      balM_bind (balM_liftW _) fun v => balM_pure (cm, v)) fun p => ?_
    obtain ⟨cm, v⟩ := p
    refine balX_withBlock _ cm ?_
    cases t with
    | none =>
      simp only [stepM_pure]
      exact balB x hsym fuel b h.2
    | some t =>
      have ht : coreT t = true := by simpa [coreOptT] using h.1.2
      simp only
      refine balX_stepM ?_ fun _ => balB x hsym fuel b h.2
      exact balM_bind (bT sc cfg t ht v) fun _ => bPostBind sc cfg _ (coreT_names_user t ht)
  | .defn name src loads, h => by
    simp only [coreS, Bool.and_eq_true, List.all_eq_true] at h
    simp only [execS]
    intro st
    exact balX_stepM (balM_liftW _) (fun vals =>
      balX_stepM (balM_bind (bSetLoc name _) fun _ => bPostBind1 sc cfg name h.1) fun _ => balX_done x _) st
  | .cls name src loads, h => by
    simp only [coreS, Bool.and_eq_true, List.all_eq_true] at h
    simp only [execS]
    intro st
    exact balX_stepM (balM_liftW _) (fun vals =>
      balX_stepM (balM_bind (bSetLoc name _) fun _ => bPostBind1 sc cfg name h.1) fun _ => balX_done x _) st
  | .imp bound src, h => by
    simp only [coreS, List.all_eq_true] at h
    simp only [execS]
    refine balX_stepM (balM_liftW _) fun vals => ?_
    refine balX_stepM ?_ fun _ => balX_done x _
    exact balM_bind (bForM _) fun _ => bPostBind sc cfg bound h
  | .glob _, h => by simp [coreS] at h
  | .nonloc _, h => by simp [coreS] at h
  | .opaque .., h => by simp [coreS] at h
theorem balB (x : String) (hsym : ∀ y, shouldInstr cfg ("#endloop_" ++ y) [] = shouldInstr cfg ("#loop_" ++ y) [])
    (fuel : Nat) : (ss : List Stmt) → coreB ss = true → BalX x (execB (recEnv sc cfg) fuel ss)
  | [], _ => by simp only [execB_nil]; exact balX_done x _
  | s :: ss, h => by
    simp only [coreB, Bool.and_eq_true] at h
    simp only [execB_cons]
    exact balX_seqX (balS x hsym fuel s h.1) (balB x hsym fuel ss h.2)
theorem balHL (x : String) (hsym : ∀ y, shouldInstr cfg ("#endloop_" ++ y) [] = shouldInstr cfg ("#loop_" ++ y) [])
    (fuel : Nat) : (hds : List Handler) → coreHL hds = true → ∀ e, BalX x (execHL (recEnv sc cfg) fuel hds e)
  | [], _, e => by simp only [execHL]; exact balX_done x _
  | .mk typ name body :: hds, h, e => by
    simp only [coreHL, coreH, Bool.and_eq_true] at h
    have ihb := balB x hsym fuel body h.1.2
    have ihh := balHL x hsym fuel hds h.2 e
    have hte : ∀ te, typ = some te → coreE te = true := by
      intro te ht; subst ht
      have := h.1.1.1
      simpa [coreOptE] using this.1
    cases name with
    | none =>
      have hbody : BalX x (inHandler e none (stepM (postBind (recEnv sc cfg) []) fun _ => execB (recEnv sc cfg) fuel body)) :=
        balX_inHandler e none (balX_stepM (by simp only [postBind]; exact balM_pure ()) fun _ => ihb)
      cases typ with
      | none =>
        simp only [execHL]
        exact hbody
      | some te =>
        simp only [execHL]
        refine balX_stepM (bE sc cfg te (hte te rfl)) fun tv => ?_
        split
        · exact hbody
        · exact ihh
    | some n =>
      have hbody : BalX x (inHandler e (some n) (stepM (postBind (recEnv sc cfg) [n]) fun _ => execB (recEnv sc cfg) fuel body)) :=
        balX_inHandler e (some n) (balX_stepM
          (bPostBind sc cfg [n] (fun y hy => by
            simp only [List.mem_singleton] at hy; subst hy; simpa using h.1.1.2)) fun _ => ihb)
      cases typ with
      | none =>
        simp only [execHL]
        exact hbody
      | some te =>
        simp only [execHL]
        refine balX_stepM (bE sc cfg te (hte te rfl)) fun tv => ?_
        split
        · exact hbody
        · exact ihh
end

end

/-! ## the whole activation -/

/-- the state after `#enter` has been recorded -/
def afterEnter (st0 : St PW PH) : St PW PH :=
  { st0 with hs := { st0.hs with events := st0.hs.events ++ [metaEv "#enter" (some enterAnn) (.bool true)] } }

/-- what the wrapper of the reference semantics adds after the inner run -/
def tailEvents (c : Ctl) : List Interaction :=
  match c with
  | .exc e => if isFatal e then [] else [metaEv "#error" none e, metaEv "#exit" (some exitAnn) (.bool true)]
  | _ => [metaEv "#exit" (some exitAnn) (.bool true)]

/-- an activation is: `#enter`, the inner run (globals, parameters, body), the tail -/
theorem activation_shape (sc : String → Bool) (cfg : Cfg)
    (hE : shouldInstr cfg "#enter" ["enter"] = true) (hX : shouldInstr cfg "#exit" ["exit"] = true)
    (hEr : shouldInstr cfg "#error" [] = true) (fuel : Nat) (f : FunDef) (hf : coreF f = true)
    (st0 : St PW PH) (h0 : MarkerFree PyLite.Good PyLite.WInv st0) :
    (runRef (recEnv sc cfg) fuel f st0).1 = (runInner (recEnv sc cfg) fuel f (afterEnter st0)).1
    ∧ (runRef (recEnv sc cfg) fuel f st0).2.hs.events
        = (runInner (recEnv sc cfg) fuel f (afterEnter st0)).2.hs.events
          ++ tailEvents (runInner (recEnv sc cfg) fuel f (afterEnter st0)).1 := by
  let env := recEnv sc cfg
  let enterEv := metaEv "#enter" (some enterAnn) (.bool true)
  let exitEv := metaEv "#exit" (some exitAnn) (.bool true)
  have hsplit : runCore env fuel f = seqX (stepM (hookMetas env (some enterAnn) ["#enter"]) fun _ => done .normal)
      (runInner env fuel f) := by
    unfold runCore runInner
    simp only [stepM_bind]
    rw [stepM_as_seq (hookMetas env (some enterAnn) ["#enter"]), seqX_assoc]
  have henter : hookMetas env (some enterAnn) ["#enter"] st0 = (.ok (), afterEnter st0) := by
    simp only [hookMetas]
    rw [bind_def_M, hookMeta_rec sc cfg "#enter" (some enterAnn) (.bool true) hE (by simp) st0]
    rfl
  have hcoreEq : runCore env fuel f st0 = runInner env fuel f (afterEnter st0) := by
    rw [hsplit]
    unfold seqX stepM
    rw [henter]
    rfl
  have hmark := marker_core env PyLite.Good PyLite.WInv PyLite.hostGood hndGood_obs fuel f hf st0 h0
  rw [runRef_eq]
  simp only [recEnv, hEr, hX, Bool.not_true, Bool.and_self, Bool.false_eq_true, if_false]
  unfold tryFinally tryExcept
  rcases hc : runCore env fuel f st0 with ⟨c, s1⟩
  have hc' : runCore { host := PyLite.hostObs, sc := sc, hk := some cfg } fuel f st0 = (c, s1) := hc
  rw [hcoreEq] at hc
  have hc2 : runInner { host := PyLite.hostObs, sc := sc, hk := some cfg } fuel f (afterEnter st0) = (c, s1) := hc
  rw [hc'] at hmark
  rw [hc2]
  simp only at hmark
  have hexit : ∀ s : St PW PH,
      (stepM (hookMetas env (some exitAnn) ["#exit"]) fun _ => done .normal) s
        = (.normal, { s with hs := { s.hs with events := s.hs.events ++ [exitEv] } }) := by
    intro s
    unfold stepM
    simp only [hookMetas]
    rw [bind_def_M, hookMeta_rec sc cfg "#exit" (some exitAnn) (.bool true) hX (by simp) s]
    rfl
  have hexit' := hexit
  simp only [env, recEnv] at hexit'
  cases c with
  | exc e =>
    simp only
    by_cases hfat : isFatal e = true
    · simp only [hfat, if_true, ctlFatal, tailEvents, List.append_nil, and_self]
    · simp only [Bool.not_eq_true] at hfat
      have hge : PyLite.Good e := by
        rcases hmark.2 with hf | hgd
        · rw [hfat] at hf; exact absurd hf (by decide)
        · exact hgd
      have hne : e ≠ .absent := PyLite.hostGood.notMarker e hge
      have herr : errorHook { host := PyLite.hostObs, sc := sc, hk := some cfg } e s1
          = (.exc e, { s1 with hs := { s1.hs with events := s1.hs.events ++ [metaEv "#error" none e] } }) := by
        unfold errorHook
        simp only [hEr, if_true]
        unfold stepM interactSem
        simp only [PyLite.hostObs, annValOpt]
        cases e <;> first | exact absurd rfl hne | rfl
      simp only [hfat, Bool.false_eq_true, if_false, herr, ctlFatal]
      rw [hexit']
      simp [tailEvents, hfat, exitEv]
  | normal =>
    simp only [done, ctlFatal, Bool.false_eq_true, if_false]
    rw [hexit']
    simp [tailEvents, exitEv]
  | brk =>
    simp only [ctlFatal, Bool.false_eq_true, if_false]
    rw [hexit']
    simp [tailEvents, exitEv]
  | cont =>
    simp only [ctlFatal, Bool.false_eq_true, if_false]
    rw [hexit']
    simp [tailEvents, exitEv]
  | ret v =>
    simp only [ctlFatal, Bool.false_eq_true, if_false]
    rw [hexit']
    simp [tailEvents, exitEv]

theorem balX_runInner (sc : String → Bool) (cfg : Cfg) (x : String)
    (hsym : ∀ y, shouldInstr cfg ("#endloop_" ++ y) [] = shouldInstr cfg ("#loop_" ++ y) [])
    (fuel : Nat) (f : FunDef) (hf : coreF f = true) : BalX x (runInner (recEnv sc cfg) fuel f) := by
  have hbody : coreB (bodyWithReturn f) = true := by
    simp only [coreF, Bool.and_eq_true] at hf
    exact hf.1.1.1.1.1
  unfold runInner
  refine balX_seqX (balX_stepM ?_ fun _ => balX_done x _) (balB sc cfg x hsym fuel _ hbody)
  exact balM_of fun b => invM_prologue (markKit sc (some cfg) b) f hf fun _ _ _ _ => trivial

/-- **Loop markers are balanced.**  For every function of the core fragment, every capture set that takes
    `#enter`, `#exit`, `#error` and treats `#loop_y` and `#endloop_y` alike, every input and driver script, and
    every variable `x`: along the names of the events recorded during the activation, the depth of
    `#loop_x` / `#endloop_x` never goes below where it started, and it is back there when the activation ends —
    by return, by falling off the end, by an exception, by exhaustion or close of a generator.  (An abandoned
    activation leaves a prefix of such a sequence.) -/
theorem loop_markers_balanced (sc : String → Bool) (cfg : Cfg)
    (hE : shouldInstr cfg "#enter" ["enter"] = true) (hX : shouldInstr cfg "#exit" ["exit"] = true)
    (hEr : shouldInstr cfg "#error" [] = true)
    (hsym : ∀ y, shouldInstr cfg ("#endloop_" ++ y) [] = shouldInstr cfg ("#loop_" ++ y) [])
    (fuel : Nat) (f : FunDef) (hf : coreF f = true) (st0 : St PW PH)
    (h0 : MarkerFree PyLite.Good PyLite.WInv st0) (x : String) :
    ∃ w, evNames (runRef (recEnv sc cfg) fuel f st0).2 = evNames st0 ++ w ∧ Open x w ∧
      (ctlFatal (runRef (recEnv sc cfg) fuel f st0).1 = false → Neutral x w) := by
  obtain ⟨hc, he⟩ := activation_shape sc cfg hE hX hEr fuel f hf st0 h0
  obtain ⟨wi, hi1, hi2, hi3⟩ := balX_runInner sc cfg x hsym fuel f hf (afterEnter st0)
  have hnE : NotMark "#enter" := by unfold NotMark; decide
  have hnX : NotMark "#exit" := by unfold NotMark; decide
  have hnR : NotMark "#error" := by unfold NotMark; decide
  have htail : ∀ n ∈ (tailEvents (runInner (recEnv sc cfg) fuel f (afterEnter st0)).1).map (·.name), NotMark n := by
    intro n hn
    unfold tailEvents at hn
    split at hn
    · split at hn
      · simp at hn
      · simp only [metaEv, List.map_cons, List.map_nil, List.mem_cons, List.not_mem_nil, or_false] at hn
        rcases hn with rfl | rfl
        · exact hnR
        · exact hnX
    · simp only [metaEv, List.map_cons, List.map_nil, List.mem_singleton] at hn
      subst hn; exact hnX
  have h1 : Neutral x ["#enter"] := neutral_of_notMark x _ (by intro n hn; simp at hn; subst hn; exact hnE)
  have h3 := neutral_of_notMark x _ htail
  refine ⟨["#enter"] ++ wi ++ (tailEvents (runInner (recEnv sc cfg) fuel f (afterEnter st0)).1).map (·.name), ?_, ?_, ?_⟩
  · unfold evNames at hi1 ⊢
    rw [he, List.map_append, hi1]
    simp [afterEnter, metaEv, List.append_assoc]
  · exact open_append (open_append (open_of_neutral h1) hi2) (open_of_neutral h3)
  · intro hf'
    rw [hc] at hf'
    exact neutral_append (neutral_append h1 (hi3 hf')) h3

end Ptera.Sem
