import PteraModel.Proofs.EraseFun
import PteraModel.Proofs.PyLiteSpec
/-!
The host of the generated programs never hands ptera's marker to a program: the hypotheses of the
transparency theorem are satisfiable (by the very host the executable correspondence runs).
-/
namespace Ptera.Sem.PyLite
open Ptera.Py Ptera.Sem

mutual
/-- a value that contains neither ptera's marker nor ptera's globals object -/
def good : Val → Bool
  | .int _ | .str _ | .noneV | .bool _ => true
  | .tuple vs => goodL vs
  | .list vs => goodL vs
  | .obj kind payload => kind != "DictPile" && goodL payload
  | .absent => false
def goodL : List Val → Bool
  | [] => true
  | v :: vs => good v && goodL vs
end

def Good (v : Val) : Prop := good v = true

/-- what the helper object `O` holds is good -/
def WInv (w : World) : Prop := Good w.oa ∧ Good w.ob ∧ ∀ p ∈ w.items, Good p.2

/-- the same host with a handler that only records -/
def hostObs : Host World HState :=
  { host with hnd := fun i hs => (.ok i.value, { hs with events := hs.events ++ [i] }) }

theorem observer : Observer hostObs := fun _ _ => rfl

theorem goodL_iff (vs : List Val) : goodL vs = true ↔ ∀ v ∈ vs, Good v := by
  induction vs with
  | nil => simp [goodL]
  | cons v vs ih => simp [goodL, ih, Good]

theorem goodL_ints (l : List Int) : goodL (l.map Val.int) = true := by
  rw [goodL_iff]; intro v hv; simp only [List.mem_map] at hv; obtain ⟨n, _, rfl⟩ := hv; rfl

theorem pne : PneSpec hostObs where
  cls := ⟨cls "PteraNameError", rfl, fun _ => rfl⟩
  notFatal := fun _ => rfl
  pyCls := ⟨cls "NameError", rfl, fun _ => rfl⟩
  pyNotFatal := fun _ => rfl

theorem hostSpecObs : HostSpec hostObs where
  absent := hostSpec.absent
  key := hostSpec.key
  suspend := hostSpec.suspend
  resume := hostSpec.resume
  baseExc := hostSpec.baseExc
  nameErr := hostSpec.nameErr
  pyNameErr := hostSpec.pyNameErr
  frame := hostSpec.frame
  globals := hostSpec.globals
  truthyBool := hostSpec.truthyBool

end Ptera.Sem.PyLite

namespace Ptera.Sem.PyLite
open Ptera.Py Ptera.Sem

theorem good_exc (c : String) (args : List Val) (h : goodL args = true) : Good (exc c args) := by
  simp [Good, exc, good, goodL, h]

theorem fatal_isFatal (s : String) : isFatal (fatal s) = true := rfl

theorem resGood_fatal {α} (GA : α → Prop) (w : World) (hw : WInv w) (s : String) :
    ResGood Good WInv GA ((.err (fatal s) : Res α), w) := ⟨hw, Or.inl rfl⟩

theorem hostGood : HostGood hostObs Good WInv where
  notMarker := fun v h => by cases v <;> simp_all [Good, good]
  int := fun _ => rfl
  str := fun _ => rfl
  noneV := rfl
  bool := fun _ => rfl
  const := fun _ => rfl
  tuple := fun vs h => by simpa [Good, good] using (goodL_iff vs).2 h
  list := fun vs h => by simpa [Good, good] using (goodL_iff vs).2 h
  glob := fun x v hu hgl => by
    have hgl' : glob x = some v := hgl
    unfold glob at hgl'
    split at hgl' <;> first
      | (exfalso; revert hu; decide)
      | (injection hgl' with e; subst e; rfl)
      | simp at hgl'
  call := fun f a w hf ha hw => by
    show ResGood Good WInv Good (call f a w)
    unfold call
    split
    · exact ⟨hw, rfl⟩
    · exact ⟨hw, Or.inr rfl⟩
    · exact ⟨hw, Or.inr rfl⟩
    · exact ⟨hw, rfl⟩
    · split
      · exact ⟨hw, by simp [Good, good, goodL_ints]⟩
      · exact ⟨hw, by simp [Good, good, goodL_ints]⟩
      · exact ⟨hw, by simp [Good, good, goodL_ints]⟩
      · exact ⟨hw, by simp [Good, good, goodL_ints]⟩
      · refine ⟨hw, ?_⟩
        show good (.tuple _) = true
        simp only [good]
        rw [goodL_iff]
        intro v hv
        simp only [List.mem_map] at hv
        obtain ⟨n, _, rfl⟩ := hv
        rfl
      · exact ⟨hw, Or.inr rfl⟩
    · exact ⟨hw, rfl⟩
    · exact ⟨hw, rfl⟩
    · refine ⟨hw, ?_⟩
      rename_i kind v
      have hv : Good v := ha v (by simp)
      show good (keyVal kind v) = true
      simp only [keyVal, good, goodL, Bool.and_true]
      exact by simpa [Good] using hv
    · exact ⟨hw, ha _ (by simp)⟩
    · exact ⟨hw, ha _ (by simp)⟩
    · exact resGood_fatal _ w hw _
    · exact resGood_fatal _ w hw _
    · exact ⟨hw, Or.inr rfl⟩
  binop := fun op a b w ha hb hw => by
    show ResGood Good WInv Good (binop op a b w)
    unfold binop
    split
    · exact absurd (show good (.obj "DictPile" []) = true from hb) (by decide)
    · split
      · split <;> first | exact ⟨hw, rfl⟩ | exact resGood_fatal _ w hw _
      · exact resGood_fatal _ w hw _
  getattr := fun o a w ho hw => by
    show ResGood Good WInv Good (getattr o a w)
    unfold getattr
    split
    · exact ⟨hw, hw.1⟩
    · exact ⟨hw, hw.2.1⟩
    · exact resGood_fatal _ w hw _
  getitem := fun o k w ho hk hw => by
    show ResGood Good WInv Good (getitem o k w)
    unfold getitem
    split
    · -- the globals object is not a good value
      exact absurd (show good (.obj "DictPile" []) = true from ho) (by decide)
    · split
      · split
        · rename_i p hp
          exact ⟨hw, hw.2.2 p (List.mem_of_find?_eq_some hp)⟩
        · exact ⟨hw, Or.inr rfl⟩
      · exact resGood_fatal _ w hw _
    · exact resGood_fatal _ w hw _
  setattr := fun o a v w ho hv hw => by
    show ResGood Good WInv (fun _ => True) (setattr o a v w)
    unfold setattr
    split
    · exact ⟨⟨hv, hw.2.1, hw.2.2⟩, trivial⟩
    · exact ⟨⟨hw.1, hv, hw.2.2⟩, trivial⟩
    · exact resGood_fatal _ w hw _
  setitem := fun o k v w ho hk hv hw => by
    show ResGood Good WInv (fun _ => True) (setitem o k v w)
    unfold setitem
    split
    · split
      · refine ⟨⟨hw.1, hw.2.1, ?_⟩, trivial⟩
        intro p hp
        simp only [List.mem_append, List.mem_filter, List.mem_singleton] at hp
        rcases hp with hp | hp
        · exact hw.2.2 p hp.1
        · subst hp; exact hv
      · exact resGood_fatal _ w hw _
    · exact resGood_fatal _ w hw _
  iter := fun v w hv hw => by
    show ResGood Good WInv (fun items => ∀ x ∈ items, Good x) (iter v w)
    unfold iter
    split
    · exact ⟨hw, (goodL_iff _).1 (by simpa [Good, good] using hv)⟩
    · exact ⟨hw, (goodL_iff _).1 (by simpa [Good, good] using hv)⟩
    · exact ⟨hw, (goodL_iff _).1 (by
        have : good (.obj "generator" _) = true := hv
        simp [good] at this; exact this)⟩
    · exact ⟨hw, (goodL_iff _).1 (by
        have : good (.obj "dict" _) = true := hv
        simp [good] at this; exact this)⟩
    · exact ⟨hw, Or.inr rfl⟩
  truthy := fun v w hv hw => by
    show ResGood Good WInv (fun _ => True) (truthy v w)
    unfold truthy
    split <;> exact ⟨hw, trivial⟩
  enter := fun cm w hcm hw => by
    show ResGood Good WInv Good (enter cm w)
    unfold enter
    split
    · exact ⟨hw, rfl⟩
    · exact ⟨hw, Or.inr rfl⟩
  exit := fun cm e w hcm he hw => by
    show ResGood Good WInv (fun _ => True) (exit cm e w)
    unfold exit
    split
    · exact ⟨hw, trivial⟩
    · exact ⟨hw, Or.inr rfl⟩
  opaqueE := fun src args w _ hw => resGood_fatal _ w hw "unmodelled"
  bindStmt := fun src args w _ hw => by
    show ResGood Good WInv (fun vals => ∀ x ∈ vals, Good x) (bindStmt src args w)
    unfold bindStmt
    split
    · exact ⟨hw, fun x hx => by simp at hx; subst hx; rfl⟩
    · split
      · exact ⟨hw, fun x hx => by simp at hx; subst hx; rfl⟩
      · split
        · exact ⟨hw, fun x hx => by simp at hx; subst hx; rfl⟩
        · split
          · exact ⟨hw, fun x hx => by simp at hx; subst hx; rfl⟩
          · exact resGood_fatal _ w hw _
  nameError := fun x => rfl
  unpackError := rfl
  genExit := rfl
  noActiveExc := rfl

end Ptera.Sem.PyLite

namespace Ptera.Sem
open Ptera.Py

/-- the initial variables: what is not a parameter is unbound -/
theorem initLoc_none (x : String) : (params : List String) → (args : List Val) → x ∉ params →
    initLoc params args [] x = none
  | [], args, _ => by simp [initLoc]
  | p :: ps, [], _ => by simp [initLoc]
  | p :: ps, a :: as, h => by
    have hpx : (p == x) = false := by
      simp only [List.mem_cons, not_or] at h
      simpa using (Ne.symm h.1)
    have ih := initLoc_none x ps as (fun hm => h (by simp [hm]))
    simp only [initLoc, List.append_nil, List.zip_cons_cons, List.find?_cons, hpx] at ih ⊢
    exact ih

/-- … and every parameter is bound to one of the arguments -/
theorem initLoc_some (x : String) : (params : List String) → (args : List Val) → x ∈ params →
    params.length ≤ args.length → ∃ v ∈ args, initLoc params args [] x = some v
  | [], _, h, _ => by simp at h
  | p :: ps, [], _, hl => by simp at hl
  | p :: ps, a :: as, h, hl => by
    by_cases hpx : p = x
    · subst hpx
      exact ⟨a, by simp, by simp [initLoc]⟩
    · have hbeq : (p == x) = false := by simpa using hpx
      have hm : x ∈ ps := by
        simp only [List.mem_cons] at h
        rcases h with h | h
        · exact absurd h.symm hpx
        · exact h
      obtain ⟨v, hv, hi⟩ := initLoc_some x ps as hm (by simpa using hl)
      refine ⟨v, by simp [hv], ?_⟩
      simp only [initLoc, List.append_nil, List.zip_cons_cons, List.find?_cons, hbeq] at hi ⊢
      exact hi

end Ptera.Sem
