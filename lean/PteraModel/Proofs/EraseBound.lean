import PteraModel.Proofs.EraseExpr
/-!
# Erasure, part 3: Python's own stores leave the names bound, so re-binding them to themselves is a no-op
-/
namespace Ptera.Sem
open Ptera.Py

variable {W HS : Type}

/-- the computation does not touch the variables -/
def LocPres {α} (m : M W HS α) : Prop := ∀ st, (m st).2.loc = st.loc

theorem locPres_pure {α} (a : α) : LocPres (pure a : M W HS α) := fun _ => rfl
theorem locPres_throw {α} (e : Val) : LocPres (M.throw e : M W HS α) := fun _ => rfl

theorem locPres_bind {α β} {m : M W HS α} {f : α → M W HS β} (hm : LocPres m) (hf : ∀ a, LocPres (f a)) :
    LocPres (m >>= f) := by
  intro st
  rw [bind_def_M]
  have h1 := hm st
  rcases hmst : m st with ⟨r, st1⟩
  rw [hmst] at h1
  simp only at h1
  cases r with
  | ok a => simp only; rw [hf a st1, h1]
  | err e => exact h1

theorem locPres_liftW {α} (f : W → Res α × W) : LocPres (liftW f : M W HS α) := by
  intro st; unfold liftW; rcases f st.w with ⟨r, w⟩; rfl

theorem locPres_lookup (env : Env W HS) (x : String) : LocPres (lookup env x) := by
  intro st; unfold lookup; cases lookupV env st x <;> rfl

mutual
theorem locPres_evalE (env : Env W HS) : (e : Expr) → simpleE e = true → LocPres (evalE env e)
  | .int _, _ | .str _, _ | .noneLit, _ | .bool _, _ | .constOther _, _ => by
    simp only [evalE]; exact locPres_pure _
  | .name x, _ => by simp only [evalE]; exact locPres_lookup env x
  | .call f args, h => by
    simp only [simpleE, Bool.and_eq_true] at h
    simp only [evalE]
    exact locPres_bind (locPres_evalE env f h.1) fun _ =>
      locPres_bind (locPres_evalEL env args h.2) fun _ => locPres_liftW _
  | .attr v a, h => by
    simp only [simpleE] at h
    simp only [evalE]
    exact locPres_bind (locPres_evalE env v h) fun _ => locPres_liftW _
  | .sub v i, h => by
    simp only [simpleE, Bool.and_eq_true] at h
    simp only [evalE]
    exact locPres_bind (locPres_evalE env v h.1) fun _ =>
      locPres_bind (locPres_evalE env i h.2) fun _ => locPres_liftW _
  | .tuple es, h => by
    simp only [simpleE] at h
    simp only [evalE]
    exact locPres_bind (locPres_evalEL env es h) fun _ => locPres_pure _
  | .list es, h => by
    simp only [simpleE] at h
    simp only [evalE]
    exact locPres_bind (locPres_evalEL env es h) fun _ => locPres_pure _
  | .binop op l r, h => by
    simp only [simpleE, Bool.and_eq_true] at h
    simp only [evalE]
    exact locPres_bind (locPres_evalE env l h.1) fun _ =>
      locPres_bind (locPres_evalE env r h.2) fun _ => locPres_liftW _
  | .walrus _ _, h => by simp [simpleE] at h
  | .yield _, h => by simp [simpleE] at h
  | .interact .., h => by simp [simpleE] at h
  | .opaque src loads s0 a0, _ => by
    simp only [evalE]
    intro st; rfl
theorem locPres_evalEL (env : Env W HS) : (es : List Expr) → simpleEL es = true → LocPres (evalEL env es)
  | [], _ => by simp only [evalEL]; exact locPres_pure _
  | e :: es, h => by
    simp only [simpleEL, Bool.and_eq_true] at h
    simp only [evalEL]
    exact locPres_bind (locPres_evalE env e h.1) fun _ =>
      locPres_bind (locPres_evalEL env es h.2) fun _ => locPres_pure _
end

/-- what was bound stays bound -/
def Keeps {α} (m : M W HS α) : Prop := ∀ st y, st.loc y ≠ none → (m st).2.loc y ≠ none

theorem keeps_of_locPres {α} {m : M W HS α} (h : LocPres m) : Keeps m := fun st y hy => by rw [h st]; exact hy

theorem keeps_bind {α β} {m : M W HS α} {f : α → M W HS β} (hm : Keeps m) (hf : ∀ a, Keeps (f a)) :
    Keeps (m >>= f) := by
  intro st y hy
  rw [bind_def_M]
  have h1 := hm st y hy
  rcases hmst : m st with ⟨r, st1⟩
  rw [hmst] at h1
  simp only at h1
  cases r with
  | ok a => exact hf a st1 y h1
  | err e => exact h1

theorem keeps_setLoc (x : String) (v : Val) : Keeps (setLoc x (some v) : M W HS Unit) := by
  intro st y hy
  simp only [setLoc]
  by_cases h : y = x <;> simp [h, hy]

theorem keeps_ite {α} (b : Bool) {m1 m2 : M W HS α} (h1 : Keeps m1) (h2 : Keeps m2) :
    Keeps (if b then m1 else m2) := by cases b <;> simp [h1, h2]

/-- on success, these names are bound -/
def Binds {α} (m : M W HS α) (xs : List String) : Prop :=
  ∀ st a, (m st).1 = .ok a → ∀ x ∈ xs, (m st).2.loc x ≠ none

theorem binds_nil {α} (m : M W HS α) : Binds m [] := fun _ _ _ x hx => by simp at hx

theorem binds_bind {α β} {m : M W HS α} {f : α → M W HS β} {xs ys : List String}
    (hm : Binds m xs) (hk : ∀ a, Keeps (f a)) (hf : ∀ a, Binds (f a) ys) : Binds (m >>= f) (xs ++ ys) := by
  intro st b hok x hx
  rw [bind_def_M] at hok ⊢
  have h1 := hm st
  rcases hmst : m st with ⟨r, st1⟩
  rw [hmst] at hok h1
  cases r with
  | ok a =>
    simp only at hok ⊢
    simp only [List.mem_append] at hx
    rcases hx with hx | hx
    · exact hk a st1 x (h1 a rfl x hx)
    · exact hf a st1 b hok x hx
  | err e => simp at hok

theorem binds_setLoc (x : String) (v : Val) : Binds (setLoc x (some v) : M W HS Unit) [x] := by
  intro st a _ y hy
  simp only [List.mem_singleton] at hy
  subst hy
  simp [setLoc]

mutual
theorem keeps_storeT (env : Env W HS) : (t : Target) → coreT t = true → ∀ v, Keeps (storeT env t v)
  | .name x, _, v => by simp only [storeT]; exact keeps_setLoc x v
  | .tuple ts, h, v => by
    simp only [coreT] at h
    simp only [storeT]
    exact keeps_bind (keeps_of_locPres (locPres_liftW _)) fun items =>
      keeps_ite _ (keeps_storeTL env ts h items) (keeps_of_locPres (locPres_throw _))
  | .list ts, h, v => by
    simp only [coreT] at h
    simp only [storeT]
    exact keeps_bind (keeps_of_locPres (locPres_liftW _)) fun items =>
      keeps_ite _ (keeps_storeTL env ts h items) (keeps_of_locPres (locPres_throw _))
  | .starred t, h, v => by
    simp only [coreT] at h
    simp only [storeT]
    exact keeps_storeT env t h v
  | .attr e a, h, v => by
    simp only [coreT, Bool.and_eq_true] at h
    simp only [storeT]
    exact keeps_of_locPres (locPres_bind (locPres_evalE env e h.2) fun _ => locPres_liftW _)
  | .sub e i, h, v => by
    simp only [coreT, Bool.and_eq_true] at h
    simp only [storeT]
    exact keeps_of_locPres (locPres_bind (locPres_evalE env e h.1.1.2) fun _ =>
      locPres_bind (locPres_evalE env i h.2) fun _ => locPres_liftW _)
theorem keeps_storeTL (env : Env W HS) : (ts : List Target) → coreTL ts = true → ∀ items, Keeps (storeTL env ts items)
  | [], _, items => by simp only [storeTL]; exact keeps_of_locPres (locPres_pure _)
  | .starred t :: ts, h, items => by
    simp only [coreTL, coreT, Bool.and_eq_true] at h
    simp only [storeTL]
    exact keeps_bind (keeps_storeT env t h.1 _) fun _ => keeps_storeTL env ts h.2 _
  | .name x :: ts, h, items => by
    cases items with
    | nil => simp only [storeTL]; exact keeps_of_locPres (locPres_throw _)
    | cons v vs =>
      simp only [coreTL, Bool.and_eq_true] at h
      simp only [storeTL]
      exact keeps_bind (keeps_storeT env (.name x) h.1 v) fun _ => keeps_storeTL env ts h.2 vs
  | .tuple us :: ts, h, items => by
    cases items with
    | nil => simp only [storeTL]; exact keeps_of_locPres (locPres_throw _)
    | cons v vs =>
      simp only [coreTL, Bool.and_eq_true] at h
      simp only [storeTL]
      exact keeps_bind (keeps_storeT env (.tuple us) h.1 v) fun _ => keeps_storeTL env ts h.2 vs
  | .list us :: ts, h, items => by
    cases items with
    | nil => simp only [storeTL]; exact keeps_of_locPres (locPres_throw _)
    | cons v vs =>
      simp only [coreTL, Bool.and_eq_true] at h
      simp only [storeTL]
      exact keeps_bind (keeps_storeT env (.list us) h.1 v) fun _ => keeps_storeTL env ts h.2 vs
  | .attr e a :: ts, h, items => by
    cases items with
    | nil => simp only [storeTL]; exact keeps_of_locPres (locPres_throw _)
    | cons v vs =>
      simp only [coreTL, Bool.and_eq_true] at h
      simp only [storeTL]
      exact keeps_bind (keeps_storeT env (.attr e a) h.1 v) fun _ => keeps_storeTL env ts h.2 vs
  | .sub e i :: ts, h, items => by
    cases items with
    | nil => simp only [storeTL]; exact keeps_of_locPres (locPres_throw _)
    | cons v vs =>
      simp only [coreTL, Bool.and_eq_true] at h
      simp only [storeTL]
      exact keeps_bind (keeps_storeT env (.sub e i) h.1 v) fun _ => keeps_storeTL env ts h.2 vs
end

theorem binds_ite {α} (b : Bool) {m1 m2 : M W HS α} {xs : List String} (h1 : Binds m1 xs) (h2 : Binds m2 xs) :
    Binds (if b then m1 else m2) xs := by cases b <;> simp [h1, h2]

theorem binds_throw {α} (e : Val) (xs : List String) : Binds (M.throw e : M W HS α) xs := by
  intro st a h; simp [M.throw] at h

theorem binds_weaken {α} {m : M W HS α} {xs ys : List String} (h : Binds m xs) (hsub : ∀ y ∈ ys, y ∈ xs) :
    Binds m ys := fun st a hok y hy => h st a hok y (hsub y hy)

mutual
theorem binds_storeT (env : Env W HS) : (t : Target) → coreT t = true → ∀ v, Binds (storeT env t v) t.names
  | .name x, _, v => by simp only [storeT, Target.names]; exact binds_setLoc x v
  | .tuple ts, h, v => by
    simp only [coreT] at h
    simp only [storeT, Target.names]
    have := binds_bind (m := (liftW (env.host.iter v) : M W HS (List Val))) (binds_nil _)
      (fun items => keeps_ite (fits ts items.length) (keeps_storeTL env ts h items) (keeps_of_locPres (locPres_throw env.host.unpackError)))
      (fun items => binds_ite (fits ts items.length) (binds_storeTL env ts h items) (binds_throw env.host.unpackError _))
    simpa using this
  | .list ts, h, v => by
    simp only [coreT] at h
    simp only [storeT, Target.names]
    have := binds_bind (m := (liftW (env.host.iter v) : M W HS (List Val))) (binds_nil _)
      (fun items => keeps_ite (fits ts items.length) (keeps_storeTL env ts h items) (keeps_of_locPres (locPres_throw env.host.unpackError)))
      (fun items => binds_ite (fits ts items.length) (binds_storeTL env ts h items) (binds_throw env.host.unpackError _))
    simpa using this
  | .starred t, h, v => by
    simp only [coreT] at h
    simp only [storeT, Target.names]
    exact binds_storeT env t h v
  | .attr e a, _, v => by simp only [Target.names]; exact binds_nil _
  | .sub e i, _, v => by simp only [Target.names]; exact binds_nil _
theorem binds_storeTL (env : Env W HS) : (ts : List Target) → coreTL ts = true → ∀ items,
    Binds (storeTL env ts items) (Target.namesL ts)
  | [], _, items => by simp only [Target.namesL]; exact binds_nil _
  | .starred t :: ts, h, items => by
    simp only [coreTL, coreT, Bool.and_eq_true] at h
    simp only [storeTL, Target.namesL, Target.names]
    exact binds_bind (binds_storeT env t h.1 _) (fun _ => keeps_storeTL env ts h.2 _) fun _ => binds_storeTL env ts h.2 _
  | .name x :: ts, h, items => by
    cases items with
    | nil => simp only [storeTL]; exact binds_throw _ _
    | cons v vs =>
      simp only [coreTL, Bool.and_eq_true] at h
      simp only [storeTL, Target.namesL]
      exact binds_bind (binds_storeT env (.name x) h.1 v) (fun _ => keeps_storeTL env ts h.2 vs) fun _ => binds_storeTL env ts h.2 vs
  | .tuple us :: ts, h, items => by
    cases items with
    | nil => simp only [storeTL]; exact binds_throw _ _
    | cons v vs =>
      simp only [coreTL, Bool.and_eq_true] at h
      simp only [storeTL, Target.namesL]
      exact binds_bind (binds_storeT env (.tuple us) h.1 v) (fun _ => keeps_storeTL env ts h.2 vs) fun _ => binds_storeTL env ts h.2 vs
  | .list us :: ts, h, items => by
    cases items with
    | nil => simp only [storeTL]; exact binds_throw _ _
    | cons v vs =>
      simp only [coreTL, Bool.and_eq_true] at h
      simp only [storeTL, Target.namesL]
      exact binds_bind (binds_storeT env (.list us) h.1 v) (fun _ => keeps_storeTL env ts h.2 vs) fun _ => binds_storeTL env ts h.2 vs
  | .attr e a :: ts, h, items => by
    cases items with
    | nil => simp only [storeTL]; exact binds_throw _ _
    | cons v vs =>
      simp only [coreTL, Bool.and_eq_true] at h
      simp only [storeTL, Target.namesL]
      exact binds_bind (binds_storeT env (.attr e a) h.1 v) (fun _ => keeps_storeTL env ts h.2 vs) fun _ => binds_storeTL env ts h.2 vs
  | .sub e i :: ts, h, items => by
    cases items with
    | nil => simp only [storeTL]; exact binds_throw _ _
    | cons v vs =>
      simp only [coreTL, Bool.and_eq_true] at h
      simp only [storeTL, Target.namesL]
      exact binds_bind (binds_storeT env (.sub e i) h.1 v) (fun _ => keeps_storeTL env ts h.2 vs) fun _ => binds_storeTL env ts h.2 vs
end

end Ptera.Sem
