/-
  The selector component of `HandlerCollection.proceed` (model M3, `proceedEnter`) does not
  depend on the accumulator heap, and on chain selectors it is the `enter` step of
  `Proofs/Embeddings.lean`.  This transfers the embedding-count invariant to the model of the
  real collection.
-/
import PteraModel.Model.Handlers
import PteraModel.Proofs.Embeddings
namespace Ptera.Handlers
open Ptera.Embeddings

def fitsB (infos : Array FnInfo) (fnId : Nat) (sel : Sel) : Bool :=
  (fitsSelector fnId (infos.getD fnId default) sel).isSome

/-- heap-free step on the selectors of the collection -/
def enterSel (infos : Array FnInfo) (fnId : Nat) : List Sel → List Sel
  | [] => []
  | sel :: rest =>
    (if !sel.immediate then [sel] else []) ++
    (if fitsB infos fnId sel then sel.children else []) ++ enterSel infos fnId rest

theorem proceedStep_sels (handlers : Array Handler) (infos : Array FnInfo) (fnId : Nat)
    (st : Interactor × Coll × Heap) (pair : Sel × Nat) :
    (proceedStep handlers (infos.getD fnId default) fnId st pair).2.1.map Prod.fst
      = st.2.1.map Prod.fst ++ enterSel infos fnId [pair.1] := by
  unfold proceedStep
  cases hf : fitsSelector fnId (infos.getD fnId default) pair.1 with
  | none =>
    have hf' : fitsSelector fnId (infos[fnId]?.getD default) pair.1 = none := by simpa using hf
    by_cases hi : pair.1.immediate <;> simp [enterSel, fitsB, hf', hi]
  | some capmap =>
    have hf' : fitsSelector fnId (infos[fnId]?.getD default) pair.1 = some capmap := by simpa using hf
    by_cases hi : pair.1.immediate <;> simp [enterSel, fitsB, hf', hi, Function.comp_def]

theorem enterSel_append (infos : Array FnInfo) (fnId : Nat) (xs ys : List Sel) :
    enterSel infos fnId (xs ++ ys) = enterSel infos fnId xs ++ enterSel infos fnId ys := by
  induction xs with
  | nil => simp [enterSel]
  | cons x xs ih => simp [enterSel, ih, List.append_assoc]

theorem proceedEnter_sels_aux (handlers : Array Handler) (infos : Array FnInfo) (fnId : Nat) :
    ∀ (coll : Coll) (st : Interactor × Coll × Heap),
      (coll.foldl (proceedStep handlers (infos.getD fnId default) fnId) st).2.1.map Prod.fst
      = st.2.1.map Prod.fst ++ enterSel infos fnId (coll.map Prod.fst) := by
  intro coll
  induction coll with
  | nil => intro st; simp [enterSel]
  | cons p rest ih =>
    intro st
    simp only [List.foldl_cons, List.map_cons]
    rw [ih, proceedStep_sels, List.append_assoc]
    congr 1
    exact (enterSel_append infos fnId [p.1] (rest.map Prod.fst)).symm

/-- the selectors pending inside an activation are computed from the selectors pending outside,
    whatever the accumulators are -/
theorem proceedEnter_sels (handlers : Array Handler) (infos : Array FnInfo) (fnId : Nat)
    (coll : Coll) (heap : Heap) :
    (proceedEnter handlers infos fnId coll heap).2.1.map Prod.fst
      = enterSel infos fnId (coll.map Prod.fst) := by
  unfold proceedEnter
  rw [proceedEnter_sels_aux]
  simp

/-! chain selectors -/

/-- one level of a chain: function, return-tag, captures -/
structure Level where
  fn : Option Nat
  fcat : Option String := Option.none
  captures : List El
  deriving Repr, Inhabited, DecidableEq

/-- the selector `l₁ > l₂ > … ` as a `Sel` (each level's only child is the next level) -/
def chainSel : List Level → Sel
  | [] => .mk Option.none Option.none [] [] false
  | [l] => .mk l.fn l.fcat l.captures [] false
  | l :: l2 :: ls => .mk l.fn l.fcat l.captures [chainSel (l2 :: ls)] false

def levelFits (infos : Array FnInfo) (fnId : Nat) (l : Level) : Bool :=
  fitsB infos fnId (.mk l.fn l.fcat l.captures [] false)

theorem fitsB_children (infos : Array FnInfo) (fnId : Nat) (f c caps ch ch' i i') :
    fitsB infos fnId (.mk f c caps ch i) = fitsB infos fnId (.mk f c caps ch' i') := by
  simp [fitsB, fitsSelector, Sel.fn, Sel.fcat, Sel.captures]

theorem enterSel_chain (infos : Array FnInfo) (fnId : Nat) :
    ∀ P : List (Entry Level), (∀ e ∈ P, e.2 ≠ []) →
      enterSel infos fnId (P.map fun e => chainSel e.2)
        = (enter (levelFits infos) fnId P).map fun e => chainSel e.2 := by
  intro P
  induction P with
  | nil => intro _; simp [enterSel, enter]
  | cons e rest ih =>
    intro h
    obtain ⟨d, t⟩ := e
    have hrest : ∀ e ∈ rest, e.2 ≠ [] := fun e he => h e (by simp [he])
    have ht : t ≠ [] := h (d, t) (by simp)
    match t, ht with
    | [l], _ =>
      have hfit : ¬ (levelFits infos fnId l = true ∧ ([] : List Level) ≠ []) := by simp
      simp only [List.map_cons, enterSel, chainSel, Sel.immediate, Sel.children, enter, if_neg hfit]
      simp [ih hrest]
    | l :: l2 :: ls, _ =>
      simp only [List.map_cons, enterSel, chainSel, Sel.immediate, Sel.children, enter]
      have hf : fitsB infos fnId (.mk l.fn l.fcat l.captures [chainSel (l2 :: ls)] false)
          = levelFits infos fnId l := fitsB_children ..
      rw [hf]
      by_cases hfit : levelFits infos fnId l = true
      · have : levelFits infos fnId l = true ∧ l2 :: ls ≠ [] := ⟨hfit, by simp⟩
        simp [hfit, ih hrest, chainSel]
      · have : ¬ (levelFits infos fnId l = true ∧ l2 :: ls ≠ []) := fun h => hfit h.1
        simp [hfit, ih hrest, chainSel]

end Ptera.Handlers

namespace Ptera.Handlers
open Ptera.Embeddings

theorem enter_nonempty (fits : Nat → Level → Bool) (a : Nat) :
    ∀ P : List (Entry Level), (∀ e ∈ P, e.2 ≠ []) → ∀ e ∈ enter fits a P, e.2 ≠ [] := by
  intro P
  induction P with
  | nil => intro _ e he; simp [enter] at he
  | cons e0 rest ih =>
    intro h e he
    obtain ⟨d, t⟩ := e0
    have h0 : t ≠ [] := h (d, t) (by simp)
    have hrest : ∀ e ∈ rest, e.2 ≠ [] := fun e he => h e (by simp [he])
    cases t with
    | nil => exact absurd rfl h0
    | cons l ls =>
      simp only [enter] at he
      split at he
      · rename_i hfit
        simp only [List.mem_cons] at he
        rcases he with rfl | rfl | he
        · simp
        · exact hfit.2
        · exact ih hrest e he
      · simp only [List.mem_cons] at he
        rcases he with rfl | he
        · simp
        · exact ih hrest e he

theorem pending_nonempty (fits : Nat → Level → Bool) (c : List Level) (hc : c ≠ []) :
    ∀ rs : List Nat, ∀ e ∈ pending fits c rs, e.2 ≠ [] := by
  intro rs
  induction rs with
  | nil => intro e he; simp [pending] at he; subst he; exact hc
  | cons a rs ih => exact enter_nonempty fits a _ ih

/-- the collection and heap after entering the activations `rs` (newest first), starting from
    the overlay's collection `coll0` -/
def collAfter (handlers : Array Handler) (infos : Array FnInfo) (coll0 : Coll) (heap0 : Heap) :
    List Nat → Coll × Heap
  | [] => (coll0, heap0)
  | a :: rs =>
    let prev := collAfter handlers infos coll0 heap0 rs
    let r := proceedEnter handlers infos a prev.1 prev.2
    (r.2.1, r.2.2)

/-- on a chain selector, the selectors pending in the model's collection after any stack of
    activations are exactly the entries of the embedding invariant -/
theorem collAfter_chain (handlers : Array Handler) (infos : Array FnInfo) (coll0 : Coll)
    (heap0 : Heap) (c : List Level) (hc : c ≠ []) (h0 : coll0.map Prod.fst = [chainSel c]) :
    ∀ rs : List Nat, (collAfter handlers infos coll0 heap0 rs).1.map Prod.fst
      = (pending (levelFits infos) c rs).map fun e => chainSel e.2 := by
  intro rs
  induction rs with
  | nil => simp [collAfter, pending, h0]
  | cons a rs ih =>
    simp only [collAfter, pending]
    rw [proceedEnter_sels, ih]
    exact enterSel_chain infos a _ (pending_nonempty _ c hc rs)

end Ptera.Handlers
