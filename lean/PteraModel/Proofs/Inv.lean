import PteraModel.Proofs.SimFun
/-!
# Invariants of a run: a generic theorem

If a predicate `P` on states and a predicate `Q` on values are preserved by every primitive of the interpreter
(`InvKit`), they are preserved by every expression, target, statement and block of the core fragment, in any of
the three modes.  Instances: "ptera's marker is nowhere" (C16) and "the events of the body carry only the names
of variables and of the body's meta events" (C06).
-/
namespace Ptera.Sem
open Ptera.Py

variable {W HS : Type}

/-- a result whose value (or exception) satisfies `Q` -/
def ResQ {α} (Q : Val → Prop) (QA : α → Prop) : Res α → Prop
  | .ok a => QA a
  | .err e => isFatal e = true ∨ Q e

def CtlQ (Q : Val → Prop) : Ctl → Prop
  | .ret v => Q v
  | .exc e => isFatal e = true ∨ Q e
  | _ => True

def updLoc (st : St W HS) (x : String) (v : Option Val) : St W HS :=
  { st with loc := fun y => if y = x then v else st.loc y }

/-- the names an interaction issued by the body of a function may carry -/
def bodyName (x : String) : Bool :=
  isUser x || x == "#value" || x == "#yield" || x == "#receive"
    || "#loop_".toList.isPrefixOf x.toList || "#endloop_".toList.isPrefixOf x.toList

structure InvKitB (env : Env W HS) (P : St W HS → Prop) (Q : Val → Prop) (N : String → Prop) : Prop where
  nUser : ∀ x, isUser x = true → N x
  int : ∀ n, Q (.int n)
  str : ∀ s, Q (.str s)
  noneV : Q .noneV
  bool : ∀ b, Q (.bool b)
  const : ∀ r, Q (.obj "const" [.str r])
  tuple : ∀ vs, (∀ v ∈ vs, Q v) → Q (.tuple vs)
  list : ∀ vs, (∀ v ∈ vs, Q v) → Q (.list vs)
  look : ∀ st x v, isUser x = true → P st → lookupV env st x = some v → Q v
  nameError : ∀ x, Q (env.host.nameError x)
  unpackError : Q env.host.unpackError
  noActiveExc : Q env.host.noActiveExc
  call : ∀ st f a, P st → Q f → (∀ v ∈ a, Q v) →
    P { st with w := (env.host.call f a st.w).2 } ∧ ResQ Q Q (env.host.call f a st.w).1
  binop : ∀ st op a b, P st → Q a → Q b →
    P { st with w := (env.host.binop op a b st.w).2 } ∧ ResQ Q Q (env.host.binop op a b st.w).1
  getattr : ∀ st o a, P st → Q o →
    P { st with w := (env.host.getattr o a st.w).2 } ∧ ResQ Q Q (env.host.getattr o a st.w).1
  getitem : ∀ st o k, P st → Q o → Q k →
    P { st with w := (env.host.getitem o k st.w).2 } ∧ ResQ Q Q (env.host.getitem o k st.w).1
  setattr : ∀ st o a v, P st → Q o → Q v →
    P { st with w := (env.host.setattr o a v st.w).2 } ∧ ResQ Q (fun _ => True) (env.host.setattr o a v st.w).1
  setitem : ∀ st o k v, P st → Q o → Q k → Q v →
    P { st with w := (env.host.setitem o k v st.w).2 } ∧ ResQ Q (fun _ => True) (env.host.setitem o k v st.w).1
  iter : ∀ st v, P st → Q v →
    P { st with w := (env.host.iter v st.w).2 } ∧ ResQ Q (fun items => ∀ x ∈ items, Q x) (env.host.iter v st.w).1
  truthy : ∀ st v, P st → Q v →
    P { st with w := (env.host.truthy v st.w).2 } ∧ ResQ Q (fun _ => True) (env.host.truthy v st.w).1
  enter : ∀ st cm, P st → Q cm →
    P { st with w := (env.host.enter cm st.w).2 } ∧ ResQ Q Q (env.host.enter cm st.w).1
  exit : ∀ st cm e, P st → Q cm → (∀ x, e = some x → Q x) →
    P { st with w := (env.host.exit cm e st.w).2 } ∧ ResQ Q (fun _ => True) (env.host.exit cm e st.w).1
  opaqueE : ∀ st src args, P st → (∀ p ∈ args, ∀ v, p.2 = some v → Q v) →
    P { st with w := (env.host.opaqueE src args st.w).2 } ∧ ResQ Q Q (env.host.opaqueE src args st.w).1
  bindStmt : ∀ st src args, P st → (∀ p ∈ args, ∀ v, p.2 = some v → Q v) →
    P { st with w := (env.host.bindStmt src args st.w).2 }
      ∧ ResQ Q (fun vals => ∀ x ∈ vals, Q x) (env.host.bindStmt src args st.w).1
  setLoc : ∀ st x v, P st → Q v → P (updLoc st x (some v))
  unsetLoc : ∀ st x, P st → P (updLoc st x none)
  interact : ∀ st name key ann v ovr, P st → N name → (v = .absent ∨ Q v) →
    P (interactSem env name key ann v ovr st).2 ∧ ResQ Q Q (interactSem env name key ann v ovr st).1
  pushCur : ∀ st e, P st → Q e → P { st with cur := e :: st.cur }
  popCur : ∀ st, P st → P { st with cur := st.cur.tail }
  curQ : ∀ st e, P st → e ∈ st.cur → Q e

/-- the names only statements issue: the loop markers and the value of `return` -/
structure StmtNames (N : String → Prop) : Prop where
  loop : ∀ x, N ("#loop_" ++ x)
  endloop : ∀ x, N ("#endloop_" ++ x)
  value : N "#value"

/-- the three steps of a `yield` expression: report the value, suspend, report what was sent -/
def yieldSeq (env : Env W HS) (x : Val) : M W HS Val :=
  hook env "#yield" (some exitAnn) x >>= fun y => doYield env y >>= fun r => hook env "#receive" (some enterAnn) r

/-- the kit: every primitive keeps `P` and answers within `Q`; a `yield` expression as a whole does -/
structure InvKitN (env : Env W HS) (P : St W HS → Prop) (Q : Val → Prop) (N : String → Prop) : Prop
    extends InvKitB env P Q N where
  yieldE : ∀ st x, P st → Q x → P (yieldSeq env x st).2 ∧ ResQ Q Q (yieldSeq env x st).1

/-- … or, step by step: the two events of a `yield` are ordinary interactions -/
structure InvKitS (env : Env W HS) (P : St W HS → Prop) (Q : Val → Prop) (N : String → Prop) : Prop
    extends InvKitB env P Q N where
  nYield : N "#yield"
  nReceive : N "#receive"
  yield : ∀ st y, P st → Q y → P (doYield env y st).2 ∧ ResQ Q Q (doYield env y st).1

/-- the kit for the names the body of a function may issue (loop markers included) -/
abbrev InvKit (env : Env W HS) (P : St W HS → Prop) (Q : Val → Prop) : Prop :=
  InvKitN env P Q (fun x => bodyName x = true)

/-- `m` keeps the invariant and answers within `QA` -/
def InvM {α} (P : St W HS → Prop) (Q : Val → Prop) (QA : α → Prop) (m : M W HS α) : Prop :=
  ∀ st, P st → P (m st).2 ∧ ResQ Q QA (m st).1

def InvX (P : St W HS → Prop) (Q : Val → Prop) (a : Exec W HS) : Prop :=
  ∀ st, P st → P (a st).2 ∧ CtlQ Q (a st).1

section
variable {P : St W HS → Prop} {Q : Val → Prop} {N : String → Prop}

theorem invM_pure {α} (QA : α → Prop) (a : α) (h : QA a) : InvM P Q QA (pure a) := fun _ hp => ⟨hp, h⟩

theorem invM_throw {α} (QA : α → Prop) (e : Val) (h : Q e) : InvM P Q QA (M.throw e : M W HS α) :=
  fun _ hp => ⟨hp, Or.inr h⟩

theorem invM_bind {α β} {QA : α → Prop} {QB : β → Prop} {m : M W HS α} {f : α → M W HS β}
    (hm : InvM P Q QA m) (hf : ∀ a, QA a → InvM P Q QB (f a)) : InvM P Q QB (m >>= f) := by
  intro st hp
  rw [bind_def_M]
  have h1 := hm st hp
  rcases hmst : m st with ⟨r, st1⟩
  rw [hmst] at h1
  cases r with
  | ok a => exact hf a h1.2 st1 h1.1
  | err e => exact ⟨h1.1, h1.2⟩

theorem invM_mono {α} {QA QA' : α → Prop} {m : M W HS α} (h : InvM P Q QA m) (hw : ∀ a, QA a → QA' a) :
    InvM P Q QA' m := by
  intro st hp
  obtain ⟨h1, h2⟩ := h st hp
  refine ⟨h1, ?_⟩
  cases hr : (m st).1 with
  | ok a => rw [hr] at h2; exact hw a h2
  | err e => rw [hr] at h2; exact h2

theorem invM_liftW {α} (QA : α → Prop) (f : W → Res α × W)
    (hf : ∀ st, P st → P { st with w := (f st.w).2 } ∧ ResQ Q QA (f st.w).1) : InvM P Q QA (liftW f) := by
  intro st hp
  have := hf st hp
  unfold liftW
  rcases hfw : f st.w with ⟨r, w⟩
  rw [hfw] at this
  exact this

theorem invM_lookup {env : Env W HS} (kit : InvKitN env P Q N) (x : String) (hx : isUser x = true) :
    InvM P Q Q (lookup env x) := by
  intro st hp
  unfold lookup
  cases hl : lookupV env st x with
  | none => exact ⟨hp, Or.inr (kit.nameError x)⟩
  | some v => exact ⟨hp, kit.look st x v hx hp hl⟩

theorem invM_setLoc {env : Env W HS} (kit : InvKitN env P Q N) (x : String) (v : Val) (hv : Q v) :
    InvM P Q (fun _ => True) (setLoc x (some v)) := fun st hp => ⟨kit.setLoc st x v hp hv, trivial⟩

theorem invM_hookB {env : Env W HS} (kit : InvKitB env P Q N) (name : String) (hn : N name)
    (ann : Option Ann) (v : Val) (hv : Q v) (keyed : Bool) (key : Val) :
    InvM P Q Q (hook env name ann v keyed key) := by
  unfold hook
  cases env.hk with
  | none => exact invM_pure _ _ hv
  | some cfg =>
    simp only
    split
    · exact fun st hp => kit.interact st name key _ v true hp hn (Or.inr hv)
    · exact invM_pure _ _ hv

theorem invM_hook {env : Env W HS} (kit : InvKitN env P Q N) (name : String) (hn : N name)
    (ann : Option Ann) (v : Val) (hv : Q v) (keyed : Bool) (key : Val) :
    InvM P Q Q (hook env name ann v keyed key) := invM_hookB kit.toInvKitB name hn ann v hv keyed key

/-- a step-by-step kit is a kit -/
theorem InvKitS.toN {env : Env W HS} (kit : InvKitS env P Q N) : InvKitN env P Q N where
  toInvKitB := kit.toInvKitB
  yieldE := fun st x hp hx =>
    (invM_bind (invM_hookB kit.toInvKitB "#yield" kit.nYield (some exitAnn) x hx false .noneV) fun y hy =>
      invM_bind (fun st hp => kit.yield st y hp hy) fun r hr =>
        invM_hookB kit.toInvKitB "#receive" kit.nReceive (some enterAnn) r hr false .noneV) st hp

theorem bodyName_loop (x : String) : bodyName ("#loop_" ++ x) = true := by
  have : "#loop_".toList.isPrefixOf ("#loop_" ++ x).toList = true := by
    simp [String.toList_append]
  simp [bodyName, this]

theorem bodyName_endloop (x : String) : bodyName ("#endloop_" ++ x) = true := by
  have : "#endloop_".toList.isPrefixOf ("#endloop_" ++ x).toList = true := by
    simp [String.toList_append]
  simp [bodyName, this]

theorem invM_hookMeta {env : Env W HS} (kit : InvKitN env P Q N) (name : String) (hn : N name)
    (ann : Option Ann) (v : Val) (hv : Q v) : InvM P Q (fun _ => True) (hookMeta env name ann v) := by
  unfold hookMeta
  cases env.hk with
  | none => exact invM_pure _ _ trivial
  | some cfg =>
    simp only
    split
    · exact invM_bind (QA := Q) (fun st hp => kit.interact st name .noneV _ v false hp hn (Or.inr hv))
        fun _ _ => invM_pure _ _ trivial
    · exact invM_pure _ _ trivial

theorem invM_hookMetas {env : Env W HS} (kit : InvKitN env P Q N) (ann : Option Ann) :
    (xs : List String) → (∀ x ∈ xs, N x) → InvM P Q (fun _ => True) (hookMetas env ann xs)
  | [], _ => by simp only [hookMetas]; exact invM_pure _ _ trivial
  | x :: xs, h => by
    simp only [hookMetas]
    exact invM_bind (invM_hookMeta kit x (h x (by simp)) ann _ (kit.bool true)) fun _ _ =>
      invM_hookMetas kit ann xs fun y hy => h y (by simp [hy])

theorem invM_postBind1 {env : Env W HS} (kit : InvKitN env P Q N) (x : String) (hx : isUser x = true) :
    InvM P Q (fun _ => True) (postBind1 env x) := by
  unfold postBind1
  cases env.hk with
  | none => exact invM_pure _ _ trivial
  | some cfg =>
    simp only
    exact invM_bind (invM_lookup kit x hx) fun v hv =>
      invM_bind (invM_hook kit x (kit.nUser _ hx) none v hv false .noneV) fun r hr => invM_setLoc kit x r hr

theorem invM_postBind {env : Env W HS} (kit : InvKitN env P Q N) :
    (xs : List String) → (∀ x ∈ xs, isUser x = true) → InvM P Q (fun _ => True) (postBind env xs)
  | [], _ => by simp only [postBind]; exact invM_pure _ _ trivial
  | x :: xs, h => by
    simp only [postBind]
    exact invM_bind (invM_postBind1 kit x (h x (by simp))) fun _ _ => invM_postBind kit xs fun y hy => h y (by simp [hy])

end

/-! ## expressions and targets -/

mutual
theorem invE {env : Env W HS} {P : St W HS → Prop} {Q : Val → Prop} {N : String → Prop} (kit : InvKitN env P Q N) :
    (e : Expr) → coreE e = true → InvM P Q Q (evalE env e)
  | .int n, _ => by simp only [evalE]; exact invM_pure _ _ (kit.int n)
  | .str s, _ => by simp only [evalE]; exact invM_pure _ _ (kit.str s)
  | .noneLit, _ => by simp only [evalE]; exact invM_pure _ _ kit.noneV
  | .bool b, _ => by simp only [evalE]; exact invM_pure _ _ (kit.bool b)
  | .constOther r, _ => by simp only [evalE]; exact invM_pure _ _ (kit.const r)
  | .name x, h => by
    simp only [coreE] at h
    simp only [evalE]
    exact invM_lookup kit x h
  | .call f args, h => by
    simp only [coreE, Bool.and_eq_true] at h
    simp only [evalE]
    exact invM_bind (invE kit f h.1) fun fv hfv => invM_bind (invEL kit args h.2) fun avs havs =>
      invM_liftW _ _ fun st hp => kit.call st fv avs hp hfv havs
  | .attr v a, h => by
    simp only [coreE] at h
    simp only [evalE]
    exact invM_bind (invE kit v h) fun x hx => invM_liftW _ _ fun st hp => kit.getattr st x a hp hx
  | .sub v i, h => by
    simp only [coreE, Bool.and_eq_true] at h
    simp only [evalE]
    exact invM_bind (invE kit v h.1) fun x hx => invM_bind (invE kit i h.2) fun k hk =>
      invM_liftW _ _ fun st hp => kit.getitem st x k hp hx hk
  | .tuple es, h => by
    simp only [coreE] at h
    simp only [evalE]
    exact invM_bind (invEL kit es h) fun vs hvs => invM_pure _ _ (kit.tuple vs hvs)
  | .list es, h => by
    simp only [coreE] at h
    simp only [evalE]
    exact invM_bind (invEL kit es h) fun vs hvs => invM_pure _ _ (kit.list vs hvs)
  | .binop op l r, h => by
    simp only [coreE, Bool.and_eq_true] at h
    simp only [evalE]
    exact invM_bind (invE kit l h.1) fun a ha => invM_bind (invE kit r h.2) fun b hb =>
      invM_liftW _ _ fun st hp => kit.binop st op a b hp ha hb
  | .walrus t v, h => by
    simp only [coreE, Bool.and_eq_true] at h
    simp only [evalE]
    exact invM_bind (invE kit v h.2) fun x hx =>
      invM_bind (invM_hook kit t (kit.nUser _ h.1) none x hx false .noneV) fun r hr =>
        invM_bind (invM_setLoc kit t r hr) fun _ _ => invM_pure _ _ hr
  | .yield v, h => by
    cases v with
    | none =>
      simp only [evalE, pure_bind_M]
      exact fun st hp => kit.yieldE st .noneV hp kit.noneV
    | some e0 =>
      simp only [coreE] at h
      simp only [evalE]
      exact invM_bind (invE kit e0 h) fun x hx => fun st hp => kit.yieldE st x hp hx
  | .interact .., h => by simp [coreE] at h
  | .opaque src loads s0 a0, h => by
    simp only [coreE, List.all_eq_true] at h
    simp only [evalE]
    intro st hp
    have hargs : ∀ p ∈ (loads.map fun x => (x, lookupV env st x)), ∀ v, p.2 = some v → Q v := by
      intro p hpm v hv
      simp only [List.mem_map] at hpm
      obtain ⟨x, hx, rfl⟩ := hpm
      exact kit.look st x v (h x hx) hp hv
    exact kit.opaqueE st src _ hp hargs
theorem invEL {env : Env W HS} {P : St W HS → Prop} {Q : Val → Prop} {N : String → Prop} (kit : InvKitN env P Q N) :
    (es : List Expr) → coreEL es = true → InvM P Q (fun vs => ∀ v ∈ vs, Q v) (evalEL env es)
  | [], _ => by simp only [evalEL]; exact invM_pure _ _ (fun v hv => by simp at hv)
  | e :: es, h => by
    simp only [coreEL, Bool.and_eq_true] at h
    simp only [evalEL]
    exact invM_bind (invE kit e h.1) fun v hv => invM_bind (invEL kit es h.2) fun vs hvs =>
      invM_pure _ _ (fun u hu => by
        simp only [List.mem_cons] at hu
        rcases hu with rfl | hu
        · exact hv
        · exact hvs u hu)
end

mutual
theorem invT {env : Env W HS} {P : St W HS → Prop} {Q : Val → Prop} {N : String → Prop} (kit : InvKitN env P Q N) :
    (t : Target) → coreT t = true → ∀ v, Q v → InvM P Q (fun _ => True) (storeT env t v)
  | .name x, _, v, hv => by simp only [storeT]; exact invM_setLoc kit x v hv
  | .tuple ts, h, v, hv => by
    simp only [coreT] at h
    simp only [storeT]
    refine invM_bind (invM_liftW _ _ fun st hp => kit.iter st v hp hv) fun items hitems => ?_
    split
    · exact invTL kit ts h items hitems
    · exact invM_throw _ _ kit.unpackError
  | .list ts, h, v, hv => by
    simp only [coreT] at h
    simp only [storeT]
    refine invM_bind (invM_liftW _ _ fun st hp => kit.iter st v hp hv) fun items hitems => ?_
    split
    · exact invTL kit ts h items hitems
    · exact invM_throw _ _ kit.unpackError
  | .starred t, h, v, hv => by
    simp only [coreT] at h
    simp only [storeT]
    exact invT kit t h v hv
  | .attr e a, h, v, hv => by
    simp only [coreT, Bool.and_eq_true] at h
    simp only [storeT]
    exact invM_bind (invE kit e h.1) fun o ho => invM_liftW _ _ fun st hp => kit.setattr st o a v hp ho hv
  | .sub e i, h, v, hv => by
    simp only [coreT, Bool.and_eq_true] at h
    simp only [storeT]
    exact invM_bind (invE kit e h.1.1.1) fun o ho => invM_bind (invE kit i h.1.2) fun k hk =>
      invM_liftW _ _ fun st hp => kit.setitem st o k v hp ho hk hv
theorem invTL {env : Env W HS} {P : St W HS → Prop} {Q : Val → Prop} {N : String → Prop} (kit : InvKitN env P Q N) :
    (ts : List Target) → coreTL ts = true → ∀ items, (∀ v ∈ items, Q v) →
    InvM P Q (fun _ => True) (storeTL env ts items)
  | [], _, items, _ => by simp only [storeTL]; exact invM_pure _ _ trivial
  | .starred t :: ts, h, items, hi => by
    simp only [coreTL, coreT, Bool.and_eq_true] at h
    simp only [storeTL]
    exact invM_bind (invT kit t h.1 _ (kit.list _ fun v hv => hi v (List.mem_of_mem_take hv))) fun _ _ =>
      invTL kit ts h.2 _ (fun v hv => hi v (List.mem_of_mem_drop hv))
  | .name x :: ts, h, items, hi => by
    cases items with
    | nil => simp only [storeTL]; exact invM_throw _ _ kit.unpackError
    | cons v vs =>
      simp only [coreTL, Bool.and_eq_true] at h
      simp only [storeTL]
      exact invM_bind (invT kit (.name x) h.1 v (hi v (by simp))) fun _ _ =>
        invTL kit ts h.2 vs (fun u hu => hi u (by simp [hu]))
  | .tuple us :: ts, h, items, hi => by
    cases items with
    | nil => simp only [storeTL]; exact invM_throw _ _ kit.unpackError
    | cons v vs =>
      simp only [coreTL, Bool.and_eq_true] at h
      simp only [storeTL]
      exact invM_bind (invT kit (.tuple us) h.1 v (hi v (by simp))) fun _ _ =>
        invTL kit ts h.2 vs (fun u hu => hi u (by simp [hu]))
  | .list us :: ts, h, items, hi => by
    cases items with
    | nil => simp only [storeTL]; exact invM_throw _ _ kit.unpackError
    | cons v vs =>
      simp only [coreTL, Bool.and_eq_true] at h
      simp only [storeTL]
      exact invM_bind (invT kit (.list us) h.1 v (hi v (by simp))) fun _ _ =>
        invTL kit ts h.2 vs (fun u hu => hi u (by simp [hu]))
  | .attr e a :: ts, h, items, hi => by
    cases items with
    | nil => simp only [storeTL]; exact invM_throw _ _ kit.unpackError
    | cons v vs =>
      simp only [coreTL, Bool.and_eq_true] at h
      simp only [storeTL]
      exact invM_bind (invT kit (.attr e a) h.1 v (hi v (by simp))) fun _ _ =>
        invTL kit ts h.2 vs (fun u hu => hi u (by simp [hu]))
  | .sub e i :: ts, h, items, hi => by
    cases items with
    | nil => simp only [storeTL]; exact invM_throw _ _ kit.unpackError
    | cons v vs =>
      simp only [coreTL, Bool.and_eq_true] at h
      simp only [storeTL]
      exact invM_bind (invT kit (.sub e i) h.1 v (hi v (by simp))) fun _ _ =>
        invTL kit ts h.2 vs (fun u hu => hi u (by simp [hu]))
end

theorem bodyName_marks : StmtNames (fun y => bodyName y = true) where
  loop := bodyName_loop
  endloop := bodyName_endloop
  value := by decide

end Ptera.Sem

namespace Ptera.Sem
open Ptera.Py

variable {W HS : Type}

section
variable {P : St W HS → Prop} {Q : Val → Prop} {N : String → Prop}

theorem invX_done (k : Ctl) (hk : CtlQ Q k) : InvX P Q (done k) := fun _ hp => ⟨hp, hk⟩

theorem invX_stepM {α} {QA : α → Prop} {m : M W HS α} {k : α → Exec W HS}
    (hm : InvM P Q QA m) (hk : ∀ a, QA a → InvX P Q (k a)) : InvX P Q (stepM m k) := by
  intro st hp
  have h1 := hm st hp
  unfold stepM
  rcases hmst : m st with ⟨r, st1⟩
  rw [hmst] at h1
  cases r with
  | ok a => exact hk a h1.2 st1 h1.1
  | err e => exact ⟨h1.1, h1.2⟩

theorem invX_seqX {a b : Exec W HS} (ha : InvX P Q a) (hb : InvX P Q b) : InvX P Q (seqX a b) := by
  intro st hp
  have h1 := ha st hp
  unfold seqX
  rcases hast : a st with ⟨k, st1⟩
  rw [hast] at h1
  cases k <;> first | exact hb st1 h1.1 | exact h1

theorem invX_tryFinally {a b : Exec W HS} (ha : InvX P Q a) (hb : InvX P Q b) : InvX P Q (tryFinally a b) := by
  intro st hp
  have h1 := ha st hp
  unfold tryFinally
  rcases hast : a st with ⟨k, st1⟩
  rw [hast] at h1
  simp only
  split
  · exact h1
  · have h2 := hb st1 h1.1
    rcases hbst : b st1 with ⟨k2, st2⟩
    rw [hbst] at h2
    cases k2 <;> first | exact ⟨h2.1, h1.2⟩ | exact h2

theorem invX_tryExcept {a o : Exec W HS} {hd : Val → Exec W HS}
    (ha : InvX P Q a) (hh : ∀ e, Q e → InvX P Q (hd e)) (ho : InvX P Q o) : InvX P Q (tryExcept a hd o) := by
  intro st hp
  have h1 := ha st hp
  unfold tryExcept
  rcases hast : a st with ⟨k, st1⟩
  rw [hast] at h1
  cases k with
  | exc e =>
    simp only
    split
    · exact h1
    · rename_i hnf
      have hq : Q e := by
        rcases h1.2 with hf | hq
        · exact absurd hf hnf
        · exact hq
      exact hh e hq st1 h1.1
  | normal => exact ho st1 h1.1
  | brk => exact h1
  | cont => exact h1
  | ret v => exact h1

theorem invX_forLoop (items : List Val) {it : Val → Exec W HS} {o : Exec W HS}
    (hi : ∀ v, Q v → InvX P Q (it v)) (hitems : ∀ v ∈ items, Q v) (ho : InvX P Q o) :
    InvX P Q (forLoop items it o) := by
  induction items with
  | nil => simpa [forLoop] using ho
  | cons v rest ih =>
    intro st hp
    have h1 := hi v (hitems v (by simp)) st hp
    unfold forLoop
    rcases hast : it v st with ⟨k, st1⟩
    rw [hast] at h1
    have ih' := ih (fun u hu => hitems u (by simp [hu]))
    cases k <;> first | exact ih' st1 h1.1 | exact ⟨h1.1, trivial⟩ | exact h1

theorem invX_whileLoop (fuel : Nat) {cd : M W HS Bool} {b o : Exec W HS}
    (hc : InvM P Q (fun _ => True) cd) (hb : InvX P Q b) (ho : InvX P Q o) :
    InvX P Q (whileLoop fuel cd b o) := by
  induction fuel with
  | zero => simpa [whileLoop] using invX_done (P := P) _ (show CtlQ Q (.exc (fatal "fuel")) from Or.inl rfl)
  | succ n ih =>
    unfold whileLoop
    apply invX_stepM hc
    intro t _
    cases t with
    | false => simpa using ho
    | true =>
      simp only [if_true]
      intro st hp
      dsimp only
      have h1 := hb st hp
      rcases hast : b st with ⟨k, st1⟩
      rw [hast] at h1
      cases k <;> first | exact ih st1 h1.1 | exact ⟨h1.1, trivial⟩ | exact h1

theorem invX_withBlock {env : Env W HS} (kit : InvKitN env P Q N) (cm : Val) (hcm : Q cm) {b : Exec W HS}
    (hb : InvX P Q b) : InvX P Q (withBlock env cm b) := by
  intro st hp
  have h1 := hb st hp
  unfold withBlock
  rcases hast : b st with ⟨k, st1⟩
  rw [hast] at h1
  cases k with
  | exc e =>
    simp only
    split
    · exact h1
    · rename_i hnf
      have hq : Q e := by
        rcases h1.2 with hf | hq
        · exact absurd hf hnf
        · exact hq
      have := kit.exit st1 cm (some e) h1.1 hcm (fun x hx => by injection hx with hx; rw [← hx]; exact hq)
      rcases hex : env.host.exit cm (some e) st1.w with ⟨r, w⟩
      rw [hex] at this
      cases r with
      | ok bb => cases bb <;> first | exact ⟨this.1, Or.inr hq⟩ | exact ⟨this.1, trivial⟩
      | err e' => exact ⟨this.1, this.2⟩
  | normal | brk | cont | ret v =>
    simp only
    have := kit.exit st1 cm none h1.1 hcm (fun x hx => by simp at hx)
    rcases hex : env.host.exit cm none st1.w with ⟨r, w⟩
    rw [hex] at this
    cases r with
    | ok bb => exact ⟨this.1, h1.2⟩
    | err e' => exact ⟨this.1, this.2⟩

theorem invX_inHandler {env : Env W HS} (kit : InvKitN env P Q N) (e : Val) (he : Q e) (name : Option String)
    {b : Exec W HS} (hb : InvX P Q b) : InvX P Q (inHandler e name b) := by
  intro st hp
  unfold inHandler
  cases name with
  | none =>
    simp only
    have h0 := kit.pushCur st e hp he
    have h1 := hb _ h0
    rcases hast : b { st with cur := e :: st.cur } with ⟨k, st1⟩
    rw [hast] at h1
    exact ⟨kit.popCur st1 h1.1, h1.2⟩
  | some n =>
    simp only
    have h0 : P { st with cur := e :: st.cur, loc := fun y => if y = n then some e else st.loc y } :=
      kit.setLoc { st with cur := e :: st.cur } n e (kit.pushCur st e hp he) he
    have h1 := hb _ h0
    rcases hast : b { st with cur := e :: st.cur, loc := fun y => if y = n then some e else st.loc y } with ⟨k, st1⟩
    rw [hast] at h1
    exact ⟨kit.unsetLoc { st1 with cur := st1.cur.tail } n (kit.popCur st1 h1.1), h1.2⟩

end

/-! ## statements -/

theorem invM_assignT {env : Env W HS} {P : St W HS → Prop} {Q : Val → Prop} {N : String → Prop} (kit : InvKitN env P Q N) (t : Target)
    (ht : coreAssignT t = true) (ann : Option Ann) (v : Val) (hv : Q v) :
    InvM P Q (fun _ => True) (assignT env t ann v) := by
  cases t with
  | name x =>
    simp only [coreAssignT] at ht
    show InvM P Q _ (hook env x ann v >>= fun r => setLoc x (some r))
    exact invM_bind (invM_hook kit x (kit.nUser _ ht) ann v hv false .noneV) fun r hr => invM_setLoc kit x r hr
  | tuple ts =>
    simp only [coreAssignT] at ht
    show InvM P Q _ (storeT env (.tuple ts) v >>= fun _ => postBind env (Target.tuple ts).names)
    exact invM_bind (invT kit (.tuple ts) (by simpa [coreT] using ht) v hv) fun _ _ =>
      invM_postBind kit _ (coreT_names_user (.tuple ts) (by simpa [coreT] using ht))
  | list ts =>
    simp only [coreAssignT] at ht
    show InvM P Q _ (storeT env (.list ts) v >>= fun _ => postBind env (Target.list ts).names)
    exact invM_bind (invT kit (.list ts) (by simpa [coreT] using ht) v hv) fun _ _ =>
      invM_postBind kit _ (coreT_names_user (.list ts) (by simpa [coreT] using ht))
  | starred t => simp [coreAssignT] at ht
  | attr e a =>
    by_cases hname : ∃ b, e = .name b
    · obtain ⟨b, rfl⟩ := hname
      simp only [coreAssignT] at ht
      show InvM P Q _ (hook env b ann v true (keyVal "attr" (.str a)) >>= fun r => storeT env (.attr (.name b) a) r)
      exact invM_bind (invM_hook kit b (kit.nUser _ ht) ann v hv true _) fun r hr =>
        invT kit (.attr (.name b) a) (by simp [coreT, coreE, simpleE, ht]) r hr
    · have hn : ∀ b, e ≠ .name b := fun b hb => hname ⟨b, hb⟩
      have ht' : coreT (.attr e a) = true := by
        cases e <;> first | (exfalso; exact hn _ rfl) | simpa [coreAssignT, coreT] using ht
      rw [assignT_attr_other env e a ann v hn]
      exact invT kit (.attr e a) ht' v hv
  | sub e i =>
    by_cases hname : ∃ b, e = .name b
    · obtain ⟨b, rfl⟩ := hname
      simp only [coreAssignT, Bool.and_eq_true] at ht
      obtain ⟨⟨hb, hci⟩, hsi⟩ := ht
      have tail : InvM P Q (fun _ => True) (evalE env i >>= fun k =>
          hook env b ann v true (keyVal "index" k) >>= fun r => lookup env b >>= fun o =>
          liftW (env.host.setitem o k r)) :=
        invM_bind (invE kit i hci) fun k hk =>
          invM_bind (invM_hook kit b (kit.nUser _ hb) ann v hv true _) fun r hr =>
            invM_bind (invM_lookup kit b hb) fun o ho =>
              invM_liftW _ _ fun st hp => kit.setitem st o k r hp ho hk hr
      by_cases hon : hookOn env b (annTags ann) true = true
      · cases hc : isConst i with
        | true =>
          simp only [assignT, hon, if_true, hc, Bool.not_true, Bool.false_eq_true, if_false, pure_bind_M]
          exact tail
        | false =>
          simp only [assignT, hon, if_true, hc, Bool.not_false, bind_assoc_M, pure_bind_M]
          exact invM_bind (invM_lookup kit b hb) fun _ _ => tail
      · simp only [assignT, hon, Bool.false_eq_true, if_false]
        exact invT kit (.sub (.name b) i) (by simp [coreT, coreE, simpleE, hb, hci, hsi]) v hv
    · have hn : ∀ b, e ≠ .name b := fun b hb => hname ⟨b, hb⟩
      have ht' : coreT (.sub e i) = true := by
        cases e <;> first | (exfalso; exact hn _ rfl) | simpa [coreAssignT, coreT] using ht
      rw [assignT_sub_other env e i ann v hn]
      exact invT kit (.sub e i) ht' v hv

theorem invM_assignTs {env : Env W HS} {P : St W HS → Prop} {Q : Val → Prop} {N : String → Prop} (kit : InvKitN env P Q N) :
    (ts : List Target) → coreAssignTL ts = true → ∀ v, Q v → InvM P Q (fun _ => True) (assignTs env v ts)
  | [], _, v, _ => by simp only [assignTs]; exact invM_pure _ _ trivial
  | t :: ts, h, v, hv => by
    simp only [coreAssignTL, Bool.and_eq_true] at h
    simp only [assignTs]
    exact invM_bind (invM_assignT kit t h.1 none v hv) fun _ _ => invM_assignTs kit ts h.2 v hv

theorem invM_forM_setLoc {env : Env W HS} {P : St W HS → Prop} {Q : Val → Prop} {N : String → Prop} (kit : InvKitN env P Q N) :
    (l : List (String × Val)) → (∀ p ∈ l, Q p.2) →
    InvM P Q (fun _ => True) (l.forM fun (x, v) => (setLoc x (some v) : M W HS Unit))
  | [], _ => by simp only [List.forM_nil]; exact invM_pure _ _ trivial
  | (x, v) :: l, h => by
    simp only [List.forM_cons]
    exact invM_bind (invM_setLoc kit x v (h (x, v) (by simp))) fun _ _ =>
      invM_forM_setLoc kit l fun p hp => h p (by simp [hp])

mutual
theorem invS {env : Env W HS} {P : St W HS → Prop} {Q : Val → Prop} {N : String → Prop} (kit : InvKitN env P Q N)
    (hL : StmtNames N) (fuel : Nat) :
    (s : Stmt) → coreS s = true → InvX P Q (execS env fuel s)
  | .assign ts v, h => by
    simp only [coreS, Bool.and_eq_true] at h
    simp only [execS]
    exact invX_stepM (invE kit v h.2) fun u hu =>
      invX_stepM (invM_assignTs kit ts (by simpa using h.1.2) u hu) fun _ _ => invX_done _ trivial
  | .augassign t op v, h => by
    simp only [coreS, Bool.and_eq_true] at h
    have hv := invE kit v h.2
    cases t with
    | name x =>
      have hu : isUser x = true := by simpa [coreAugT] using h.1
      simp only [execS]
      refine invX_stepM (QA := fun _ => True) ?_ fun _ _ => invX_done _ trivial
      exact invM_bind (invM_lookup kit x hu) fun a ha => invM_bind hv fun b hb =>
        invM_bind (invM_liftW _ _ fun st hp => kit.binop st op a b hp ha hb) fun cc hcc =>
          invM_bind (invM_setLoc kit x cc hcc) fun _ _ => invM_postBind1 kit x hu
    | attr e a =>
      simp only [coreAugT, Bool.and_eq_true] at h
      simp only [execS]
      refine invX_stepM (QA := fun _ => True) ?_ fun _ _ => invX_done _ trivial
      exact invM_bind (invE kit e h.1.1) fun o ho =>
        invM_bind (invM_liftW _ _ fun st hp => kit.getattr st o a hp ho) fun cur hcur =>
          invM_bind hv fun b hb => invM_bind (invM_liftW _ _ fun st hp => kit.binop st op cur b hp hcur hb) fun r hr =>
            invM_liftW _ _ fun st hp => kit.setattr st o a r hp ho hr
    | sub e i =>
      simp only [coreAugT, Bool.and_eq_true] at h
      simp only [execS]
      refine invX_stepM (QA := fun _ => True) ?_ fun _ _ => invX_done _ trivial
      exact invM_bind (invE kit e h.1.1.1.1) fun o ho => invM_bind (invE kit i h.1.1.2) fun k hk =>
        invM_bind (invM_liftW _ _ fun st hp => kit.getitem st o k hp ho hk) fun cur hcur =>
          invM_bind hv fun b hb => invM_bind (invM_liftW _ _ fun st hp => kit.binop st op cur b hp hcur hb) fun r hr =>
            invM_liftW _ _ fun st hp => kit.setitem st o k r hp ho hk hr
    | tuple ts => simp [coreAugT] at h
    | list ts => simp [coreAugT] at h
    | starred t => simp [coreAugT] at h
  | .annassign t ann v, h => by
    simp only [coreS, Bool.and_eq_true] at h
    cases t with
    | name x =>
      have hu : isUser x = true := by simpa using h.1
      cases v with
      | some e =>
        simp only [execS]
        exact invX_stepM (invE kit e (by simpa [coreOptE] using h.2)) fun u hu' =>
          invX_stepM (invM_assignT kit (.name x) (by simpa [coreAssignT] using hu) (some ann) u hu')
            fun _ _ => invX_done _ trivial
      | none =>
        -- a declaration: the handler is asked with the marker; what it answers (never the marker) is bound
        simp only [execS]
        cases hk : env.hk with
        | none => exact invX_done _ trivial
        | some cfg =>
          simp only
          refine invX_stepM (QA := fun _ => True) ?_ fun _ _ => invX_done _ trivial
          exact invM_bind (QA := Q) (fun st hp => kit.interact st x .noneV _ .absent true hp (kit.nUser _ hu) (Or.inl rfl))
            fun r hr => invM_setLoc kit x r hr
    | tuple ts => simp at h
    | list ts => simp at h
    | starred t => simp at h
    | attr e a => simp at h
    | sub e i => simp at h
  | .expr e, h => by
    simp only [coreS] at h
    simp only [execS]
    exact invX_stepM (invE kit e h) fun _ _ => invX_done _ trivial
  | .ret v, h => by
    simp only [coreS] at h
    simp only [execS]
    cases v with
    | none =>
      simp only [pure_bind_M]
      exact invX_stepM (invM_hook kit "#value" hL.value none .noneV kit.noneV false .noneV) fun r hr => invX_done _ hr
    | some e =>
      simp only
      refine invX_stepM (QA := Q) ?_ fun r hr => invX_done _ hr
      exact invM_bind (invE kit e (by simpa [coreOptE] using h)) fun x hx =>
        invM_hook kit "#value" hL.value none x hx false .noneV
  | .pass, _ => by simp only [execS]; exact invX_done _ trivial
  | .brk, _ => by simp only [execS]; exact invX_done _ trivial
  | .cont, _ => by simp only [execS]; exact invX_done _ trivial
  | .raise e, h => by
    simp only [coreS] at h
    cases e with
    | none =>
      simp only [execS]
      intro st hp
      dsimp only
      cases hc : st.cur with
      | nil => exact ⟨hp, Or.inr kit.noActiveExc⟩
      | cons e0 rest => exact ⟨hp, Or.inr (kit.curQ st e0 hp (by rw [hc]; simp))⟩
    | some e =>
      simp only [execS]
      exact invX_stepM (invE kit e (by simpa [coreOptE] using h)) fun v hv => invX_done _ (Or.inr hv)
  | .ite cnd b o, h => by
    simp only [coreS, Bool.and_eq_true] at h
    simp only [execS]
    refine invX_stepM (QA := fun _ => True) ?_ fun t _ => ?_
    · unfold truthyE
      exact invM_bind (invE kit cnd h.1.1) fun v hv => invM_liftW _ _ fun st hp => kit.truthy st v hp hv
    · cases t
      · simpa using invB kit hL fuel o h.2
      · simpa using invB kit hL fuel b h.1.2
  | .while cnd b o, h => by
    simp only [coreS, Bool.and_eq_true] at h
    simp only [execS]
    refine invX_whileLoop fuel ?_ (invB kit hL fuel b h.1.2) (invB kit hL fuel o h.2)
    unfold truthyE
    exact invM_bind (invE kit cnd h.1.1) fun v hv => invM_liftW _ _ fun st hp => kit.truthy st v hp hv
  | .for t it b o, h => by
    simp only [coreS, Bool.and_eq_true] at h
    simp only [execS]
    refine invX_stepM (QA := fun items => ∀ v ∈ items, Q v) ?_ fun items hitems => ?_
    · exact invM_bind (invE kit it h.1.1.2) fun v hv => invM_liftW _ _ fun st hp => kit.iter st v hp hv
    · refine invX_forLoop items (fun item hitem => ?_) hitems (invB kit hL fuel o h.2)
      refine invX_stepM (invT kit t h.1.1.1 item hitem) fun _ _ => ?_
      refine invX_tryFinally ?_ ?_
      · refine invX_stepM (QA := fun _ => True) ?_ fun _ _ => invB kit hL fuel b h.1.2
        exact invM_bind (invM_hookMetas kit none _ (fun x hx => by
            simp only [List.mem_map] at hx
            obtain ⟨y, _, rfl⟩ := hx
            exact hL.loop y)) fun _ _ => invM_postBind kit _ (coreT_names_user t h.1.1.1)
      · exact invX_stepM (invM_hookMetas kit none _ (fun x hx => by
            simp only [List.mem_map] at hx
            obtain ⟨y, _, rfl⟩ := hx
            exact hL.endloop y)) fun _ _ => invX_done _ trivial
  | .try b hds o f, h => by
    simp only [coreS, Bool.and_eq_true] at h
    simp only [execS]
    exact invX_tryFinally (invX_tryExcept (invB kit hL fuel b h.1.1.1) (fun e he => invHL kit hL fuel hds h.1.1.2 e he)
      (invB kit hL fuel o h.1.2)) (invB kit hL fuel f h.2)
  | .with ctx t b, h => by
    simp only [coreS, Bool.and_eq_true] at h
    simp only [execS]
    refine invX_stepM (QA := fun p => Q p.1 ∧ Q p.2) ?_ fun p hp => ?_
    · exact invM_bind (invE kit ctx h.1.1) fun cm hcm =>
        invM_bind (invM_liftW _ _ fun st hp => kit.enter st cm hp hcm) fun v hv => invM_pure _ (cm, v) ⟨hcm, hv⟩
    · obtain ⟨cm, v⟩ := p
      refine invX_withBlock kit cm hp.1 ?_
      cases t with
      | none =>
        simp only [stepM_pure]
        exact invB kit hL fuel b h.2
      | some t =>
        have ht : coreT t = true := by simpa [coreOptT] using h.1.2
        simp only
        refine invX_stepM (QA := fun _ => True) ?_ fun _ _ => invB kit hL fuel b h.2
        exact invM_bind (invT kit t ht v hp.2) fun _ _ => invM_postBind kit _ (coreT_names_user t ht)
  | .defn name src loads, h => by
    simp only [coreS, Bool.and_eq_true, List.all_eq_true] at h
    simp only [execS]
    intro st hp
    have hargs : ∀ p ∈ (loads.map fun x => (x, lookupV env st x)), ∀ v, p.2 = some v → Q v := by
      intro p hpm v hv
      simp only [List.mem_map] at hpm
      obtain ⟨x, hx, rfl⟩ := hpm
      exact kit.look st x v (h.2 x hx) hp hv
    refine invX_stepM (QA := fun vals => ∀ v ∈ vals, Q v) (invM_liftW _ _ fun st' hp' => ?_) (fun vals hvals => ?_) st hp
    · exact kit.bindStmt st' src _ hp' hargs
    · refine invX_stepM (QA := fun _ => True) ?_ fun _ _ => invX_done _ trivial
      have hq : Q (vals.headD .noneV) := by
        cases vals with
        | nil => exact kit.noneV
        | cons v0 _ => exact hvals v0 (by simp)
      exact invM_bind (invM_setLoc kit name _ hq) fun _ _ => invM_postBind1 kit name h.1
  | .cls name src loads, h => by
    simp only [coreS, Bool.and_eq_true, List.all_eq_true] at h
    simp only [execS]
    intro st hp
    have hargs : ∀ p ∈ (loads.map fun x => (x, lookupV env st x)), ∀ v, p.2 = some v → Q v := by
      intro p hpm v hv
      simp only [List.mem_map] at hpm
      obtain ⟨x, hx, rfl⟩ := hpm
      exact kit.look st x v (h.2 x hx) hp hv
    refine invX_stepM (QA := fun vals => ∀ v ∈ vals, Q v) (invM_liftW _ _ fun st' hp' => ?_) (fun vals hvals => ?_) st hp
    · exact kit.bindStmt st' src _ hp' hargs
    · refine invX_stepM (QA := fun _ => True) ?_ fun _ _ => invX_done _ trivial
      have hq : Q (vals.headD .noneV) := by
        cases vals with
        | nil => exact kit.noneV
        | cons v0 _ => exact hvals v0 (by simp)
      exact invM_bind (invM_setLoc kit name _ hq) fun _ _ => invM_postBind1 kit name h.1
  | .imp bound src, h => by
    simp only [coreS, List.all_eq_true] at h
    simp only [execS]
    refine invX_stepM (QA := fun vals => ∀ v ∈ vals, Q v)
      (invM_liftW _ _ fun st hp => kit.bindStmt st src [] hp (fun p hp => by simp at hp)) fun vals hvals => ?_
    refine invX_stepM (QA := fun _ => True) ?_ fun _ _ => invX_done _ trivial
    refine invM_bind (invM_forM_setLoc kit _ fun p hp => ?_) fun _ _ => invM_postBind kit bound h
    have := (List.of_mem_zip hp).2
    simp only [padVals, List.mem_append, List.mem_replicate] at this
    rcases this with hv | ⟨_, hv⟩
    · exact hvals _ hv
    · rw [hv]; exact kit.noneV
  | .glob _, h => by simp [coreS] at h
  | .nonloc _, h => by simp [coreS] at h
  | .opaque .., h => by simp [coreS] at h
theorem invB {env : Env W HS} {P : St W HS → Prop} {Q : Val → Prop} {N : String → Prop} (kit : InvKitN env P Q N)
    (hL : StmtNames N) (fuel : Nat) :
    (ss : List Stmt) → coreB ss = true → InvX P Q (execB env fuel ss)
  | [], _ => by simp only [execB_nil]; exact invX_done _ trivial
  | s :: ss, h => by
    simp only [coreB, Bool.and_eq_true] at h
    simp only [execB_cons]
    exact invX_seqX (invS kit hL fuel s h.1) (invB kit hL fuel ss h.2)
theorem invHL {env : Env W HS} {P : St W HS → Prop} {Q : Val → Prop} {N : String → Prop} (kit : InvKitN env P Q N)
    (hL : StmtNames N) (fuel : Nat) :
    (hds : List Handler) → coreHL hds = true → ∀ e, Q e → InvX P Q (execHL env fuel hds e)
  | [], _, e, he => by simp only [execHL]; exact invX_done _ (Or.inr he)
  | .mk typ name body :: hds, h, e, he => by
    simp only [coreHL, coreH, Bool.and_eq_true] at h
    have ihb := invB kit hL fuel body h.1.2
    have ihh := invHL kit hL fuel hds h.2 e he
    have hte : ∀ te, typ = some te → coreE te = true := by
      intro te ht; subst ht
      have := h.1.1.1
      simpa [coreOptE] using this.1
    cases name with
    | none =>
      have hbody : InvX P Q (inHandler e none (stepM (postBind env []) fun _ => execB env fuel body)) :=
        invX_inHandler kit e he none (invX_stepM (QA := fun _ => True)
          (by simp only [postBind]; exact invM_pure _ _ trivial) fun _ _ => ihb)
      cases typ with
      | none =>
        simp only [execHL]
        exact hbody
      | some te =>
        simp only [execHL]
        refine invX_stepM (invE kit te (hte te rfl)) fun tv _ => ?_
        split
        · exact hbody
        · exact ihh
    | some n =>
      have hbody : InvX P Q (inHandler e (some n) (stepM (postBind env [n]) fun _ => execB env fuel body)) :=
        invX_inHandler kit e he (some n) (invX_stepM (QA := fun _ => True)
          (invM_postBind kit [n] (fun x hx => by
            simp only [List.mem_singleton] at hx; subst hx; simpa using h.1.1.2)) fun _ _ => ihb)
      cases typ with
      | none =>
        simp only [execHL]
        exact hbody
      | some te =>
        simp only [execHL]
        refine invX_stepM (invE kit te (hte te rfl)) fun tv _ => ?_
        split
        · exact hbody
        · exact ihh
end

end Ptera.Sem

namespace Ptera.Sem
open Ptera.Py

variable {W HS : Type}

/-! ## the prologue of a call -/

theorem invM_fetchRef {env : Env W HS} {P : St W HS → Prop} {Q : Val → Prop} {N : String → Prop} (kit : InvKitN env P Q N) (x : String)
    (hx : isUser x = true) (hglob : ∀ v, env.host.glob x = some v → Q v) :
    InvM P Q (fun _ => True) (fetchRef env x) := by
  cases hk : env.hk with
  | none =>
    have hf : fetchRef env x = pure () := by unfold fetchRef; simp [hk]
    rw [hf]; exact invM_pure _ _ trivial
  | some cfg =>
    by_cases hi0 : shouldInstr cfg x [] = true
    · have hf : fetchRef env x = fun st =>
          match interactSem env x .noneV (annValOpt env none) ((env.host.glob x).getD .absent) true st with
          | (.ok r, st1) => setLoc x (some r) st1
          | (.err e, st1) =>
            if isFatal e then (.err e, st1) else
            match env.host.glob nNameError with
            | some c => if env.host.isinst e c then (.ok (), st1) else (.err e, st1)
            | none => (.err (env.host.nameError nNameError), st1) := by
        unfold fetchRef; simp [hk, hi0]
        rfl
      rw [hf]
      intro st hp
      have hv : (env.host.glob x).getD .absent = .absent ∨ Q ((env.host.glob x).getD .absent) := by
        cases hg : env.host.glob x with
        | none => exact Or.inl rfl
        | some v => exact Or.inr (hglob v hg)
      have h1 := kit.interact st x .noneV (annValOpt env none) ((env.host.glob x).getD .absent) true hp
        (kit.nUser _ hx) hv
      dsimp only
      rcases hi : interactSem env x .noneV (annValOpt env none) ((env.host.glob x).getD .absent) true st with ⟨r, st1⟩
      rw [hi] at h1
      cases r with
      | ok v => exact invM_setLoc kit x v h1.2 st1 h1.1
      | err e =>
        simp only
        split
        · exact ⟨h1.1, h1.2⟩
        · split
          · split
            · exact ⟨h1.1, trivial⟩
            · exact ⟨h1.1, h1.2⟩
          · exact ⟨h1.1, Or.inr (kit.nameError _)⟩
    · have hf : fetchRef env x = pure () := by unfold fetchRef; simp [hk, hi0]
      rw [hf]; exact invM_pure _ _ trivial

theorem invM_fetchRefs {env : Env W HS} {P : St W HS → Prop} {Q : Val → Prop} {N : String → Prop} (kit : InvKitN env P Q N) :
    (xs : List String) → (∀ x ∈ xs, isUser x = true ∧ ∀ v, env.host.glob x = some v → Q v) →
    InvM P Q (fun _ => True) (fetchRefs env xs)
  | [], _ => by simp only [fetchRefs]; exact invM_pure _ _ trivial
  | x :: xs, h => by
    simp only [fetchRefs]
    exact invM_bind (invM_fetchRef kit x (h x (by simp)).1 (h x (by simp)).2) fun _ _ =>
      invM_fetchRefs kit xs fun y hy => h y (by simp [hy])

theorem invM_paramHooks {env : Env W HS} {P : St W HS → Prop} {Q : Val → Prop} {N : String → Prop} (kit : InvKitN env P Q N) :
    (ps : List Param) → (∀ p ∈ ps, isUser p.name = true) → InvM P Q (fun _ => True) (paramHooks env ps)
  | [], _ => by simp only [paramHooks]; exact invM_pure _ _ trivial
  | p :: ps, h => by
    simp only [paramHooks]
    refine invM_bind (QA := fun _ => True) ?_ fun _ _ => invM_paramHooks kit ps fun q hq => h q (by simp [hq])
    unfold paramHook
    cases env.hk with
    | none => exact invM_pure _ _ trivial
    | some cfg =>
      simp only
      have hu := h p (by simp)
      exact invM_bind (invM_lookup kit p.name hu) fun v hv =>
        invM_bind (invM_hook kit p.name (kit.nUser _ hu) p.ann v hv false .noneV) fun r hr =>
          invM_setLoc kit p.name r hr

theorem invM_freeHook {env : Env W HS} {P : St W HS → Prop} {Q : Val → Prop} {N : String → Prop} (kit : InvKitN env P Q N)
    (x : String) (hx : isUser x = true) : InvM P Q (fun _ => True) (freeHook env x) := by
  unfold freeHook
  cases env.hk with
  | none => exact invM_pure _ _ trivial
  | some cfg =>
    simp only
    have inner : InvM P Q Q (lookup env x >>= fun v =>
        if shouldInstr cfg x [] then interactSem env x .noneV (annValOpt env none) v false else pure v) := by
      refine invM_bind (invM_lookup kit x hx) fun v hv => ?_
      split
      · exact fun st hp => kit.interact st x .noneV _ v false hp (kit.nUser _ hx) (Or.inr hv)
      · exact invM_pure _ _ hv
    intro st hp
    have h1 := inner st hp
    dsimp only
    rcases hi : (lookup env x >>= fun v =>
        if shouldInstr cfg x [] then interactSem env x .noneV (annValOpt env none) v false else pure v) st with ⟨r, st1⟩
    rw [hi] at h1
    cases r with
    | ok v => exact ⟨h1.1, trivial⟩
    | err e =>
      simp only
      split
      · exact ⟨h1.1, h1.2⟩
      · split
        · split
          · exact ⟨h1.1, trivial⟩
          · exact ⟨h1.1, h1.2⟩
        · exact ⟨h1.1, Or.inr (kit.nameError _)⟩

theorem invM_freeHooks {env : Env W HS} {P : St W HS → Prop} {Q : Val → Prop} {N : String → Prop} (kit : InvKitN env P Q N) :
    (xs : List String) → (∀ x ∈ xs, isUser x = true) → InvM P Q (fun _ => True) (freeHooks env xs)
  | [], _ => by simp only [freeHooks]; exact invM_pure _ _ trivial
  | x :: xs, h => by
    simp only [freeHooks]
    exact invM_bind (invM_freeHook kit x (h x (by simp))) fun _ _ =>
      invM_freeHooks kit xs fun y hy => h y (by simp [hy])

/-- what an activation does before its body: instrumented globals, closure variables, parameters -/
def prologue (env : Env W HS) (f : FunDef) : M W HS Unit := do
  fetchRefs env (sortNames (collect f).external)
  freeHooks env (sortNames (collect f).free)
  paramHooks env f.params

theorem invM_prologue {env : Env W HS} {P : St W HS → Prop} {Q : Val → Prop} {N : String → Prop} (kit : InvKitN env P Q N)
    (f : FunDef) (hf : coreF f = true) (hglob : ∀ x v, isUser x = true → env.host.glob x = some v → Q v) :
    InvM P Q (fun _ => True) (prologue env f) := by
  simp only [coreF, Bool.and_eq_true, List.all_eq_true] at hf
  obtain ⟨⟨⟨⟨⟨_, hau⟩, heu⟩, hfu⟩, _⟩, hparam⟩ := hf
  unfold prologue
  exact invM_bind (invM_fetchRefs kit _ fun x hx =>
      ⟨heu x ((mem_sortNames x _).1 hx), fun v hv => hglob x v (heu x ((mem_sortNames x _).1 hx)) hv⟩) fun _ _ =>
    invM_bind (invM_freeHooks kit _ fun x hx => hfu x (by simpa [collect] using (mem_sortNames x _).1 hx)) fun _ _ =>
    invM_paramHooks kit f.params fun p hp => hau p.name (List.contains_iff_mem.1 (hparam p hp))

/-- the part of an activation between `#enter` and `#error` / `#exit`: globals, closure variables, parameters, body -/
def runInner (env : Env W HS) (fuel : Nat) (f : FunDef) : Exec W HS :=
  seqX (stepM (prologue env f) fun _ => done .normal) (execB env fuel (bodyWithReturn f))

theorem inv_runInner {env : Env W HS} {P : St W HS → Prop} {Q : Val → Prop} {N : String → Prop} (kit : InvKitN env P Q N)
    (hL : StmtNames N) (fuel : Nat)
    (f : FunDef) (hf : coreF f = true) (hglob : ∀ x v, isUser x = true → env.host.glob x = some v → Q v) :
    InvX P Q (runInner env fuel f) := by
  have hbody : coreB (bodyWithReturn f) = true := by
    simp only [coreF, Bool.and_eq_true] at hf
    exact hf.1.1.1.1.1
  unfold runInner
  exact invX_seqX (invX_stepM (invM_prologue kit f hf hglob) fun _ _ => invX_done _ trivial) (invB kit hL fuel _ hbody)

end Ptera.Sem
