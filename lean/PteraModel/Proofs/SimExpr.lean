import PteraModel.Proofs.SimBase
/-!
# Simulation, part 2: expressions and assignment targets
-/
namespace Ptera.Sem
open Ptera.Py

variable {W HS : Type}

/-! ## the fragment the theorem covers -/

mutual
/-- an expression of the user's program: only user names, no `interact` -/
def coreE : Expr → Bool
  | .int _ | .str _ | .noneLit | .bool _ | .constOther _ => true
  | .name x => isUser x
  | .call f args => coreE f && coreEL args
  | .attr v _ => coreE v
  | .sub v i => coreE v && coreE i
  | .tuple es => coreEL es
  | .list es => coreEL es
  | .binop _ l r => coreE l && coreE r
  | .walrus t v => isUser t && coreE v
  | .yield Option.none => true
  | .yield (Option.some v) => coreE v
  | .interact .. => false
  | .opaque _ loads _ _ => loads.all isUser
def coreEL : List Expr → Bool
  | [] => true
  | e :: es => coreE e && coreEL es
end

mutual
/-- no assignment expression and no `yield` inside (what the rewriter would change) -/
def simpleE : Expr → Bool
  | .int _ | .str _ | .noneLit | .bool _ | .constOther _ | .name _ => true
  | .call f args => simpleE f && simpleEL args
  | .attr v _ => simpleE v
  | .sub v i => simpleE v && simpleE i
  | .tuple es => simpleEL es
  | .list es => simpleEL es
  | .binop _ l r => simpleE l && simpleE r
  | .walrus _ _ => false
  | .yield _ => false
  | .interact .. => false
  | .opaque .. => true
def simpleEL : List Expr → Bool
  | [] => true
  | e :: es => simpleE e && simpleEL es
end

mutual
theorem instrE_simple (cfg : Cfg) : (e : Expr) → simpleE e = true → instrE cfg e = e
  | .int _, _ | .str _, _ | .noneLit, _ | .bool _, _ | .constOther _, _ | .name _, _ => by simp [instrE]
  | .call f args, h => by
    simp only [simpleE, Bool.and_eq_true] at h
    simp [instrE, instrE_simple cfg f h.1, instrEL_simple cfg args h.2]
  | .attr v a, h => by
    simp only [simpleE] at h
    simp [instrE, instrE_simple cfg v h]
  | .sub v i, h => by
    simp only [simpleE, Bool.and_eq_true] at h
    simp [instrE, instrE_simple cfg v h.1, instrE_simple cfg i h.2]
  | .tuple es, h => by
    simp only [simpleE] at h
    simp [instrE, instrEL_simple cfg es h]
  | .list es, h => by
    simp only [simpleE] at h
    simp [instrE, instrEL_simple cfg es h]
  | .binop op l r, h => by
    simp only [simpleE, Bool.and_eq_true] at h
    simp [instrE, instrE_simple cfg l h.1, instrE_simple cfg r h.2]
  | .walrus _ _, h => by simp [simpleE] at h
  | .yield _, h => by simp [simpleE] at h
  | .interact .., h => by simp [simpleE] at h
  | .opaque .., _ => by simp [instrE]
theorem instrEL_simple (cfg : Cfg) : (es : List Expr) → simpleEL es = true → instrEL cfg es = es
  | [], _ => by simp [instrEL]
  | e :: es, h => by
    simp only [simpleEL, Bool.and_eq_true] at h
    simp [instrEL, instrE_simple cfg e h.1, instrEL_simple cfg es h.2]
end

/-! ## `interactE`: the call, or the bare value -/

/-- what evaluating `interactE …` does once its value argument is known -/
def maybeInteract (env : Env W HS) (cfg : Cfg) (name : String) (key : Val) (ann : Option Ann) (v : Val)
    (ovr keyed force : Bool) : M W HS Val :=
  if force || shouldInstr cfg name (annTags ann) keyed then
    interactSem env name key (env.host.annVal (annArg ann)) v ovr
  else pure v

@[simp] theorem bind_pure_M {α} (m : M W HS α) : (m >>= pure) = m := by
  funext st
  show M.bind m M.pure st = m st
  unfold M.bind M.pure
  rcases m st with ⟨r, st1⟩
  cases r <;> rfl

theorem eval_interactE (c : Ctx W HS) (name : String) (ann : Option Ann) (e : Expr) (ovr keyed force : Bool) :
    evalE c.envI (interactE c.cfg name .noneLit ann e ovr keyed force)
      = (evalE c.envI e >>= fun v => maybeInteract c.envI c.cfg name .noneV ann v ovr keyed force) := by
  unfold interactE maybeInteract
  split
  · simp only [evalE]
    rfl
  · exact (bind_pure_M _).symm

theorem hook_envR (c : Ctx W HS) (name : String) (ann : Option Ann) (v : Val) (keyed : Bool) (key : Val) :
    hook c.envR name ann v keyed key = maybeInteract c.envR c.cfg name key ann v true keyed false := by
  unfold hook maybeInteract
  simp [Ctx.envR, annValOpt]

theorem hook_envI (c : Ctx W HS) (name : String) (ann : Option Ann) (v : Val) (keyed : Bool) (key : Val) :
    hook c.envI name ann v keyed key = pure v := by
  unfold hook; simp [Ctx.envI]

theorem relM_maybe (c : Ctx W HS) (name : String) (key : Val) (ann : Option Ann) (v : Val)
    (ovr keyed force : Bool) :
    RelM c (maybeInteract c.envI c.cfg name key ann v ovr keyed force)
      (maybeInteract c.envR c.cfg name key ann v ovr keyed force) := by
  unfold maybeInteract
  split
  · exact relM_interactSem c _ _ _ _ _
  · exact relM_pure c v

theorem relM_doYield (c : Ctx W HS) (y : Val) : RelM c (doYield c.envI y) (doYield c.envR y) := by
  intro st' st h
  have hh : c.envI.host = c.envR.host := rfl
  unfold doYield
  rw [hh]
  cases hi : st.inp with
  | nil =>
    have hi' : st'.inp = [] := by rw [h.inp, hi]
    rw [hi']
    dsimp only
    rw [h.closed]
    split
    · exact ⟨rfl, h⟩
    · exact ⟨rfl, h.congr _ _ rfl rfl h.w h.hs (by simp [hi, hi']) (by simp [h.out]) h.cur rfl⟩
  | cons cmd rest =>
    have hi' : st'.inp = cmd :: rest := by rw [h.inp, hi]
    rw [hi']
    cases cmd with
    | send v => exact ⟨rfl, h.congr _ _ rfl rfl h.w h.hs rfl (by simp [h.out]) h.cur h.closed⟩
    | throw e => exact ⟨rfl, h.congr _ _ rfl rfl h.w h.hs rfl (by simp [h.out]) h.cur h.closed⟩

/-- a global of ptera's runtime library: looking it up never fails and changes nothing -/
theorem lookup_lib (c : Ctx W HS) (lib : LibSpec c) (x : String) (v : Val)
    (hx : x ∈ [nAbsent, nNameError, nKey, nSuspend, nResume, nGlobals, nFrame, "BaseException"])
    (hv : c.host.glob x = some v) : lookup c.envI x = pure v := by
  funext st
  unfold lookup lookupV
  have : c.scI x = false := lib.libGlobal x hx
  simp [this, Ctx.envI, hv]
  rfl

theorem liftW_pure {α} (a : α) : (liftW (fun (w : W) => (Res.ok a, w)) : M W HS α) = pure a := by
  funext st; rfl

/-! ## expressions -/

mutual
theorem simE (c : Ctx W HS) (lib : LibSpec c) : (e : Expr) → coreE e = true →
    (∀ x ∈ e.stores, c.scoped x) → RelM c (evalE c.envI (instrE c.cfg e)) (evalE c.envR e)
  | .int n, _, _ => by simp only [instrE, evalE]; exact relM_pure c _
  | .str s, _, _ => by simp only [instrE, evalE]; exact relM_pure c _
  | .noneLit, _, _ => by simp only [instrE, evalE]; exact relM_pure c _
  | .bool b, _, _ => by simp only [instrE, evalE]; exact relM_pure c _
  | .constOther r, _, _ => by simp only [instrE, evalE]; exact relM_pure c _
  | .name x, h, _ => by
    simp only [coreE] at h
    simp only [instrE, evalE]
    exact relM_lookup c x h
  | .call f args, h, hs => by
    simp only [coreE, Bool.and_eq_true] at h
    simp only [Expr.stores, List.mem_append] at hs
    simp only [instrE, evalE]
    exact relM_bind c (simE c lib f h.1 fun x hx => hs x (Or.inl hx)) fun fv =>
      relM_bind c (simEL c lib args h.2 fun x hx => hs x (Or.inr hx)) fun avs => relM_liftW c _
  | .attr v a, h, hs => by
    simp only [coreE] at h
    simp only [Expr.stores] at hs
    simp only [instrE, evalE]
    exact relM_bind c (simE c lib v h hs) fun x => relM_liftW c _
  | .sub v i, h, hs => by
    simp only [coreE, Bool.and_eq_true] at h
    simp only [Expr.stores, List.mem_append] at hs
    simp only [instrE, evalE]
    exact relM_bind c (simE c lib v h.1 fun x hx => hs x (Or.inl hx)) fun x =>
      relM_bind c (simE c lib i h.2 fun x hx => hs x (Or.inr hx)) fun k => relM_liftW c _
  | .tuple es, h, hs => by
    simp only [coreE] at h
    simp only [Expr.stores] at hs
    simp only [instrE, evalE]
    exact relM_bind c (simEL c lib es h hs) fun vs => relM_pure c _
  | .list es, h, hs => by
    simp only [coreE] at h
    simp only [Expr.stores] at hs
    simp only [instrE, evalE]
    exact relM_bind c (simEL c lib es h hs) fun vs => relM_pure c _
  | .binop op l r, h, hs => by
    simp only [coreE, Bool.and_eq_true] at h
    simp only [Expr.stores, List.mem_append] at hs
    simp only [instrE, evalE]
    exact relM_bind c (simE c lib l h.1 fun x hx => hs x (Or.inl hx)) fun a =>
      relM_bind c (simE c lib r h.2 fun x hx => hs x (Or.inr hx)) fun b => relM_liftW c _
  | .walrus t v, h, hs => by
    simp only [coreE, Bool.and_eq_true] at h
    simp only [Expr.stores, List.mem_cons] at hs
    simp only [instrE, evalE, eval_interactE, hook_envI, hook_envR, bind_assoc_M, pure_bind_M]
    exact relM_bind c (simE c lib v h.2 fun x hx => hs x (Or.inr hx)) fun x =>
      relM_bind c (relM_maybe c t .noneV none x true false false) fun r =>
        relM_bind c (relM_setLoc c t (some r) (hs t (Or.inl rfl)) h.1) fun _ => relM_pure c r
  | .yield v, h, hs => by
    obtain ⟨s, hs1, hs2⟩ := lib.suspend
    obtain ⟨rs, hr1, hr2⟩ := lib.resume
    obtain ⟨fv, hf⟩ := lib.frame
    have hmem : ∀ x, x ∈ [nSuspend, nResume, nFrame] →
        x ∈ [nAbsent, nNameError, nKey, nSuspend, nResume, nGlobals, nFrame, "BaseException"] := by
      intro x hx; simp at hx ⊢; rcases hx with h | h | h <;> simp [h]
    have lS := lookup_lib c lib nSuspend s (hmem _ (by simp)) hs1
    have lR := lookup_lib c lib nResume rs (hmem _ (by simp)) hr1
    have lF := lookup_lib c lib nFrame fv (hmem _ (by simp)) hf
    have cS : ∀ a v, (liftW (c.envI.host.call s [a, v]) : M W HS Val) = pure v := by
      intro a v; funext st; simp only [liftW, Ctx.envI, hs2]; rfl
    have cR : ∀ a v, (liftW (c.envI.host.call rs [a, v]) : M W HS Val) = pure v := by
      intro a v; funext st; simp only [liftW, Ctx.envI, hr2]; rfl
    have key : ∀ (e0 : Expr) (m : M W HS Val), evalE c.envI e0 = m →
        evalE c.envI (interactE c.cfg "#receive" .noneLit (some enterAnn)
          (.call (.name nResume) [.name nFrame, .yield (some (.call (.name nSuspend) [.name nFrame,
            interactE c.cfg "#yield" .noneLit (some exitAnn) e0 true]))]) true)
        = (m >>= fun x => maybeInteract c.envI c.cfg "#yield" .noneV (some exitAnn) x true false false
            >>= fun y => doYield c.envI y
            >>= fun r => maybeInteract c.envI c.cfg "#receive" .noneV (some enterAnn) r true false false) := by
      intro e0 m hm
      simp only [eval_interactE, evalE, evalEL, lS, lR, lF, hook_envI, hm, bind_assoc_M, pure_bind_M,
        cS, cR]
    cases v with
    | none =>
      simp only [instrE]
      rw [key .noneLit (pure .noneV) (by simp [evalE])]
      simp only [evalE, hook_envR, pure_bind_M]
      exact relM_bind c (relM_maybe c _ _ _ _ _ _ _) fun y =>
        relM_bind c (relM_doYield c y) fun r => relM_maybe c _ _ _ _ _ _ _
    | some e0 =>
      simp only [coreE] at h
      simp only [Expr.stores] at hs
      simp only [instrE]
      rw [key (instrE c.cfg e0) _ rfl]
      simp only [evalE, hook_envR]
      exact relM_bind c (simE c lib e0 h hs) fun x =>
        relM_bind c (relM_maybe c _ _ _ _ _ _ _) fun y =>
          relM_bind c (relM_doYield c y) fun r => relM_maybe c _ _ _ _ _ _ _
  | .interact .., h, _ => by simp [coreE] at h
  | .opaque src loads st0 a0, h, _ => by
    simp only [coreE, List.all_eq_true] at h
    simp only [instrE, evalE]
    intro st' st hrel
    have hl : (loads.map fun x => (x, lookupV c.envI st' x)) = (loads.map fun x => (x, lookupV c.envR st x)) := by
      apply List.map_congr_left
      intro x hx
      rw [hrel.loc x (h x hx)]
    dsimp only [Ctx.envI, Ctx.envR] at hl ⊢
    rw [hl, hrel.w]
    exact ⟨rfl, hrel.congr _ _ rfl rfl rfl hrel.hs hrel.inp hrel.out hrel.cur hrel.closed⟩
theorem simEL (c : Ctx W HS) (lib : LibSpec c) : (es : List Expr) → coreEL es = true →
    (∀ x ∈ Expr.storesL es, c.scoped x) → RelM c (evalEL c.envI (instrEL c.cfg es)) (evalEL c.envR es)
  | [], _, _ => by simp only [instrEL, evalEL]; exact relM_pure c _
  | e :: es, h, hs => by
    simp only [coreEL, Bool.and_eq_true] at h
    simp only [Expr.storesL, List.mem_append] at hs
    simp only [instrEL, evalEL]
    exact relM_bind c (simE c lib e h.1 fun x hx => hs x (Or.inl hx)) fun v =>
      relM_bind c (simEL c lib es h.2 fun x hx => hs x (Or.inr hx)) fun vs => relM_pure c _
end

end Ptera.Sem
