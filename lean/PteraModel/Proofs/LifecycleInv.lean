/-
  The bookkeeping invariant of the life-cycle model M5, for every list of operations:
  the context holds exactly the active probes (once each, in activation order), and every
  function's counters are the sums of what the active probes pushed.
-/
import PteraModel.Model.Lifecycle
namespace Ptera.Lifecycle

/-! ### list helpers -/

theorem modifyNth_get {α} (l : List α) (i j : Nat) (g : α → α) :
    (modifyNth l i g)[j]? = if j = i then l[j]?.map g else l[j]? := by
  unfold modifyNth
  rw [List.getElem?_mapIdx]
  by_cases h : j = i
  · subst h; cases l[j]? <;> simp
  · cases hl : l[j]? <;> simp [h]

theorem count_foldl_erase (c : Nat) : ∀ (xs l : List Nat), (∀ d, xs.count d ≤ l.count d) →
    (xs.foldl List.erase l).count c = l.count c - xs.count c := by
  intro xs
  induction xs with
  | nil => intro l _; simp
  | cons x xs ih =>
    intro l h
    simp only [List.foldl_cons]
    have hx : x ∈ l := by
      have := h x
      simp only [List.count_cons_self] at this
      exact List.count_pos_iff.mp (by omega)
    have h' : ∀ d, xs.count d ≤ (l.erase x).count d := by
      intro d
      have := h d
      rw [List.count_erase]
      simp only [List.count_cons] at this
      by_cases hd : x = d
      · subst hd; simp at this ⊢; omega
      · have : (x == d) = false := by simpa using hd
        simp [this] at *; omega
    rw [ih _ h', List.count_erase]
    simp only [List.count_cons]
    have := h c
    simp only [List.count_cons] at this
    by_cases hd : x = c
    · subst hd; simp at this ⊢; omega
    · have hb : (x == c) = false := by simpa using hd
      simp [hb] at this ⊢

/-! ### what one probe contributes to one function -/

def entries (t : List (Nat × List Nat)) (f : Nat) : Nat := (t.filter (·.1 == f)).length

def capsFor (t : List (Nat × List Nat)) (f : Nat) : List Nat := (t.filter (·.1 == f)).flatMap (·.2)

theorem pushAll_get (f : Nat) : ∀ (t : List (Nat × List Nat)) (fns : List FnState),
    (pushAll fns t)[f]? = fns[f]?.map fun fs =>
      { count := fs.count + entries t f, caps := fs.caps ++ capsFor t f } := by
  intro t
  induction t with
  | nil =>
    intro fns
    cases h : fns[f]? with
    | none => simp [pushAll, h]
    | some fs => simp [pushAll, entries, capsFor, h]
  | cons e rest ih =>
    intro fns
    obtain ⟨g, caps⟩ := e
    simp only [pushAll, List.foldl_cons] at ih ⊢
    rw [ih]
    rw [modifyNth_get]
    by_cases hg : f = g
    · subst hg
      cases fns[f]? with
      | none => simp
      | some fs =>
        simp [FnState.push, entries, capsFor, List.filter_cons, Nat.add_assoc, Nat.add_comm 1]
    · have hb : (g == f) = false := by simpa using (Ne.symm hg)
      cases fns[f]? with
      | none => simp [hg]
      | some fs => simp [hg, entries, capsFor, List.filter_cons, hb]

theorem popAll_get (f : Nat) : ∀ (t : List (Nat × List Nat)) (fns : List FnState),
    (popAll fns t)[f]? = fns[f]?.map fun fs =>
      { count := fs.count - entries t f, caps := (capsFor t f).foldl List.erase fs.caps } := by
  intro t
  induction t with
  | nil =>
    intro fns
    cases h : fns[f]? with
    | none => simp [popAll, h]
    | some fs => simp [popAll, entries, capsFor, h]
  | cons e rest ih =>
    intro fns
    obtain ⟨g, caps⟩ := e
    simp only [popAll, List.foldl_cons] at ih ⊢
    rw [ih]
    rw [modifyNth_get]
    by_cases hg : f = g
    · subst hg
      cases fns[f]? with
      | none => simp
      | some fs =>
        simp [FnState.pop, entries, capsFor, List.filter_cons, List.foldl_append, Nat.sub_sub,
          Nat.add_comm 1]
    · have hb : (g == f) = false := by simpa using (Ne.symm hg)
      cases fns[f]? with
      | none => simp [hg]
      | some fs => simp [hg, entries, capsFor, List.filter_cons, hb]

/-! ### the invariant -/

def specOf (probes : List Probe) (p : Nat) : ProbeSpec := ((probes[p]?).map (·.spec)).getD default

def isActive (probes : List Probe) (p : Nat) : Bool := ((probes[p]?).map (·.active)).getD false

def entriesSum (probes : List Probe) (cur : List Nat) (f : Nat) : Nat :=
  (cur.map fun p => entries (specOf probes p).targets f).sum

def occSum (probes : List Probe) (cur : List Nat) (f c : Nat) : Nat :=
  (cur.map fun p => (capsFor (specOf probes p).targets f).count c).sum

structure Inv (s : State) : Prop where
  nodup : s.current.Nodup
  active_iff : ∀ p, p ∈ s.current ↔ isActive s.probes p = true
  count : ∀ f fs, s.fns[f]? = some fs → fs.count = entriesSum s.probes s.current f
  caps : ∀ f fs c, s.fns[f]? = some fs → fs.caps.count c = occSum s.probes s.current f c
  activated : ∀ (p : Nat) (pr : Probe), s.probes[p]? = some pr → pr.active = true → pr.activated = true

theorem specOf_modify (probes : List Probe) (p : Nat) (g : Probe → Probe)
    (hg : ∀ pr, (g pr).spec = pr.spec) :
    specOf (modifyNth probes p g) = specOf probes := by
  funext q
  unfold specOf
  simp only [modifyNth_get]
  by_cases h : q = p
  · subst h; cases probes[q]? <;> simp [hg]
  · simp [h]

theorem entriesSum_modify (probes : List Probe) (p : Nat) (g : Probe → Probe)
    (hg : ∀ pr, (g pr).spec = pr.spec) (cur f) :
    entriesSum (modifyNth probes p g) cur f = entriesSum probes cur f := by
  unfold entriesSum; rw [specOf_modify probes p g hg]

theorem occSum_modify (probes : List Probe) (p : Nat) (g : Probe → Probe)
    (hg : ∀ pr, (g pr).spec = pr.spec) (cur f c) :
    occSum (modifyNth probes p g) cur f c = occSum probes cur f c := by
  unfold occSum; rw [specOf_modify probes p g hg]

theorem isActive_modify_other (probes : List Probe) (p q : Nat) (g : Probe → Probe) (h : q ≠ p) :
    isActive (modifyNth probes p g) q = isActive probes q := by
  unfold isActive; simp [modifyNth_get, h]

theorem sum_map_filter_ne (l : List Nat) (p : Nat) (w : Nat → Nat) (hnd : l.Nodup) (hp : p ∈ l) :
    ((l.filter (· != p)).map w).sum + w p = (l.map w).sum := by
  induction l with
  | nil => simp at hp
  | cons x xs ih =>
    have hnd' := (List.nodup_cons.mp hnd)
    by_cases hx : x = p
    · subst hx
      have : xs.filter (· != x) = xs := by
        apply List.filter_eq_self.mpr
        intro a ha
        have : a ≠ x := fun h => hnd'.1 (h ▸ ha)
        simpa using this
      simp [this]; omega
    · have hb : (x != p) = true := by simpa using hx
      have hp' : p ∈ xs := by
        rcases List.mem_cons.mp hp with h | h
        · exact absurd h.symm hx
        · exact h
      have := ih hnd'.2 hp'
      simp [List.filter_cons, hb]; omega

theorem le_sum_of_mem (l : List Nat) (p : Nat) (w : Nat → Nat) (hp : p ∈ l) : w p ≤ (l.map w).sum := by
  induction l with
  | nil => simp at hp
  | cons x xs ih =>
    rcases List.mem_cons.mp hp with h | h
    · subst h; simp
    · have := ih h; simp; omega

theorem init_inv (n : Nat) (probes : List Probe) (h : ∀ pr ∈ probes, pr.active = false) :
    Inv { fns := List.replicate n {}, probes := probes } := by
  refine ⟨List.nodup_nil, ?_, ?_, ?_, ?_⟩
  rotate_left 3
  · intro p pr hp ha
    have := h pr (List.mem_of_getElem? hp)
    rw [this] at ha; cases ha
  · intro p
    simp only [List.not_mem_nil, false_iff, isActive]
    cases hp : probes[p]? with
    | none => simp
    | some pr =>
      have := h pr (List.mem_of_getElem? hp)
      simp [this]
  · intro f fs hfs
    simp only [List.getElem?_replicate] at hfs
    split at hfs
    · cases hfs; simp [entriesSum]
    · cases hfs
  · intro f fs c hfs
    simp only [List.getElem?_replicate] at hfs
    split at hfs
    · cases hfs; simp [occSum]
    · cases hfs

/-- changing the stages of a probe (and the completion log) does not concern the invariant -/
theorem stages_inv (s : State) (p : Nat) (g : List Nat → List Nat) (completed' : List (Nat × Nat)) (h : Inv s) :
    Inv { s with completed := completed',
                 probes := modifyNth s.probes p fun pr => { pr with stages := g pr.stages } } := by
  refine ⟨h.nodup, ?_, ?_, ?_, ?_⟩
  rotate_left 3
  · intro q pr hq ha
    simp only [modifyNth_get] at hq
    by_cases hqp : q = p
    · subst hqp
      cases hs : s.probes[q]? with
      | none => simp [hs] at hq
      | some pr0 =>
        simp only [hs, if_true, Option.map_some, Option.some.injEq] at hq
        subst hq
        exact h.activated q pr0 hs ha
    · simp only [hqp, if_false] at hq
      exact h.activated q pr hq ha
  · intro q
    rw [h.active_iff q]
    simp only [isActive, modifyNth_get]
    by_cases hq : q = p
    · subst hq; cases s.probes[q]? <;> simp
    · simp [hq]
  · intro f fs hfs
    have e := entriesSum_modify s.probes p (fun pr => { pr with stages := g pr.stages })
      (fun _ => rfl) s.current f
    show fs.count = entriesSum (modifyNth s.probes p _) s.current f
    rw [e]; exact h.count f fs hfs
  · intro f fs c hfs
    have e := occSum_modify s.probes p (fun pr => { pr with stages := g pr.stages })
      (fun _ => rfl) s.current f c
    show fs.caps.count c = occSum (modifyNth s.probes p _) s.current f c
    rw [e]; exact h.caps f fs c hfs

theorem attach_inv (s : State) (p st : Nat) (h : Inv s) : Inv (attach s p st).1 :=
  stages_inv s p (fun l => l ++ [st]) s.completed h

theorem activate_refused_inv (s : State) (pr : Probe) (h : Inv s) :
    Inv { s with fns := popAll (pushAll s.fns pr.spec.targets) pr.spec.targets.reverse } := by
  refine ⟨h.nodup, h.active_iff, ?_, ?_, h.activated⟩
  · intro f fs hfs
    simp only [popAll_get, pushAll_get] at hfs
    cases hf : s.fns[f]? with
    | none => simp [hf] at hfs
    | some fs0 =>
      simp only [hf, Option.map_some, Option.some.injEq] at hfs
      subst hfs
      have he : entries pr.spec.targets.reverse f = entries pr.spec.targets f := by
        simp [entries, List.filter_reverse]
      show fs0.count + entries pr.spec.targets f - entries pr.spec.targets.reverse f = _
      rw [he, Nat.add_sub_cancel]; exact h.count f fs0 hf
  · intro f fs c hfs
    simp only [popAll_get, pushAll_get] at hfs
    cases hf : s.fns[f]? with
    | none => simp [hf] at hfs
    | some fs0 =>
      simp only [hf, Option.map_some, Option.some.injEq] at hfs
      subst hfs
      show ((capsFor pr.spec.targets.reverse f).foldl List.erase
          (fs0.caps ++ capsFor pr.spec.targets f)).count c = _
      have hperm : ∀ d, (capsFor pr.spec.targets.reverse f).count d
          = (capsFor pr.spec.targets f).count d := by
        intro d
        simp only [capsFor, List.filter_reverse, List.count_flatMap, List.map_reverse,
          List.sum_reverse]
      rw [count_foldl_erase]
      · rw [hperm c, List.count_append, Nat.add_sub_cancel]; exact h.caps f fs0 c hf
      · intro d; rw [hperm d, List.count_append]; omega

theorem activate_ok_inv (s : State) (p : Nat) (pr : Probe) (hp : s.probes[p]? = some pr)
    (hna : pr.activated = false) (h : Inv s) :
    Inv { s with fns := pushAll s.fns pr.spec.targets, current := s.current ++ [p],
                 probes := modifyNth s.probes p fun pr => { pr with activated := true, active := true } } := by
  have hpnot : p ∉ s.current := by
    intro hin
    have ha := (h.active_iff p).mp hin
    simp only [isActive, hp, Option.map_some, Option.getD_some] at ha
    have := h.activated p pr hp ha
    rw [hna] at this; cases this
  have hspec : specOf s.probes p = pr.spec := by simp [specOf, hp]
  have eE := fun cur f => entriesSum_modify s.probes p
    (fun pr => { pr with activated := true, active := true }) (fun _ => rfl) cur f
  have eO := fun cur f c => occSum_modify s.probes p
    (fun pr => { pr with activated := true, active := true }) (fun _ => rfl) cur f c
  refine ⟨?_, ?_, ?_, ?_, ?_⟩
  · rw [List.nodup_append]
    refine ⟨h.nodup, by simp, ?_⟩
    intro a ha b hb
    simp only [List.mem_singleton] at hb
    subst hb
    exact fun heq => hpnot (heq ▸ ha)
  · intro q
    by_cases hq : q = p
    · subst hq
      simp [isActive, modifyNth_get, hp]
    · simp only [List.mem_append, List.mem_singleton, hq, or_false]
      rw [h.active_iff q]
      show _ ↔ isActive (modifyNth s.probes p _) q = true
      rw [isActive_modify_other _ _ _ _ hq]
  · intro f fs hfs
    simp only [pushAll_get] at hfs
    cases hf : s.fns[f]? with
    | none => simp [hf] at hfs
    | some fs0 =>
      simp only [hf, Option.map_some, Option.some.injEq] at hfs
      subst hfs
      show fs0.count + entries pr.spec.targets f = entriesSum (modifyNth s.probes p _) (s.current ++ [p]) f
      rw [eE]
      simp only [entriesSum, List.map_append, List.sum_append, List.map_cons, List.map_nil,
        List.sum_cons, List.sum_nil, hspec, Nat.add_zero]
      have := h.count f fs0 hf
      simp only [entriesSum] at this
      omega
  · intro f fs c hfs
    simp only [pushAll_get] at hfs
    cases hf : s.fns[f]? with
    | none => simp [hf] at hfs
    | some fs0 =>
      simp only [hf, Option.map_some, Option.some.injEq] at hfs
      subst hfs
      show (fs0.caps ++ capsFor pr.spec.targets f).count c
        = occSum (modifyNth s.probes p _) (s.current ++ [p]) f c
      rw [eO]
      simp only [occSum, List.map_append, List.sum_append, List.map_cons, List.map_nil,
        List.sum_cons, List.sum_nil, hspec, Nat.add_zero, List.count_append]
      have := h.caps f fs0 c hf
      simp only [occSum] at this
      omega
  · intro q pr' hq ha
    simp only [modifyNth_get] at hq
    by_cases hqp : q = p
    · subst hqp
      simp only [hp, if_true, Option.map_some, Option.some.injEq] at hq
      subst hq; rfl
    · simp only [hqp, if_false] at hq
      exact h.activated q pr' hq ha

theorem deactivate_ok_inv (s : State) (p : Nat) (pr : Probe) (hp : s.probes[p]? = some pr)
    (hact : pr.active = true) (h : Inv s) :
    Inv { s with fns := popAll s.fns pr.spec.targets, current := s.current.filter (· != p),
                 completed := s.completed ++ pr.stages.map fun st => (p, st),
                 probes := modifyNth s.probes p fun pr => { pr with active := false, stages := [] } } := by
  have hpin : p ∈ s.current := (h.active_iff p).mpr (by simp [isActive, hp, hact])
  have hspec : specOf s.probes p = pr.spec := by simp [specOf, hp]
  have eE := fun cur f => entriesSum_modify s.probes p
    (fun pr => { pr with active := false, stages := [] }) (fun _ => rfl) cur f
  have eO := fun cur f c => occSum_modify s.probes p
    (fun pr => { pr with active := false, stages := [] }) (fun _ => rfl) cur f c
  refine ⟨?_, ?_, ?_, ?_, ?_⟩
  · exact List.Nodup.sublist List.filter_sublist h.nodup
  · intro q
    simp only [List.mem_filter, bne_iff_ne, ne_eq]
    by_cases hq : q = p
    · subst hq
      simp [isActive, modifyNth_get, hp]
    · simp only [hq, not_false_eq_true, and_true]
      rw [h.active_iff q]
      show _ ↔ isActive (modifyNth s.probes p _) q = true
      rw [isActive_modify_other _ _ _ _ hq]
  · intro f fs hfs
    simp only [popAll_get] at hfs
    cases hf : s.fns[f]? with
    | none => simp [hf] at hfs
    | some fs0 =>
      simp only [hf, Option.map_some, Option.some.injEq] at hfs
      subst hfs
      show fs0.count - entries pr.spec.targets f
        = entriesSum (modifyNth s.probes p _) (s.current.filter (· != p)) f
      rw [eE]
      have h1 := h.count f fs0 hf
      have h2 := sum_map_filter_ne s.current p (fun q => entries (specOf s.probes q).targets f)
        h.nodup hpin
      simp only [entriesSum, hspec] at h1 h2 ⊢
      omega
  · intro f fs c hfs
    simp only [popAll_get] at hfs
    cases hf : s.fns[f]? with
    | none => simp [hf] at hfs
    | some fs0 =>
      simp only [hf, Option.map_some, Option.some.injEq] at hfs
      subst hfs
      show ((capsFor pr.spec.targets f).foldl List.erase fs0.caps).count c
        = occSum (modifyNth s.probes p _) (s.current.filter (· != p)) f c
      rw [eO]
      have hle : ∀ d, (capsFor pr.spec.targets f).count d ≤ fs0.caps.count d := by
        intro d
        rw [h.caps f fs0 d hf]
        have := le_sum_of_mem s.current p (fun q => (capsFor (specOf s.probes q).targets f).count d) hpin
        simpa [occSum, hspec] using this
      rw [count_foldl_erase c _ _ hle]
      have h1 := h.caps f fs0 c hf
      have h2 := sum_map_filter_ne s.current p
        (fun q => (capsFor (specOf s.probes q).targets f).count c) h.nodup hpin
      simp only [occSum, hspec] at h1 h2 ⊢
      omega
  · intro q pr' hq ha
    simp only [modifyNth_get] at hq
    by_cases hqp : q = p
    · subst hqp
      simp only [hp, if_true, Option.map_some, Option.some.injEq] at hq
      subst hq; cases ha
    · simp only [hqp, if_false] at hq
      exact h.activated q pr' hq ha

/-- every operation preserves the invariant -/
theorem step_inv (body : Nat → List Nat) (varOf : Nat → Nat) (s : State) (op : Op) (h : Inv s) :
    Inv (step body varOf s op).1 := by
  cases op with
  | call f => exact h
  | attach p st => exact attach_inv s p st h
  | activate p =>
    simp only [step, activate]
    cases hp : s.probes[p]? with
    | none => exact h
    | some pr =>
      simp only
      by_cases hact : pr.activated = true
      · simp only [hact, if_true]; exact h
      · have hna : pr.activated = false := by simpa using hact
        simp only [hna, Bool.false_eq_true, if_false]
        by_cases href : pr.spec.refused = true
        · simp only [href, if_true]; exact activate_refused_inv s pr h
        · simp only [href, Bool.false_eq_true, if_false]
          exact activate_ok_inv s p pr hp hna h
  | deactivate p =>
    simp only [step, deactivate]
    cases hp : s.probes[p]? with
    | none => exact h
    | some pr =>
      simp only
      by_cases hact : pr.active = true
      · simp only [hact, Bool.not_true, Bool.false_eq_true, if_false]
        exact deactivate_ok_inv s p pr hp hact h
      · have : pr.active = false := by simpa using hact
        simp only [this, Bool.not_false, if_true]
        exact stages_inv s p (fun _ => []) _ h

/-- the invariant holds after every history -/
theorem run_inv (body : Nat → List Nat) (varOf : Nat → Nat) :
    ∀ (ops : List Op) (s : State), Inv s → Inv (run body varOf s ops).1 := by
  intro ops
  induction ops with
  | nil => intro s h; exact h
  | cons op ops ih =>
    intro s h
    simp only [run]
    have := ih (step body varOf s op).1 (step_inv body varOf s op h)
    cases hs : step body varOf s op with
    | mk s' o =>
      rw [hs] at this
      cases hr : run body varOf s' ops with
      | mk s'' os =>
        rw [hr] at this
        simpa [hs, hr] using this

end Ptera.Lifecycle
