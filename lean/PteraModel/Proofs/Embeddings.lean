/-
  The combinatorial core of C03: how many pending copies of each suffix of a chain selector
  the handler collection holds after a stack of activations — it is the number of ways the
  already matched prefix embeds into the stack.  Pure list combinatorics, no heap.

  A chain `l₁ > l₂ > … > l_k` is a list of levels; `fits a l` says whether activation `a`
  matches level `l`.  A pending entry is a pair (matched levels, innermost first; levels
  still to match, outermost first).
-/
namespace Ptera.Embeddings

variable {L A : Type} [DecidableEq L]

abbrev Entry (L : Type) := List L × List L

/-- one step of `HandlerCollection.proceed` on the selector component: every pending entry is
    kept; if its next level fits the entered activation and something remains below it, the
    remainder is pushed right after it -/
def enter (fits : A → L → Bool) (a : A) : List (Entry L) → List (Entry L)
  | [] => []
  | (d, []) :: rest => (d, []) :: enter fits a rest
  | (d, l :: ls) :: rest =>
    if fits a l ∧ ls ≠ [] then (d, l :: ls) :: (l :: d, ls) :: enter fits a rest
    else (d, l :: ls) :: enter fits a rest

/-- the pending collection after entering the activations `rs` (NEWEST first) under a root
    collection that holds the chain `c` once -/
def pending (fits : A → L → Bool) (c : List L) : List A → List (Entry L)
  | [] => [([], c)]
  | a :: rs => enter fits a (pending fits c rs)

/-- number of embeddings of the levels `d` (innermost first) into the activations `rs`
    (newest first): strictly increasing positions, arbitrary gaps, every level fits -/
def emb (fits : A → L → Bool) : List L → List A → Nat
  | [], _ => 1
  | _ :: _, [] => 0
  | l :: d, a :: rs => (if fits a l then emb fits d rs else 0) + emb fits (l :: d) rs

/-- how many new copies of the entry `(d', t')` one `enter` step creates -/
def extra (fits : A → L → Bool) (a : A) (P : List (Entry L)) : List L → List L → Nat
  | [], _ => 0
  | l :: d, t' => if fits a l then P.count (d, l :: t') else 0

theorem extra_cons_ne (fits : A → L → Bool) (a : A) (e : Entry L) (rest : List (Entry L))
    (d' t' : List L) (h : ∀ l d, d' = l :: d → fits a l = true → e ≠ (d, l :: t')) :
    extra fits a (e :: rest) d' t' = extra fits a rest d' t' := by
  cases d' with
  | nil => rfl
  | cons l d =>
    simp only [extra]
    by_cases hf : fits a l = true
    · have := h l d rfl hf
      simp [hf, List.count_cons, this]
    · simp [hf]

theorem count_enter (fits : A → L → Bool) (a : A) (d' t' : List L) (ht : t' ≠ []) :
    ∀ P : List (Entry L),
      (enter fits a P).count (d', t') = P.count (d', t') + extra fits a P d' t' := by
  intro P
  induction P with
  | nil => cases d' <;> simp [enter, extra]
  | cons e rest ih =>
    obtain ⟨d, t⟩ := e
    cases t with
    | nil =>
      have hx : extra fits a ((d, []) :: rest) d' t' = extra fits a rest d' t' :=
        extra_cons_ne fits a _ rest d' t' (by intro l dd _ _ h; injection h with _ h2; cases h2)
      simp only [enter, List.count_cons, ih, hx]
      omega
    | cons l ls =>
      by_cases hfit : fits a l = true ∧ ls ≠ []
      · have hen : enter fits a ((d, l :: ls) :: rest)
            = (d, l :: ls) :: (l :: d, ls) :: enter fits a rest := by
          simp only [enter]; rw [if_pos hfit]
        rw [hen]
        simp only [List.count_cons, ih]
        -- the pushed remainder is a copy of (d', t') exactly when the kept entry feeds `extra`
        by_cases he : (l :: d, ls) = (d', t')
        · injection he with h1 h2
          subst h1 h2
          have hx : extra fits a ((d, l :: ls) :: rest) (l :: d) ls
              = extra fits a rest (l :: d) ls + 1 := by
            simp [extra, hfit.1, List.count_cons]
          rw [hx]
          simp
          omega
        · have hx : extra fits a ((d, l :: ls) :: rest) d' t' = extra fits a rest d' t' := by
            apply extra_cons_ne
            intro l2 d2 hd' _ h
            injection h with h1 h2; injection h2 with h3 h4
            apply he; subst hd' h1 h3 h4; rfl
          rw [hx]
          have : ((l :: d, ls) == (d', t')) = false := by simpa using he
          simp [this]
          omega
      · have hen : enter fits a ((d, l :: ls) :: rest) = (d, l :: ls) :: enter fits a rest := by
          simp only [enter]; rw [if_neg hfit]
        rw [hen]
        have hx : extra fits a ((d, l :: ls) :: rest) d' t' = extra fits a rest d' t' := by
          apply extra_cons_ne
          intro l2 d2 _ hf h
          injection h with h1 h2; injection h2 with h3 h4
          subst h3 h4
          exact hfit ⟨hf, ht⟩
        simp only [List.count_cons, ih, hx]
        omega

/-- **the invariant of the pending collection**: an entry whose matched part is `d` and whose
    remaining part `t` is non-empty occurs exactly as many times as `d` embeds into the stack -/
theorem pending_count (fits : A → L → Bool) (c : List L) (hc : c ≠ []) :
    ∀ (rs : List A) (d t : List L), d.reverse ++ t = c → t ≠ [] →
      (pending fits c rs).count (d, t) = emb fits d rs := by
  intro rs
  induction rs with
  | nil =>
    intro d t hdt ht
    cases d with
    | nil =>
      simp only [List.reverse_nil, List.nil_append] at hdt
      subst hdt; simp [pending, emb]
    | cons l d =>
      have : ¬ (([] : List L), c) = (l :: d, t) := by intro h; injection h with h1; cases h1
      simp [pending, emb, List.count_cons, this]
  | cons a rs ih =>
    intro d t hdt ht
    simp only [pending]
    rw [count_enter fits a d t ht]
    cases d with
    | nil => simp [emb, extra, ih [] t hdt ht]
    | cons l d =>
      have h2 : d.reverse ++ (l :: t) = c := by
        rw [← hdt]; simp [List.reverse_cons, List.append_assoc]
      simp only [extra]
      rw [ih (l :: d) t hdt ht, ih d (l :: t) h2 (by simp)]
      simp only [emb]
      omega

theorem enter_wf (fits : A → L → Bool) (a : A) (c : List L) :
    ∀ P : List (Entry L), (∀ e ∈ P, e.1.reverse ++ e.2 = c) →
      ∀ e ∈ enter fits a P, e.1.reverse ++ e.2 = c := by
  intro P
  induction P with
  | nil => intro _ e he; simp [enter] at he
  | cons e0 rest ih =>
    intro h e he
    obtain ⟨d, t⟩ := e0
    have h0 := h (d, t) (by simp)
    have hrest : ∀ e ∈ rest, e.1.reverse ++ e.2 = c := fun e he => h e (by simp [he])
    cases t with
    | nil =>
      simp only [enter, List.mem_cons] at he
      rcases he with rfl | he
      · exact h0
      · exact ih hrest e he
    | cons l ls =>
      simp only [enter] at he
      split at he
      · simp only [List.mem_cons] at he
        rcases he with rfl | rfl | he
        · exact h0
        · simpa [List.reverse_cons, List.append_assoc] using h0
        · exact ih hrest e he
      · simp only [List.mem_cons] at he
        rcases he with rfl | he
        · exact h0
        · exact ih hrest e he

/-- every pending entry is a split of the chain -/
theorem pending_wf (fits : A → L → Bool) (c : List L) :
    ∀ rs : List A, ∀ e ∈ pending fits c rs, e.1.reverse ++ e.2 = c := by
  intro rs
  induction rs with
  | nil => intro e he; simp [pending] at he; subst he; simp
  | cons a rs ih => exact enter_wf fits a c _ ih

/-- entries ready to fire in the newest activation `a`: only the last level remains, and it fits -/
def firing (fits : A → L → Bool) (a : A) (P : List (Entry L)) : Nat :=
  (P.filter fun e => match e.2 with | [l] => fits a l | _ => false).length

/-- embeddings of the whole chain (levels innermost first) whose innermost level is matched by
    the newest activation -/
def embTop (fits : A → L → Bool) : List L → List A → Nat
  | l :: d, a :: rs => if fits a l then emb fits d rs else 0
  | _, _ => 0

theorem firing_eq_count (fits : A → L → Bool) (a : A) (d0 : List L) (lk : L) :
    ∀ P : List (Entry L), (∀ e ∈ P, e.1.reverse ++ e.2 = d0.reverse ++ [lk]) →
      firing fits a P = if fits a lk then P.count (d0, [lk]) else 0 := by
  intro P
  induction P with
  | nil => intro _; simp [firing]
  | cons e rest ih =>
    intro h
    have hrest : ∀ e ∈ rest, e.1.reverse ++ e.2 = d0.reverse ++ [lk] := fun e he => h e (by simp [he])
    have ih' := ih hrest
    unfold firing at ih' ⊢
    obtain ⟨d, t⟩ := e
    have h0 := h (d, t) (by simp)
    simp only [List.filter_cons, List.count_cons]
    match t, h0 with
    | [], _ =>
      have : ((d, ([] : List L)) == (d0, [lk])) = false := by
        simp
      simp [this, ih']
    | [l], h0 =>
      have hl : l = lk ∧ d = d0 := by
        have := List.append_inj' h0 rfl
        simp at this
        exact ⟨this.2, this.1⟩
      obtain ⟨rfl, rfl⟩ := hl
      by_cases hf : fits a l = true
      · simp [hf, ih']
      · simp [hf, ih']
    | l :: l2 :: ls, _ =>
      have : ((d, l :: l2 :: ls) == (d0, [lk])) = false := by
        simp
      simp [this, ih']

/-- **C03, counting form**: when the focus variable is bound in the newest activation `a` on top
    of the activations `rs`, a chain selector `c` holds exactly one ready-to-fire entry per
    embedding of the chain into the live stack that ends at `a` -/
theorem firing_pending (fits : A → L → Bool) (d0 : List L) (lk : L) (a : A) (rs : List A) :
    firing fits a (pending fits (d0.reverse ++ [lk]) rs) = embTop fits (lk :: d0) (a :: rs) := by
  rw [firing_eq_count fits a d0 lk _ (pending_wf fits _ rs)]
  rw [pending_count fits _ (by simp) rs d0 [lk] rfl (by simp)]
  rfl

end Ptera.Embeddings
