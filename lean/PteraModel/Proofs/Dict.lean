/- lemmas about the insertion-ordered dictionaries of the handlers model -/
import PteraModel.Model.Handlers
namespace Ptera.Handlers

theorem dictGet_map_set (k : String) (c : Capture) :
    ∀ d : List (String × Capture), (d.any (·.1 == k)) = true →
      dictGet (d.map fun (k', c') => if k' == k then (k', c) else (k', c')) k = some c := by
  intro d
  induction d with
  | nil => intro h; simp at h
  | cons p rest ih =>
    intro hany
    obtain ⟨k', c'⟩ := p
    by_cases hk' : (k' == k) = true
    · have hkk : k' = k := by simpa using hk'
      subst hkk
      simp [dictGet, List.find?_cons]
    · have hne : (k' == k) = false := by simpa using hk'
      simp only [List.any_cons, hne, Bool.false_or] at hany
      have := ih hany
      unfold dictGet at this ⊢
      simp only [List.map_cons, hne, List.find?_cons, Bool.false_eq_true, if_false]
      exact this

theorem dictGet_dictSet_same (d : List (String × Capture)) (k : String) (c : Capture) :
    dictGet (dictSet d k c) k = some c := by
  unfold dictSet
  split
  · rename_i hany; exact dictGet_map_set k c d hany
  · rename_i hany
    unfold dictGet
    rw [List.find?_append]
    have : d.find? (fun x => x.1 == k) = none := by
      simp only [List.find?_eq_none]
      intro x hx hxk
      apply hany
      simp only [List.any_eq_true]
      exact ⟨x, hx, hxk⟩
    simp [this]

end Ptera.Handlers
