import PteraModel.Proofs.SimFun
import PteraModel.Model.PyLiteHost
/-! the concrete host of the generated programs satisfies what the theorems assume of a host -/
namespace Ptera.Sem.PyLite
open Ptera.Py Ptera.Sem

theorem hostSpec : HostSpec host where
  absent := rfl
  key := ⟨cls "Key", rfl, fun _ _ _ => rfl⟩
  suspend := ⟨fn "__ptera_suspend", rfl, fun _ _ _ => rfl⟩
  resume := ⟨fn "__ptera_resume", rfl, fun _ _ _ => rfl⟩
  baseExc := ⟨cls "BaseException", rfl, fun e => by
    show isinst e (cls "BaseException") = true
    unfold isinst
    have : isBase (cls "BaseException") = true := rfl
    rw [this]; rfl⟩
  nameErr := ⟨cls "PteraNameError", rfl⟩
  pyNameErr := ⟨cls "NameError", rfl⟩
  frame := ⟨.obj "frame" [], rfl⟩
  globals := ⟨globalsObj, rfl, fun _ _ => rfl, fun _ _ => rfl⟩
  truthyBool := fun _ _ => rfl

end Ptera.Sem.PyLite
