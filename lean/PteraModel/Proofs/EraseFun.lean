import PteraModel.Proofs.EraseMain
/-!
# Erasure, part 6: the whole function — an observing handler makes the reference semantics plain Python
-/
namespace Ptera.Sem
open Ptera.Py

variable {W HS : Type}

/-- the ptera name error is an ordinary exception that `except PteraNameError` catches -/
structure PneSpec (host : Host W HS) : Prop where
  cls : ∃ n, host.glob nNameError = some n ∧ ∀ x, host.isinst (host.pteraNameError x) n = true
  notFatal : ∀ x, isFatal (host.pteraNameError x) = false
  /-- … and Python's own name error is one that `except NameError` catches -/
  pyCls : ∃ n, host.glob nPyNameError = some n ∧ ∀ x, host.isinst (host.nameError x) n = true
  pyNotFatal : ∀ x, isFatal (host.nameError x) = false

/-- the variables after the instrumented globals in `done` have been read at entry -/
def locAfter (c : ECtx W HS) (l0 : String → Option Val) (done : List String) : String → Option Val :=
  fun y => if y ∈ done ∧ shouldInstr c.cfg y [] = true then c.host.glob y else l0 y

/-- the variables after one global has been read at entry -/
def locFetch (c : ECtx W HS) (x : String) (l : String → Option Val) : String → Option Val :=
  if shouldInstr c.cfg x [] = true then
    (match c.host.glob x with
     | some v => fun y => if y = x then some v else l y
     | none => l)
  else l

/-- reading one global at entry, with an observing handler -/
theorem fetch_one_observer (c : ECtx W HS) (hg : HostGood c.host c.Good c.WInv) (hobs : Observer c.host)
    (pne : PneSpec c.host) (x : String) (hu : isUser x = true) (sr : St W HS) :
    ∃ hs1, fetchRef c.envR x sr = (.ok (), { sr with hs := hs1, loc := locFetch c x sr.loc }) := by
  obtain ⟨ncls, hn1, hn2⟩ := pne.cls
  by_cases hi : shouldInstr c.cfg x [] = true
  · have hf : fetchRef c.envR x = fun st =>
        match interactSem c.envR x .noneV (c.host.annVal .noneLit) ((c.host.glob x).getD .absent) true st with
        | (.ok r, st1) => setLoc x (some r) st1
        | (.err e, st1) =>
          if isFatal e then (.err e, st1)
          else if c.host.isinst e ncls then (.ok (), st1) else (.err e, st1) := by
      unfold fetchRef
      simp [ECtx.envR, hi, annValOpt, annArg, hn1]
      rfl
    rw [hf]
    cases hgx : c.host.glob x with
    | some v =>
      have hgv : c.Good v := hg.glob x v hu hgx
      refine ⟨(c.host.hnd { name := x, key := .noneV, ann := c.host.annVal .noneLit, value := v, ovr := true } sr.hs).2, ?_⟩
      simp only [Option.getD_some]
      rw [observe c hobs x .noneV _ v true (hg.notMarker v hgv) sr]
      simp only [setLoc, locFetch, hi, if_true, hgx]
    | none =>
      -- nothing to read: the observer answers the marker, the name error is caught, the name stays unbound
      refine ⟨(c.host.hnd { name := x, key := .noneV, ann := c.host.annVal .noneLit, value := .absent, ovr := true } sr.hs).2, ?_⟩
      simp only [Option.getD_none]
      have hI : interactSem c.envR x .noneV (c.host.annVal .noneLit) .absent true sr
          = (.err (c.host.pteraNameError x), { sr with hs := (c.host.hnd { name := x, key := .noneV, ann := c.host.annVal .noneLit, value := .absent, ovr := true } sr.hs).2 }) := by
        have ho := hobs { name := x, key := .noneV, ann := c.host.annVal .noneLit, value := .absent, ovr := true } sr.hs
        unfold interactSem
        simp only [ECtx.envR]
        rcases hh : c.host.hnd { name := x, key := .noneV, ann := c.host.annVal .noneLit, value := .absent, ovr := true } sr.hs with ⟨r, hs1⟩
        rw [hh] at ho
        simp only at ho
        subst ho
        rfl
      rw [hI]
      simp only [pne.notFatal x, Bool.false_eq_true, if_false, hn2 x, if_true, locFetch, hi, hgx]
  · have hf : fetchRef c.envR x = pure () := by
      unfold fetchRef
      simp [ECtx.envR, hi]
    rw [hf]
    refine ⟨sr.hs, ?_⟩
    simp only [locFetch, hi, if_false]
    rfl

theorem fetch_all_observer (c : ECtx W HS) (hg : HostGood c.host c.Good c.WInv) (hobs : Observer c.host)
    (pne : PneSpec c.host) (l0 : String → Option Val) :
    (xs : List String) → (∀ x ∈ xs, isUser x = true ∧ l0 x = none) → ∀ (done : List String) (sr : St W HS),
    sr.loc = locAfter c l0 done →
    ∃ hs1, fetchRefs c.envR xs sr = (.ok (), { sr with hs := hs1, loc := locAfter c l0 (done ++ xs) })
  | [], _, done, sr, hl => by
    refine ⟨sr.hs, ?_⟩
    simp only [fetchRefs, List.append_nil]
    rw [← hl]; rfl
  | x :: xs, hx, done, sr, hl => by
    simp only [fetchRefs]
    rw [bind_def_M]
    obtain ⟨hs1, h1⟩ := fetch_one_observer c hg hobs pne x (hx x (by simp)).1 sr
    rw [h1]
    simp only
    have hloc : locFetch c x sr.loc = locAfter c l0 (done ++ [x]) := by
      funext y
      rw [hl]
      unfold locAfter locFetch
      by_cases hi : shouldInstr c.cfg x [] = true
      · simp only [hi, if_true]
        cases hgx : c.host.glob x with
        | some v =>
          simp only
          by_cases hyx : y = x
          · subst hyx; simp [hi, hgx]
          · simp [hyx]
        | none =>
          simp only
          by_cases hyx : y = x
          · subst hyx
            simp only [List.mem_append, List.mem_singleton, or_true, hi, and_self, if_true, hgx]
            split
            · rfl
            · exact ((hx y (by simp)).2).symm ▸ rfl
          · simp [hyx]
      · simp only [hi, if_false]
        by_cases hyx : y = x
        · subst hyx; simp [hi]
        · simp [hyx]
    obtain ⟨hs2, h2⟩ := fetch_all_observer c hg hobs pne l0 xs (fun y hy => hx y (by simp [hy])) (done ++ [x])
      { sr with hs := hs1, loc := locAfter c l0 (done ++ [x]) } rfl
    refine ⟨hs2, ?_⟩
    rw [hloc, h2]
    simp [List.append_assoc]

/-- the handler sees a parameter: nothing but the handler state changes -/
theorem paramHook_observer (c : ECtx W HS) (hg : HostGood c.host c.Good c.WInv) (hobs : Observer c.host) (p : Param)
    (hl : c.local p.name) (sr sp : St W HS) (h : ERel c [] sr sp) (hb : sr.loc p.name ≠ none) :
    (paramHook c.envR p sr).1 = .ok () ∧ ERel c [] (paramHook c.envR p sr).2 sp
    ∧ ∀ y, sr.loc y ≠ none → (paramHook c.envR p sr).2.loc y ≠ none := by
  obtain ⟨v, hv⟩ : ∃ v, sr.loc p.name = some v := by
    cases hx : sr.loc p.name with
    | none => exact absurd hx hb
    | some v => exact ⟨v, rfl⟩
  have hgv : c.Good v := h.goodLocR p.name v hv
  have hlook : lookup c.envR p.name sr = (.ok v, sr) := by
    unfold lookup lookupV
    simp [ECtx.envR, hl.1, hv]
  have e : paramHook c.envR p = (lookup c.envR p.name >>= fun v => hook c.envR p.name p.ann v >>= fun r =>
      setLoc p.name (some r)) := by
    unfold paramHook; simp [ECtx.envR]
  rw [e, bind_def_M, hlook]
  simp only
  rw [bind_def_M]
  have hhook : ∃ hs1, (hook c.envR p.name p.ann v : M W HS Val) sr = (.ok v, { sr with hs := hs1 }) := by
    unfold hook
    simp only [ECtx.envR]
    split
    · refine ⟨(c.host.hnd { name := p.name, key := .noneV, ann := annValOpt c.envR p.ann, value := v, ovr := true } sr.hs).2, ?_⟩
      rw [show interactSem { host := c.host, sc := c.scR, hk := some c.cfg } p.name .noneV
          (annValOpt { host := c.host, sc := c.scR, hk := some c.cfg } p.ann) v true sr
          = interactSem c.envR p.name .noneV (annValOpt c.envR p.ann) v true sr from rfl,
        observe c hobs p.name .noneV _ v true (hg.notMarker v hgv) sr]
    · exact ⟨sr.hs, rfl⟩
  obtain ⟨hs1, hh⟩ := hhook
  rw [hh]
  simp only [setLoc]
  refine ⟨by first | rfl | trivial, ?_, ?_⟩
  · refine ⟨h.w, h.inp, h.out, h.cur, h.closed, ?_, ?_, h.goodLoc, ?_, h.goodInp, h.goodCur, h.winv⟩
    · intro y _
      by_cases hyx : y = p.name
      · subst hyx
        rw [lookupV_upd_eq c.envR sr p.name (some v) hl.1]
        rw [← h.look p.name (by simp)]
        unfold lookupV
        simp [ECtx.envR, hl.1, hv]
      · rw [lookupV_upd_ne c.envR sr p.name y (some v) hyx]
        exact h.look y (by simp)
    · intro y hy; simp at hy
    · intro y u hu
      simp only at hu
      by_cases hyx : y = p.name
      · simp [hyx] at hu; subst hu; exact hgv
      · simp [hyx] at hu; exact h.goodLocR y u hu
  · intro y hy
    by_cases hyx : y = p.name <;> simp [hyx, hy]

theorem paramHooks_observer (c : ECtx W HS) (hg : HostGood c.host c.Good c.WInv) (hobs : Observer c.host) :
    (ps : List Param) → (∀ p ∈ ps, c.local p.name) → ∀ sr sp, ERel c [] sr sp → (∀ p ∈ ps, sr.loc p.name ≠ none) →
    (paramHooks c.envR ps sr).1 = .ok () ∧ ERel c [] (paramHooks c.envR ps sr).2 sp
  | [], _, sr, sp, h, _ => by simp only [paramHooks]; exact ⟨rfl, h⟩
  | p :: ps, hl, sr, sp, h, hb => by
    simp only [paramHooks]
    rw [bind_def_M]
    obtain ⟨h1, h2, h3⟩ := paramHook_observer c hg hobs p (hl p (by simp)) sr sp h (hb p (by simp))
    rcases hp : paramHook c.envR p sr with ⟨r, sr1⟩
    rw [hp] at h1 h2 h3
    simp only at h1 h2 h3
    subst h1
    simp only
    exact paramHooks_observer c hg hobs ps (fun q hq => hl q (by simp [hq])) sr1 sp h2
      (fun q hq => h3 q.name (hb q (by simp [hq])))

end Ptera.Sem

namespace Ptera.Sem
open Ptera.Py

variable {W HS : Type}

/-! ## plain Python: the prologue vanishes -/

theorem fetchRefs_envP (c : ECtx W HS) : (xs : List String) → fetchRefs c.envP xs = pure ()
  | [] => by simp [fetchRefs]
  | x :: xs => by
    have : fetchRef c.envP x = pure () := by unfold fetchRef; simp [ECtx.envP]
    simp [fetchRefs, this, fetchRefs_envP c xs]

theorem freeHooks_envP (c : ECtx W HS) : (xs : List String) → freeHooks c.envP xs = pure ()
  | [] => by simp [freeHooks]
  | x :: xs => by
    have : freeHook c.envP x = pure () := by unfold freeHook; simp [ECtx.envP]
    simp [freeHooks, this, freeHooks_envP c xs]

theorem paramHooks_envP (c : ECtx W HS) : (ps : List Param) → paramHooks c.envP ps = pure ()
  | [] => by simp [paramHooks]
  | p :: ps => by
    have : paramHook c.envP p = pure () := by unfold paramHook; simp [ECtx.envP]
    simp [paramHooks, this, paramHooks_envP c ps]

theorem hookMetas_envP (c : ECtx W HS) (ann : Option Ann) : (xs : List String) → hookMetas c.envP ann xs = pure ()
  | [] => by simp [hookMetas]
  | x :: xs => by
    have : ∀ v, hookMeta c.envP x ann v = pure () := by intro v; unfold hookMeta; simp [ECtx.envP]
    simp [hookMetas, this, hookMetas_envP c ann xs]

theorem runRef_plain (c : ECtx W HS) (f : FunDef) :
    runRef c.envP c.fuel f = execB c.envP c.fuel (bodyWithReturn f) := by
  unfold runRef
  simp only [ECtx.envP]
  have h1 := hookMetas_envP c (some enterAnn) ["#enter"]
  have h2 := fetchRefs_envP c (sortNames (collect f).external)
  have h3 := paramHooks_envP c f.params
  have h4 := freeHooks_envP c (sortNames (collect f).free)
  simp only [ECtx.envP] at h1 h2 h3 h4
  simp only [h1, h2, h3, h4, pure_bind_M, stepM_pure, seqX_done_normal]

/-- a meta event with an observing handler: only the handler state changes -/
theorem hookMeta_observer (c : ECtx W HS) (hg : HostGood c.host c.Good c.WInv) (hobs : Observer c.host) (x : String)
    (ann : Option Ann) (v : Val) (hv : c.Good v) (sr : St W HS) :
    ∃ hs1, hookMeta c.envR x ann v sr = (.ok (), { sr with hs := hs1 }) := by
  unfold hookMeta
  simp only [ECtx.envR]
  split
  · refine ⟨(c.host.hnd { name := x, key := .noneV, ann := annValOpt c.envR ann, value := v, ovr := false } sr.hs).2, ?_⟩
    rw [bind_def_M]
    rw [show interactSem { host := c.host, sc := c.scR, hk := some c.cfg } x .noneV
        (annValOpt { host := c.host, sc := c.scR, hk := some c.cfg } ann) v false sr
        = interactSem c.envR x .noneV (annValOpt c.envR ann) v false sr from rfl,
      observe c hobs x .noneV _ v false (hg.notMarker v hv) sr]
    rfl
  · exact ⟨sr.hs, rfl⟩

/-- a closure variable: with an observing handler only the handler state changes — whether its cell holds a value
    (the handler is shown it) or is still empty (the name error of the read is caught and nothing happens) -/
theorem freeHook_observer (c : ECtx W HS) (hg : HostGood c.host c.Good c.WInv) (hobs : Observer c.host)
    (pne : PneSpec c.host) (x : String)
    (hx : isUser x = true) (hsc : c.scR x = false) (sr : St W HS) :
    ∃ hs1, freeHook c.envR x sr = (.ok (), { sr with hs := hs1 }) := by
  obtain ⟨ncls, hn, hinst⟩ := pne.pyCls
  unfold freeHook
  simp only [ECtx.envR]
  rw [bind_def_M]
  cases hgl : c.host.glob x with
  | none =>
    have hlook : lookup { host := c.host, sc := c.scR, hk := some c.cfg } x sr = (.err (c.host.nameError x), sr) := by
      unfold lookup lookupV
      simp [hsc, hgl]
    refine ⟨sr.hs, ?_⟩
    rw [hlook]
    simp only [pne.pyNotFatal x, Bool.false_eq_true, if_false, hn, hinst x, if_true]
  | some v =>
    have hgv : c.Good v := hg.glob x v hx hgl
    have hlook : lookup { host := c.host, sc := c.scR, hk := some c.cfg } x sr = (.ok v, sr) := by
      unfold lookup lookupV
      simp [hsc, hgl]
    rw [hlook]
    simp only
    by_cases hi : shouldInstr c.cfg x [] = true
    · refine ⟨(c.host.hnd { name := x, key := .noneV, ann := annValOpt c.envR none, value := v, ovr := false } sr.hs).2, ?_⟩
      simp only [hi, if_true]
      rw [show interactSem { host := c.host, sc := c.scR, hk := some c.cfg } x .noneV
          (annValOpt { host := c.host, sc := c.scR, hk := some c.cfg } none) v false sr
          = interactSem c.envR x .noneV (annValOpt c.envR none) v false sr from rfl,
        observe c hobs x .noneV _ v false (hg.notMarker v hgv) sr]
    · simp only [Bool.not_eq_true] at hi
      simp only [hi, Bool.false_eq_true, if_false]
      exact ⟨sr.hs, rfl⟩

theorem freeHooks_observer (c : ECtx W HS) (hg : HostGood c.host c.Good c.WInv) (hobs : Observer c.host)
    (pne : PneSpec c.host) :
    (xs : List String) → (∀ x ∈ xs, isUser x = true ∧ c.scR x = false) → ∀ sr : St W HS,
    ∃ hs1, freeHooks c.envR xs sr = (.ok (), { sr with hs := hs1 })
  | [], _, sr => ⟨sr.hs, rfl⟩
  | x :: xs, h, sr => by
    obtain ⟨hs1, h1⟩ := freeHook_observer c hg hobs pne x (h x (by simp)).1 (h x (by simp)).2 sr
    obtain ⟨hs2, h2⟩ := freeHooks_observer c hg hobs pne xs (fun y hy => h y (by simp [hy])) { sr with hs := hs1 }
    refine ⟨hs2, ?_⟩
    simp only [freeHooks]
    rw [bind_def_M, h1]
    simp only
    rw [h2]

/-- the wrapper of the activation (`#error`, `#exit`) with an observing handler changes nothing observable -/
theorem wrapper_observer (c : ECtx W HS) (hg : HostGood c.host c.Good c.WInv) (hobs : Observer c.host)
    {coreR coreP : Exec W HS} {sr sp : St W HS} (h : EXp c coreR coreP sr sp) :
    EXp c (tryFinally (tryExcept coreR (errorHook c.envR) (done .normal))
        (stepM (hookMetas c.envR (some exitAnn) ["#exit"]) fun _ => done .normal)) coreP sr sp := by
  obtain ⟨hr, hok, hrel⟩ := h
  unfold EXp tryFinally tryExcept
  rcases hcr : coreR sr with ⟨kr, sr1⟩
  rcases hcp : coreP sp with ⟨kp, sp1⟩
  rw [hcr, hcp] at hr hrel
  rw [hcp] at hok
  simp only at hr hok hrel
  subst hr
  -- the final part: the `#exit` event
  have hexit : ∀ s1 : St W HS, ERel c [] s1 sp1 →
      ∃ hs1, (stepM (hookMetas c.envR (some exitAnn) ["#exit"]) fun _ => done .normal) s1 = (.normal, { s1 with hs := hs1 }) := by
    intro s1 _
    obtain ⟨hs1, he⟩ := hookMeta_observer c hg hobs "#exit" (some exitAnn) (.bool true) (hg.bool true) s1
    refine ⟨hs1, ?_⟩
    unfold stepM
    simp only [hookMetas]
    rw [bind_def_M, he]
    rfl
  cases kr with
  | exc e =>
    simp only
    by_cases hfat : isFatal e = true
    · simp only [hfat, if_true, ctlFatal]
      exact ⟨by first | rfl | trivial, hok, hrel⟩
    · simp only [Bool.not_eq_true] at hfat
      have hge : c.Good e := by
        rcases hok with hf | hgd
        · rw [hfat] at hf; exact absurd hf (by decide)
        · exact hgd
      simp only [hfat, Bool.false_eq_true, if_false]
      -- the `#error` event, then the exception goes on
      have herr : ∃ hs1, errorHook c.envR e sr1 = (.exc e, { sr1 with hs := hs1 }) := by
        unfold errorHook
        simp only [ECtx.envR]
        split
        · refine ⟨(c.host.hnd { name := "#error", key := .noneV, ann := annValOpt c.envR none, value := e, ovr := false } sr1.hs).2, ?_⟩
          unfold stepM
          rw [show interactSem { host := c.host, sc := c.scR, hk := some c.cfg } "#error" .noneV
              (annValOpt { host := c.host, sc := c.scR, hk := some c.cfg } none) e false sr1
              = interactSem c.envR "#error" .noneV (annValOpt c.envR none) e false sr1 from rfl,
            observe c hobs "#error" .noneV _ e false (hg.notMarker e hge) sr1]
          rfl
        · exact ⟨sr1.hs, rfl⟩
      obtain ⟨hs1, he1⟩ := herr
      rw [he1]
      simp only [ctlFatal, hfat, Bool.false_eq_true, if_false]
      obtain ⟨hs2, he2⟩ := hexit { sr1 with hs := hs1 } (hrel.congrHs hs1)
      rw [he2]
      exact ⟨by first | rfl | trivial, hok, (hrel.congrHs hs1).congrHs hs2⟩
  | normal =>
    simp only [done, ctlFatal, Bool.false_eq_true, if_false]
    obtain ⟨hs2, he2⟩ := hexit sr1 hrel
    rw [he2]
    exact ⟨by first | rfl | trivial, hok, hrel.congrHs hs2⟩
  | brk =>
    simp only [ctlFatal, Bool.false_eq_true, if_false]
    obtain ⟨hs2, he2⟩ := hexit sr1 hrel
    rw [he2]
    exact ⟨by first | rfl | trivial, hok, hrel.congrHs hs2⟩
  | cont =>
    simp only [ctlFatal, Bool.false_eq_true, if_false]
    obtain ⟨hs2, he2⟩ := hexit sr1 hrel
    rw [he2]
    exact ⟨by first | rfl | trivial, hok, hrel.congrHs hs2⟩
  | ret v =>
    simp only [ctlFatal, Bool.false_eq_true, if_false]
    obtain ⟨hs2, he2⟩ := hexit sr1 hrel
    rw [he2]
    exact ⟨by first | rfl | trivial, hok, hrel.congrHs hs2⟩

end Ptera.Sem

namespace Ptera.Sem
open Ptera.Py

variable {W HS : Type}

def ectxOf (host : Host W HS) (cfg : Cfg) (f : FunDef) (fuel : Nat) (Good : Val → Prop) (WInv : W → Prop) :
    ECtx W HS :=
  { host := host, cfg := cfg, scR := scopeRef cfg f, scP := scopeOf f, fuel := fuel, Good := Good, WInv := WInv }

/-- **Erasure.** With a handler that only observes, the reference semantics of a function of the core
    fragment without bare declarations does what plain Python does: same way of ending, same world, same
    generator traffic, same variables. -/
theorem erasure (host : Host W HS) (cfg : Cfg) (f : FunDef) (fuel : Nat) (Good : Val → Prop) (WInv : W → Prop)
    (hg : HostGood host Good WInv) (hobs : Observer host) (pne : PneSpec host)
    (hf : coreF f = true) (hnd : noDeclB (bodyWithReturn f) = true) (st0 : St W HS)
    (hext : ∀ x ∈ (collect f).external, st0.loc x = none)
    (hcell : ∀ x ∈ f.freevars, (collect f).assigned.contains x = false)
    (hpar : ∀ p ∈ f.params, st0.loc p.name ≠ none)
    (hgood : ∀ x v, st0.loc x = some v → Good v) (hinp : ∀ cmd ∈ st0.inp, GoodCmd Good cmd)
    (hcur : ∀ e ∈ st0.cur, Good e) (hw : WInv st0.w) :
    EXp (ectxOf host cfg f fuel Good WInv)
      (runRef (ectxOf host cfg f fuel Good WInv).envR fuel f)
      (runRef (ectxOf host cfg f fuel Good WInv).envP fuel f) st0 st0 := by
  let c := ectxOf host cfg f fuel Good WInv
  have hgc : HostGood c.host c.Good c.WInv := hg
  have hobc : Observer c.host := hobs
  simp only [coreF, Bool.and_eq_true, List.all_eq_true] at hf
  obtain ⟨⟨⟨⟨⟨hbody, hau⟩, heu⟩, hfu⟩, hasg⟩, hparam⟩ := hf
  have hlocal : ∀ x, (collect f).assigned.contains x = true → c.local x := fun x hx =>
    ⟨scopeRef_of_assigned cfg f x hx, by simp only [c, ectxOf, scopeOf]; exact hx⟩
  have hextNA : ∀ x, x ∈ (collect f).external → (collect f).assigned.contains x = false := by
    intro x hx
    simp only [Collected.external, List.mem_filter, Bool.and_eq_true, Bool.not_eq_true'] at hx
    exact hx.2.1
  -- the prologue on the reference side
  have hX : ∀ x ∈ sortNames (collect f).external, isUser x = true ∧ st0.loc x = none := fun x hx =>
    ⟨heu x ((mem_sortNames x _).1 hx), hext x ((mem_sortNames x _).1 hx)⟩
  obtain ⟨hs1, hm1⟩ := hookMeta_observer c hgc hobc "#enter" (some enterAnn) (.bool true) (hg.bool true) st0
  obtain ⟨hs2, hm2⟩ := fetch_all_observer c hgc hobc pne st0.loc (sortNames (collect f).external) hX []
    { st0 with hs := hs1 } (by funext y; simp [locAfter])
  simp only [List.nil_append] at hm2
  -- the state after `#enter` and the globals: related to the initial state of the plain run
  have hrel : ERel c [] { st0 with hs := hs2, loc := locAfter c st0.loc (sortNames (collect f).external) } st0 := by
    refine ⟨rfl, rfl, rfl, rfl, rfl, ?_, ?_, hgood, ?_, hinp, hcur, hw⟩
    · intro x _
      show (if scopeRef cfg f x = true then locAfter c st0.loc (sortNames (collect f).external) x else host.glob x)
        = (if scopeOf f x = true then st0.loc x else host.glob x)
      cases ha : (collect f).assigned.contains x with
      | true =>
        have hne : ¬ (x ∈ sortNames (collect f).external ∧ shouldInstr cfg x [] = true) := by
          intro hm
          have := hextNA x ((mem_sortNames x _).1 hm.1)
          rw [ha] at this; exact absurd this (by decide)
        have hP : scopeOf f x = true := ha
        rw [scopeRef_of_assigned cfg f x ha, hP]
        simp only [if_true]
        unfold locAfter
        exact if_neg hne
      | false =>
        have hP : scopeOf f x = false := ha
        rw [hP]
        simp only [Bool.false_eq_true, if_false]
        by_cases he : x ∈ (collect f).external
        · have hme : x ∈ sortNames (collect f).external := (mem_sortNames x _).2 he
          rw [scopeRef_of_external cfg f x ha (List.contains_iff_mem.2 he)]
          by_cases hi : shouldInstr cfg x [] = true
          · rw [hi]
            simp only [if_true]
            unfold locAfter
            exact if_pos ⟨hme, hi⟩
          · simp only [Bool.not_eq_true] at hi
            rw [hi]
            simp only [Bool.false_eq_true, if_false]
        · have hce : (collect f).external.contains x = false := by
            cases hc : (collect f).external.contains x
            · rfl
            · exact absurd (List.contains_iff_mem.1 hc) he
          have hR : scopeRef cfg f x = false := by
            simp only [scopeRef, ha, hce, Bool.false_and, Bool.or_self]
          rw [hR]
          simp only [Bool.false_eq_true, if_false]
    · intro x hx; simp at hx
    · intro x v hv
      simp only [locAfter] at hv
      split at hv
      · rename_i hcond
        exact hg.glob x v (hX x hcond.1).1 hv
      · exact hgood x v hv
  -- parameters
  have hparR : ∀ p ∈ f.params,
      ({ st0 with hs := hs2, loc := locAfter c st0.loc (sortNames (collect f).external) } : St W HS).loc p.name ≠ none := by
    intro p hp
    simp only [locAfter]
    have hne : p.name ∉ sortNames (collect f).external := by
      intro hm
      have := hextNA p.name ((mem_sortNames _ _).1 hm)
      rw [hparam p hp] at this; exact absurd this (by decide)
    simp only [hne, false_and, if_false]
    exact hpar p hp
  -- closure variables: only the handler state moves
  have hF : ∀ x ∈ sortNames (collect f).free, isUser x = true ∧ c.scR x = false := by
    intro x hx
    have hxf : x ∈ f.freevars := by simpa [collect] using (mem_sortNames x _).1 hx
    refine ⟨hfu x hxf, ?_⟩
    have hne : (collect f).external.contains x = false := by
      cases hc : (collect f).external.contains x
      · rfl
      · have := List.contains_iff_mem.1 hc
        simp only [Collected.external, List.mem_filter, Bool.and_eq_true, Bool.not_eq_true'] at this
        have hfc : (collect f).free.contains x = true := List.contains_iff_mem.2 (by simpa [collect] using hxf)
        rw [hfc] at this
        exact absurd this.2.2 (by decide)
    show scopeRef cfg f x = false
    simp only [scopeRef, hcell x hxf, hne, Bool.false_and, Bool.or_self]
  obtain ⟨hs3, hm3⟩ := freeHooks_observer c hgc hobc pne (sortNames (collect f).free) hF
    { st0 with hs := hs2, loc := locAfter c st0.loc (sortNames (collect f).external) }
  have hrel := hrel.congrHs hs3
  have hparR : ∀ p ∈ f.params,
      ({ st0 with hs := hs3, loc := locAfter c st0.loc (sortNames (collect f).external) } : St W HS).loc p.name ≠ none :=
    hparR
  obtain ⟨hp1, hp2⟩ := paramHooks_observer c hgc hobc f.params (fun p hp => hlocal p.name (hparam p hp)) _ _ hrel hparR
  -- the core of the activation
  have hcore : EXp c
      (seqX (stepM (do hookMetas c.envR (some enterAnn) ["#enter"]
                       fetchRefs c.envR (sortNames (collect f).external)
                       freeHooks c.envR (sortNames (collect f).free)
                       paramHooks c.envR f.params) fun _ => done .normal)
        (execB c.envR c.fuel (bodyWithReturn f)))
      (execB c.envP c.fuel (bodyWithReturn f)) st0 st0 := by
    have hb := eraseB c hgc hobc (bodyWithReturn f) hbody hnd (fun x hx => hlocal x (hasg x hx))
    have hpro : ((hookMetas c.envR (some enterAnn) ["#enter"] >>= fun _ =>
          fetchRefs c.envR (sortNames (collect f).external) >>= fun _ =>
          freeHooks c.envR (sortNames (collect f).free) >>= fun _ => paramHooks c.envR f.params) : M W HS Unit) st0
        = paramHooks c.envR f.params
            { st0 with hs := hs3, loc := locAfter c st0.loc (sortNames (collect f).external) } := by
      simp only [hookMetas, bind_def_M, hm1, pure_def_M, hm2, hm3]
    unfold EXp seqX stepM
    rw [hpro]
    rcases hph : paramHooks c.envR f.params
      { st0 with hs := hs3, loc := locAfter c st0.loc (sortNames (collect f).external) } with ⟨r, sr3⟩
    rw [hph] at hp1 hp2
    simp only at hp1 hp2
    subst hp1
    simp only [done]
    exact hb sr3 st0 hp2
  -- wrap up
  show EXp c (runRef c.envR fuel f) (runRef c.envP fuel f) st0 st0
  rw [show runRef c.envP fuel f = execB c.envP c.fuel (bodyWithReturn f) from runRef_plain c f]
  unfold runRef
  simp only [ECtx.envR]
  split
  · exact hcore
  · exact wrapper_observer c hgc hobc hcore

end Ptera.Sem
