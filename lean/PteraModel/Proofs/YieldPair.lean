import PteraModel.Proofs.Balance
/-!
# `#yield` / `#receive` pairing (C06)

With the recording handler: along the events of an activation, every `#receive` event directly follows — among
the `#yield` / `#receive` events — the `#yield` it answers; a `#yield` that is not answered (the driver threw,
closed or dropped the generator there) is simply followed by the next `#yield`, or by nothing.  An instance of
the invariant theorem: the predicate is "the names recorded since the start are accepted by the two-state
automaton", every other name leaves the state alone, and a `yield` expression as a whole (`yieldSeq`) moves it
from any state to `answered`, or to `pending` if the generator is not resumed by a value.
-/
namespace Ptera.Sem
open Ptera.Py

/-- the automaton: `pending` is true after a `#yield` that has not been answered yet -/
def yr : Bool → List String → Option Bool
  | p, [] => some p
  | p, n :: ns =>
    if n = "#yield" then yr true ns
    else if n = "#receive" then (if p then yr false ns else none)
    else yr p ns

theorem yr_append : ∀ (a b : List String) (p : Bool), yr p (a ++ b) = (yr p a).bind fun q => yr q b
  | [], b, p => by simp [yr]
  | n :: ns, b, p => by
    simp only [List.cons_append, yr]
    split
    · exact yr_append ns b true
    · split
      · cases p with
        | true => simp only [if_true]; exact yr_append ns b false
        | false => simp
      · exact yr_append ns b p

/-- since `base`, the recorded names are accepted -/
def Paired (base : List String) (st : St PW PH) : Prop :=
  ∃ w q, evNames st = base ++ w ∧ yr false w = some q

def NotYR (n : String) : Prop := n ≠ "#yield" ∧ n ≠ "#receive"

theorem paired_sameHs {base : List String} {st st2 : St PW PH} (h : Paired base st) (hh : st2.hs = st.hs) :
    Paired base st2 := by
  obtain ⟨w, q, h1, h2⟩ := h
  exact ⟨w, q, by unfold evNames at h1 ⊢; rw [hh]; exact h1, h2⟩

theorem paired_other {base : List String} {st st2 : St PW PH} (h : Paired base st) (n : String) (hn : NotYR n)
    (hh : evNames st2 = evNames st ++ [n]) : Paired base st2 := by
  obtain ⟨w, q, h1, h2⟩ := h
  refine ⟨w ++ [n], q, by rw [hh, h1, List.append_assoc], ?_⟩
  rw [yr_append, h2]
  simp [yr, hn.1, hn.2]

theorem paired_yield {base : List String} {st st2 : St PW PH} (h : Paired base st)
    (hh : evNames st2 = evNames st ++ ["#yield"]) :
    ∃ w, evNames st2 = base ++ w ∧ yr false w = some true := by
  obtain ⟨w, q, h1, h2⟩ := h
  refine ⟨w ++ ["#yield"], by rw [hh, h1, List.append_assoc], ?_⟩
  rw [yr_append, h2]
  simp [yr]

/-- what a captured / uncaptured `hook` does with the recording handler -/
theorem hook_rec (sc : String → Bool) (cfg : Cfg) (name : String) (ann : Option Ann) (v : Val) (st : St PW PH) :
    (shouldInstr cfg name (annTags ann) = true →
      evNames ((hook (recEnv sc cfg) name ann v : M PW PH Val) st).2 = evNames st ++ [name])
    ∧ (shouldInstr cfg name (annTags ann) = false →
        (hook (recEnv sc cfg) name ann v : M PW PH Val) st = (.ok v, st)) := by
  constructor
  · intro hi
    unfold hook
    simp only [recEnv, hi, if_true]
    unfold interactSem
    simp only [PyLite.hostObs]
    cases v <;> simp [evNames]
  · intro hi
    unfold hook
    simp only [recEnv, hi, Bool.false_eq_true, if_false]
    rfl

theorem doYield_hs (env : Env PW PH) (y : Val) (st : St PW PH) : (doYield env y st).2.hs = st.hs := by
  unfold doYield
  cases st.inp with
  | nil => simp only; split <;> rfl
  | cons cmd rest => cases cmd <;> rfl

theorem pairKitS (sc : String → Bool) (cfg : Cfg) (base : List String) :
    InvKitB (recEnv sc cfg) (Paired base) (fun _ => True) NotYR where
  nUser := fun x hx => by
    constructor <;> (intro e; rw [e] at hx; exact absurd hx (by decide))
  int := fun _ => trivial
  str := fun _ => trivial
  noneV := trivial
  bool := fun _ => trivial
  const := fun _ => trivial
  tuple := fun _ _ => trivial
  list := fun _ _ => trivial
  look := fun _ _ _ _ _ _ => trivial
  nameError := fun _ => trivial
  unpackError := trivial
  noActiveExc := trivial
  call := fun st f a hp _ _ => ⟨paired_sameHs hp rfl, by cases (PyLite.hostObs.call f a st.w).1 <;> simp [ResQ]⟩
  binop := fun st op a b hp _ _ => ⟨paired_sameHs hp rfl, by cases (PyLite.hostObs.binop op a b st.w).1 <;> simp [ResQ]⟩
  getattr := fun st o a hp _ => ⟨paired_sameHs hp rfl, by cases (PyLite.hostObs.getattr o a st.w).1 <;> simp [ResQ]⟩
  getitem := fun st o k hp _ _ => ⟨paired_sameHs hp rfl, by cases (PyLite.hostObs.getitem o k st.w).1 <;> simp [ResQ]⟩
  setattr := fun st o a v hp _ _ => ⟨paired_sameHs hp rfl, by cases (PyLite.hostObs.setattr o a v st.w).1 <;> simp [ResQ]⟩
  setitem := fun st o k v hp _ _ _ => ⟨paired_sameHs hp rfl, by cases (PyLite.hostObs.setitem o k v st.w).1 <;> simp [ResQ]⟩
  iter := fun st v hp _ => ⟨paired_sameHs hp rfl, by cases (PyLite.hostObs.iter v st.w).1 <;> simp [ResQ]⟩
  truthy := fun st v hp _ => ⟨paired_sameHs hp rfl, by cases (PyLite.hostObs.truthy v st.w).1 <;> simp [ResQ]⟩
  enter := fun st cm hp _ => ⟨paired_sameHs hp rfl, by cases (PyLite.hostObs.enter cm st.w).1 <;> simp [ResQ]⟩
  exit := fun st cm e hp _ _ => ⟨paired_sameHs hp rfl, by cases (PyLite.hostObs.exit cm e st.w).1 <;> simp [ResQ]⟩
  opaqueE := fun st src args hp _ => ⟨paired_sameHs hp rfl, by cases (PyLite.hostObs.opaqueE src args st.w).1 <;> simp [ResQ]⟩
  bindStmt := fun st src args hp _ => ⟨paired_sameHs hp rfl, by cases (PyLite.hostObs.bindStmt src args st.w).1 <;> simp [ResQ]⟩
  setLoc := fun _ _ _ hp _ => paired_sameHs hp rfl
  unsetLoc := fun _ _ hp => paired_sameHs hp rfl
  interact := fun st name key ann v ovr hp hn _ => by
    unfold interactSem
    simp only [recEnv, PyLite.hostObs]
    have hP : Paired base { st with hs := { st.hs with events := st.hs.events ++ [{ name := name, key := key, ann := ann, value := v, ovr := ovr }] } } :=
      paired_other hp name hn (by simp [evNames])
    cases v <;> exact ⟨hP, by simp [ResQ]⟩
  pushCur := fun _ _ hp _ => paired_sameHs hp rfl
  popCur := fun _ hp => paired_sameHs hp rfl
  curQ := fun _ _ _ _ => trivial

theorem resQ_true {α} (r : Res α) : ResQ (fun _ => True) (fun _ => True) r := by
  cases r <;> simp [ResQ]

/-- pending: the last of the two kinds of events recorded since `base` is an unanswered `#yield` -/
def Pending (base : List String) (st : St PW PH) : Prop :=
  ∃ w, evNames st = base ++ w ∧ yr false w = some true

theorem Pending.paired {base : List String} {st : St PW PH} (h : Pending base st) : Paired base st := by
  obtain ⟨w, h1, h2⟩ := h
  exact ⟨w, true, h1, h2⟩

theorem Pending.sameHs {base : List String} {st st2 : St PW PH} (h : Pending base st) (hh : st2.hs = st.hs) :
    Pending base st2 := by
  obtain ⟨w, h1, h2⟩ := h
  exact ⟨w, by unfold evNames at h1 ⊢; rw [hh]; exact h1, h2⟩

theorem Pending.receive {base : List String} {st st2 : St PW PH} (h : Pending base st)
    (hh : evNames st2 = evNames st ++ ["#receive"]) : Paired base st2 := by
  obtain ⟨w, h1, h2⟩ := h
  refine ⟨w ++ ["#receive"], false, by rw [hh, h1, List.append_assoc], ?_⟩
  rw [yr_append, h2]
  simp [yr]

/-- a `yield` expression as a whole keeps the pairing -/
theorem pair_yieldE (sc : String → Bool) (cfg : Cfg)
    (hYR : shouldInstr cfg "#receive" ["enter"] = true → shouldInstr cfg "#yield" ["exit"] = true)
    (base : List String) (st : St PW PH) (x : Val) (hp : Paired base st) :
    Paired base (yieldSeq (recEnv sc cfg) x st).2 := by
  unfold yieldSeq
  rw [bind_def_M]
  have hY := hook_rec sc cfg "#yield" (some exitAnn) x st
  by_cases capY : shouldInstr cfg "#yield" (annTags (some exitAnn)) = true
  · have hy1 := hY.1 capY
    rcases hh1 : (hook (recEnv sc cfg) "#yield" (some exitAnn) x : M PW PH Val) st with ⟨r1, st1⟩
    rw [hh1] at hy1
    simp only at hy1 ⊢
    have hpend : Pending base st1 := paired_yield hp hy1
    cases r1 with
    | err e => exact hpend.paired
    | ok y =>
      simp only
      rw [bind_def_M]
      have hd := doYield_hs (recEnv sc cfg) y st1
      rcases hh2 : doYield (recEnv sc cfg) y st1 with ⟨r2, st2⟩
      rw [hh2] at hd
      simp only at hd ⊢
      have hpend2 : Pending base st2 := hpend.sameHs hd
      cases r2 with
      | err e => exact hpend2.paired
      | ok r =>
        simp only
        have hR := hook_rec sc cfg "#receive" (some enterAnn) r st2
        by_cases capR : shouldInstr cfg "#receive" (annTags (some enterAnn)) = true
        · exact hpend2.receive (hR.1 capR)
        · have capR' : shouldInstr cfg "#receive" (annTags (some enterAnn)) = false := by simpa using capR
          rw [hR.2 capR']
          exact hpend2.paired
  · have capY' : shouldInstr cfg "#yield" (annTags (some exitAnn)) = false := by simpa using capY
    have capR' : shouldInstr cfg "#receive" (annTags (some enterAnn)) = false := by
      cases hc : shouldInstr cfg "#receive" (annTags (some enterAnn)) with
      | false => rfl
      | true =>
        have h1 : shouldInstr cfg "#yield" ["exit"] = true := hYR hc
        have h2 : shouldInstr cfg "#yield" ["exit"] = false := capY'
        rw [h1] at h2; exact absurd h2 (by decide)
    rw [hY.2 capY']
    simp only
    rw [bind_def_M]
    have hd := doYield_hs (recEnv sc cfg) x st
    rcases hh2 : doYield (recEnv sc cfg) x st with ⟨r2, st2⟩
    rw [hh2] at hd
    simp only at hd ⊢
    have hp2 : Paired base st2 := paired_sameHs hp hd
    cases r2 with
    | err e => exact hp2
    | ok r =>
      simp only
      rw [(hook_rec sc cfg "#receive" (some enterAnn) r st2).2 capR']
      exact hp2

theorem pairKit (sc : String → Bool) (cfg : Cfg)
    (hYR : shouldInstr cfg "#receive" ["enter"] = true → shouldInstr cfg "#yield" ["exit"] = true)
    (base : List String) : InvKitN (recEnv sc cfg) (Paired base) (fun _ => True) NotYR where
  toInvKitB := pairKitS sc cfg base
  yieldE := fun st x hp _ => ⟨pair_yieldE sc cfg hYR base st x hp, resQ_true _⟩

theorem notYR_marks : StmtNames NotYR where
  loop := fun y => by
    constructor <;>
    · intro h
      have := congrArg String.toList h
      simp [String.toList_append] at this
  endloop := fun y => by
    constructor <;>
    · intro h
      have := congrArg String.toList h
      simp [String.toList_append] at this
  value := by unfold NotYR; decide

/-- **`#yield` / `#receive` are paired.**  For every function of the core fragment, every capture set that takes
    `#enter`, `#exit`, `#error` and takes `#yield` whenever it takes `#receive`, every input and driver script:
    the names recorded during the activation are accepted by the automaton — no `#receive` without the `#yield`
    it answers directly before it (among the two kinds of events). -/
theorem yield_receive_paired (sc : String → Bool) (cfg : Cfg)
    (hE : shouldInstr cfg "#enter" ["enter"] = true) (hX : shouldInstr cfg "#exit" ["exit"] = true)
    (hEr : shouldInstr cfg "#error" [] = true)
    (hYR : shouldInstr cfg "#receive" ["enter"] = true → shouldInstr cfg "#yield" ["exit"] = true)
    (fuel : Nat) (f : FunDef) (hf : coreF f = true) (st0 : St PW PH)
    (h0 : MarkerFree PyLite.Good PyLite.WInv st0) :
    ∃ w q, evNames (runRef (recEnv sc cfg) fuel f st0).2 = evNames st0 ++ w ∧ yr false w = some q := by
  obtain ⟨_, he⟩ := activation_shape sc cfg hE hX hEr fuel f hf st0 h0
  have hinner := inv_runInner (pairKit sc cfg hYR (evNames (afterEnter st0))) notYR_marks fuel f hf
    (fun _ _ _ _ => trivial) (afterEnter st0) ⟨[], false, by simp, rfl⟩
  obtain ⟨⟨w, q, h1, h2⟩, _⟩ := hinner
  have hnames : ∀ n ∈ (tailEvents (runInner (recEnv sc cfg) fuel f (afterEnter st0)).1).map (·.name), NotYR n := by
    intro n hn
    unfold tailEvents at hn
    split at hn
    · split at hn
      · simp at hn
      · simp only [metaEv, List.map_cons, List.map_nil, List.mem_cons, List.not_mem_nil, or_false] at hn
        rcases hn with rfl | rfl <;> (unfold NotYR; decide)
    · simp only [metaEv, List.map_cons, List.map_nil, List.mem_singleton] at hn
      subst hn; unfold NotYR; decide
  have hyr_other : ∀ (l : List String) (p : Bool), (∀ n ∈ l, NotYR n) → yr p l = some p := by
    intro l
    induction l with
    | nil => intro p _; rfl
    | cons n ns ih =>
      intro p h
      have hn := h n (by simp)
      simp only [yr, hn.1, hn.2, if_false]
      exact ih p fun m hm => h m (by simp [hm])
  refine ⟨["#enter"] ++ w ++ (tailEvents (runInner (recEnv sc cfg) fuel f (afterEnter st0)).1).map (·.name), q, ?_, ?_⟩
  · unfold evNames at h1 ⊢
    rw [he, List.map_append, h1]
    simp [afterEnter, metaEv, List.append_assoc]
  · rw [yr_append, yr_append]
    have : yr false ["#enter"] = some false := by decide
    rw [this]
    simp only [Option.bind_some]
    rw [h2]
    simp only [Option.bind_some]
    exact hyr_other _ q hnames

end Ptera.Sem
