import PteraModel.Proofs.Inv
import PteraModel.Proofs.PyLiteGood
import PteraModel.Proofs.InvMarker
/-!
# The events of an activation (C06)

With the recording handler: the events of an activation of the reference semantics are
`#enter`, then events that carry only names of variables and of the body's own meta events
(`#value`, `#yield`, `#receive`, `#loop_x`, `#endloop_x`), then — if the activation ends by raising —
`#error` with the exception, then `#exit`; nothing after an abandoned activation.
-/
namespace Ptera.Sem
open Ptera.Py

/-- since `base`, only body events have been recorded -/
def BodyEvents (base : List Interaction) (st : St PyLite.World PyLite.HState) : Prop :=
  ∃ new, st.hs.events = base ++ new ∧ ∀ i ∈ new, bodyName i.name = true

theorem bodyEvents_sameHs {base : List Interaction} {st st2 : St PyLite.World PyLite.HState}
    (h : BodyEvents base st) (hh : st2.hs = st.hs) : BodyEvents base st2 := by
  obtain ⟨new, h1, h2⟩ := h
  exact ⟨new, by rw [hh]; exact h1, h2⟩

theorem eventsKitS (sc : String → Bool) (hk : Option Cfg) (base : List Interaction) :
    InvKitS ({ host := PyLite.hostObs, sc := sc, hk := hk } : Env PyLite.World PyLite.HState)
      (BodyEvents base) (fun _ => True) (fun x => bodyName x = true) where
  nUser := fun x hx => by simp [bodyName, hx]
  nYield := by decide
  nReceive := by decide
  int := fun _ => trivial
  str := fun _ => trivial
  noneV := trivial
  bool := fun _ => trivial
  const := fun _ => trivial
  tuple := fun _ _ => trivial
  list := fun _ _ => trivial
  look := fun _ _ _ _ _ _ => trivial
  nameError := fun _ => trivial
  unpackError := trivial
  noActiveExc := trivial
  call := fun st f a hp _ _ => ⟨bodyEvents_sameHs hp rfl, by cases (PyLite.hostObs.call f a st.w).1 <;> simp [ResQ]⟩
  binop := fun st op a b hp _ _ => ⟨bodyEvents_sameHs hp rfl, by cases (PyLite.hostObs.binop op a b st.w).1 <;> simp [ResQ]⟩
  getattr := fun st o a hp _ => ⟨bodyEvents_sameHs hp rfl, by cases (PyLite.hostObs.getattr o a st.w).1 <;> simp [ResQ]⟩
  getitem := fun st o k hp _ _ => ⟨bodyEvents_sameHs hp rfl, by cases (PyLite.hostObs.getitem o k st.w).1 <;> simp [ResQ]⟩
  setattr := fun st o a v hp _ _ => ⟨bodyEvents_sameHs hp rfl, by cases (PyLite.hostObs.setattr o a v st.w).1 <;> simp [ResQ]⟩
  setitem := fun st o k v hp _ _ _ => ⟨bodyEvents_sameHs hp rfl, by cases (PyLite.hostObs.setitem o k v st.w).1 <;> simp [ResQ]⟩
  iter := fun st v hp _ => ⟨bodyEvents_sameHs hp rfl, by cases (PyLite.hostObs.iter v st.w).1 <;> simp [ResQ]⟩
  truthy := fun st v hp _ => ⟨bodyEvents_sameHs hp rfl, by cases (PyLite.hostObs.truthy v st.w).1 <;> simp [ResQ]⟩
  enter := fun st cm hp _ => ⟨bodyEvents_sameHs hp rfl, by cases (PyLite.hostObs.enter cm st.w).1 <;> simp [ResQ]⟩
  exit := fun st cm e hp _ _ => ⟨bodyEvents_sameHs hp rfl, by cases (PyLite.hostObs.exit cm e st.w).1 <;> simp [ResQ]⟩
  opaqueE := fun st src args hp _ => ⟨bodyEvents_sameHs hp rfl, by cases (PyLite.hostObs.opaqueE src args st.w).1 <;> simp [ResQ]⟩
  bindStmt := fun st src args hp _ => ⟨bodyEvents_sameHs hp rfl, by cases (PyLite.hostObs.bindStmt src args st.w).1 <;> simp [ResQ]⟩
  setLoc := fun _ _ _ hp _ => bodyEvents_sameHs hp rfl
  unsetLoc := fun _ _ hp => bodyEvents_sameHs hp rfl
  interact := fun st name key ann v ovr hp hn _ => by
    obtain ⟨new, h1, h2⟩ := hp
    unfold interactSem
    simp only [PyLite.hostObs]
    have hP : BodyEvents base { st with hs := { st.hs with events := st.hs.events ++ [{ name := name, key := key, ann := ann, value := v, ovr := ovr }] } } := by
      refine ⟨new ++ [{ name := name, key := key, ann := ann, value := v, ovr := ovr }], by simp [h1], ?_⟩
      intro i hi
      simp only [List.mem_append, List.mem_singleton] at hi
      rcases hi with hi | hi
      · exact h2 i hi
      · subst hi; exact hn
    cases v <;> exact ⟨hP, by simp [ResQ]⟩
  yield := fun st y hp _ => by
    unfold doYield
    cases st.inp with
    | nil =>
      simp only
      split
      · exact ⟨hp, Or.inl rfl⟩
      · exact ⟨bodyEvents_sameHs hp rfl, Or.inr trivial⟩
    | cons cmd rest =>
      cases cmd with
      | send v => exact ⟨bodyEvents_sameHs hp rfl, trivial⟩
      | throw e => exact ⟨bodyEvents_sameHs hp rfl, Or.inr trivial⟩
  pushCur := fun _ _ hp _ => bodyEvents_sameHs hp rfl
  popCur := fun _ hp => bodyEvents_sameHs hp rfl
  curQ := fun _ _ _ _ => trivial

theorem eventsKit (sc : String → Bool) (hk : Option Cfg) (base : List Interaction) :
    InvKit ({ host := PyLite.hostObs, sc := sc, hk := hk } : Env PyLite.World PyLite.HState)
      (BodyEvents base) (fun _ => True) := (eventsKitS sc hk base).toN

end Ptera.Sem

namespace Ptera.Sem
open Ptera.Py

/-- the event of a meta variable -/
def metaEv (name : String) (ann : Option Ann) (v : Val) : Interaction :=
  { name := name, key := .noneV, ann := PyLite.annVal (annArg ann), value := v, ovr := false }

abbrev recEnv (sc : String → Bool) (cfg : Cfg) : Env PyLite.World PyLite.HState :=
  { host := PyLite.hostObs, sc := sc, hk := some cfg }

/-- one captured meta event with the recording handler: it is appended, nothing else changes -/
theorem hookMeta_rec (sc : String → Bool) (cfg : Cfg) (x : String) (ann : Option Ann) (v : Val)
    (hi : shouldInstr cfg x (annTags ann) = true) (hv : v ≠ .absent) (st : St PyLite.World PyLite.HState) :
    hookMeta (recEnv sc cfg) x ann v st
      = (.ok (), { st with hs := { st.hs with events := st.hs.events ++ [metaEv x ann v] } }) := by
  unfold hookMeta
  simp only [recEnv, hi, if_true]
  rw [bind_def_M]
  unfold interactSem
  simp only [PyLite.hostObs, annValOpt]
  cases v <;> first | exact absurd rfl hv | rfl

theorem append_mid {α} (a : List α) (x : α) (m t : List α) : a ++ [x] ++ m ++ t = a ++ [x] ++ (m ++ t) := by simp

/-- the handler that records answers what it is shown -/
theorem hndGood_obs : HndGood PyLite.hostObs PyLite.Good where
  ans := fun i hs hv => hv
  pne := fun _ => rfl

/-- **The events of an activation.**  `#enter` first; then only body events; then `#error` with the exception
    exactly if the activation ends by raising; then `#exit`; nothing of the two if the activation is abandoned. -/
theorem events_of_activation (sc : String → Bool) (cfg : Cfg)
    (hE : shouldInstr cfg "#enter" ["enter"] = true) (hX : shouldInstr cfg "#exit" ["exit"] = true)
    (hEr : shouldInstr cfg "#error" [] = true) (fuel : Nat) (f : FunDef) (hf : coreF f = true)
    (st0 : St PyLite.World PyLite.HState) (h0 : MarkerFree PyLite.Good PyLite.WInv st0) :
    ∃ mid, (∀ i ∈ mid, bodyName i.name = true) ∧
      (runRef (recEnv sc cfg) fuel f st0).2.hs.events
        = st0.hs.events ++ [metaEv "#enter" (some enterAnn) (.bool true)] ++ mid ++
          (match (runRef (recEnv sc cfg) fuel f st0).1 with
           | .exc e => if isFatal e then [] else [metaEv "#error" none e, metaEv "#exit" (some exitAnn) (.bool true)]
           | _ => [metaEv "#exit" (some exitAnn) (.bool true)]) := by
  let env := recEnv sc cfg
  let enterEv := metaEv "#enter" (some enterAnn) (.bool true)
  let exitEv := metaEv "#exit" (some exitAnn) (.bool true)
  -- 1. the core: `#enter`, then body events only
  have hsplit : runCore env fuel f = seqX (stepM (hookMetas env (some enterAnn) ["#enter"]) fun _ => done .normal)
      (runInner env fuel f) := by
    unfold runCore runInner
    simp only [stepM_bind]
    rw [stepM_as_seq (hookMetas env (some enterAnn) ["#enter"]), seqX_assoc]
  have henter : hookMetas env (some enterAnn) ["#enter"] st0
      = (.ok (), { st0 with hs := { st0.hs with events := st0.hs.events ++ [enterEv] } }) := by
    simp only [hookMetas]
    rw [bind_def_M, hookMeta_rec sc cfg "#enter" (some enterAnn) (.bool true) hE (by simp) st0]
    rfl
  have hinner := inv_runInner (eventsKit sc (some cfg) (st0.hs.events ++ [enterEv])) bodyName_marks fuel f hf (fun _ _ _ _ => trivial)
    { st0 with hs := { st0.hs with events := st0.hs.events ++ [enterEv] } } ⟨[], by simp, by intro i hi; simp at hi⟩
  have hcoreEq : runCore env fuel f st0
      = runInner env fuel f { st0 with hs := { st0.hs with events := st0.hs.events ++ [enterEv] } } := by
    rw [hsplit]
    unfold seqX stepM
    rw [henter]
    rfl
  obtain ⟨⟨mid, hm1, hm2⟩, _⟩ := hinner
  -- the exception the core may end with is not the marker
  have hmark := marker_core env PyLite.Good PyLite.WInv PyLite.hostGood hndGood_obs fuel f hf st0 h0
  -- 2. the wrapper
  rw [runRef_eq]
  simp only [recEnv, hEr, hX, Bool.not_true, Bool.and_self, Bool.false_eq_true, if_false]
  unfold tryFinally tryExcept
  rcases hc : runCore env fuel f st0 with ⟨c, s1⟩
  have hc' : runCore { host := PyLite.hostObs, sc := sc, hk := some cfg } fuel f st0 = (c, s1) := hc
  rw [hcoreEq] at hc
  rw [hc] at hm1
  rw [hc'] at hmark
  simp only at hm1 hmark
  have hexit : ∀ s : St PyLite.World PyLite.HState,
      (stepM (hookMetas env (some exitAnn) ["#exit"]) fun _ => done .normal) s
        = (.normal, { s with hs := { s.hs with events := s.hs.events ++ [exitEv] } }) := by
    intro s
    unfold stepM
    simp only [hookMetas]
    rw [bind_def_M, hookMeta_rec sc cfg "#exit" (some exitAnn) (.bool true) hX (by simp) s]
    rfl
  have hexit' := hexit
  simp only [env, recEnv] at hexit'
  cases c with
  | exc e =>
    simp only
    by_cases hfat : isFatal e = true
    · simp only [hfat, if_true, ctlFatal]
      exact ⟨mid, hm2, by simp [hm1, enterEv]⟩
    · simp only [Bool.not_eq_true] at hfat
      have hge : PyLite.Good e := by
        rcases hmark.2 with hf | hgd
        · rw [hfat] at hf; exact absurd hf (by decide)
        · exact hgd
      have hne : e ≠ .absent := PyLite.hostGood.notMarker e hge
      have herr : errorHook { host := PyLite.hostObs, sc := sc, hk := some cfg } e s1
          = (.exc e, { s1 with hs := { s1.hs with events := s1.hs.events ++ [metaEv "#error" none e] } }) := by
        unfold errorHook
        simp only [hEr, if_true]
        unfold stepM interactSem
        simp only [PyLite.hostObs, annValOpt]
        cases e <;> first | exact absurd rfl hne | rfl
      simp only [hfat, Bool.false_eq_true, if_false, herr, ctlFatal]
      rw [hexit']
      refine ⟨mid, hm2, ?_⟩
      simp [hm1, enterEv, exitEv, hfat]
  | normal =>
    simp only [done, ctlFatal, Bool.false_eq_true, if_false]
    rw [hexit']
    exact ⟨mid, hm2, by simp [hm1, enterEv, exitEv]⟩
  | brk =>
    simp only [ctlFatal, Bool.false_eq_true, if_false]
    rw [hexit']
    exact ⟨mid, hm2, by simp [hm1, enterEv, exitEv]⟩
  | cont =>
    simp only [ctlFatal, Bool.false_eq_true, if_false]
    rw [hexit']
    exact ⟨mid, hm2, by simp [hm1, enterEv, exitEv]⟩
  | ret v =>
    simp only [ctlFatal, Bool.false_eq_true, if_false]
    rw [hexit']
    exact ⟨mid, hm2, by simp [hm1, enterEv, exitEv]⟩

/-- the initial state of a generated program: integer arguments, nothing else -/
def genState (f : FunDef) (args : List Int) (script : List Bool) (hs0 : PyLite.HState) (inp : List GenCmd) :
    St PyLite.World PyLite.HState :=
  { loc := initLoc (f.params.map (·.name)) (args.map Val.int), w := { script := script }, hs := hs0,
    inp := inp, out := [], cur := [] }

theorem genState_markerFree (f : FunDef) (args : List Int) (hlen : f.params.length ≤ args.length)
    (script : List Bool) (hs0 : PyLite.HState) (inp : List GenCmd) (hinp : ∀ cmd ∈ inp, GoodCmd PyLite.Good cmd) :
    MarkerFree PyLite.Good PyLite.WInv (genState f args script hs0 inp) := by
  refine ⟨?_, hinp, by intro e he; simp [genState] at he, by intro e he; simp [genState] at he,
    ⟨rfl, rfl, by intro p hp; simp [genState] at hp⟩⟩
  intro x v hv
  by_cases hm : x ∈ f.params.map (·.name)
  · obtain ⟨u, hu, hi⟩ := initLoc_some x (f.params.map (·.name)) (args.map Val.int) hm (by simpa using hlen)
    simp only [genState] at hv
    rw [hi] at hv
    injection hv with hv
    subst hv
    simp only [List.mem_map] at hu
    obtain ⟨n, _, rfl⟩ := hu
    rfl
  · simp only [genState] at hv
    rw [initLoc_none x _ _ hm] at hv
    simp at hv

theorem genState_external (f : FunDef) (hf : coreF f = true) (args : List Int) (script : List Bool)
    (hs0 : PyLite.HState) (inp : List GenCmd) :
    ∀ x ∈ (collect f).external, (genState f args script hs0 inp).loc x = none := by
  have hf' := hf
  simp only [coreF, Bool.and_eq_true, List.all_eq_true] at hf'
  obtain ⟨⟨⟨⟨⟨_, _⟩, _⟩, _⟩, _⟩, hparam⟩ := hf'
  intro x hx
  apply initLoc_none
  intro hm
  simp only [List.mem_map] at hm
  obtain ⟨p, hp, rfl⟩ := hm
  have ha := hparam p hp
  simp only [Collected.external, List.mem_filter, Bool.and_eq_true, Bool.not_eq_true'] at hx
  rw [ha] at hx
  exact absurd hx.2.1 (by decide)

end Ptera.Sem
