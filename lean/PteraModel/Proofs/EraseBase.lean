import PteraModel.Proofs.SimFun
/-!
# Erasure, part 1: an observing handler changes nothing

The reference semantics (`hk = some cfg`) with a handler that only observes against plain Python
(`hk = none`), on the same program.  The relation: same world, same generator traffic, same variables
(an instrumented global has been read into a local on the reference side), every value *good* — in
particular never ptera's marker, which is what the observing handler would turn into a name error.
-/
namespace Ptera.Sem
open Ptera.Py

variable {W HS : Type}

/-- a handler that only observes: it answers the value it is shown -/
def Observer (host : Host W HS) : Prop := ∀ i hs, (host.hnd i hs).1 = .ok i.value

/-- results of host operations: the value (or the exception) is good and the world stays well-formed -/
def ResGood {α} (Good : Val → Prop) (WInv : W → Prop) (GoodA : α → Prop) (r : Res α × W) : Prop :=
  WInv r.2 ∧ match r.1 with
    | .ok a => GoodA a
    | .err e => isFatal e = true ∨ Good e

/-- the host never hands ptera's marker (or anything that could produce it) to the program -/
structure HostGood (host : Host W HS) (Good : Val → Prop) (WInv : W → Prop) : Prop where
  notMarker : ∀ v, Good v → v ≠ .absent
  int : ∀ n, Good (.int n)
  str : ∀ s, Good (.str s)
  noneV : Good .noneV
  bool : ∀ b, Good (.bool b)
  const : ∀ r, Good (.obj "const" [.str r])
  tuple : ∀ vs, (∀ v ∈ vs, Good v) → Good (.tuple vs)
  list : ∀ vs, (∀ v ∈ vs, Good v) → Good (.list vs)
  glob : ∀ x v, isUser x = true → host.glob x = some v → Good v
  call : ∀ f a w, Good f → (∀ v ∈ a, Good v) → WInv w → ResGood Good WInv Good (host.call f a w)
  binop : ∀ op a b w, Good a → Good b → WInv w → ResGood Good WInv Good (host.binop op a b w)
  getattr : ∀ o a w, Good o → WInv w → ResGood Good WInv Good (host.getattr o a w)
  getitem : ∀ o k w, Good o → Good k → WInv w → ResGood Good WInv Good (host.getitem o k w)
  setattr : ∀ o a v w, Good o → Good v → WInv w → ResGood Good WInv (fun _ => True) (host.setattr o a v w)
  setitem : ∀ o k v w, Good o → Good k → Good v → WInv w → ResGood Good WInv (fun _ => True) (host.setitem o k v w)
  iter : ∀ v w, Good v → WInv w → ResGood Good WInv (fun items => ∀ x ∈ items, Good x) (host.iter v w)
  truthy : ∀ v w, Good v → WInv w → ResGood Good WInv (fun _ => True) (host.truthy v w)
  enter : ∀ cm w, Good cm → WInv w → ResGood Good WInv Good (host.enter cm w)
  exit : ∀ cm e w, Good cm → (∀ x, e = some x → Good x) → WInv w →
    ResGood Good WInv (fun _ => True) (host.exit cm e w)
  opaqueE : ∀ src args w, (∀ p ∈ args, ∀ v, p.2 = some v → Good v) → WInv w →
    ResGood Good WInv Good (host.opaqueE src args w)
  bindStmt : ∀ src args w, (∀ p ∈ args, ∀ v, p.2 = some v → Good v) → WInv w →
    ResGood Good WInv (fun vals => ∀ x ∈ vals, Good x) (host.bindStmt src args w)
  nameError : ∀ x, Good (host.nameError x)
  unpackError : Good host.unpackError
  genExit : Good host.genExit
  noActiveExc : Good host.noActiveExc

structure ECtx (W HS : Type) where
  host : Host W HS
  cfg : Cfg
  /-- local names in the reference semantics / in plain Python -/
  scR : String → Bool
  scP : String → Bool
  fuel : Nat
  Good : Val → Prop
  WInv : W → Prop

def ECtx.envR (c : ECtx W HS) : Env W HS := { host := c.host, sc := c.scR, hk := some c.cfg }
def ECtx.envP (c : ECtx W HS) : Env W HS := { host := c.host, sc := c.scP, hk := none }

def GoodCmd (Good : Val → Prop) : GenCmd → Prop
  | .send v => Good v
  | .throw e => Good e

/-- reference state (observing handler) vs plain state; `pend`: instrumented globals not read yet -/
structure ERel (c : ECtx W HS) (pend : List String) (sr sp : St W HS) : Prop where
  w : sr.w = sp.w
  inp : sr.inp = sp.inp
  out : sr.out = sp.out
  cur : sr.cur = sp.cur
  closed : sr.closed = sp.closed
  look : ∀ x, x ∉ pend → lookupV c.envR sr x = lookupV c.envP sp x
  pendNone : ∀ x ∈ pend, sr.loc x = none
  goodLoc : ∀ x v, sp.loc x = some v → c.Good v
  goodLocR : ∀ x v, sr.loc x = some v → c.Good v
  goodInp : ∀ cmd ∈ sp.inp, GoodCmd c.Good cmd
  goodCur : ∀ e ∈ sp.cur, c.Good e
  winv : c.WInv sp.w

/-- the relation only looks at the variables and the shared components -/
theorem ERel.congr {c : ECtx W HS} {pend : List String} {sr sp : St W HS} (h : ERel c pend sr sp)
    (sr2 sp2 : St W HS) (hlr : sr2.loc = sr.loc) (hlp : sp2.loc = sp.loc) (hw : sr2.w = sp2.w)
    (hwinv : c.WInv sp2.w) (hinp : sr2.inp = sp2.inp) (hginp : ∀ cmd ∈ sp2.inp, GoodCmd c.Good cmd)
    (hout : sr2.out = sp2.out) (hcur : sr2.cur = sp2.cur) (hgcur : ∀ e ∈ sp2.cur, c.Good e)
    (hcl : sr2.closed = sp2.closed) : ERel c pend sr2 sp2 := by
  refine ⟨hw, hinp, hout, hcur, hcl, ?_, ?_, ?_, ?_, hginp, hgcur, hwinv⟩
  · intro x hx
    rw [lookupV_same_loc c.envR sr sr2 hlr x, lookupV_same_loc c.envP sp sp2 hlp x]
    exact h.look x hx
  · intro x hx; rw [hlr]; exact h.pendNone x hx
  · intro x v hv; rw [hlp] at hv; exact h.goodLoc x v hv
  · intro x v hv; rw [hlr] at hv; exact h.goodLocR x v hv

/-- names both semantics treat as locals -/
def ECtx.local (c : ECtx W HS) (x : String) : Prop := c.scR x = true ∧ c.scP x = true

def ResOK {α} (c : ECtx W HS) (GoodA : α → Prop) : Res α → Prop
  | .ok a => GoodA a
  | .err e => isFatal e = true ∨ c.Good e

/-- both computations give the same result, a good one, and stay related -/
def EM {α} (c : ECtx W HS) (GoodA : α → Prop) (mr mp : M W HS α) : Prop :=
  ∀ sr sp, ERel c [] sr sp → (mr sr).1 = (mp sp).1 ∧ ResOK c GoodA (mp sp).1 ∧ ERel c [] (mr sr).2 (mp sp).2

def CtlOK (c : ECtx W HS) : Ctl → Prop
  | .ret v => c.Good v
  | .exc e => isFatal e = true ∨ c.Good e
  | _ => True

def EX (c : ECtx W HS) (ar ap : Exec W HS) : Prop :=
  ∀ sr sp, ERel c [] sr sp → (ar sr).1 = (ap sp).1 ∧ CtlOK c (ap sp).1 ∧ ERel c [] (ar sr).2 (ap sp).2

theorem eM_pure {α} (c : ECtx W HS) (GoodA : α → Prop) (a : α) (h : GoodA a) : EM c GoodA (pure a) (pure a) :=
  fun _ _ hr => ⟨rfl, h, hr⟩

theorem eM_throw {α} (c : ECtx W HS) (GoodA : α → Prop) (e : Val) (h : c.Good e) :
    EM c GoodA (M.throw e : M W HS α) (M.throw e) :=
  fun _ _ hr => ⟨rfl, Or.inr h, hr⟩

theorem eM_bind {α β} (c : ECtx W HS) {GA : α → Prop} {GB : β → Prop} {mr mp : M W HS α} {kr kp : α → M W HS β}
    (hm : EM c GA mr mp) (hk : ∀ a, GA a → EM c GB (kr a) (kp a)) : EM c GB (mr >>= kr) (mp >>= kp) := by
  intro sr sp h
  have h1 := hm sr sp h
  rw [bind_def_M, bind_def_M]
  rcases hmr : mr sr with ⟨rr, sr1⟩
  rcases hmp : mp sp with ⟨rp, sp1⟩
  rw [hmr, hmp] at h1
  simp only at h1
  obtain ⟨hr, hok, hrel⟩ := h1
  subst hr
  cases rr with
  | ok a => exact hk a hok sr1 sp1 hrel
  | err e => exact ⟨rfl, hok, hrel⟩

theorem eM_mono {α} (c : ECtx W HS) {GA GA' : α → Prop} {mr mp : M W HS α} (h : EM c GA mr mp)
    (hw : ∀ a, GA a → GA' a) : EM c GA' mr mp := by
  intro sr sp hr
  obtain ⟨h1, h2, h3⟩ := h sr sp hr
  refine ⟨h1, ?_, h3⟩
  cases hres : (mp sp).1 with
  | ok a => rw [hres] at h2; exact hw a h2
  | err e => rw [hres] at h2; exact h2

theorem ERel.congrW {c : ECtx W HS} {sr sp : St W HS} (h : ERel c [] sr sp) (w : W) (hw : c.WInv w) :
    ERel c [] { sr with w := w } { sp with w := w } :=
  h.congr _ _ rfl rfl rfl hw h.inp h.goodInp h.out h.cur h.goodCur h.closed

/-- a host operation whose arguments are good -/
theorem eM_liftW {α} (c : ECtx W HS) (GA : α → Prop) (f : W → Res α × W)
    (hf : ∀ w, c.WInv w → ResGood c.Good c.WInv GA (f w)) : EM c GA (liftW f) (liftW f) := by
  intro sr sp h
  unfold liftW
  rw [h.w]
  have hg := hf sp.w h.winv
  rcases hfw : f sp.w with ⟨r, w⟩
  rw [hfw] at hg
  refine ⟨rfl, ?_, h.congrW w hg.1⟩
  cases r with
  | ok a => exact hg.2
  | err e => exact hg.2

theorem eM_lookup (c : ECtx W HS) (hg : HostGood c.host c.Good c.WInv) (x : String) (hx : isUser x = true) :
    EM c c.Good (lookup c.envR x) (lookup c.envP x) := by
  intro sr sp h
  unfold lookup
  rw [h.look x (by simp)]
  have hh : c.envR.host = c.envP.host := rfl
  cases hl : lookupV c.envP sp x with
  | none => exact ⟨by simp [hh], Or.inr (hg.nameError x), h⟩
  | some v =>
    refine ⟨rfl, ?_, h⟩
    show c.Good v
    unfold lookupV at hl
    split at hl
    · exact h.goodLoc x v hl
    · exact hg.glob x v hx hl

/-- binding a local of both sides to a good value -/
theorem eM_setLoc (c : ECtx W HS) (x : String) (v : Val) (hl : c.local x) (hv : c.Good v) :
    EM c (fun _ => True) (setLoc x (some v)) (setLoc x (some v)) := by
  intro sr sp h
  refine ⟨rfl, trivial, ⟨h.w, h.inp, h.out, h.cur, h.closed, ?_, ?_, ?_, ?_, h.goodInp, h.goodCur, h.winv⟩⟩
  · intro y _
    unfold setLoc
    by_cases hyx : y = x
    · subst hyx
      rw [lookupV_upd_eq c.envR sr y (some v) hl.1, lookupV_upd_eq c.envP sp y (some v) hl.2]
    · rw [lookupV_upd_ne c.envR sr x y (some v) hyx, lookupV_upd_ne c.envP sp x y (some v) hyx]
      exact h.look y (by simp)
  · intro y hy; simp at hy
  · intro y u hu
    simp only [setLoc] at hu
    by_cases hyx : y = x
    · simp [hyx] at hu; subst hu; exact hv
    · simp [hyx] at hu; exact h.goodLoc y u hu
  · intro y u hu
    simp only [setLoc] at hu
    by_cases hyx : y = x
    · simp [hyx] at hu; subst hu; exact hv
    · simp [hyx] at hu; exact h.goodLocR y u hu

/-- unbinding a local of both sides -/
theorem eM_unsetLoc (c : ECtx W HS) (x : String) (hl : c.local x) :
    EM c (fun _ => True) (setLoc x none) (setLoc x none) := by
  intro sr sp h
  refine ⟨rfl, trivial, ⟨h.w, h.inp, h.out, h.cur, h.closed, ?_, ?_, ?_, ?_, h.goodInp, h.goodCur, h.winv⟩⟩
  · intro y _
    unfold setLoc
    by_cases hyx : y = x
    · subst hyx
      rw [lookupV_upd_eq c.envR sr y none hl.1, lookupV_upd_eq c.envP sp y none hl.2]
    · rw [lookupV_upd_ne c.envR sr x y none hyx, lookupV_upd_ne c.envP sp x y none hyx]
      exact h.look y (by simp)
  · intro y hy; simp at hy
  · intro y u hu
    simp only [setLoc] at hu
    by_cases hyx : y = x
    · simp [hyx] at hu
    · simp [hyx] at hu; exact h.goodLoc y u hu
  · intro y u hu
    simp only [setLoc] at hu
    by_cases hyx : y = x
    · simp [hyx] at hu
    · simp [hyx] at hu; exact h.goodLocR y u hu

/-- an observing handler: the reference side's `interact` returns the value and changes only the handler
    state, which the relation does not look at -/
theorem observe (c : ECtx W HS) (hobs : Observer c.host) (name : String) (key ann v : Val) (ovr : Bool)
    (hv : v ≠ .absent) (sr : St W HS) :
    interactSem c.envR name key ann v ovr sr =
      (.ok v, { sr with hs := (c.host.hnd { name := name, key := key, ann := ann, value := v, ovr := ovr } sr.hs).2 }) := by
  unfold interactSem
  have h := hobs { name := name, key := key, ann := ann, value := v, ovr := ovr } sr.hs
  simp only [ECtx.envR]
  rcases hh : c.host.hnd { name := name, key := key, ann := ann, value := v, ovr := ovr } sr.hs with ⟨r, hs1⟩
  rw [hh] at h
  simp only at h
  subst h
  cases v <;> first | exact absurd rfl hv | rfl

theorem ERel.congrHs {c : ECtx W HS} {pend : List String} {sr sp : St W HS} (h : ERel c pend sr sp) (hs1 : HS) :
    ERel c pend { sr with hs := hs1 } sp :=
  h.congr _ _ rfl rfl h.w h.winv h.inp h.goodInp h.out h.cur h.goodCur h.closed

/-- a binding through the hook: nothing but the handler state changes -/
theorem eM_hook (c : ECtx W HS) (hg : HostGood c.host c.Good c.WInv) (hobs : Observer c.host) (name : String)
    (ann : Option Ann) (v : Val) (keyed : Bool) (key : Val) (hv : c.Good v) :
    EM c c.Good (hook c.envR name ann v keyed key) (hook c.envP name ann v keyed key) := by
  intro sr sp h
  have hP : hook c.envP name ann v keyed key = pure v := by unfold hook; simp [ECtx.envP]
  rw [hP]
  unfold hook
  simp only [ECtx.envR]
  split
  · rw [show interactSem { host := c.host, sc := c.scR, hk := some c.cfg } name key
        (annValOpt { host := c.host, sc := c.scR, hk := some c.cfg } ann) v true sr
        = interactSem c.envR name key (annValOpt c.envR ann) v true sr from rfl,
      observe c hobs name key _ v true (hg.notMarker v hv) sr]
    exact ⟨rfl, hv, h.congrHs _⟩
  · exact ⟨rfl, hv, h⟩

theorem eM_hookMeta (c : ECtx W HS) (hg : HostGood c.host c.Good c.WInv) (hobs : Observer c.host) (name : String)
    (ann : Option Ann) (v : Val) (hv : c.Good v) :
    EM c (fun _ => True) (hookMeta c.envR name ann v) (hookMeta c.envP name ann v) := by
  intro sr sp h
  have hP : hookMeta c.envP name ann v = pure () := by unfold hookMeta; simp [ECtx.envP]
  rw [hP]
  unfold hookMeta
  simp only [ECtx.envR]
  split
  · rw [bind_def_M]
    rw [show interactSem { host := c.host, sc := c.scR, hk := some c.cfg } name .noneV
        (annValOpt { host := c.host, sc := c.scR, hk := some c.cfg } ann) v false sr
        = interactSem c.envR name .noneV (annValOpt c.envR ann) v false sr from rfl,
      observe c hobs name .noneV _ v false (hg.notMarker v hv) sr]
    exact ⟨rfl, trivial, h.congrHs _⟩
  · exact ⟨rfl, trivial, h⟩

theorem eM_hookMetas (c : ECtx W HS) (hg : HostGood c.host c.Good c.WInv) (hobs : Observer c.host)
    (ann : Option Ann) : (xs : List String) →
    EM c (fun _ => True) (hookMetas c.envR ann xs) (hookMetas c.envP ann xs)
  | [] => by simp only [hookMetas]; exact eM_pure c _ () trivial
  | x :: xs => by
    simp only [hookMetas]
    exact eM_bind c (eM_hookMeta c hg hobs x ann (.bool true) (hg.bool true)) fun _ _ => eM_hookMetas c hg hobs ann xs

theorem eM_doYield (c : ECtx W HS) (hg : HostGood c.host c.Good c.WInv) (y : Val) :
    EM c c.Good (doYield c.envR y) (doYield c.envP y) := by
  intro sr sp h
  have hh : c.envR.host = c.envP.host := rfl
  unfold doYield
  rw [hh]
  cases hi : sp.inp with
  | nil =>
    have hi' : sr.inp = [] := by rw [h.inp, hi]
    rw [hi']
    dsimp only
    rw [h.closed]
    split
    · exact ⟨rfl, Or.inl rfl, h⟩
    · exact ⟨rfl, Or.inr hg.genExit, h.congr _ _ rfl rfl h.w h.winv (by simp [hi, hi'])
        (by intro cmd hc; simp [hi] at hc) (by simp [h.out]) h.cur h.goodCur rfl⟩
  | cons cmd rest =>
    have hi' : sr.inp = cmd :: rest := by rw [h.inp, hi]
    rw [hi']
    have hgc := h.goodInp cmd (by rw [hi]; simp)
    have hrest : ∀ x ∈ rest, GoodCmd c.Good x := fun x hx => h.goodInp x (by rw [hi]; simp [hx])
    cases cmd with
    | send v =>
      exact ⟨rfl, hgc, h.congr _ _ rfl rfl h.w h.winv rfl hrest (by simp [h.out]) h.cur h.goodCur h.closed⟩
    | throw e =>
      exact ⟨rfl, Or.inr hgc, h.congr _ _ rfl rfl h.w h.winv rfl hrest (by simp [h.out]) h.cur h.goodCur h.closed⟩

end Ptera.Sem
