/-
  Evaluator laws behind the documented notational equivalences (C15): for ALL
  operand parse trees, not for sampled ones.
-/
import PteraModel.Model.Selector
namespace Ptera.Selector
open Ptera.Lex Ptera.Parse

def CtxRel (r i : Element) : Prop :=
  r.name = i.name ∧ r.value = i.value ∧ r.category = i.category ∧ r.capture = i.capture ∧
  r.tag2 = i.tag2 ∧ (i.tag1 = true → r.tag1 = true)

theorem CtxRel.withFocus {r i : Element} (h : CtxRel r i) : r.withFocus = i.withFocus := by
  obtain ⟨h1, h2, h3, h4, h5, _⟩ := h
  cases r; cases i; simp_all [Element.withFocus]

theorem CtxRel.refl (e : Element) : CtxRel e e := ⟨rfl, rfl, rfl, rfl, rfl, id⟩

/-- how a variable operand evaluates where it stands after `>` (context `ctx`) and where it
    stands inside parentheses (context `incall`): the same element up to the implicit focus -/
structure VarOperand (ctx : Ctx) (X : PTree) (r i : Element) : Prop where
  top : evaluate ctx X = .ok (.elem r)
  inner : evaluate .incall X = .ok (.elem i)
  rel : r.withFocus = i.withFocus

/-- every word operand (any name, `*`, a meta-variable, …) is a variable operand -/
theorem varOperand_tok (ctx : Ctx) (tk : Token) : ∃ r i, VarOperand ctx (.tok tk) r i := by
  by_cases h : tk.value = "*"
  · exact ⟨{ name := .none }, { name := .none },
      by simp [evaluate, makeSymbol, h], by simp [evaluate, makeSymbol, h], rfl⟩
  · exact ⟨{ name := .str tk.value, capture := some tk.value, tag1 := ctx == .root },
      { name := .str tk.value, capture := some tk.value, tag1 := false },
      by simp [evaluate, makeSymbol, h], by simp [evaluate, makeSymbol, h],
      by simp [Element.withFocus]⟩

/-- explicit grouping is transparent: `(T)` ≡ `T` -/
theorem law_group (ctx : Ctx) (X : PTree) (lp rp : Token)
    (hlp : lp.value = "(") (hrp : rp.value = ")") :
    evaluate ctx (.node none [(lp, some X), (rp, none)]) = evaluate ctx X := by
  simp [evaluate, hlp, hrp]

/-- `F > X` ≡ `F(!X)` for every function operand `F` and variable operand `X` -/
theorem law_gt_bang (ctx : Ctx) (F X : PTree) (gt lp rp bang : Token) (r i : Element)
    (hgt : gt.value = ">") (hlp : lp.value = "(") (hrp : rp.value = ")")
    (hbang : bang.value = "!") (hX : VarOperand ctx X r i) :
    evaluate ctx (.node (some F) [(gt, some X)]) =
    evaluate ctx (.node (some F) [(lp, some (.node none [(bang, some X)])), (rp, none)]) := by
  simp only [evaluate, hgt, hlp, hrp, hbang, hX.top, hX.inner, and_self, if_true]
  cases hF : evaluate ctx F with
  | error e => simp [bind, Except.bind]
  | ok p =>
    cases p <;>
      simp [bind, Except.bind, pure, Except.pure, makeNestedImm, makeCallCapture, makeFocus, listify,
        guaranteeCall, hX.rel, Call.element, Call.children, Call.captures, Call.immediate]

/-- `F(A) > X` ≡ `F(A, !X)` (`A` any single capture or nested call) -/
theorem law_call_gt_bang (ctx : Ctx) (F A X : PTree) (gt lp rp lp' rp' bang comma : Token)
    (r i : Element)
    (hgt : gt.value = ">") (hlp : lp.value = "(") (hrp : rp.value = ")")
    (hlp' : lp'.value = "(") (hrp' : rp'.value = ")")
    (hbang : bang.value = "!") (hcomma : comma.value = ",") (hX : VarOperand ctx X r i)
    (hA : ∀ xs, evaluate .incall A ≠ .ok (.list xs)) :
    evaluate ctx (.node (some (.node (some F) [(lp, some A), (rp, none)])) [(gt, some X)]) =
    evaluate ctx (.node (some F)
      [(lp', some (.node (some A) [(comma, some (.node none [(bang, some X)]))])), (rp', none)]) := by
  simp only [evaluate, hgt, hlp, hrp, hlp', hrp', hbang, hcomma, hX.top, hX.inner, and_self, if_true]
  have e1 : ("," : String) ≠ ">" := by decide
  have e2 : ("," : String) ≠ ":" := by decide
  simp only [e1, e2, if_false, if_true]
  cases hF : evaluate ctx F with
  | error e => simp [bind, Except.bind]
  | ok p =>
    cases hAe : evaluate .incall A with
    | error e => cases p <;> simp [bind, Except.bind]
    | ok a =>
      have hal : ∀ xs, a ≠ .list xs := fun xs h => hA xs (by rw [hAe, h])
      cases p <;> cases a <;>
        simp_all [bind, Except.bind, pure, Except.pure, makeNestedImm, makeCallCapture, makeFocus,
          listify, makeSequence, guaranteeCall, hX.rel, Call.element, Call.children, Call.captures,
          Call.immediate]

/-- `F() as R` ≡ `F(!#value as R)` at top level, `R` a word -/
theorem law_call_as (F : PTree) (R hv : Token) (lp rp lp' rp' as_ as' bang : Token)
    (hlp : lp.value = "(") (hrp : rp.value = ")") (hlp' : lp'.value = "(") (hrp' : rp'.value = ")")
    (has : as_.value = "as") (has' : as'.value = "as") (hbang : bang.value = "!")
    (hhv : hv.value = "#value") (hR : R.value ≠ "*") :
    evaluate .root (.node (some (.node (some F) [(lp, none), (rp, none)])) [(as_, some (.tok R))]) =
    evaluate .root (.node (some F)
      [(lp', some (.node (some (.node none [(bang, some (.tok hv))])) [(as', some (.tok R))])),
       (rp', none)]) := by
  have e1 : ("as" : String) ≠ ">" := by decide
  have e2 : ("as" : String) ≠ ":" := by decide
  have e3 : ("as" : String) ≠ "," := by decide
  have e4 : ("#value" : String) ≠ "*" := by decide
  simp only [evaluate, hlp, hrp, hlp', hrp', has, has', hbang, hhv, and_self, if_true, e1, e2, e3,
    if_false, makeSymbol, hR, e4]
  cases hF : evaluate .root F with
  | error e => simp [bind, Except.bind]
  | ok p =>
    cases p <;>
      simp [bind, Except.bind, pure, Except.pure, makeCallCapture, makeFocus, makeAs, listify,
        guaranteeCall, Call.element, Call.children, Call.captures, Call.immediate, nameToCapture,
        Element.withFocus]

/-- `$x` ≡ `* as x` in both contexts, for every word `x` other than `*` -/
theorem law_dollar (ctx : Ctx) (x star : Token) (dollar as_ : Token)
    (hd : dollar.value = "$") (has : as_.value = "as") (hstar : star.value = "*")
    (hx : x.value ≠ "*") :
    evaluate ctx (.node none [(dollar, some (.tok x))]) =
    evaluate ctx (.node (some (.tok star)) [(as_, some (.tok x))]) := by
  have e1 : ("as" : String) ≠ ">" := by decide
  have e2 : ("as" : String) ≠ ":" := by decide
  have e3 : ("as" : String) ≠ "," := by decide
  have e4 : ("$" : String) ≠ ":" := by decide
  have e5 : ("$" : String) ≠ "!" := by decide
  have e6 : ("$" : String) ≠ "!!" := by decide
  simp [evaluate, hd, has, hstar, hx, e1, e2, e3, e4, e5, e6, makeSymbol, makeDollar, makeAs,
    nameToCapture, bind, Except.bind, pure, Except.pure]

/-- `F(B) = V` ≡ `F(B, #value = V)` (the same for `~`) -/
theorem law_call_equals (ctx : Ctx) (F B V : PTree) (hv : Token) (lp rp lp' rp' eq eq' comma : Token)
    (hlp : lp.value = "(") (hrp : rp.value = ")") (hlp' : lp'.value = "(") (hrp' : rp'.value = ")")
    (heq : eq.value = "=") (heq' : eq'.value = "=") (hcomma : comma.value = ",")
    (hhv : hv.value = "#value")
    (hFl : ∀ xs, evaluate ctx F ≠ .ok (.list xs))
    (hB : ∀ xs, evaluate .incall B ≠ .ok (.list xs)) :
    evaluate ctx (.node (some (.node (some F) [(lp, some B), (rp, none)])) [(eq, some V)]) =
    evaluate ctx (.node (some F)
      [(lp', some (.node (some B) [(comma, some (.node (some (.tok hv)) [(eq', some V)]))])),
       (rp', none)]) := by
  have e1 : ("=" : String) ≠ ">" := by decide
  have e2 : ("=" : String) ≠ ":" := by decide
  have e3 : ("=" : String) ≠ "," := by decide
  have e4 : ("=" : String) ≠ "as" := by decide
  have e5 : ("," : String) ≠ ">" := by decide
  have e6 : ("," : String) ≠ ":" := by decide
  have e7 : ("#value" : String) ≠ "*" := by decide
  simp only [evaluate, hlp, hrp, hlp', hrp', heq, heq', hcomma, hhv, and_self, if_true, if_false,
    e1, e2, e3, e4, e5, e6, e7, makeSymbol]
  cases hF : evaluate ctx F with
  | error e => simp [bind, Except.bind]
  | ok p =>
    cases hBe : evaluate .incall B with
    | error e => cases p <;> simp [bind, Except.bind]
    | ok b =>
      have hbl : ∀ xs, b ≠ .list xs := fun xs h => hB xs (by rw [hBe, h])
      have hpl : ∀ xs, p ≠ .list xs := fun xs h => hFl xs (by rw [hF, h])
      cases hV : valueEvaluate V with
      | error e =>
        cases p <;> cases b <;>
          simp_all [bind, Except.bind, pure, Except.pure, makeCallCapture, makeEquals, listify,
            makeSequence, guaranteeCall]
      | ok v =>
        cases p <;> cases b <;>
          simp_all [bind, Except.bind, pure, Except.pure, makeCallCapture, makeEquals, listify,
            makeSequence, guaranteeCall, Call.element, Call.children, Call.captures, Call.immediate]

end Ptera.Selector
