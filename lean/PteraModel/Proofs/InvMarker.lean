import PteraModel.Proofs.Inv
import PteraModel.Proofs.EraseBase
/-!
# ptera's marker is nowhere (C16)

With a host that never produces the marker (`HostGood`) and a handler that answers good values or the marker
itself ("nothing supplied"), no variable, no yielded value, no value returned or raised by an activation of the
reference semantics is the marker — whatever the capture set and whatever is supplied.
-/
namespace Ptera.Sem
open Ptera.Py

variable {W HS : Type}

/-- the handler answers a good value, or the marker (= it supplies nothing), or raises a good exception -/
structure HndGood (host : Host W HS) (Good : Val → Prop) : Prop where
  ans : ∀ i hs, (i.value = .absent ∨ Good i.value) → ResQ Good (fun v => v = .absent ∨ Good v) (host.hnd i hs).1
  pne : ∀ x, Good (host.pteraNameError x)

def MarkerFree (Good : Val → Prop) (WInv : W → Prop) (st : St W HS) : Prop :=
  (∀ x v, st.loc x = some v → Good v) ∧ (∀ cmd ∈ st.inp, GoodCmd Good cmd) ∧ (∀ e ∈ st.cur, Good e)
    ∧ (∀ v ∈ st.out, Good v) ∧ WInv st.w

theorem resQ_of_resGood {α} {Good : Val → Prop} {WInv : W → Prop} {GA : α → Prop} {r : Res α × W}
    (h : ResGood Good WInv GA r) : ResQ Good GA r.1 := by
  have := h.2
  cases hr : r.1 with
  | ok a => rw [hr] at this; exact this
  | err e => rw [hr] at this; exact this

theorem MarkerFree.setW {Good : Val → Prop} {WInv : W → Prop} {st : St W HS} (h : MarkerFree Good WInv st) (w : W)
    (hw : WInv w) : MarkerFree Good WInv { st with w := w } := ⟨h.1, h.2.1, h.2.2.1, h.2.2.2.1, hw⟩

/-- an interaction, whatever its name: the marker goes in at most as "nothing to show", and never comes out -/
theorem marker_interact (env : Env W HS) (Good : Val → Prop) (WInv : W → Prop) (hh : HndGood env.host Good)
    (name : String) (key ann v : Val) (ovr : Bool) (st : St W HS) (hp : MarkerFree Good WInv st)
    (hv : v = .absent ∨ Good v) :
    MarkerFree Good WInv (interactSem env name key ann v ovr st).2
    ∧ ResQ Good Good (interactSem env name key ann v ovr st).1 := by
  unfold interactSem
  have ha := hh.ans { name := name, key := key, ann := ann, value := v, ovr := ovr } st.hs hv
  rcases hnd : env.host.hnd { name := name, key := key, ann := ann, value := v, ovr := ovr } st.hs with ⟨r, hs1⟩
  rw [hnd] at ha
  have hp' : MarkerFree Good WInv { st with hs := hs1 } := hp
  cases r with
  | ok u =>
    cases u with
    | absent => exact ⟨hp', Or.inr (hh.pne name)⟩
    | int n => exact ⟨hp', by rcases ha with h | h; exact absurd h (by simp); exact h⟩
    | str s => exact ⟨hp', by rcases ha with h | h; exact absurd h (by simp); exact h⟩
    | noneV => exact ⟨hp', by rcases ha with h | h; exact absurd h (by simp); exact h⟩
    | bool b => exact ⟨hp', by rcases ha with h | h; exact absurd h (by simp); exact h⟩
    | tuple vs => exact ⟨hp', by rcases ha with h | h; exact absurd h (by simp); exact h⟩
    | list vs => exact ⟨hp', by rcases ha with h | h; exact absurd h (by simp); exact h⟩
    | obj k pl => exact ⟨hp', by rcases ha with h | h; exact absurd h (by simp); exact h⟩
  | err e => exact ⟨hp', ha⟩

theorem markerKitS (env : Env W HS) (Good : Val → Prop) (WInv : W → Prop) (hg : HostGood env.host Good WInv)
    (hh : HndGood env.host Good) : InvKitS env (MarkerFree Good WInv) Good (fun x => bodyName x = true) where
  nUser := fun x hx => by simp [bodyName, hx]
  nYield := by decide
  nReceive := by decide
  int := hg.int
  str := hg.str
  noneV := hg.noneV
  bool := hg.bool
  const := hg.const
  tuple := hg.tuple
  list := hg.list
  look := fun st x v hx hp hl => by
    unfold lookupV at hl
    split at hl
    · exact hp.1 x v hl
    · exact hg.glob x v hx hl
  nameError := hg.nameError
  unpackError := hg.unpackError
  noActiveExc := hg.noActiveExc
  call := fun st f a hp hf ha => by
    have h := hg.call f a st.w hf ha hp.2.2.2.2
    exact ⟨hp.setW _ h.1, resQ_of_resGood h⟩
  binop := fun st op a b hp ha hb => by
    have h := hg.binop op a b st.w ha hb hp.2.2.2.2
    exact ⟨hp.setW _ h.1, resQ_of_resGood h⟩
  getattr := fun st o a hp ho => by
    have h := hg.getattr o a st.w ho hp.2.2.2.2
    exact ⟨hp.setW _ h.1, resQ_of_resGood h⟩
  getitem := fun st o k hp ho hk => by
    have h := hg.getitem o k st.w ho hk hp.2.2.2.2
    exact ⟨hp.setW _ h.1, resQ_of_resGood h⟩
  setattr := fun st o a v hp ho hv => by
    have h := hg.setattr o a v st.w ho hv hp.2.2.2.2
    exact ⟨hp.setW _ h.1, resQ_of_resGood h⟩
  setitem := fun st o k v hp ho hk hv => by
    have h := hg.setitem o k v st.w ho hk hv hp.2.2.2.2
    exact ⟨hp.setW _ h.1, resQ_of_resGood h⟩
  iter := fun st v hp hv => by
    have h := hg.iter v st.w hv hp.2.2.2.2
    exact ⟨hp.setW _ h.1, resQ_of_resGood h⟩
  truthy := fun st v hp hv => by
    have h := hg.truthy v st.w hv hp.2.2.2.2
    exact ⟨hp.setW _ h.1, resQ_of_resGood h⟩
  enter := fun st cm hp hcm => by
    have h := hg.enter cm st.w hcm hp.2.2.2.2
    exact ⟨hp.setW _ h.1, resQ_of_resGood h⟩
  exit := fun st cm e hp hcm he => by
    have h := hg.exit cm e st.w hcm he hp.2.2.2.2
    exact ⟨hp.setW _ h.1, resQ_of_resGood h⟩
  opaqueE := fun st src args hp ha => by
    have h := hg.opaqueE src args st.w ha hp.2.2.2.2
    exact ⟨hp.setW _ h.1, resQ_of_resGood h⟩
  bindStmt := fun st src args hp ha => by
    have h := hg.bindStmt src args st.w ha hp.2.2.2.2
    exact ⟨hp.setW _ h.1, resQ_of_resGood h⟩
  setLoc := fun st x v hp hv => by
    refine ⟨?_, hp.2.1, hp.2.2.1, hp.2.2.2.1, hp.2.2.2.2⟩
    intro y u hu
    simp only [updLoc] at hu
    by_cases hyx : y = x
    · simp [hyx] at hu; subst hu; exact hv
    · simp [hyx] at hu; exact hp.1 y u hu
  unsetLoc := fun st x hp => by
    refine ⟨?_, hp.2.1, hp.2.2.1, hp.2.2.2.1, hp.2.2.2.2⟩
    intro y u hu
    simp only [updLoc] at hu
    by_cases hyx : y = x
    · simp [hyx] at hu
    · simp [hyx] at hu; exact hp.1 y u hu
  interact := fun st name key ann v ovr hp _ hv => marker_interact env Good WInv hh name key ann v ovr st hp hv
  yield := fun st y hp hy => by
    unfold doYield
    cases hi : st.inp with
    | nil =>
      simp only
      split
      · exact ⟨hp, Or.inl rfl⟩
      · refine ⟨⟨hp.1, by intro cmd hc; simp at hc, hp.2.2.1, ?_, hp.2.2.2.2⟩, Or.inr hg.genExit⟩
        intro v hv
        simp only [List.mem_append, List.mem_singleton] at hv
        rcases hv with hv | hv
        · exact hp.2.2.2.1 v hv
        · subst hv; exact hy
    | cons cmd rest =>
      have hc := hp.2.1 cmd (by rw [hi]; simp)
      have hrest : ∀ x ∈ rest, GoodCmd Good x := fun x hx => hp.2.1 x (by rw [hi]; simp [hx])
      have hout : ∀ v ∈ st.out ++ [y], Good v := by
        intro v hv
        simp only [List.mem_append, List.mem_singleton] at hv
        rcases hv with hv | hv
        · exact hp.2.2.2.1 v hv
        · subst hv; exact hy
      cases cmd with
      | send v => exact ⟨⟨hp.1, hrest, hp.2.2.1, hout, hp.2.2.2.2⟩, hc⟩
      | throw e => exact ⟨⟨hp.1, hrest, hp.2.2.1, hout, hp.2.2.2.2⟩, Or.inr hc⟩
  pushCur := fun st e hp he => by
    refine ⟨hp.1, hp.2.1, ?_, hp.2.2.2.1, hp.2.2.2.2⟩
    intro x hx
    simp only [List.mem_cons] at hx
    rcases hx with rfl | hx
    · exact he
    · exact hp.2.2.1 x hx
  popCur := fun st hp => ⟨hp.1, hp.2.1, fun x hx => hp.2.2.1 x (List.mem_of_mem_tail hx), hp.2.2.2.1, hp.2.2.2.2⟩
  curQ := fun st e hp he => hp.2.2.1 e he

end Ptera.Sem

namespace Ptera.Sem
open Ptera.Py

variable {W HS : Type}

theorem markerKit (env : Env W HS) (Good : Val → Prop) (WInv : W → Prop) (hg : HostGood env.host Good WInv)
    (hh : HndGood env.host Good) : InvKit env (MarkerFree Good WInv) Good :=
  (markerKitS env Good WInv hg hh).toN

theorem marker_hookMeta (env : Env W HS) (Good : Val → Prop) (WInv : W → Prop) (hh : HndGood env.host Good)
    (name : String) (ann : Option Ann) (v : Val) (hv : Good v) :
    InvM (MarkerFree Good WInv) Good (fun _ => True) (hookMeta env name ann v) := by
  unfold hookMeta
  cases env.hk with
  | none => exact invM_pure _ _ trivial
  | some cfg =>
    simp only
    split
    · exact invM_bind (QA := Good) (fun st hp => marker_interact env Good WInv hh name .noneV _ v false st hp (Or.inr hv))
        fun _ _ => invM_pure _ _ trivial
    · exact invM_pure _ _ trivial

theorem marker_hookMetas (env : Env W HS) (Good : Val → Prop) (WInv : W → Prop) (hh : HndGood env.host Good)
    (hb : Good (.bool true)) (ann : Option Ann) : (xs : List String) →
    InvM (MarkerFree Good WInv) Good (fun _ => True) (hookMetas env ann xs)
  | [] => by simp only [hookMetas]; exact invM_pure _ _ trivial
  | x :: xs => by
    simp only [hookMetas]
    exact invM_bind (marker_hookMeta env Good WInv hh x ann _ hb) fun _ _ => marker_hookMetas env Good WInv hh hb ann xs

/-- the activation without its `#error` / `#exit` wrapper -/
def runCore (env : Env W HS) (fuel : Nat) (f : FunDef) : Exec W HS :=
  seqX (stepM (do hookMetas env (some enterAnn) ["#enter"]; prologue env f) fun _ => done .normal)
    (execB env fuel (bodyWithReturn f))

theorem marker_core (env : Env W HS) (Good : Val → Prop) (WInv : W → Prop) (hg : HostGood env.host Good WInv)
    (hh : HndGood env.host Good) (fuel : Nat) (f : FunDef) (hf : coreF f = true) :
    InvX (MarkerFree Good WInv) Good (runCore env fuel f) := by
  have kit := markerKit env Good WInv hg hh
  have hbody : coreB (bodyWithReturn f) = true := by
    simp only [coreF, Bool.and_eq_true] at hf
    exact hf.1.1.1.1.1
  unfold runCore
  refine invX_seqX (invX_stepM (QA := fun _ => True) ?_ fun _ _ => invX_done _ trivial) (invB kit bodyName_marks fuel _ hbody)
  exact invM_bind (marker_hookMetas env Good WInv hh (hg.bool true) _ _) fun _ _ =>
    invM_prologue kit f hf fun x v hx hv => hg.glob x v hx hv

theorem runRef_eq (env : Env W HS) (fuel : Nat) (f : FunDef) :
    runRef env fuel f =
      match env.hk with
      | none => runCore env fuel f
      | some cfg =>
        if !shouldInstr cfg "#error" [] && !shouldInstr cfg "#exit" ["exit"] then runCore env fuel f
        else tryFinally (tryExcept (runCore env fuel f) (errorHook env) (done .normal))
          (stepM (hookMetas env (some exitAnn) ["#exit"]) fun _ => done .normal) := by
  unfold runRef runCore prologue
  rfl

/-- **The marker is nowhere.**  For every function of the core fragment (declarations included), every capture
    set, every handler that answers good values or "nothing", every input: after the activation — however it
    ends — no variable, no yielded value, nothing pending holds ptera's marker, and the value returned or the
    exception raised is not the marker either. -/
theorem marker_nowhere (env : Env W HS) (Good : Val → Prop) (WInv : W → Prop) (hg : HostGood env.host Good WInv)
    (hh : HndGood env.host Good) (fuel : Nat) (f : FunDef) (hf : coreF f = true) :
    InvX (MarkerFree Good WInv) Good (runRef env fuel f) := by
  have hcore := marker_core env Good WInv hg hh fuel f hf
  have herr : ∀ e, Good e → InvX (MarkerFree Good WInv) Good (errorHook env e) := by
    intro e he
    unfold errorHook
    cases env.hk with
    | none => exact invX_done _ (Or.inr he)
    | some cfg =>
      simp only
      split
      · exact invX_stepM (QA := Good) (fun st hp => marker_interact env Good WInv hh "#error" .noneV _ e false st hp (Or.inr he))
          fun _ _ => invX_done _ (Or.inr he)
      · exact invX_done _ (Or.inr he)
  rw [runRef_eq]
  cases hk : env.hk with
  | none => exact hcore
  | some cfg =>
    simp only
    split
    · exact hcore
    · exact invX_tryFinally (invX_tryExcept hcore herr (invX_done _ trivial))
        (invX_stepM (marker_hookMetas env Good WInv hh (hg.bool true) _ _) fun _ _ => invX_done _ trivial)

end Ptera.Sem
