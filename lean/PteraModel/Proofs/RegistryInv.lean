/- the registry invariant: every function's path points at the code installed on it, and no code
   is registered under a path of another function -/
import PteraModel.Model.Registry
namespace Ptera.Registry

theorem setNth_get {α} (l : List α) (i j : Nat) (x : α) :
    (setNth l i x)[j]? = if j = i then l[j]?.map (fun _ => x) else l[j]? := by
  unfold setNth
  rw [List.getElem?_mapIdx]
  by_cases h : j = i
  · subst h; cases l[j]? <;> simp
  · cases l[j]? <;> simp [h]

theorem setNth_length {α} (l : List α) (i : Nat) (x : α) : (setNth l i x).length = l.length := by
  simp [setNth]

theorem foldl_setNth_same (c : Code) (f : Nat) : ∀ (ps : List Nat) (cur : List (Option Code)),
    (∀ p ∈ ps, p = f) →
    ps.foldl (fun cur p => setNth cur p (some c)) cur = if ps = [] then cur else setNth cur f (some c) := by
  intro ps
  induction ps with
  | nil => intro cur _; simp
  | cons p rest ih =>
    intro cur h
    have hp : p = f := h p (by simp)
    subst hp
    simp only [List.foldl_cons]
    rw [ih _ (fun q hq => h q (by simp [hq]))]
    simp only [List.cons_ne_nil, if_false]
    split
    · rfl
    · -- setting the same position twice
      apply List.ext_getElem?
      intro j
      simp only [setNth_get]
      by_cases hj : j = p
      · subst hj; cases cur[j]? <;> simp
      · simp [hj]

theorem mem_backOf_backAdd (back : List (Code × Nat)) (c d : Code) (ps : List Nat) (p : Nat) :
    p ∈ backOf (backAdd back c ps) d ↔ p ∈ backOf back d ∨ (d = c ∧ p ∈ ps) := by
  simp only [backOf, backAdd, List.filter_append, List.map_append, List.mem_append, List.mem_map,
    List.mem_filter, beq_iff_eq]
  constructor
  · rintro (h | ⟨⟨c', q⟩, ⟨⟨q', hq', heq⟩, hc⟩, rfl⟩)
    · exact Or.inl h
    · injection heq with h1 h2
      subst h1 h2
      exact Or.inr ⟨hc.symm, hq'⟩
  · rintro (h | ⟨rfl, h⟩)
    · exact Or.inl h
    · exact Or.inr ⟨(d, p), ⟨⟨p, h, rfl⟩, rfl⟩, rfl⟩

structure Inv (n : Nat) (s : State) : Prop where
  len_i : s.installed.length = n
  len_c : s.curr.length = n
  owner : ∀ (f : Nat) (c : Code), s.installed[f]? = some c → c.owner = f
  curr_ok : ∀ f, f < n → s.curr[f]? = some (s.installed[f]?)
  no_pollution : ∀ (c : Code) (p : Nat), p ∈ backOf s.back c → p = c.owner
  registered : ∀ (f : Nat) (c : Code), s.installed[f]? = some c → f ∈ backOf s.back c

theorem init_inv (n : Nat) : Inv n (init n) := by
  refine ⟨by simp [init], by simp [init], ?_, ?_, ?_, ?_⟩
  · intro f c h
    simp only [init, List.getElem?_map] at h
    by_cases hf : f < n
    · simp [hf] at h; subst h; rfl
    · simp [hf] at h
  · intro f hf
    simp [init, hf]
  · intro c p h
    simp only [init, backOf, List.mem_map, List.mem_filter, List.mem_range, beq_iff_eq] at h
    obtain ⟨⟨c', q⟩, ⟨⟨g, _, hg⟩, hc⟩, rfl⟩ := h
    injection hg with h1 h2
    subst h1 h2 hc; rfl
  · intro f c h
    simp only [init, List.getElem?_map] at h
    by_cases hf : f < n
    · simp [hf] at h
      subst h
      simp only [init, backOf, List.mem_map, List.mem_filter, List.mem_range, beq_iff_eq]
      exact ⟨(Code.orig f, f), ⟨⟨f, hf, rfl⟩, rfl⟩, rfl⟩
    · simp [hf] at h

/-- installing a code object of `f` on `f` (after optionally re-registering `f`'s original code, as
    `transform` does when a new variant is compiled) keeps the invariant -/
theorem install_inv (n : Nat) (s : State) (f : Nat) (caps : Option (List Nat)) (fresh : Bool)
    (hf : f < n) (h : Inv n s) : Inv n (step s (.install f caps fresh)).1 := by
  simp only [step]
  -- the state after the optional registration of the original code
  have key : ∀ (s1 : State), s1.installed = s.installed → s1.curr.length = n →
      (∀ g, g < n → g ≠ f → s1.curr[g]? = some (s1.installed[g]?)) →
      (∀ (c : Code) (p : Nat), p ∈ backOf s1.back c → p = c.owner) →
      (∀ (g : Nat) (c : Code), s1.installed[g]? = some c → g ∈ backOf s1.back c) →
      ∀ (new : Code), new.owner = f → Inv n (applyCode s1 f new) := by
    intro s1 hinst hlen hcur hpol hreg new hnew
    have hfi : f < s1.installed.length := by rw [hinst, h.len_i]; exact hf
    obtain ⟨old, hold⟩ : ∃ old, s1.installed[f]? = some old := ⟨s1.installed[f], by simp [hfi]⟩
    have hpaths : ∀ p ∈ backOf s1.back old, p = f := by
      intro p hp
      have := hpol old p hp
      rw [this]; exact h.owner f old (by rw [← hinst]; exact hold)
    have hfin : f ∈ backOf s1.back old := hreg f old hold
    have hne : backOf s1.back old ≠ [] := fun he => by rw [he] at hfin; simp at hfin
    simp only [applyCode, hold, setCodePaths]
    rw [foldl_setNth_same new f _ _ hpaths]
    simp only [hne, if_false]
    refine ⟨?_, ?_, ?_, ?_, ?_, ?_⟩
    · simp [setNth_length, hinst, h.len_i]
    · simp [setNth_length, hlen]
    · intro g c hg
      simp only [setNth_get] at hg
      by_cases hgf : g = f
      · subst hgf
        simp only [if_true, hold, Option.map_some, Option.some.injEq] at hg
        subst hg; exact hnew
      · simp only [hgf, if_false] at hg
        exact h.owner g c (by rw [← hinst]; exact hg)
    · intro g hg
      simp only [setNth_get]
      by_cases hgf : g = f
      · subst hgf
        have hcl : g < s1.curr.length := by rw [hlen]; exact hf
        simp [hold, List.getElem?_eq_getElem hcl]
      · simp only [hgf, if_false]
        exact hcur g hg hgf
    · intro c p hp
      rw [mem_backOf_backAdd] at hp
      rcases hp with hp | ⟨rfl, hp⟩
      · exact hpol c p hp
      · rw [hpaths p hp, hnew]
    · intro g c hg
      rw [mem_backOf_backAdd]
      simp only [setNth_get] at hg
      by_cases hgf : g = f
      · subst hgf
        simp only [if_true, hold, Option.map_some, Option.some.injEq] at hg
        subst hg
        exact Or.inr ⟨rfl, hfin⟩
      · simp only [hgf, if_false] at hg
        exact Or.inl (hreg g c hg)
  have hnew : (match caps with | none => Code.orig f | some cs => Code.variant f cs).owner = f := by
    cases caps <;> rfl
  cases fresh with
  | false =>
    simp only [Bool.false_eq_true, if_false]
    exact key s rfl h.len_c (fun g hg _ => h.curr_ok g hg) h.no_pollution h.registered _ hnew
  | true =>
    simp only [if_true]
    apply key (registerOrig s f) (by simp [registerOrig, setCodePaths])
    · simp [registerOrig, setCodePaths, setNth_length, h.len_c]
    · intro g hg hgf
      simp only [registerOrig, setCodePaths, List.foldl_cons, List.foldl_nil, setNth_get, hgf, if_false]
      exact h.curr_ok g hg
    · intro c p hp
      simp only [registerOrig, setCodePaths] at hp
      rw [mem_backOf_backAdd] at hp
      rcases hp with hp | ⟨rfl, hp⟩
      · exact h.no_pollution c p hp
      · simp at hp; rw [hp]; rfl
    · intro g c hg
      simp only [registerOrig, setCodePaths] at hg ⊢
      rw [mem_backOf_backAdd]
      exact Or.inl (h.registered g c hg)
    · exact hnew

theorem filter_range_eq : ∀ (m f : Nat), f < m → (List.range m).filter (fun g => g == f) = [f] := by
  intro m
  induction m with
  | zero => intro f h; omega
  | succ k ih =>
    intro f h
    rw [List.range_succ, List.filter_append]
    by_cases hf : f = k
    · subst hf
      have : (List.range f).filter (fun g => g == f) = [] := by
        simp only [List.filter_eq_nil_iff, List.mem_range, beq_iff_eq]
        intro a ha; omega
      simp [this]
    · have hk : (k == f) = false := by simpa using (Ne.symm hf)
      rw [ih f (by omega)]
      simp [hk]

/-- with the invariant, the reference of every function resolves to that very function -/
theorem resolve_ok (n : Nat) (s : State) (h : Inv n s) (f : Nat) (hf : f < n) :
    resolve s f = .ok f := by
  unfold resolve
  have hc := h.curr_ok f hf
  have hfi : f < s.installed.length := by rw [h.len_i]; exact hf
  obtain ⟨c, hcf⟩ : ∃ c, s.installed[f]? = some c := ⟨s.installed[f], by simp [hfi]⟩
  rw [hc, hcf]
  simp only
  have hfilter : (List.range s.installed.length).filter (fun g => s.installed[g]? == some c) = [f] := by
    have hcongr : ((List.range s.installed.length).filter fun g => s.installed[g]? == some c)
        = (List.range s.installed.length).filter (fun g => g == f) := by
      apply List.filter_congr
      intro g _
      by_cases hg : g = f
      · simp [hg, hcf]
      · have hne : ¬ (s.installed[g]? = some c) := by
          intro hgc
          have h1 := h.owner g c hgc
          have h2 := h.owner f c hcf
          exact hg (by rw [← h1, h2])
        have e1 : (s.installed[g]? == some c) = false := by simpa using hne
        have e2 : (g == f) = false := by simpa using hg
        rw [e1, e2]
    rw [hcongr, filter_range_eq _ _ hfi]
  rw [hfilter]

end Ptera.Registry
