import Std.Data.String.ToNat
import PteraModel.Model.PyRun
/-!
# Simulation, part 1: the relation between a state of the rewritten function and a state of the
reference semantics, and how the combinators of the interpreter preserve it
-/
namespace Ptera.Sem
open Ptera.Py

variable {W HS : Type}

/-! ## monad laws for `M` -/

@[simp] theorem pure_bind_M {α β} (a : α) (f : α → M W HS β) : (pure a >>= f) = f a := by
  funext st; rfl

@[simp] theorem bind_assoc_M {α β γ} (m : M W HS α) (f : α → M W HS β) (g : β → M W HS γ) :
    (m >>= f >>= g) = (m >>= fun a => f a >>= g) := by
  funext st
  show M.bind (M.bind m f) g st = M.bind m (fun a => M.bind (f a) g) st
  unfold M.bind
  cases h : m st with
  | mk r st1 => cases r <;> simp

theorem bind_def_M {α β} (m : M W HS α) (f : α → M W HS β) (st : St W HS) :
    (m >>= f) st = match m st with
      | (.ok a, st1) => f a st1
      | (.err e, st1) => (.err e, st1) := rfl

theorem pure_def_M {α} (a : α) (st : St W HS) : (pure a : M W HS α) st = (.ok a, st) := rfl

/-! ## the fixed data of a simulation -/

/-- names the user's program may use: everything but what ptera reserves for itself -/
def isUser (x : String) : Bool :=
  !(("_ptera__".toList.isPrefixOf x.toList) || ("__ptera_".toList.isPrefixOf x.toList)
    || ("#".toList.isPrefixOf x.toList) || x == "BaseException")

structure Ctx (W HS : Type) where
  host : Host W HS
  cfg : Cfg
  /-- local names of the rewritten function / of the function in the reference semantics -/
  scI : String → Bool
  scR : String → Bool
  fuel : Nat
  /-- temporaries of the rewritten function whose value is known at this point of the argument -/
  pin : String → Option Val := fun _ => none

def Ctx.envI (c : Ctx W HS) : Env W HS := { host := c.host, sc := c.scI, hk := none }
def Ctx.envR (c : Ctx W HS) : Env W HS := { host := c.host, sc := c.scR, hk := some c.cfg }

/-- what the rewritten code assumes about ptera's runtime library and the builtins -/
structure LibSpec (c : Ctx W HS) : Prop where
  errorLocal : c.scI "#error" = true
  libGlobal : ∀ x, x ∈ [nAbsent, nNameError, nKey, nSuspend, nResume, nGlobals, nFrame, "BaseException"] → c.scI x = false
  absent : c.host.glob nAbsent = some .absent
  key : ∃ k, c.host.glob nKey = some k ∧ ∀ kind v w, c.host.call k [.str kind, v] w = (.ok (keyVal kind v), w)
  suspend : ∃ s, c.host.glob nSuspend = some s ∧ ∀ a v w, c.host.call s [a, v] w = (.ok v, w)
  resume : ∃ s, c.host.glob nResume = some s ∧ ∀ a v w, c.host.call s [a, v] w = (.ok v, w)
  baseExc : ∃ b, c.host.glob "BaseException" = some b ∧ ∀ e, c.host.isinst e b = true
  nameErr : ∃ n, c.host.glob nNameError = some n
  /-- Python's own `NameError`, under the name ptera's runtime library gives it -/
  pyNameErr : c.scI nPyNameError = false ∧ ∃ n, c.host.glob nPyNameError = some n
  frame : ∃ f, c.host.glob nFrame = some f
  globals : ∃ g, c.host.glob nGlobals = some g
    ∧ (∀ x w, c.host.getitem g (.str x) w = (.ok ((c.host.glob x).getD .absent), w))
    ∧ (∀ x w, c.host.binop "In" (.str x) g w = (.ok (.bool (c.host.glob x).isSome), w))
  truthyBool : ∀ b w, c.host.truthy (.bool b) w = (.ok b, w)
  temps : ∀ n, c.scI (gensym n) = true

theorem isUser_gensym (n : Nat) : isUser (gensym n) = false := by
  unfold isUser gensym
  simp

theorem gensym_inj {m n : Nat} (h : gensym m = gensym n) : m = n := by
  unfold gensym at h
  exact Nat.repr_injective ((String.append_right_inj _).1 h)

theorem isTemp_gensym (n : Nat) : isTemp (gensym n) = true := by
  unfold isTemp gensym
  simp

/-- the two states agree on everything but ptera's own variables -/
structure Rel (c : Ctx W HS) (st' st : St W HS) : Prop where
  w : st'.w = st.w
  hs : st'.hs = st.hs
  inp : st'.inp = st.inp
  out : st'.out = st.out
  cur : st'.cur = st.cur
  closed : st'.closed = st.closed
  loc : ∀ x, isUser x = true → lookupV c.envI st' x = lookupV c.envR st x
  pin : ∀ x v, c.pin x = some v → isUser x = false ∧ st'.loc x = some v


theorem lookupV_upd_ne (env : Env W HS) (st : St W HS) (x y : String) (v : Option Val) (h : y ≠ x)
    (w : W) (hs : HS) (inp : List GenCmd) (out cur : List Val) (cl : Bool) :
    lookupV env { loc := fun z => if z = x then v else st.loc z, w := w, hs := hs, inp := inp, out := out,
                  cur := cur, closed := cl } y = lookupV env st y := by
  unfold lookupV; simp [h]

theorem lookupV_upd_eq (env : Env W HS) (st : St W HS) (x : String) (v : Option Val) (h : env.sc x = true)
    (w : W) (hs : HS) (inp : List GenCmd) (out cur : List Val) (cl : Bool) :
    lookupV env { loc := fun z => if z = x then v else st.loc z, w := w, hs := hs, inp := inp, out := out,
                  cur := cur, closed := cl } x = v := by
  unfold lookupV; simp [h]

theorem lookupV_same_loc (env : Env W HS) (st st2 : St W HS) (h : st2.loc = st.loc) (x : String) :
    lookupV env st2 x = lookupV env st x := by
  unfold lookupV; rw [h]


/-- the relation only looks at the variables and the shared components -/
theorem Rel.congr {c : Ctx W HS} {st' st : St W HS} (h : Rel c st' st) (st2' st2 : St W HS)
    (hl' : st2'.loc = st'.loc) (hl : st2.loc = st.loc) (hw : st2'.w = st2.w) (hhs : st2'.hs = st2.hs)
    (hinp : st2'.inp = st2.inp) (hout : st2'.out = st2.out) (hcur : st2'.cur = st2.cur)
    (hcl : st2'.closed = st2.closed) : Rel c st2' st2 := by
  refine ⟨hw, hhs, hinp, hout, hcur, hcl, ?_, ?_⟩
  · intro x hx
    rw [lookupV_same_loc c.envI st' st2' hl' x, lookupV_same_loc c.envR st st2 hl x]
    exact h.loc x hx
  · intro x v hp
    rw [hl']
    exact h.pin x v hp

/-- a name both sides treat as a local variable -/
def Ctx.scoped (c : Ctx W HS) (x : String) : Prop := c.scI x = true ∧ c.scR x = true

def RelM {α} (c : Ctx W HS) (m' m : M W HS α) : Prop :=
  ∀ st' st, Rel c st' st → (m' st').1 = (m st).1 ∧ Rel c (m' st').2 (m st).2

def RelX (c : Ctx W HS) (a' a : Exec W HS) : Prop :=
  ∀ st' st, Rel c st' st → (a' st').1 = (a st).1 ∧ Rel c (a' st').2 (a st).2

theorem relM_pure {α} (c : Ctx W HS) (a : α) : RelM c (pure a) (pure a) := by
  intro st' st h; exact ⟨rfl, h⟩

theorem relM_throw {α} (c : Ctx W HS) (e : Val) : RelM c (M.throw e : M W HS α) (M.throw e) := by
  intro st' st h; exact ⟨rfl, h⟩

theorem relM_bind {α β} (c : Ctx W HS) {m' m : M W HS α} {k' k : α → M W HS β}
    (hm : RelM c m' m) (hk : ∀ a, RelM c (k' a) (k a)) : RelM c (m' >>= k') (m >>= k) := by
  intro st' st h
  have h1 := hm st' st h
  rw [bind_def_M, bind_def_M]
  rcases hm' : m' st' with ⟨r', st1'⟩
  rcases hm0 : m st with ⟨r, st1⟩
  rw [hm', hm0] at h1
  simp only at h1
  obtain ⟨hr, hrel⟩ := h1
  subst hr
  cases r' with
  | ok a => exact hk a st1' st1 hrel
  | err e => exact ⟨rfl, hrel⟩

theorem relM_liftW {α} (c : Ctx W HS) (f : W → Res α × W) : RelM c (liftW f) (liftW f) := by
  intro st' st h
  unfold liftW
  rw [h.w]
  rcases f st.w with ⟨r, w⟩
  exact ⟨rfl, h.congr _ _ rfl rfl rfl h.hs h.inp h.out h.cur h.closed⟩

theorem relM_lookup (c : Ctx W HS) (x : String) (hx : isUser x = true) :
    RelM c (lookup c.envI x) (lookup c.envR x) := by
  intro st' st h
  unfold lookup
  rw [h.loc x hx]
  have : c.envI.host = c.envR.host := rfl
  cases lookupV c.envR st x <;> exact ⟨by simp [this], h⟩

theorem isUser_frame : isUser nFrame = false := by decide

/-- binding a variable that is local on both sides -/
theorem relM_setLoc (c : Ctx W HS) (x : String) (v : Option Val) (hs : c.scoped x) (hx : isUser x = true) :
    RelM c (setLoc x v) (setLoc x v) := by
  intro st' st h
  refine ⟨rfl, ⟨h.w, h.hs, h.inp, h.out, h.cur, h.closed, ?_, ?_⟩⟩
  · intro y hy
    by_cases hyx : y = x
    · subst hyx
      show lookupV c.envI _ y = lookupV c.envR _ y
      unfold setLoc
      rw [lookupV_upd_eq c.envI st' y v hs.1, lookupV_upd_eq c.envR st y v hs.2]
    · show lookupV c.envI _ y = lookupV c.envR _ y
      unfold setLoc
      rw [lookupV_upd_ne c.envI st' x y v hyx, lookupV_upd_ne c.envR st x y v hyx]
      exact h.loc y hy
  · intro y u hp
    obtain ⟨hu, hl⟩ := h.pin y u hp
    have hyx : y ≠ x := by intro he; rw [he, hx] at hu; exact absurd hu (by decide)
    refine ⟨hu, ?_⟩
    show (if y = x then v else st'.loc y) = some u
    rw [if_neg hyx]; exact hl

/-- the rewritten function binds one of ptera's own variables: invisible to the reference side -/
theorem rel_setLoc_left (c : Ctx W HS) (x : String) (v : Option Val) (hx : isUser x = false)
    (hnp : c.pin x = none) {st' st : St W HS} (h : Rel c st' st) :
    Rel c ((setLoc x v : M W HS Unit) st').2 st := by
  refine ⟨h.w, h.hs, h.inp, h.out, h.cur, h.closed, ?_, ?_⟩
  · intro y hy
    have hyx : y ≠ x := by intro he; rw [he, hx] at hy; exact absurd hy (by decide)
    show lookupV c.envI _ y = lookupV c.envR st y
    unfold setLoc
    rw [lookupV_upd_ne c.envI st' x y v hyx]
    exact h.loc y hy
  · intro y u hp
    obtain ⟨hu, hl⟩ := h.pin y u hp
    have hyx : y ≠ x := by intro he; rw [he, hnp] at hp; exact absurd hp (by simp)
    refine ⟨hu, ?_⟩
    show (if y = x then v else st'.loc y) = some u
    rw [if_neg hyx]; exact hl

/-! ## pinned temporaries -/

/-- the same context, knowing that the temporary `x` holds `v` -/
def Ctx.pinned (c : Ctx W HS) (x : String) (v : Val) : Ctx W HS :=
  { c with pin := fun y => if y = x then some v else c.pin y }

@[simp] theorem pinned_envI (c : Ctx W HS) (x : String) (v : Val) : (c.pinned x v).envI = c.envI := rfl
@[simp] theorem pinned_envR (c : Ctx W HS) (x : String) (v : Val) : (c.pinned x v).envR = c.envR := rfl
@[simp] theorem pinned_cfg (c : Ctx W HS) (x : String) (v : Val) : (c.pinned x v).cfg = c.cfg := rfl
@[simp] theorem pinned_fuel (c : Ctx W HS) (x : String) (v : Val) : (c.pinned x v).fuel = c.fuel := rfl
@[simp] theorem pinned_host (c : Ctx W HS) (x : String) (v : Val) : (c.pinned x v).host = c.host := rfl

theorem pinned_scoped (c : Ctx W HS) (x : String) (v : Val) (y : String) : (c.pinned x v).scoped y ↔ c.scoped y :=
  Iff.rfl

theorem pinned_pin_self (c : Ctx W HS) (x : String) (v : Val) : (c.pinned x v).pin x = some v := by
  simp [Ctx.pinned]

theorem pinned_pin_ne (c : Ctx W HS) (x : String) (v : Val) (y : String) (h : y ≠ x) :
    (c.pinned x v).pin y = c.pin y := by
  simp [Ctx.pinned, h]

def LibSpec.pinned {c : Ctx W HS} (lib : LibSpec c) (x : String) (v : Val) : LibSpec (c.pinned x v) where
  errorLocal := lib.errorLocal
  libGlobal := lib.libGlobal
  absent := lib.absent
  key := lib.key
  suspend := lib.suspend
  resume := lib.resume
  baseExc := lib.baseExc
  nameErr := lib.nameErr
  pyNameErr := lib.pyNameErr
  frame := lib.frame
  globals := lib.globals
  truthyBool := lib.truthyBool
  temps := lib.temps

/-- binding a temporary and going on, knowing what it holds -/
theorem relX_pin (c : Ctx W HS) (x : String) (hx : isUser x = false) (hnp : c.pin x = none) (v : Val)
    {k' k : Exec W HS} (hk : RelX (c.pinned x v) k' k) :
    RelX c (stepM (setLoc x (some v)) fun _ => k') k := by
  intro st' st h
  have h1 : Rel (c.pinned x v) ((setLoc x (some v) : M W HS Unit) st').2 st := by
    have h0 := rel_setLoc_left c x (some v) hx hnp h
    refine ⟨h0.w, h0.hs, h0.inp, h0.out, h0.cur, h0.closed, h0.loc, ?_⟩
    intro y u hp
    by_cases hyx : y = x
    · subst hyx
      rw [pinned_pin_self] at hp
      injection hp with hp
      subst hp
      exact ⟨hx, by show (if y = y then some v else st'.loc y) = some v; simp⟩
    · rw [pinned_pin_ne c x v y hyx] at hp
      exact h0.pin y u hp
  have h2 := hk _ _ h1
  refine ⟨h2.1, ⟨h2.2.w, h2.2.hs, h2.2.inp, h2.2.out, h2.2.cur, h2.2.closed, h2.2.loc, ?_⟩⟩
  intro y u hp
  have hyx : y ≠ x := by intro he; rw [he, hnp] at hp; exact absurd hp (by simp)
  exact h2.2.pin y u (by rw [pinned_pin_ne c x v y hyx]; exact hp)

/-- reading a temporary whose value is known -/
theorem relM_lookup_pin (c : Ctx W HS) (x : String) (v : Val) (hp : c.pin x = some v) (hsc : c.scI x = true) :
    RelM c (lookup c.envI x) (pure v) := by
  intro st' st h
  have hl := (h.pin x v hp).2
  unfold lookup lookupV
  simp only [Ctx.envI, hsc, if_true, hl]
  exact ⟨rfl, h⟩

theorem interactSem_env (c : Ctx W HS) (name : String) (key ann value : Val) (ovr : Bool) :
    interactSem c.envI name key ann value ovr = interactSem c.envR name key ann value ovr := rfl

theorem relM_interactSem (c : Ctx W HS) (name : String) (key ann value : Val) (ovr : Bool) :
    RelM c (interactSem c.envI name key ann value ovr) (interactSem c.envR name key ann value ovr) := by
  intro st' st h
  unfold interactSem
  rw [h.hs]
  have hh : c.envI.host = c.envR.host := rfl
  rw [hh]
  rcases c.envR.host.hnd _ st.hs with ⟨r, hs1⟩
  have hrel : Rel c { st' with hs := hs1 } { st with hs := hs1 } :=
    h.congr _ _ rfl rfl h.w rfl h.inp h.out h.cur h.closed
  cases r with
  | ok v => cases v <;> exact ⟨rfl, hrel⟩
  | err e => exact ⟨rfl, hrel⟩

/-! ## statements -/

theorem relX_done (c : Ctx W HS) (k : Ctl) : RelX c (done k) (done k) := by
  intro st' st h; exact ⟨rfl, h⟩

theorem relX_stepM {α} (c : Ctx W HS) {m' m : M W HS α} {k' k : α → Exec W HS}
    (hm : RelM c m' m) (hk : ∀ a, RelX c (k' a) (k a)) : RelX c (stepM m' k') (stepM m k) := by
  intro st' st h
  have h1 := hm st' st h
  unfold stepM
  rcases hm' : m' st' with ⟨r', st1'⟩
  rcases hm0 : m st with ⟨r, st1⟩
  rw [hm', hm0] at h1
  simp only at h1
  obtain ⟨hr, hrel⟩ := h1
  subst hr
  cases r' with
  | ok a => exact hk a st1' st1 hrel
  | err e => exact ⟨rfl, hrel⟩

/-- a step of the rewritten function whose outcome is known (reading a pinned temporary, a library call) -/
theorem relX_stepM_pin {α} (c : Ctx W HS) {m' : M W HS α} {a : α} {k' : α → Exec W HS} {k : Exec W HS}
    (hm : RelM c m' (pure a)) (hk : RelX c (k' a) k) : RelX c (stepM m' k') k := by
  intro st' st h
  have h1 := hm st' st h
  unfold stepM
  rcases hm' : m' st' with ⟨r', st1'⟩
  rw [hm'] at h1
  simp only [pure_def_M] at h1
  obtain ⟨hr, hrel⟩ := h1
  subst hr
  exact hk st1' st hrel

theorem relX_seqX (c : Ctx W HS) {a' a b' b : Exec W HS} (ha : RelX c a' a) (hb : RelX c b' b) :
    RelX c (seqX a' b') (seqX a b) := by
  intro st' st h
  have h1 := ha st' st h
  unfold seqX
  rcases ha' : a' st' with ⟨k', st1'⟩
  rcases ha0 : a st with ⟨k, st1⟩
  rw [ha', ha0] at h1
  simp only at h1
  obtain ⟨hr, hrel⟩ := h1
  subst hr
  cases k' <;> first | exact hb st1' st1 hrel | exact ⟨rfl, hrel⟩

theorem relX_tryFinally (c : Ctx W HS) {a' a b' b : Exec W HS} (ha : RelX c a' a) (hb : RelX c b' b) :
    RelX c (tryFinally a' b') (tryFinally a b) := by
  intro st' st h
  have h1 := ha st' st h
  unfold tryFinally
  rcases ha' : a' st' with ⟨k', st1'⟩
  rcases ha0 : a st with ⟨k, st1⟩
  rw [ha', ha0] at h1
  simp only at h1
  obtain ⟨hr, hrel⟩ := h1
  subst hr
  simp only
  split
  · exact ⟨rfl, hrel⟩
  · have h2 := hb st1' st1 hrel
    rcases hb' : b' st1' with ⟨k2', st2'⟩
    rcases hb0 : b st1 with ⟨k2, st2⟩
    rw [hb', hb0] at h2
    simp only at h2
    obtain ⟨hr2, hrel2⟩ := h2
    subst hr2
    cases k2' <;> exact ⟨rfl, hrel2⟩

theorem relX_tryExcept (c : Ctx W HS) {a' a o' o : Exec W HS} {hd' hd : Val → Exec W HS}
    (ha : RelX c a' a) (hh : ∀ e, RelX c (hd' e) (hd e)) (ho : RelX c o' o) :
    RelX c (tryExcept a' hd' o') (tryExcept a hd o) := by
  intro st' st h
  have h1 := ha st' st h
  unfold tryExcept
  rcases ha' : a' st' with ⟨k', st1'⟩
  rcases ha0 : a st with ⟨k, st1⟩
  rw [ha', ha0] at h1
  simp only at h1
  obtain ⟨hr, hrel⟩ := h1
  subst hr
  cases k' with
  | exc e =>
    simp only
    split
    · exact ⟨rfl, hrel⟩
    · exact hh e st1' st1 hrel
  | normal => exact ho st1' st1 hrel
  | brk => exact ⟨rfl, hrel⟩
  | cont => exact ⟨rfl, hrel⟩
  | ret v => exact ⟨rfl, hrel⟩

theorem relX_forLoop (c : Ctx W HS) (items : List Val) {it' it : Val → Exec W HS} {o' o : Exec W HS}
    (hi : ∀ v, RelX c (it' v) (it v)) (ho : RelX c o' o) :
    RelX c (forLoop items it' o') (forLoop items it o) := by
  induction items with
  | nil => simpa [forLoop] using ho
  | cons v rest ih =>
    intro st' st h
    have h1 := hi v st' st h
    unfold forLoop
    rcases ha' : it' v st' with ⟨k', st1'⟩
    rcases ha0 : it v st with ⟨k, st1⟩
    rw [ha', ha0] at h1
    simp only at h1
    obtain ⟨hr, hrel⟩ := h1
    subst hr
    cases k' <;> first | exact ih st1' st1 hrel | exact ⟨rfl, hrel⟩

theorem relX_whileLoop (c : Ctx W HS) (fuel : Nat) {cd' cd : M W HS Bool} {b' b o' o : Exec W HS}
    (hc : RelM c cd' cd) (hb : RelX c b' b) (ho : RelX c o' o) :
    RelX c (whileLoop fuel cd' b' o') (whileLoop fuel cd b o) := by
  induction fuel with
  | zero => simpa [whileLoop] using relX_done c _
  | succ n ih =>
    unfold whileLoop
    apply relX_stepM c hc
    intro t
    cases t with
    | false => simpa using ho
    | true =>
      simp only [if_true]
      intro st' st h
      dsimp only
      have h1 := hb st' st h
      rcases ha' : b' st' with ⟨k', st1'⟩
      rcases ha0 : b st with ⟨k, st1⟩
      rw [ha', ha0] at h1
      simp only at h1
      obtain ⟨hr, hrel⟩ := h1
      subst hr
      cases k' <;> first | exact ih st1' st1 hrel | exact ⟨rfl, hrel⟩

theorem relX_withBlock (c : Ctx W HS) (cm : Val) {b' b : Exec W HS} (hb : RelX c b' b) :
    RelX c (withBlock c.envI cm b') (withBlock c.envR cm b) := by
  intro st' st h
  have h1 := hb st' st h
  unfold withBlock
  rcases ha' : b' st' with ⟨k', st1'⟩
  rcases ha0 : b st with ⟨k, st1⟩
  rw [ha', ha0] at h1
  simp only at h1
  obtain ⟨hr, hrel⟩ := h1
  subst hr
  have hh : c.envI.host = c.envR.host := rfl
  have upd : ∀ w, Rel c { st1' with w := w } { st1 with w := w } := fun w =>
    hrel.congr _ _ rfl rfl rfl hrel.hs hrel.inp hrel.out hrel.cur hrel.closed
  cases k' with
  | exc e =>
    simp only
    split
    · exact ⟨rfl, hrel⟩
    · rw [hh, hrel.w]
      rcases c.envR.host.exit cm (some e) st1.w with ⟨r, w⟩
      cases r with
      | ok b => cases b <;> exact ⟨rfl, upd w⟩
      | err e' => exact ⟨rfl, upd w⟩
  | normal | brk | cont | ret v =>
    simp only
    rw [hh, hrel.w]
    rcases c.envR.host.exit cm none st1.w with ⟨r, w⟩
    cases r <;> exact ⟨rfl, upd w⟩

/-- the body of an `except … as name` clause, `name` being a local of both sides -/
theorem relX_inHandler (c : Ctx W HS) (e : Val) (name : Option String) {b' b : Exec W HS}
    (hn : ∀ n, name = some n → c.scoped n ∧ isUser n = true) (hb : RelX c b' b) :
    RelX c (inHandler e name b') (inHandler e name b) := by
  intro st' st h
  unfold inHandler
  cases name with
  | none =>
    simp only
    have h0 : Rel c { st' with cur := e :: st'.cur } { st with cur := e :: st.cur } :=
      h.congr _ _ rfl rfl h.w h.hs h.inp h.out (by simp [h.cur]) h.closed
    have h1 := hb _ _ h0
    rcases ha' : b' { st' with cur := e :: st'.cur } with ⟨k', st1'⟩
    rcases ha0 : b { st with cur := e :: st.cur } with ⟨k, st1⟩
    rw [ha', ha0] at h1
    simp only at h1
    obtain ⟨hr, hrel⟩ := h1
    subst hr
    exact ⟨rfl, hrel.congr _ _ rfl rfl hrel.w hrel.hs hrel.inp hrel.out (by simp [hrel.cur]) hrel.closed⟩
  | some n =>
    obtain ⟨hsc, hu⟩ := hn n rfl
    simp only
    have h0 : Rel c { st' with cur := e :: st'.cur, loc := fun y => if y = n then some e else st'.loc y }
        { st with cur := e :: st.cur, loc := fun y => if y = n then some e else st.loc y } := by
      refine ⟨h.w, h.hs, h.inp, h.out, by simp [h.cur], h.closed, ?_, ?_⟩
      · intro y hy
        by_cases hyn : y = n
        · subst hyn
          rw [lookupV_upd_eq c.envI st' y (some e) hsc.1, lookupV_upd_eq c.envR st y (some e) hsc.2]
        · rw [lookupV_upd_ne c.envI st' n y (some e) hyn, lookupV_upd_ne c.envR st n y (some e) hyn]
          exact h.loc y hy
      · intro y u hp
        obtain ⟨hyu, hl⟩ := h.pin y u hp
        have hyn : y ≠ n := by intro he; rw [he, hu] at hyu; exact absurd hyu (by decide)
        exact ⟨hyu, by simp only [if_neg hyn]; exact hl⟩
    have h1 := hb _ _ h0
    rcases ha' : b' { st' with cur := e :: st'.cur, loc := fun y => if y = n then some e else st'.loc y } with ⟨k', st1'⟩
    rcases ha0 : b { st with cur := e :: st.cur, loc := fun y => if y = n then some e else st.loc y } with ⟨k, st1⟩
    rw [ha', ha0] at h1
    simp only at h1
    obtain ⟨hr, hrel⟩ := h1
    subst hr
    refine ⟨rfl, ⟨hrel.w, hrel.hs, hrel.inp, hrel.out, by simp [hrel.cur], hrel.closed, ?_, ?_⟩⟩
    · intro y hy
      by_cases hyn : y = n
      · subst hyn
        rw [lookupV_upd_eq c.envI st1' y none hsc.1, lookupV_upd_eq c.envR st1 y none hsc.2]
      · rw [lookupV_upd_ne c.envI st1' n y none hyn, lookupV_upd_ne c.envR st1 n y none hyn]
        exact hrel.loc y hy
    · intro y u hp
      obtain ⟨hyu, hl⟩ := hrel.pin y u hp
      have hyn : y ≠ n := by intro he; rw [he, hu] at hyu; exact absurd hyu (by decide)
      exact ⟨hyu, by simp only [if_neg hyn]; exact hl⟩

end Ptera.Sem
