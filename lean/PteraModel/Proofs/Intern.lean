namespace Ptera.Intern
def intern {K} (eq : K → K → Bool) (cache : List K) (k : K) : List K × Nat :=
  match cache.findIdx? (eq k) with
  | some i => (cache, i)
  | none => (cache ++ [k], cache.length)

def internAll {K} (eq : K → K → Bool) (cache : List K) (others : List K) : List K :=
  others.foldl (fun c o => (intern eq c o).1) cache

theorem intern_prefix {K} (eq : K → K → Bool) (c : List K) (k : K) : c <+: (intern eq c k).1 := by
  unfold intern; split
  · exact List.prefix_refl _
  · exact List.prefix_append _ _

theorem internAll_prefix {K} (eq : K → K → Bool) (others : List K) : ∀ c, c <+: internAll eq c others := by
  induction others with
  | nil => intro c; exact List.prefix_refl _
  | cons o os ih =>
    intro c
    exact List.IsPrefix.trans (intern_prefix eq c o) (ih _)

theorem findIdx_prefix {K} (p : K → Bool) (c c' : List K) (i : Nat) (h : c <+: c')
    (hf : c.findIdx? p = some i) : c'.findIdx? p = some i := by
  obtain ⟨t, rfl⟩ := h
  simp [List.findIdx?_append, hf]

theorem intern_found {K} (eq : K → K → Bool) (hrefl : ∀ a, eq a a = true) (c : List K) (k : K) :
    (intern eq c k).1.findIdx? (eq k) = some (intern eq c k).2 := by
  unfold intern
  split
  · rename_i i h; exact h
  · rename_i h
    simp [List.findIdx?_append, h, hrefl]

theorem intern_same {K} (eq : K → K → Bool) (hrefl : ∀ a, eq a a = true) (cache others : List K) (k : K) :
    (intern eq (internAll eq (intern eq cache k).1 others) k).2 = (intern eq cache k).2 := by
  have h1 := intern_found eq hrefl cache k
  have h2 := findIdx_prefix _ _ _ _ (internAll_prefix eq others (intern eq cache k).1) h1
  unfold intern at h2 ⊢
  simp only [h2]

theorem intern_get {K} (eq : K → K → Bool) (hrefl : ∀ a, eq a a = true) (c : List K) (k : K) :
    ∃ k', (intern eq c k).1[(intern eq c k).2]? = some k' ∧ eq k k' = true := by
  unfold intern
  split
  · rename_i i h
    have := List.findIdx?_eq_some_iff_getElem.mp h
    obtain ⟨hlt, hp, _⟩ := this
    exact ⟨c[i], by simp [hlt], hp⟩
  · exact ⟨k, by simp, hrefl k⟩

/-- different fields never share an object: equal identities imply equal fields -/
theorem intern_inj {K} [DecidableEq K] (cache others : List K) (k k2 : K) :
    let eq := fun (a b : K) => decide (a = b)
    (intern eq (internAll eq (intern eq cache k).1 others) k2).2 = (intern eq cache k).2 → k2 = k := by
  intro eq h
  have hrefl : ∀ a, eq a a = true := by intro a; simp [eq]
  obtain ⟨k', hk', e1⟩ := intern_get eq hrefl cache k
  obtain ⟨k2', hk2', e2⟩ := intern_get eq hrefl (internAll eq (intern eq cache k).1 others) k2
  have hpre := List.IsPrefix.trans (internAll_prefix eq others (intern eq cache k).1)
    (intern_prefix eq (internAll eq (intern eq cache k).1 others) k2)
  rw [h] at hk2'
  obtain ⟨t, ht⟩ := hpre
  rw [← ht] at hk2'
  have hlt : (intern eq cache k).2 < (intern eq cache k).1.length := by
    have := (List.getElem?_eq_some_iff.mp hk').1
    exact this
  rw [List.getElem?_append_left hlt] at hk2'
  rw [hk'] at hk2'
  cases hk2'
  simp [eq] at e1 e2
  rw [e2, e1]

end Ptera.Intern
