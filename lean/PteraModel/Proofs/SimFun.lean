import PteraModel.Proofs.SimStmt
/-!
# Simulation, part 5: the whole function

`instrument_refines`: the rewritten function and the reference semantics of the original end the same way,
with the same world, the same handler state and the same generator traffic.
-/
namespace Ptera.Sem
open Ptera.Py

variable {W HS : Type}

/-- what an observer outside the activation can see -/
structure Obs (st' st : St W HS) : Prop where
  w : st'.w = st.w
  hs : st'.hs = st.hs
  inp : st'.inp = st.inp
  out : st'.out = st.out
  cur : st'.cur = st.cur
  closed : st'.closed = st.closed

theorem Rel.obs {c : Ctx W HS} {st' st : St W HS} (h : Rel c st' st) : Obs st' st :=
  ⟨h.w, h.hs, h.inp, h.out, h.cur, h.closed⟩

/-- a triple: from states related by `Pre`, both computations end the same way in states related by `Post` -/
def H3s (Pre Post : St W HS → St W HS → Prop) (a' a : Exec W HS) : Prop :=
  ∀ st' st, Pre st' st → (a' st').1 = (a st).1 ∧ Post (a' st').2 (a st).2

/-- the weaker triple used for whole functions: both computations end the same way with the same
    observable state; `Post` is only claimed when they complete normally -/
def H3 (Pre Post : St W HS → St W HS → Prop) (a' a : Exec W HS) : Prop :=
  ∀ st' st, Pre st' st → (a' st').1 = (a st).1 ∧ Obs (a' st').2 (a st).2 ∧
    ((a st).1 = .normal → Post (a' st').2 (a st).2)

theorem H3s.toH3 {Pre Post : St W HS → St W HS → Prop} {a' a : Exec W HS} (h : H3s Pre Post a' a)
    (ho : ∀ s' s, Post s' s → Obs s' s) : H3 Pre Post a' a :=
  fun st' st hp => ⟨(h st' st hp).1, ho _ _ (h st' st hp).2, fun _ => (h st' st hp).2⟩

theorem H3.of_relX {c : Ctx W HS} {a' a : Exec W HS} (h : RelX c a' a) : H3 (Rel c) (Rel c) a' a :=
  H3s.toH3 h fun _ _ hr => hr.obs

theorem H3.post_obs {Pre Post : St W HS → St W HS → Prop} {a' a : Exec W HS} (h : H3 Pre Post a' a) :
    H3 Pre Obs a' a :=
  fun st' st hp => ⟨(h st' st hp).1, (h st' st hp).2.1, fun _ => (h st' st hp).2.1⟩

theorem H3.post_mono {Pre Post Post' : St W HS → St W HS → Prop} {a' a : Exec W HS} (h : H3 Pre Post a' a)
    (hw : ∀ s' s, Post s' s → Post' s' s) : H3 Pre Post' a' a :=
  fun st' st hp => ⟨(h st' st hp).1, (h st' st hp).2.1, fun hn => hw _ _ ((h st' st hp).2.2 hn)⟩

theorem H3.seq {Pre Mid Post : St W HS → St W HS → Prop} {a' a b' b : Exec W HS}
    (ha : H3 Pre Mid a' a) (hb : H3 Mid Post b' b) : H3 Pre Post (seqX a' b') (seqX a b) := by
  intro st' st h
  have h1 := ha st' st h
  unfold seqX
  rcases ha' : a' st' with ⟨k', st1'⟩
  rcases ha0 : a st with ⟨k, st1⟩
  rw [ha', ha0] at h1
  simp only at h1
  obtain ⟨hr, hobs, hpost⟩ := h1
  subst hr
  cases k' with
  | normal => exact hb st1' st1 (hpost rfl)
  | brk => exact ⟨rfl, hobs, fun hn => by simp at hn⟩
  | cont => exact ⟨rfl, hobs, fun hn => by simp at hn⟩
  | ret v => exact ⟨rfl, hobs, fun hn => by simp at hn⟩
  | exc e => exact ⟨rfl, hobs, fun hn => by simp at hn⟩

/-- `try: a finally: b`, the `finally` part needing only the observable state -/
theorem H3.tryFinally {Pre Mid : St W HS → St W HS → Prop} {a' a b' b : Exec W HS}
    (ha : H3 Pre Mid a' a) (hb : H3 Obs Obs b' b) :
    H3 Pre Obs (tryFinally a' b') (tryFinally a b) := by
  intro st' st h
  have h1 := ha st' st h
  unfold Ptera.Sem.tryFinally
  rcases ha' : a' st' with ⟨k', st1'⟩
  rcases ha0 : a st with ⟨k, st1⟩
  rw [ha', ha0] at h1
  simp only at h1
  obtain ⟨hr, hobs, _⟩ := h1
  subst hr
  simp only
  split
  · exact ⟨rfl, hobs, fun _ => hobs⟩
  · have h2 := hb st1' st1 hobs
    rcases hb' : b' st1' with ⟨k2', st2'⟩
    rcases hb0 : b st1 with ⟨k2, st2⟩
    rw [hb', hb0] at h2
    simp only at h2
    obtain ⟨hr2, hobs2, _⟩ := h2
    subst hr2
    cases k2' <;> exact ⟨rfl, hobs2, fun _ => hobs2⟩

theorem H3.tryExcept {Pre Mid : St W HS → St W HS → Prop} {a' a : Exec W HS}
    {hd' hd : Val → Exec W HS} (ha : H3 Pre Mid a' a) (hh : ∀ e, H3 Obs Obs (hd' e) (hd e)) :
    H3 Pre Obs (tryExcept a' hd' (done .normal)) (tryExcept a hd (done .normal)) := by
  intro st' st h
  have h1 := ha st' st h
  unfold Ptera.Sem.tryExcept
  rcases ha' : a' st' with ⟨k', st1'⟩
  rcases ha0 : a st with ⟨k, st1⟩
  rw [ha', ha0] at h1
  simp only at h1
  obtain ⟨hr, hobs, _⟩ := h1
  subst hr
  cases k' with
  | exc e =>
    simp only
    split
    · exact ⟨rfl, hobs, fun _ => hobs⟩
    · exact hh e st1' st1 hobs
  | normal => exact ⟨rfl, hobs, fun _ => hobs⟩
  | brk => exact ⟨rfl, hobs, fun _ => hobs⟩
  | cont => exact ⟨rfl, hobs, fun _ => hobs⟩
  | ret v => exact ⟨rfl, hobs, fun _ => hobs⟩

/-! ## steps that only need the observable components -/

theorem obs_interactSem (c : Ctx W HS) (name : String) (key ann value : Val) (ovr : Bool)
    {st' st : St W HS} (h : Obs st' st) :
    (interactSem c.envI name key ann value ovr st').1 = (interactSem c.envR name key ann value ovr st).1
    ∧ Obs (interactSem c.envI name key ann value ovr st').2 (interactSem c.envR name key ann value ovr st).2
    ∧ (interactSem c.envI name key ann value ovr st').2.loc = st'.loc
    ∧ (interactSem c.envR name key ann value ovr st).2.loc = st.loc := by
  unfold interactSem
  rw [h.hs]
  have hh : c.envI.host = c.envR.host := rfl
  rw [hh]
  rcases c.envR.host.hnd _ st.hs with ⟨r, hs1⟩
  have ho : Obs { st' with hs := hs1 } { st with hs := hs1 } := ⟨h.w, rfl, h.inp, h.out, h.cur, h.closed⟩
  cases r with
  | ok v => cases v <;> exact ⟨rfl, ho, rfl, rfl⟩
  | err e => exact ⟨rfl, ho, rfl, rfl⟩


/-! ## the prologue: globals are read at entry -/

theorem eval_globalsItem (c : Ctx W HS) (lib : LibSpec c) (x : String) :
    evalE c.envI (.sub (.name nGlobals) (.str x)) = pure ((c.host.glob x).getD .absent) := by
  obtain ⟨g, hg, hitem, _⟩ := lib.globals
  have lG := lookup_lib c lib nGlobals g (by simp) hg
  have cG : (liftW (c.envI.host.getitem g (.str x)) : M W HS Val) = pure ((c.host.glob x).getD .absent) := by
    funext st; simp only [liftW, Ctx.envI, hitem]; rfl
  simp only [evalE, lG, pure_bind_M, cG]

theorem eval_inGlobals (c : Ctx W HS) (lib : LibSpec c) (x : String) :
    truthyE c.envI (.binop "In" (.str x) (.name nGlobals)) = pure (c.host.glob x).isSome := by
  obtain ⟨g, hg, _, hin⟩ := lib.globals
  have lG := lookup_lib c lib nGlobals g (by simp) hg
  have cB : (liftW (c.envI.host.binop "In" (.str x) g) : M W HS Val) = pure (.bool (c.host.glob x).isSome) := by
    funext st; simp only [liftW, Ctx.envI, hin]; rfl
  have cT : ∀ b, (liftW (c.envI.host.truthy (.bool b)) : M W HS Bool) = pure b := by
    intro b; funext st; simp only [liftW, Ctx.envI, lib.truthyBool]; rfl
  simp only [truthyE, evalE, lG, pure_bind_M, cB, cT]

theorem eval_fetchInteract (c : Ctx W HS) (lib : LibSpec c) (x : String) :
    evalE c.envI (.interact x .noneLit .noneLit (.sub (.name nGlobals) (.str x)) true)
      = interactSem c.envI x .noneV (c.host.annVal .noneLit) ((c.host.glob x).getD .absent) true := by
  obtain ⟨g, hg, hitem, _⟩ := lib.globals
  have lG := lookup_lib c lib nGlobals g (by simp) hg
  have cG : (liftW (c.envI.host.getitem g (.str x)) : M W HS Val) = pure ((c.host.glob x).getD .absent) := by
    funext st; simp only [liftW, Ctx.envI, hitem]; rfl
  simp only [evalE, lG, pure_bind_M, cG]
  rfl

structure ExtOK (c : Ctx W HS) (ext : List String) : Prop where
  user : ∀ x ∈ ext, isUser x = true
  scI : ∀ x ∈ ext, c.scI x = true
  scR : ∀ x ∈ ext, c.scR x = shouldInstr c.cfg x []
  nopin : ∀ x, c.pin x = none

/-- the relation while the globals are being fetched: `S` are the ones done -/
structure Rel0 (c : Ctx W HS) (ext : List String) (S : String → Prop) (st' st : St W HS) : Prop where
  obs : Obs st' st
  loc : ∀ x, isUser x = true → x ∉ ext → lookupV c.envI st' x = lookupV c.envR st x
  extI : ∀ x ∈ ext, shouldInstr c.cfg x [] = true → st'.loc x = st.loc x
  extP : ∀ x ∈ ext, shouldInstr c.cfg x [] = false → st'.loc x = none ∨ st'.loc x = c.host.glob x
  agree : ∀ x ∈ ext, S x → shouldInstr c.cfg x [] = false → st'.loc x = c.host.glob x

theorem Rel0.toRel {c : Ctx W HS} {ext : List String} {S : String → Prop} {st' st : St W HS}
    (ok : ExtOK c ext) (h : Rel0 c ext S st' st) (hS : ∀ x ∈ ext, S x) : Rel c st' st := by
  refine ⟨h.obs.w, h.obs.hs, h.obs.inp, h.obs.out, h.obs.cur, h.obs.closed, ?_,
    fun x v hp => by rw [ok.nopin x] at hp; exact absurd hp (by simp)⟩
  intro x hx
  by_cases hm : x ∈ ext
  · unfold lookupV
    simp only [Ctx.envI, Ctx.envR, ok.scI x hm, ok.scR x hm, if_true]
    by_cases hi : shouldInstr c.cfg x [] = true
    · simp [hi, h.extI x hm hi]
    · simp only [Bool.not_eq_true] at hi
      simp [hi, h.agree x hm (hS x hm) hi]
  · exact h.loc x hx hm


/-- updating one side's (or both sides') binding of an external `x` -/
theorem Rel0.upd {c : Ctx W HS} {ext : List String} {S : String → Prop} {st' st st2' st2 : St W HS}
    (h : Rel0 c ext S st' st) (x : String) (hx : x ∈ ext) (ho : Obs st2' st2)
    (hl' : ∀ y, y ≠ x → st2'.loc y = st'.loc y) (hl : ∀ y, y ≠ x → st2.loc y = st.loc y)
    (hxI : shouldInstr c.cfg x [] = true → st2'.loc x = st2.loc x)
    (hxP : shouldInstr c.cfg x [] = false → st2'.loc x = c.host.glob x) :
    Rel0 c ext (fun y => S y ∨ y = x) st2' st2 := by
  refine ⟨ho, ?_, ?_, ?_, ?_⟩
  · intro y hy hm
    have hyx : y ≠ x := fun e => hm (e ▸ hx)
    have := h.loc y hy hm
    unfold lookupV at this ⊢
    rw [hl' y hyx, hl y hyx]; exact this
  · intro y hm hi
    by_cases hyx : y = x
    · subst hyx; exact hxI hi
    · rw [hl' y hyx, hl y hyx]; exact h.extI y hm hi
  · intro y hm hi
    by_cases hyx : y = x
    · subst hyx; exact Or.inr (hxP hi)
    · rw [hl' y hyx]; exact h.extP y hm hi
  · intro y hm hS hi
    by_cases hyx : y = x
    · subst hyx; exact hxP hi
    · rw [hl' y hyx]
      rcases hS with hS | hS
      · exact h.agree y hm hS hi
      · exact absurd hS hyx

theorem Rel0.mono {c : Ctx W HS} {ext : List String} {S S' : String → Prop} {st' st : St W HS}
    (h : Rel0 c ext S st' st) (hs : ∀ x, S' x → S x) : Rel0 c ext S' st' st :=
  ⟨h.obs, h.loc, h.extI, h.extP, fun x hm hS hi => h.agree x hm (hs x hS) hi⟩

theorem fetch_one (c : Ctx W HS) (lib : LibSpec c) (ext : List String) (ok : ExtOK c ext) (S : String → Prop)
    (x : String) (hx : x ∈ ext) :
    H3s (Rel0 c ext S) (Rel0 c ext fun y => S y ∨ y = x)
      (execS c.envI c.fuel (fetchExternal c.cfg x)) (stepM (fetchRef c.envR x) fun _ => done .normal) := by
  obtain ⟨ncls, hn⟩ := lib.nameErr
  have lN := lookup_lib c lib nNameError ncls (by simp) hn
  intro st' st h
  by_cases hi : shouldInstr c.cfg x [] = true
  · -- instrumented: try: x = interact(...) except PteraNameError: pass
    have eL : execS c.envI c.fuel (fetchExternal c.cfg x) = tryExcept
        (stepM (interactSem c.envI x .noneV (c.host.annVal .noneLit) ((c.host.glob x).getD .absent) true) fun r =>
          stepM (setLoc x (some r)) fun _ => done .normal)
        (fun e => if c.host.isinst e ncls then inHandler e none (done .normal) else done (.exc e))
        (done .normal) := by
      simp only [fetchExternal, hi, if_true, interactE, annTags, Bool.false_or, execS, execB_single, execB_nil,
        tryFinally_skip, execHL, annArg, eval_fetchInteract c lib x, assignTs_single, assignT,
        hook_envI, stepM_bind, stepM_pure, postBind, execB_cons, seqX_done_normal, seqX_normal_right]
      simp only [evalE, lN, stepM_pure]
      rfl
    have eR : fetchRef c.envR x = fun st =>
        match interactSem c.envR x .noneV (c.host.annVal .noneLit) ((c.host.glob x).getD .absent) true st with
        | (.ok r, st1) => setLoc x (some r) st1
        | (.err e, st1) =>
          if isFatal e then (.err e, st1)
          else if c.host.isinst e ncls then (.ok (), st1) else (.err e, st1) := by
      unfold fetchRef
      simp [Ctx.envR, hi, annValOpt, annArg, hn]
      rfl
    rw [eL, eR]
    obtain ⟨hr, ho, hl', hl⟩ := obs_interactSem c x .noneV (c.host.annVal .noneLit) ((c.host.glob x).getD .absent)
      true h.obs
    unfold tryExcept stepM
    dsimp only
    rcases hI : interactSem c.envI x .noneV (c.host.annVal .noneLit) ((c.host.glob x).getD .absent) true st' with ⟨r', s1'⟩
    rcases hR : interactSem c.envR x .noneV (c.host.annVal .noneLit) ((c.host.glob x).getD .absent) true st with ⟨r, s1⟩
    simp only [hI, hR] at hr ho hl' hl
    subst hr
    have base : Rel0 c ext S s1' s1 :=
      ⟨ho, fun y hy hm => by
          have := h.loc y hy hm
          unfold lookupV at this ⊢
          rw [hl', hl]; exact this,
        fun y hm hiy => by rw [hl', hl]; exact h.extI y hm hiy,
        fun y hm hiy => by rw [hl']; exact h.extP y hm hiy,
        fun y hm hS hiy => by rw [hl']; exact h.agree y hm hS hiy⟩
    cases r' with
    | ok v =>
      simp only [setLoc, done]
      refine ⟨by first | rfl | trivial, base.upd x hx ⟨ho.w, ho.hs, ho.inp, ho.out, ho.cur, ho.closed⟩ ?_ ?_ ?_ ?_⟩
      · intro y hy; simp [hy]
      · intro y hy; simp [hy]
      · intro _; simp
      · intro hf; rw [hi] at hf; exact absurd hf (by decide)
    | err e =>
      simp only
      by_cases hfat : isFatal e = true
      · simp only [hfat, if_true]
        exact ⟨by first | rfl | trivial, base.upd x hx ho (fun _ _ => rfl) (fun _ _ => rfl) (fun hiy => base.extI x hx hiy)
            (fun hf => by rw [hi] at hf; exact absurd hf (by decide))⟩
      · simp only [Bool.not_eq_true] at hfat
        simp only [hfat, Bool.false_eq_true, if_false]
        have post : Rel0 c ext (fun y => S y ∨ y = x) s1' s1 :=
          base.upd x hx ho (fun _ _ => rfl) (fun _ _ => rfl) (fun hiy => base.extI x hx hiy)
            (fun hf => by rw [hi] at hf; exact absurd hf (by decide))
        by_cases hisn : c.host.isinst e ncls = true
        · simp only [hisn, if_true, inHandler, done, List.tail_cons]
          exact ⟨by first | rfl | trivial, post⟩
        · simp only [Bool.not_eq_true] at hisn
          simp only [hisn, Bool.false_eq_true, if_false, done]
          exact ⟨by first | rfl | trivial, post⟩
  · -- not instrumented: if 'x' in globals: x = globals['x']
    simp only [Bool.not_eq_true] at hi
    have eR : fetchRef c.envR x = pure () := by
      unfold fetchRef; simp [Ctx.envR, hi]
    have eL : execS c.envI c.fuel (fetchExternal c.cfg x) =
        if (c.host.glob x).isSome then
          (stepM (setLoc x (some ((c.host.glob x).getD .absent))) fun _ => done .normal)
        else done .normal := by
      simp only [fetchExternal, hi, Bool.false_eq_true, if_false, interactE, annTags, Bool.or_self, execS,
        eval_inGlobals c lib x, stepM_pure, execB_single, execB_nil, eval_globalsItem c lib x, assignTs_single,
        assignT, hook_envI, stepM_bind, pure_bind_M]
    rw [eL, eR, stepM_pure]
    cases hg : c.host.glob x with
    | none =>
      simp only [Option.isSome_none, Bool.false_eq_true, if_false, done]
      refine ⟨by first | rfl | trivial, h.upd x hx h.obs (fun _ _ => rfl) (fun _ _ => rfl) (fun hf => by rw [hi] at hf; exact absurd hf (by decide)) ?_⟩
      intro _
      rcases h.extP x hx hi with hp | hp
      · rw [hp, hg]
      · exact hp
    | some v =>
      simp only [Option.isSome_some, if_true, Option.getD_some, stepM, setLoc, done]
      refine ⟨by first | rfl | trivial, h.upd x hx ⟨h.obs.w, h.obs.hs, h.obs.inp, h.obs.out, h.obs.cur, h.obs.closed⟩ ?_ (fun _ _ => rfl)
        (fun hf => by rw [hi] at hf; exact absurd hf (by decide)) ?_⟩
      · intro y hy; simp [hy]
      · intro _; simp [hg]



theorem fetch_all (c : Ctx W HS) (lib : LibSpec c) (ext : List String) (ok : ExtOK c ext) :
    (xs : List String) → (∀ x ∈ xs, x ∈ ext) → ∀ S : String → Prop,
    H3 (Rel0 c ext S) (Rel0 c ext fun y => S y ∨ y ∈ xs)
      (execB c.envI c.fuel (xs.map (fetchExternal c.cfg))) (stepM (fetchRefs c.envR xs) fun _ => done .normal)
  | [], _, S => by
    simp only [List.map_nil, execB_nil, fetchRefs, stepM_pure]
    intro st' st h
    exact ⟨rfl, h.obs, fun _ => h.mono fun y hy => by simpa using hy⟩
  | x :: xs, hm, S => by
    simp only [List.map_cons, execB_cons, fetchRefs, stepM_bind]
    rw [stepM_as_seq (fetchRef c.envR x)]
    refine H3.seq (H3s.toH3 (fetch_one c lib ext ok S x (hm x (by simp))) fun _ _ h => h.obs) ?_
    refine H3.post_mono (fetch_all c lib ext ok xs (fun y hy => hm y (by simp [hy])) _) ?_
    intro s' s h
    exact h.mono fun y hy => by
      simp only [List.mem_cons] at hy
      rcases hy with hy | hy | hy
      · exact Or.inl (Or.inl hy)
      · exact Or.inl (Or.inr hy)
      · exact Or.inr hy


/-! ## parameters -/

theorem sim_genParam (c : Ctx W HS) (p : Param) (hx : isUser p.name = true) (hs : c.scoped p.name) :
    RelX c (execB c.envI c.fuel (genParam c.cfg p)) (stepM (paramHook c.envR p) fun _ => done .normal) := by
  simp only [genParam, execB_single, execS, eval_interactE, assignTs_single, assignT, hook_envI,
    evalE, stepM_bind, stepM_pure, pure_bind_M]
  have e : paramHook c.envR p = (lookup c.envR p.name >>= fun v => hook c.envR p.name p.ann v >>= fun r =>
      setLoc p.name (some r)) := by
    unfold paramHook; simp [Ctx.envR]
  rw [e]
  simp only [stepM_bind, hook_envR]
  refine relX_stepM c (relM_lookup c p.name hx) fun v => ?_
  refine relX_stepM c (relM_maybe c p.name .noneV p.ann v true false false) fun r => ?_
  exact relX_stepM c (relM_setLoc c p.name (some r) hs hx) fun _ => relX_done c _

theorem sim_genParams (c : Ctx W HS) : (ps : List Param) → (∀ p ∈ ps, isUser p.name = true ∧ c.scoped p.name) →
    RelX c (execB c.envI c.fuel (ps.flatMap (genParam c.cfg))) (stepM (paramHooks c.envR ps) fun _ => done .normal)
  | [], _ => by simp [execB_nil, paramHooks, stepM_pure]; exact relX_done c _
  | p :: ps, h => by
    simp only [List.flatMap_cons, execB_append, paramHooks, stepM_bind]
    rw [stepM_as_seq (paramHook c.envR p)]
    exact relX_seqX c (sim_genParam c p (h p (by simp)).1 (h p (by simp)).2)
      (sim_genParams c ps fun q hq => h q (by simp [hq]))

/-! ## closure variables -/

theorem sim_fetchFree (c : Ctx W HS) (lib : LibSpec c) (x : String) (hx : isUser x = true) :
    RelX c (execB c.envI c.fuel [fetchFree c.cfg x]) (stepM (freeHook c.envR x) fun _ => done .normal) := by
  obtain ⟨hsc, ncls, hn⟩ := lib.pyNameErr
  have lN : lookup c.envI nPyNameError = pure ncls := by
    funext st
    unfold lookup lookupV
    simp [hsc, Ctx.envI, hn]
    rfl
  -- what the two sides run before the handler decides
  have eL : execB c.envI c.fuel [fetchFree c.cfg x] = tryExcept
      (stepM (lookup c.envI x >>= fun v => maybeInteract c.envI c.cfg x .noneV none v false false false)
        fun _ => done .normal)
      (fun e => if c.host.isinst e ncls then inHandler e none (done .normal) else done (.exc e))
      (done .normal) := by
    simp only [fetchFree, execB_single, execS, execB_nil, tryFinally_skip, execHL, eval_interactE, evalE, lN,
      stepM_pure, postBind, execB_cons, seqX_done_normal, seqX_normal_right]
    rfl
  have eR : freeHook c.envR x = fun st =>
      match (lookup c.envR x >>= fun v => maybeInteract c.envR c.cfg x .noneV none v false false false) st with
      | (.ok _, st1) => (.ok (), st1)
      | (.err e, st1) =>
        if isFatal e then (.err e, st1)
        else if c.host.isinst e ncls then (.ok (), st1) else (.err e, st1) := by
    unfold freeHook maybeInteract
    simp [Ctx.envR, annValOpt, annTags, hn]
    rfl
  rw [eL, eR]
  have hm := relM_bind c (relM_lookup c x hx) fun v => relM_maybe c x .noneV none v false false false
  intro st' st h
  obtain ⟨hr, hrel⟩ := hm st' st h
  unfold tryExcept stepM
  dsimp only
  rcases hI : (lookup c.envI x >>= fun v => maybeInteract c.envI c.cfg x .noneV none v false false false) st' with ⟨r', s1'⟩
  rcases hR : (lookup c.envR x >>= fun v => maybeInteract c.envR c.cfg x .noneV none v false false false) st with ⟨r, s1⟩
  rw [hI, hR] at hr hrel
  simp only at hr hrel
  subst hr
  cases r' with
  | ok v => exact ⟨by first | rfl | trivial, hrel⟩
  | err e =>
    simp only
    by_cases hfat : isFatal e = true
    · simp only [hfat, if_true]
      exact ⟨by first | rfl | trivial, hrel⟩
    · simp only [Bool.not_eq_true] at hfat
      simp only [hfat, Bool.false_eq_true, if_false]
      by_cases hisn : c.host.isinst e ncls = true
      · simp only [hisn, if_true, inHandler, done, List.tail_cons]
        exact ⟨by first | rfl | trivial, hrel⟩
      · simp only [Bool.not_eq_true] at hisn
        simp only [hisn, Bool.false_eq_true, if_false, done]
        exact ⟨by first | rfl | trivial, hrel⟩

theorem sim_fetchFrees (c : Ctx W HS) (lib : LibSpec c) : (xs : List String) → (∀ x ∈ xs, isUser x = true) →
    RelX c (execB c.envI c.fuel (xs.map (fetchFree c.cfg))) (stepM (freeHooks c.envR xs) fun _ => done .normal)
  | [], _ => by simp [execB_nil, freeHooks, stepM_pure]; exact relX_done c _
  | x :: xs, h => by
    simp only [List.map_cons, execB_cons, freeHooks, stepM_bind]
    rw [stepM_as_seq (freeHook c.envR x), ← execB_single]
    exact relX_seqX c (sim_fetchFree c lib x (h x (by simp))) (sim_fetchFrees c lib xs fun y hy => h y (by simp [hy]))

/-! ## `#enter`, `#exit`, `#error`: only the observable state matters -/

/-- a relation that a change of the handler state (the same on both sides) does not disturb -/
def HsStable (Q : St W HS → St W HS → Prop) : Prop :=
  (∀ s' s, Q s' s → Obs s' s) ∧
  ∀ s' s hs1, Q s' s → Q { s' with hs := hs1 } { s with hs := hs1 }

theorem hsStable_obs : HsStable (Obs : St W HS → St W HS → Prop) :=
  ⟨fun _ _ h => h, fun _ _ _ h => ⟨h.w, rfl, h.inp, h.out, h.cur, h.closed⟩⟩

theorem hsStable_rel0 (c : Ctx W HS) (ext : List String) (S : String → Prop) : HsStable (Rel0 c ext S) :=
  ⟨fun _ _ h => h.obs, fun _ _ _ h =>
    ⟨⟨h.obs.w, rfl, h.obs.inp, h.obs.out, h.obs.cur, h.obs.closed⟩, h.loc, h.extI, h.extP, h.agree⟩⟩

/-- one meta event, from any relation of that kind -/
theorem meta_event (c : Ctx W HS) (Q : St W HS → St W HS → Prop) (hQ : HsStable Q) (x : String)
    (ann : Option Ann) (v : Val) (ve : Expr) (hve : evalE c.envI ve = pure v) :
    H3 Q Q (execB c.envI c.fuel
        (([x].filter fun y => shouldInstr c.cfg y (annTags ann)).flatMap fun sym => standalone c.cfg sym ann ve))
      (stepM (hookMeta c.envR x ann v) fun _ => done .normal) := by
  intro st' st h
  rw [hookMeta_envR]
  by_cases hi : shouldInstr c.cfg x (annTags ann) = true
  · simp only [List.filter_cons, hi, if_true, List.filter_nil, List.flatMap_cons, List.flatMap_nil, List.append_nil,
      standalone_on c.cfg x ann ve hi, execB_single, execS, evalE, hve, pure_bind_M, stepM_bind, stepM_pure]
    rw [interactSem_env]
    unfold stepM interactSem
    rw [(hQ.1 _ _ h).hs]
    simp only [Ctx.envI, Ctx.envR]
    rcases c.host.hnd _ st.hs with ⟨r, hs1⟩
    have hq := hQ.2 _ _ hs1 h
    cases r with
    | ok w =>
      cases w <;> exact ⟨rfl, hQ.1 _ _ hq, fun _ => hq⟩
    | err e => exact ⟨rfl, hQ.1 _ _ hq, fun _ => hq⟩
  · simp only [Bool.not_eq_true] at hi
    simp only [List.filter_cons, hi, Bool.false_eq_true, if_false, List.filter_nil, List.flatMap_nil, execB_nil,
      stepM_pure]
    exact ⟨rfl, hQ.1 _ _ h, fun _ => h⟩


theorem error_handler (c : Ctx W HS) (lib : LibSpec c) (e : Val) (hi : shouldInstr c.cfg "#error" [] = true) :
    H3 Obs Obs (execHL c.envI c.fuel [errorHandler c.cfg "#error"] e) (errorHook c.envR e) := by
  obtain ⟨b, hb1, hb2⟩ := lib.baseExc
  have lB := lookup_lib c lib "BaseException" b (by simp) hb1
  have hb2' : c.envI.host.isinst e b = true := hb2 e
  intro st' st h
  have eR : errorHook c.envR e = stepM (interactSem c.envR "#error" .noneV (c.host.annVal .noneLit) e false)
      fun _ => done (.exc e) := by
    unfold errorHook; simp [Ctx.envR, hi, annValOpt, annArg]
  rw [eR]
  simp only [errorHandler, standalone_on c.cfg "#error" none _ (by simpa [annTags] using hi), execHL, evalE, lB,
    stepM_pure, hb2', if_true, postBind_envI, List.cons_append, List.nil_append, execB_cons, execB_nil, execS,
    pure_bind_M, annArg, seqX_normal_right]
  unfold inHandler seqX stepM
  dsimp only
  have hl : lookup c.envI "#error"
      { st' with cur := e :: st'.cur, loc := fun y => if y = "#error" then some e else st'.loc y }
      = (.ok e, { st' with cur := e :: st'.cur, loc := fun y => if y = "#error" then some e else st'.loc y }) := by
    unfold lookup lookupV
    simp [Ctx.envI, lib.errorLocal]
  rw [bind_def_M, hl]
  dsimp only
  rw [interactSem_env]
  unfold interactSem
  simp only [Ctx.envI, Ctx.envR]
  rw [h.hs]
  rcases c.host.hnd _ st.hs with ⟨r, hs1⟩
  have ho : Obs { st' with hs := hs1 } { st with hs := hs1 } := ⟨h.w, rfl, h.inp, h.out, h.cur, h.closed⟩
  cases r with
  | ok w =>
    cases w <;> simp only [done, List.tail_cons] <;>
      exact ⟨by first | rfl | trivial, ⟨h.w, rfl, h.inp, h.out, h.cur, h.closed⟩,
        fun _ => ⟨h.w, rfl, h.inp, h.out, h.cur, h.closed⟩⟩
  | err e' =>
    simp only [List.tail_cons]
    exact ⟨by first | rfl | trivial, ⟨h.w, rfl, h.inp, h.out, h.cur, h.closed⟩,
      fun _ => ⟨h.w, rfl, h.inp, h.out, h.cur, h.closed⟩⟩


/-! ## the whole function -/

theorem inner_core (c : Ctx W HS) (lib : LibSpec c) (ext : List String) (ok : ExtOK c ext)
    (frees : List String) (hfr : ∀ x ∈ frees, isUser x = true)
    (params : List Param) (hp : ∀ p ∈ params, isUser p.name = true ∧ c.scoped p.name)
    (body1 : List Stmt) (hcore : coreB body1 = true) (hsc : ∀ x ∈ Stmt.assignedL body1, c.scoped x) :
    H3 (Rel0 c ext fun _ => False) (Rel c)
      (execB c.envI c.fuel
        (((["#enter"].filter fun x => shouldInstr c.cfg x (annTags (some enterAnn))).flatMap fun sym =>
            standalone c.cfg sym (some enterAnn) (.bool true))
          ++ ((ext.map (fetchExternal c.cfg) ++ frees.map (fetchFree c.cfg) ++ params.flatMap (genParam c.cfg))
            ++ (instrB c.cfg body1 1).1)))
      (seqX (stepM (do hookMetas c.envR (some enterAnn) ["#enter"]; fetchRefs c.envR ext; freeHooks c.envR frees
                       paramHooks c.envR params)
          fun _ => done .normal)
        (execB c.envR c.fuel body1)) := by
  simp only [execB_append, hookMetas, stepM_bind, stepM_pure]
  rw [stepM_as_seq (hookMeta c.envR "#enter" (some enterAnn) (.bool true)),
    stepM_as_seq (fetchRefs c.envR ext), stepM_as_seq (freeHooks c.envR frees),
    seqX_assoc, seqX_assoc, seqX_assoc, seqX_assoc, seqX_assoc]
  refine H3.seq (meta_event c _ (hsStable_rel0 c ext _) "#enter" (some enterAnn) (.bool true) (.bool true)
    (by simp [evalE])) ?_
  refine H3.seq (fetch_all c lib ext ok ext (fun x hx => hx) _) ?_
  have hrel : ∀ s' s, Rel0 c ext (fun y => False ∨ y ∈ ext) s' s → Rel c s' s :=
    fun s' s h => h.toRel ok fun x hx => Or.inr hx
  intro st' st h
  exact H3.seq (H3.of_relX (sim_fetchFrees c lib frees hfr))
    (H3.seq (H3.of_relX (sim_genParams c params hp))
      (H3.of_relX (simB c lib (fun k => ok.nopin _) body1 hcore hsc 1))) st' st (hrel _ _ h)

theorem exit_event (c : Ctx W HS) :
    H3 Obs Obs (execB c.envI c.fuel
        ((["#exit"].filter fun x => shouldInstr c.cfg x (annTags (some exitAnn))).flatMap fun sym =>
          standalone c.cfg sym (some exitAnn) (.bool true)))
      (stepM (hookMetas c.envR (some exitAnn) ["#exit"]) fun _ => done .normal) := by
  have := meta_event c Obs hsStable_obs "#exit" (some exitAnn) (.bool true) (.bool true) (by simp [evalE])
  simpa only [hookMetas, stepM_bind, stepM_pure] using this

/-- `delimit` at the level of the function: `#enter` first, `#error` on an exception, `#exit` on every way out -/
theorem delimit_fun (c : Ctx W HS) (lib : LibSpec c) (inner' : List Stmt) (core : Exec W HS)
    (Pre : St W HS → St W HS → Prop)
    (hkey : H3 Pre (Rel c) (execB c.envI c.fuel
      (((["#enter"].filter fun x => shouldInstr c.cfg x (annTags (some enterAnn))).flatMap fun sym =>
          standalone c.cfg sym (some enterAnn) (.bool true)) ++ inner')) core) :
    H3 Pre Obs
      (execB c.envI c.fuel (delimit c.cfg inner' ["#enter"] ["#error"] ["#exit"] (some enterAnn) (some exitAnn)))
      (if (!shouldInstr c.cfg "#error" [] && !shouldInstr c.cfg "#exit" ["exit"]) = true then core
       else tryFinally (tryExcept core (errorHook c.envR) (done .normal))
          (stepM (hookMetas c.envR (some exitAnn) ["#exit"]) fun _ => done .normal)) := by
  have hx := exit_event c
  have hann : annTags (some exitAnn) = ["exit"] := rfl
  simp only [List.filter_cons, List.filter_nil] at hkey
  unfold delimit
  by_cases hE : shouldInstr c.cfg "#error" [] = true
  · -- the error handler is there
    have hh : ∀ e, H3 Obs Obs (execHL c.envI c.fuel [errorHandler c.cfg "#error"] e) (errorHook c.envR e) :=
      fun e => error_handler c lib e hE
    simp only [List.filter_cons, hE, if_true, List.filter_nil, List.isEmpty_cons, Bool.false_and, Bool.false_eq_true,
      if_false, List.map_cons, List.map_nil, execB_single, execS, execB_nil, Bool.not_true]
    exact H3.tryFinally (H3.tryExcept hkey hh) (by simpa only [List.filter_cons, List.filter_nil] using hx)
  · simp only [Bool.not_eq_true] at hE
    have hh : ∀ e, H3 Obs Obs (execHL c.envI c.fuel [] e) (errorHook c.envR e) := by
      intro e st' st h
      simp only [execHL, errorHook, Ctx.envR, hE, Bool.false_eq_true, if_false]
      exact ⟨rfl, h, fun _ => h⟩
    by_cases hX : shouldInstr c.cfg "#exit" ["exit"] = true
    · simp only [List.filter_cons, hE, hX, hann, Bool.false_eq_true, if_false, if_true, List.filter_nil,
        List.isEmpty_nil, List.isEmpty_cons, Bool.and_false, List.map_nil, execB_single, execS, execB_nil,
        Bool.not_false, Bool.not_true]
      exact H3.tryFinally (H3.tryExcept hkey hh)
        (by simpa only [List.filter_cons, List.filter_nil, hann, hX, if_true] using hx)
    · simp only [Bool.not_eq_true] at hX
      simp only [List.filter_cons, hE, hX, hann, Bool.false_eq_true, if_false, List.filter_nil, List.isEmpty_nil,
        Bool.and_self, if_true, Bool.not_false]
      exact hkey.post_obs

/-- the fragment of whole functions the theorem covers -/
def coreF (f : FunDef) : Bool :=
  coreB (bodyWithReturn f)
  && (collect f).assigned.all isUser && (collect f).external.all isUser
  && f.freevars.all isUser
  && (Stmt.assignedL (bodyWithReturn f)).all (fun x => (collect f).assigned.contains x)
  && f.params.all (fun p => (collect f).assigned.contains p.name)

def ctxOf (host : Host W HS) (cfg : Cfg) (f : FunDef) (fuel : Nat) : Ctx W HS :=
  { host := host, cfg := cfg, scI := scopeInstr f, scR := scopeRef cfg f, fuel := fuel }

theorem mem_insertName (x y : String) : (l : List String) → (y ∈ insertName x l ↔ y = x ∨ y ∈ l)
  | [] => by simp [insertName]
  | z :: zs => by
    simp only [insertName]
    split
    · simp
    · simp only [List.mem_cons, mem_insertName x y zs]
      constructor
      · rintro (h | h | h)
        · exact Or.inr (Or.inl h)
        · exact Or.inl h
        · exact Or.inr (Or.inr h)
      · rintro (h | h | h)
        · exact Or.inr (Or.inl h)
        · exact Or.inl h
        · exact Or.inr (Or.inr h)

theorem mem_sortNames (y : String) : (l : List String) → (y ∈ sortNames l ↔ y ∈ l)
  | [] => by simp [sortNames]
  | x :: xs => by
    have ih := mem_sortNames y xs
    simp only [sortNames, List.foldr_cons] at ih ⊢
    rw [mem_insertName, ih]
    simp

theorem isUser_not_reserved (x : String) (h : isUser x = true) : (x == "#error") = false ∧ isTemp x = false := by
  unfold isUser at h
  simp only [Bool.not_eq_true', Bool.or_eq_false_iff] at h
  refine ⟨?_, h.1.1.1⟩
  cases hx : x == "#error"
  · rfl
  · have : x = "#error" := by simpa using hx
    subst this
    exact absurd h.1.2 (by decide)

theorem scopeInstr_of_assigned (f : FunDef) (x : String) (h : (collect f).assigned.contains x = true) :
    scopeInstr f x = true := by simp only [scopeInstr, h, Bool.true_or]

theorem scopeRef_of_assigned (cfg : Cfg) (f : FunDef) (x : String) (h : (collect f).assigned.contains x = true) :
    scopeRef cfg f x = true := by simp only [scopeRef, h, Bool.true_or]

theorem scopeInstr_of_external (f : FunDef) (x : String) (h : (collect f).external.contains x = true) :
    scopeInstr f x = true := by simp only [scopeInstr, h, Bool.or_true, Bool.true_or]

theorem scopeRef_of_external (cfg : Cfg) (f : FunDef) (x : String) (ha : (collect f).assigned.contains x = false)
    (he : (collect f).external.contains x = true) : scopeRef cfg f x = shouldInstr cfg x [] := by
  simp only [scopeRef, ha, he, Bool.false_or, Bool.true_and]

theorem scope_other (cfg : Cfg) (f : FunDef) (x : String) (he : (collect f).external.contains x = false)
    (h1 : (x == "#error") = false) (h2 : isTemp x = false) :
    scopeInstr f x = (collect f).assigned.contains x ∧ scopeRef cfg f x = (collect f).assigned.contains x := by
  simp only [scopeInstr, scopeRef, he, h1, h2, Bool.or_false, Bool.false_and, and_self]

/-- the rewritten function refines the reference semantics of the original -/
theorem instrument_refines (host : Host W HS) (cfg : Cfg) (f : FunDef) (fuel : Nat) (hf : coreF f = true)
    (lib : LibSpec (ctxOf host cfg f fuel)) (st0 : St W HS)
    (hinit : ∀ x ∈ (collect f).external, st0.loc x = none) :
    (runInstr (ctxOf host cfg f fuel).envI fuel (instrument cfg f) st0).1
      = (runRef (ctxOf host cfg f fuel).envR fuel f st0).1
    ∧ Obs (runInstr (ctxOf host cfg f fuel).envI fuel (instrument cfg f) st0).2
        (runRef (ctxOf host cfg f fuel).envR fuel f st0).2 := by
  let c := ctxOf host cfg f fuel
  simp only [coreF, Bool.and_eq_true, List.all_eq_true] at hf
  obtain ⟨⟨⟨⟨⟨hbody, hau⟩, heu⟩, hfree⟩, hasg⟩, hpar⟩ := hf
  have hext : ∀ x, x ∈ (collect f).external → (collect f).assigned.contains x = false := by
    intro x hx
    simp only [Collected.external, List.mem_filter, Bool.and_eq_true, Bool.not_eq_true'] at hx
    exact hx.2.1
  have hscoped : ∀ x, (collect f).assigned.contains x = true → c.scoped x := by
    intro x hx
    exact ⟨scopeInstr_of_assigned f x hx, scopeRef_of_assigned cfg f x hx⟩
  have ok : ExtOK c (sortNames (collect f).external) := by
    refine ⟨?_, ?_, ?_, fun _ => rfl⟩
    · intro x hx; exact heu x ((mem_sortNames x _).1 hx)
    · intro x hx
      have := (mem_sortNames x _).1 hx
      exact scopeInstr_of_external f x (List.contains_iff_mem.2 this)
    · intro x hx
      have := (mem_sortNames x _).1 hx
      exact scopeRef_of_external cfg f x (hext x this) (List.contains_iff_mem.2 this)
  have init : Rel0 c (sortNames (collect f).external) (fun _ => False) st0 st0 := by
    refine ⟨⟨rfl, rfl, rfl, rfl, rfl, rfl⟩, ?_, fun _ _ _ => rfl, ?_, fun _ _ hF => absurd hF id⟩
    · intro x hx hm
      have hne : (collect f).external.contains x = false := by
        cases hc : (collect f).external.contains x
        · rfl
        · exact absurd ((mem_sortNames x _).2 (List.contains_iff_mem.1 hc)) hm
      obtain ⟨h1, h2⟩ := isUser_not_reserved x hx
      obtain ⟨e1, e2⟩ := scope_other cfg f x hne h1 h2
      unfold lookupV
      show (if scopeInstr f x = true then _ else _) = (if scopeRef cfg f x = true then _ else _)
      rw [e1, e2]
      rfl
    · intro x hx _
      exact Or.inl (hinit x ((mem_sortNames x _).1 hx))
  have hp : ∀ p ∈ f.params, isUser p.name = true ∧ c.scoped p.name := fun p hpm =>
    ⟨hau p.name (List.contains_iff_mem.1 (hpar p hpm)), hscoped _ (hpar p hpm)⟩
  have hsc : ∀ x ∈ Stmt.assignedL (bodyWithReturn f), c.scoped x := fun x hx => hscoped x (hasg x hx)
  have hfr : ∀ x ∈ sortNames (collect f).free, isUser x = true := by
    intro x hx
    exact hfree x (by simpa [collect] using (mem_sortNames x _).1 hx)
  have key := inner_core c lib _ ok _ hfr f.params hp (bodyWithReturn f) hbody hsc
  -- unfold both sides
  have eI : runInstr c.envI fuel (instrument cfg f) = execB c.envI c.fuel
      (delimit c.cfg ((((sortNames (collect f).external).map (fetchExternal c.cfg)
          ++ (sortNames (collect f).free).map (fetchFree c.cfg)
          ++ f.params.flatMap (genParam c.cfg)) ++ (instrB c.cfg (bodyWithReturn f) 1).1))
        ["#enter"] ["#error"] ["#exit"] (some enterAnn) (some exitAnn)) := by
    unfold runInstr instrument bodyWithReturn
    simp only [c, ctxOf]
  have eR : runRef c.envR fuel f =
      (if (!shouldInstr c.cfg "#error" [] && !shouldInstr c.cfg "#exit" ["exit"]) = true then
        seqX (stepM (do hookMetas c.envR (some enterAnn) ["#enter"]
                        fetchRefs c.envR (sortNames (collect f).external)
                        freeHooks c.envR (sortNames (collect f).free)
                        paramHooks c.envR f.params) fun _ => done .normal)
          (execB c.envR c.fuel (bodyWithReturn f))
       else tryFinally (tryExcept
          (seqX (stepM (do hookMetas c.envR (some enterAnn) ["#enter"]
                           fetchRefs c.envR (sortNames (collect f).external)
                           freeHooks c.envR (sortNames (collect f).free)
                           paramHooks c.envR f.params) fun _ => done .normal)
            (execB c.envR c.fuel (bodyWithReturn f)))
          (errorHook c.envR) (done .normal))
          (stepM (hookMetas c.envR (some exitAnn) ["#exit"]) fun _ => done .normal)) := by
    unfold runRef
    rfl
  have main := delimit_fun c lib _ _ _ key st0 st0 init
  show (runInstr c.envI fuel (instrument cfg f) st0).1 = (runRef c.envR fuel f st0).1 ∧ _
  rw [eI, eR]
  exact ⟨main.1, main.2.1⟩


/-! ## the assumptions on the host, separated from the scoping facts -/

/-- what the rewritten code assumes about ptera's runtime library and the builtins (host only) -/
structure HostSpec (host : Host W HS) : Prop where
  absent : host.glob nAbsent = some .absent
  key : ∃ k, host.glob nKey = some k ∧ ∀ kind v w, host.call k [.str kind, v] w = (.ok (keyVal kind v), w)
  suspend : ∃ s, host.glob nSuspend = some s ∧ ∀ a v w, host.call s [a, v] w = (.ok v, w)
  resume : ∃ s, host.glob nResume = some s ∧ ∀ a v w, host.call s [a, v] w = (.ok v, w)
  baseExc : ∃ b, host.glob "BaseException" = some b ∧ ∀ e, host.isinst e b = true
  nameErr : ∃ n, host.glob nNameError = some n
  pyNameErr : ∃ n, host.glob nPyNameError = some n
  frame : ∃ f, host.glob nFrame = some f
  globals : ∃ g, host.glob nGlobals = some g
    ∧ (∀ x w, host.getitem g (.str x) w = (.ok ((host.glob x).getD .absent), w))
    ∧ (∀ x w, host.binop "In" (.str x) g w = (.ok (.bool (host.glob x).isSome), w))
  truthyBool : ∀ b w, host.truthy (.bool b) w = (.ok b, w)

theorem libSpec_of_host (host : Host W HS) (hh : HostSpec host) (cfg : Cfg) (f : FunDef) (fuel : Nat)
    (hf : coreF f = true) : LibSpec (ctxOf host cfg f fuel) := by
  simp only [coreF, Bool.and_eq_true, List.all_eq_true] at hf
  obtain ⟨⟨⟨⟨⟨_, hau⟩, heu⟩, _⟩, _⟩, _⟩ := hf
  have notScoped : ∀ x, isUser x = false → (x == "#error") = false → isTemp x = false → scopeInstr f x = false := by
    intro x hnu h1 h2
    have ha : (collect f).assigned.contains x = false := by
      cases hc : (collect f).assigned.contains x
      · rfl
      · have := hau x (List.contains_iff_mem.1 hc); rw [hnu] at this; exact absurd this (by decide)
    have he : (collect f).external.contains x = false := by
      cases hc : (collect f).external.contains x
      · rfl
      · have := heu x (List.contains_iff_mem.1 hc); rw [hnu] at this; exact absurd this (by decide)
    simp only [scopeInstr, ha, he, h1, h2, Bool.or_false]
  refine ⟨?_, ?_, hh.absent, hh.key, hh.suspend, hh.resume, hh.baseExc, hh.nameErr,
    ⟨notScoped nPyNameError (by decide) (by decide) (by decide), hh.pyNameErr⟩, hh.frame, hh.globals,
    hh.truthyBool, fun n => by show scopeInstr f (gensym n) = true; simp [scopeInstr, isTemp_gensym]⟩
  · show scopeInstr f "#error" = true
    simp [scopeInstr]
  · intro x hx
    show scopeInstr f x = false
    have hnu : isUser x = false := by
      simp only [List.mem_cons, List.mem_nil_iff, or_false] at hx
      rcases hx with h | h | h | h | h | h | h | h <;> subst h <;> decide
    have ha : (collect f).assigned.contains x = false := by
      cases hc : (collect f).assigned.contains x
      · rfl
      · have := hau x (List.contains_iff_mem.1 hc); rw [hnu] at this; exact absurd this (by decide)
    have he : (collect f).external.contains x = false := by
      cases hc : (collect f).external.contains x
      · rfl
      · have := heu x (List.contains_iff_mem.1 hc); rw [hnu] at this; exact absurd this (by decide)
    have h1 : (x == "#error") = false ∧ isTemp x = false := by
      simp only [List.mem_cons, List.mem_nil_iff, or_false] at hx
      rcases hx with h | h | h | h | h | h | h | h <;> subst h <;> decide
    simp only [scopeInstr, ha, he, h1.1, h1.2, Bool.or_false]

end Ptera.Sem
