import PteraModel.Proofs.YieldPair
/-!
# `#value` exactly once — where it is true (C06, partial)

The full statement ("the return-value event is delivered once for every normal completion, with the value actually
returned") is FALSE of ptera: a `return` whose value has been reported can still be replaced or cancelled by a
`finally` clause or by the `__exit__` of a context manager (findings F7c, F7d).  This file proves it for the
functions in which that cannot happen: the core fragment without `with` and without `try … finally`
(`plainS`).  For those, with the recording handler and `#value` captured: the activation delivers exactly one
`#value` event, carrying the value returned, if it completes by returning, and none otherwise.

Two facts are carried through a relational induction over statements (`valS`): the marker is nowhere (so the value
shown to the handler is a real value and the interaction answers it), and what a statement appends contains a
`#value` event exactly if the statement ends by `return`.
-/
namespace Ptera.Sem
open Ptera.Py

def isValueEv (i : Interaction) : Bool := i.name == "#value"

def NotValue (n : String) : Prop := n ≠ "#value"

/-- since `base`, no `#value` event has been recorded -/
def NoValueSince (base : List Interaction) (st : St PW PH) : Prop :=
  ∃ w, st.hs.events = base ++ w ∧ ∀ i ∈ w, isValueEv i = false

theorem noValueSince_sameHs {base : List Interaction} {st st2 : St PW PH} (h : NoValueSince base st)
    (hh : st2.hs = st.hs) : NoValueSince base st2 := by
  obtain ⟨w, h1, h2⟩ := h
  exact ⟨w, by rw [hh]; exact h1, h2⟩

theorem valKitS (sc : String → Bool) (hk : Option Cfg) (base : List Interaction) :
    InvKitS ({ host := PyLite.hostObs, sc := sc, hk := hk } : Env PW PH) (NoValueSince base) (fun _ => True) NotValue where
  nUser := fun x hx => by
    intro e; rw [e] at hx; exact absurd hx (by decide)
  nYield := by unfold NotValue; decide
  nReceive := by unfold NotValue; decide
  int := fun _ => trivial
  str := fun _ => trivial
  noneV := trivial
  bool := fun _ => trivial
  const := fun _ => trivial
  tuple := fun _ _ => trivial
  list := fun _ _ => trivial
  look := fun _ _ _ _ _ _ => trivial
  nameError := fun _ => trivial
  unpackError := trivial
  noActiveExc := trivial
  call := fun st f a hp _ _ => ⟨noValueSince_sameHs hp rfl, by cases (PyLite.hostObs.call f a st.w).1 <;> simp [ResQ]⟩
  binop := fun st op a b hp _ _ => ⟨noValueSince_sameHs hp rfl, by cases (PyLite.hostObs.binop op a b st.w).1 <;> simp [ResQ]⟩
  getattr := fun st o a hp _ => ⟨noValueSince_sameHs hp rfl, by cases (PyLite.hostObs.getattr o a st.w).1 <;> simp [ResQ]⟩
  getitem := fun st o k hp _ _ => ⟨noValueSince_sameHs hp rfl, by cases (PyLite.hostObs.getitem o k st.w).1 <;> simp [ResQ]⟩
  setattr := fun st o a v hp _ _ => ⟨noValueSince_sameHs hp rfl, by cases (PyLite.hostObs.setattr o a v st.w).1 <;> simp [ResQ]⟩
  setitem := fun st o k v hp _ _ _ => ⟨noValueSince_sameHs hp rfl, by cases (PyLite.hostObs.setitem o k v st.w).1 <;> simp [ResQ]⟩
  iter := fun st v hp _ => ⟨noValueSince_sameHs hp rfl, by cases (PyLite.hostObs.iter v st.w).1 <;> simp [ResQ]⟩
  truthy := fun st v hp _ => ⟨noValueSince_sameHs hp rfl, by cases (PyLite.hostObs.truthy v st.w).1 <;> simp [ResQ]⟩
  enter := fun st cm hp _ => ⟨noValueSince_sameHs hp rfl, by cases (PyLite.hostObs.enter cm st.w).1 <;> simp [ResQ]⟩
  exit := fun st cm e hp _ _ => ⟨noValueSince_sameHs hp rfl, by cases (PyLite.hostObs.exit cm e st.w).1 <;> simp [ResQ]⟩
  opaqueE := fun st src args hp _ => ⟨noValueSince_sameHs hp rfl, by cases (PyLite.hostObs.opaqueE src args st.w).1 <;> simp [ResQ]⟩
  bindStmt := fun st src args hp _ => ⟨noValueSince_sameHs hp rfl, by cases (PyLite.hostObs.bindStmt src args st.w).1 <;> simp [ResQ]⟩
  setLoc := fun _ _ _ hp _ => noValueSince_sameHs hp rfl
  unsetLoc := fun _ _ hp => noValueSince_sameHs hp rfl
  interact := fun st name key ann v ovr hp hn _ => by
    obtain ⟨w, h1, h2⟩ := hp
    unfold interactSem
    simp only [PyLite.hostObs]
    have hP : NoValueSince base { st with hs := { st.hs with events := st.hs.events ++ [{ name := name, key := key, ann := ann, value := v, ovr := ovr }] } } := by
      refine ⟨w ++ [{ name := name, key := key, ann := ann, value := v, ovr := ovr }], by simp [h1], ?_⟩
      intro i hi
      simp only [List.mem_append, List.mem_singleton] at hi
      rcases hi with hi | hi
      · exact h2 i hi
      · subst hi
        simp only [isValueEv]
        exact beq_false_of_ne hn
    cases v <;> exact ⟨hP, by simp [ResQ]⟩
  yield := fun st y hp _ => by
    unfold doYield
    cases st.inp with
    | nil =>
      simp only
      split
      · exact ⟨hp, Or.inl rfl⟩
      · exact ⟨noValueSince_sameHs hp rfl, Or.inr trivial⟩
    | cons cmd rest =>
      cases cmd with
      | send v => exact ⟨noValueSince_sameHs hp rfl, trivial⟩
      | throw e => exact ⟨noValueSince_sameHs hp rfl, Or.inr trivial⟩
  pushCur := fun _ _ hp _ => noValueSince_sameHs hp rfl
  popCur := fun _ hp => noValueSince_sameHs hp rfl
  curQ := fun _ _ _ _ => trivial

theorem valKit (sc : String → Bool) (hk : Option Cfg) (base : List Interaction) :
    InvKitN ({ host := PyLite.hostObs, sc := sc, hk := hk } : Env PW PH) (NoValueSince base) (fun _ => True) NotValue :=
  (valKitS sc hk base).toN

abbrev MF := MarkerFree (W := PW) (HS := PH) PyLite.Good PyLite.WInv

/-- an expression-level computation: the marker stays nowhere, the answer is good, no `#value` is recorded -/
def VM {α} (QA : α → Prop) (m : M PW PH α) : Prop :=
  ∀ st, MF st → MF (m st).2 ∧ ResQ PyLite.Good QA (m st).1 ∧
    ∃ w, (m st).2.hs.events = st.hs.events ++ w ∧ ∀ i ∈ w, isValueEv i = false

theorem vM_of {α} {QA : α → Prop} {m : M PW PH α} (h1 : InvM MF PyLite.Good QA m)
    (h2 : ∀ b, InvM (NoValueSince b) (fun _ => True) (fun _ => True) m) : VM QA m := by
  intro st hp
  obtain ⟨a1, a2⟩ := h1 st hp
  obtain ⟨⟨w, b1, b2⟩, _⟩ := h2 st.hs.events st ⟨[], by simp, by simp⟩
  exact ⟨a1, a2, w, b1, b2⟩

theorem vM_mono {α} {QA QA' : α → Prop} {m : M PW PH α} (h : VM QA m) (hw : ∀ a, QA a → QA' a) : VM QA' m := by
  intro st hp
  obtain ⟨a1, a2, a3⟩ := h st hp
  refine ⟨a1, ?_, a3⟩
  cases hr : (m st).1 with
  | ok a => rw [hr] at a2; exact hw a a2
  | err e => rw [hr] at a2; exact a2

theorem vM_pure {α} (QA : α → Prop) (a : α) (h : QA a) : VM QA (pure a : M PW PH α) :=
  fun st hp => ⟨hp, h, [], by simp [pure_def_M], by simp⟩

theorem vM_bind {α β} {QA : α → Prop} {QB : β → Prop} {m : M PW PH α} {f : α → M PW PH β}
    (hm : VM QA m) (hf : ∀ a, QA a → VM QB (f a)) : VM QB (m >>= f) := by
  intro st hp
  obtain ⟨a1, a2, w1, a3, a4⟩ := hm st hp
  rw [bind_def_M]
  rcases hms : m st with ⟨r, st1⟩
  rw [hms] at a1 a2 a3
  simp only at a1 a2 a3 ⊢
  cases r with
  | err e => exact ⟨a1, a2, w1, a3, a4⟩
  | ok a =>
    obtain ⟨b1, b2, w2, b3, b4⟩ := hf a a2 st1 a1
    refine ⟨b1, b2, w1 ++ w2, by rw [b3, a3, List.append_assoc], ?_⟩
    intro i hi
    simp only [List.mem_append] at hi
    rcases hi with hi | hi
    · exact a4 i hi
    · exact b4 i hi

theorem vM_liftW {α} (QA : α → Prop) (f : PW → Res α × PW)
    (hf : ∀ w, PyLite.WInv w → ResGood PyLite.Good PyLite.WInv QA (f w)) : VM QA (liftW f : M PW PH α) := by
  intro st hp
  unfold liftW
  have h := hf st.w hp.2.2.2.2
  rcases hfw : f st.w with ⟨r, w⟩
  rw [hfw] at h
  refine ⟨hp.setW _ h.1, ?_, [], by simp, by simp⟩
  have := resQ_of_resGood h
  exact this

/-! ## statement level -/

/-- what a statement appended: one `#value` event carrying `v` if it ended by `return v`, none otherwise -/
def ValProp (c : Ctl) (w : List Interaction) : Prop :=
  match c with
  | .ret v => (w.filter isValueEv).map (·.value) = [v]
  | _ => w.filter isValueEv = []

def VX (a : Exec PW PH) : Prop :=
  ∀ st, MF st → ∃ w, (a st).2.hs.events = st.hs.events ++ w ∧ ValProp (a st).1 w

theorem filter_noValue {w : List Interaction} (h : ∀ i ∈ w, isValueEv i = false) : w.filter isValueEv = [] := by
  rw [List.filter_eq_nil_iff]
  intro i hi
  simp [h i hi]

theorem valProp_prepend {c : Ctl} {w1 w2 : List Interaction} (h1 : w1.filter isValueEv = [])
    (h2 : ValProp c w2) : ValProp c (w1 ++ w2) := by
  unfold ValProp at h2 ⊢
  rw [List.filter_append, h1, List.nil_append]
  exact h2

theorem valProp_append {c : Ctl} {w1 w2 : List Interaction} (h1 : ValProp c w1)
    (h2 : w2.filter isValueEv = []) : ValProp c (w1 ++ w2) := by
  unfold ValProp at h1 ⊢
  rw [List.filter_append, h2, List.append_nil]
  exact h1

theorem valProp_noValue {c : Ctl} (hc : ∀ v, c ≠ .ret v) {w : List Interaction} (h : w.filter isValueEv = []) :
    ValProp c w := by
  cases c with
  | ret v => exact absurd rfl (hc v)
  | normal => exact h
  | brk => exact h
  | cont => exact h
  | exc e => exact h

theorem vX_done (c : Ctl) (hc : ∀ v, c ≠ .ret v) : VX (done c) :=
  fun st _ => ⟨[], by simp [done], valProp_noValue hc (by simp)⟩

theorem vX_stepM {α} {QA : α → Prop} {m : M PW PH α} {k : α → Exec PW PH} (hm : VM QA m)
    (hk : ∀ a, QA a → VX (k a)) : VX (stepM m k) := by
  intro st hp
  obtain ⟨a1, a2, w1, a3, a4⟩ := hm st hp
  unfold stepM
  rcases hms : m st with ⟨r, st1⟩
  rw [hms] at a1 a2 a3
  simp only at a1 a2 a3 ⊢
  cases r with
  | err e => exact ⟨w1, a3, valProp_noValue (by intro v h; cases h) (filter_noValue a4)⟩
  | ok a =>
    obtain ⟨w2, b1, b2⟩ := hk a a2 st1 a1
    exact ⟨w1 ++ w2, by rw [b1, a3, List.append_assoc], valProp_prepend (filter_noValue a4) b2⟩

theorem vX_seqX {a b : Exec PW PH} (ia : InvX MF PyLite.Good a) (va : VX a) (vb : VX b) : VX (seqX a b) := by
  intro st hp
  obtain ⟨wa, h1, h2⟩ := va st hp
  have hi := (ia st hp).1
  unfold seqX
  rcases hast : a st with ⟨c, st1⟩
  rw [hast] at h1 h2 hi
  simp only at h1 h2 hi ⊢
  cases c with
  | normal =>
    simp only
    obtain ⟨wb, g1, g2⟩ := vb st1 hi
    exact ⟨wa ++ wb, by rw [g1, h1, List.append_assoc], valProp_prepend h2 g2⟩
  | brk => exact ⟨wa, h1, h2⟩
  | cont => exact ⟨wa, h1, h2⟩
  | ret v => exact ⟨wa, h1, h2⟩
  | exc e => exact ⟨wa, h1, h2⟩

/-- a closing part that always ends normally and records no `#value` (the end-of-iteration markers) -/
def Benign (fin : Exec PW PH) : Prop :=
  ∀ st, ∃ st' w, fin st = (.normal, st') ∧ st'.hs.events = st.hs.events ++ w ∧ w.filter isValueEv = []

theorem vX_tryFinally_benign {a fin : Exec PW PH} (va : VX a) (hf : Benign fin) : VX (tryFinally a fin) := by
  intro st hp
  obtain ⟨wa, h1, h2⟩ := va st hp
  unfold tryFinally
  rcases hast : a st with ⟨c, st1⟩
  rw [hast] at h1 h2
  simp only at h1 h2 ⊢
  split
  · exact ⟨wa, h1, h2⟩
  · obtain ⟨st2, wf, g1, g2, g3⟩ := hf st1
    rw [g1]
    exact ⟨wa ++ wf, by rw [g2, h1, List.append_assoc], valProp_append h2 g3⟩

theorem vX_tryExcept {a o : Exec PW PH} {hd : Val → Exec PW PH} (ia : InvX MF PyLite.Good a) (va : VX a)
    (hh : ∀ e, PyLite.Good e → VX (hd e)) (vo : VX o) : VX (tryExcept a hd o) := by
  intro st hp
  obtain ⟨wa, h1, h2⟩ := va st hp
  obtain ⟨hi, hq⟩ := ia st hp
  unfold tryExcept
  rcases hast : a st with ⟨c, st1⟩
  rw [hast] at h1 h2 hi hq
  simp only at h1 h2 hi hq ⊢
  cases c with
  | exc e =>
    simp only
    by_cases hf : isFatal e = true
    · simp only [hf, if_true]
      exact ⟨wa, h1, h2⟩
    · have hf' : isFatal e = false := by simpa using hf
      simp only [hf', Bool.false_eq_true, if_false]
      have hge : PyLite.Good e := by
        rcases hq with h | h
        · rw [hf'] at h; exact absurd h (by decide)
        · exact h
      obtain ⟨wb, g1, g2⟩ := hh e hge st1 hi
      exact ⟨wa ++ wb, by rw [g1, h1, List.append_assoc], valProp_prepend h2 g2⟩
  | normal =>
    simp only
    obtain ⟨wb, g1, g2⟩ := vo st1 hi
    exact ⟨wa ++ wb, by rw [g1, h1, List.append_assoc], valProp_prepend h2 g2⟩
  | brk => exact ⟨wa, h1, h2⟩
  | cont => exact ⟨wa, h1, h2⟩
  | ret v => exact ⟨wa, h1, h2⟩

theorem vX_forLoop (items : List Val) {it : Val → Exec PW PH} {o : Exec PW PH}
    (hg : ∀ v ∈ items, PyLite.Good v) (ii : ∀ v, PyLite.Good v → InvX MF PyLite.Good (it v))
    (vi : ∀ v, PyLite.Good v → VX (it v)) (vo : VX o) : VX (forLoop items it o) := by
  induction items with
  | nil => simpa [forLoop] using vo
  | cons v rest ih =>
    have hv : PyLite.Good v := hg v (by simp)
    have ih' := ih (fun u hu => hg u (by simp [hu]))
    intro st hp
    obtain ⟨wa, h1, h2⟩ := vi v hv st hp
    have hi := (ii v hv st hp).1
    unfold forLoop
    rcases hast : it v st with ⟨c, st1⟩
    rw [hast] at h1 h2 hi
    simp only at h1 h2 hi ⊢
    cases c with
    | normal =>
      simp only
      obtain ⟨wb, g1, g2⟩ := ih' st1 hi
      exact ⟨wa ++ wb, by rw [g1, h1, List.append_assoc], valProp_prepend h2 g2⟩
    | cont =>
      simp only
      obtain ⟨wb, g1, g2⟩ := ih' st1 hi
      exact ⟨wa ++ wb, by rw [g1, h1, List.append_assoc], valProp_prepend h2 g2⟩
    | brk => exact ⟨wa, h1, h2⟩
    | ret r => exact ⟨wa, h1, h2⟩
    | exc e => exact ⟨wa, h1, h2⟩

theorem vX_whileLoop (fuel : Nat) {cd : M PW PH Bool} {b o : Exec PW PH} (hc : VM (fun _ => True) cd)
    (ib : InvX MF PyLite.Good b) (vb : VX b) (vo : VX o) : VX (whileLoop fuel cd b o) := by
  induction fuel with
  | zero =>
    unfold whileLoop
    exact vX_done _ (by intro v h; cases h)
  | succ n ih =>
    unfold whileLoop
    refine vX_stepM hc fun t _ => ?_
    cases t with
    | false => simpa using vo
    | true =>
      simp only [if_true]
      intro st hp
      dsimp only
      obtain ⟨wa, h1, h2⟩ := vb st hp
      have hi := (ib st hp).1
      rcases hast : b st with ⟨c, st1⟩
      rw [hast] at h1 h2 hi
      simp only at h1 h2 hi ⊢
      cases c with
      | normal =>
        simp only
        obtain ⟨wb, g1, g2⟩ := ih st1 hi
        exact ⟨wa ++ wb, by rw [g1, h1, List.append_assoc], valProp_prepend h2 g2⟩
      | cont =>
        simp only
        obtain ⟨wb, g1, g2⟩ := ih st1 hi
        exact ⟨wa ++ wb, by rw [g1, h1, List.append_assoc], valProp_prepend h2 g2⟩
      | brk => exact ⟨wa, h1, h2⟩
      | ret r => exact ⟨wa, h1, h2⟩
      | exc e => exact ⟨wa, h1, h2⟩

/-! ## the fragment: no `with`, no `try … finally` -/

mutual
def plainS : Stmt → Bool
  | .ite _ b o => plainB b && plainB o
  | .while _ b o => plainB b && plainB o
  | .for _ _ b o => plainB b && plainB o
  | .try b hs o f => plainB b && plainHL hs && plainB o && f.isEmpty
  | .with .. => false
  | _ => true
def plainB : List Stmt → Bool
  | [] => true
  | s :: ss => plainS s && plainB ss
def plainH : Handler → Bool
  | .mk _ _ body => plainB body
def plainHL : List Handler → Bool
  | [] => true
  | h :: hs => plainH h && plainHL hs
end

section
variable (sc : String → Bool) (cfg : Cfg)

theorem mk : InvKit (recEnv sc cfg) MF PyLite.Good :=
  markerKit (recEnv sc cfg) PyLite.Good PyLite.WInv PyLite.hostGood hndGood_obs

theorem vE (e : Expr) (h : coreE e = true) : VM PyLite.Good (evalE (recEnv sc cfg) e) :=
  vM_of (invE (mk sc cfg) e h) fun b => invE (valKit sc (some cfg) b) e h

theorem vT (t : Target) (h : coreT t = true) (v : Val) (hv : PyLite.Good v) :
    VM (fun _ => True) (storeT (recEnv sc cfg) t v) :=
  vM_of (invT (mk sc cfg) t h v hv) fun b => invT (valKit sc (some cfg) b) t h v trivial

theorem vAssignT (t : Target) (h : coreAssignT t = true) (ann : Option Ann) (v : Val) (hv : PyLite.Good v) :
    VM (fun _ => True) (assignT (recEnv sc cfg) t ann v) :=
  vM_of (invM_assignT (mk sc cfg) t h ann v hv) fun b => invM_assignT (valKit sc (some cfg) b) t h ann v trivial

theorem vAssignTs (ts : List Target) (h : coreAssignTL ts = true) (v : Val) (hv : PyLite.Good v) :
    VM (fun _ => True) (assignTs (recEnv sc cfg) v ts) :=
  vM_of (invM_assignTs (mk sc cfg) ts h v hv) fun b => invM_assignTs (valKit sc (some cfg) b) ts h v trivial

theorem vPostBind (xs : List String) (h : ∀ x ∈ xs, isUser x = true) :
    VM (fun _ => True) (postBind (recEnv sc cfg) xs) :=
  vM_of (invM_postBind (mk sc cfg) xs h) fun b => invM_postBind (valKit sc (some cfg) b) xs h

theorem vPostBind1 (x : String) (h : isUser x = true) : VM (fun _ => True) (postBind1 (recEnv sc cfg) x) :=
  vM_of (invM_postBind1 (mk sc cfg) x h) fun b => invM_postBind1 (valKit sc (some cfg) b) x h

theorem vLookup (x : String) (h : isUser x = true) : VM PyLite.Good (lookup (recEnv sc cfg) x) :=
  vM_of (invM_lookup (mk sc cfg) x h) fun b => invM_lookup (valKit sc (some cfg) b) x h

theorem vSetLoc (x : String) (v : Val) (hv : PyLite.Good v) : VM (fun _ => True) (setLoc x (some v) : M PW PH Unit) :=
  vM_of (invM_setLoc (mk (fun _ => false) []) x v hv) fun b => invM_setLoc (valKit (fun _ => false) none b) x v trivial

theorem vForM (l : List (String × Val)) (h : ∀ p ∈ l, PyLite.Good p.2) :
    VM (fun _ => True) (l.forM fun (x, v) => (setLoc x (some v) : M PW PH Unit)) :=
  vM_of (invM_forM_setLoc (mk (fun _ => false) []) l h) fun b =>
    invM_forM_setLoc (valKit (fun _ => false) none b) l fun _ _ => trivial

theorem vTruthyE (e : Expr) (h : coreE e = true) : VM (fun _ => True) (truthyE (recEnv sc cfg) e) := by
  unfold truthyE
  exact vM_bind (vE sc cfg e h) fun v hv => vM_liftW _ _ fun w hw => PyLite.hostGood.truthy v w hv hw

/-- the events of the loop markers: always normal, never a `#value` -/
theorem benign_metas (xs : List String) (hx : ∀ x ∈ xs, x ≠ "#value") :
    Benign (stepM (hookMetas (recEnv sc cfg) none xs) fun _ => done .normal) := by
  intro st
  have key : ∀ (xs : List String) (st : St PW PH), (∀ x ∈ xs, x ≠ "#value") →
      ∃ st' w, hookMetas (recEnv sc cfg) none xs st = (.ok (), st') ∧ st'.hs.events = st.hs.events ++ w
        ∧ w.filter isValueEv = [] := by
    intro xs
    induction xs with
    | nil => intro st _; exact ⟨st, [], rfl, by simp, rfl⟩
    | cons x xs ih =>
      intro st hx
      simp only [hookMetas]
      rw [bind_def_M]
      by_cases hi : shouldInstr cfg x (annTags none) = true
      · rw [hookMeta_rec sc cfg x none (.bool true) hi (by simp) st]
        simp only
        obtain ⟨st', w, h1, h2, h3⟩ := ih { st with hs := { st.hs with events := st.hs.events ++ [metaEv x none (.bool true)] } }
          (fun y hy => hx y (by simp [hy]))
        refine ⟨st', metaEv x none (.bool true) :: w, h1, by rw [h2]; simp, ?_⟩
        have hne : isValueEv (metaEv x none (.bool true)) = false := by
          simp only [isValueEv, metaEv]
          exact beq_false_of_ne (hx x (by simp))
        simp [List.filter_cons, hne, h3]
      · have hi' : shouldInstr cfg x (annTags none) = false := by simpa using hi
        have : hookMeta (recEnv sc cfg) x none (.bool true) st = (.ok (), st) := by
          unfold hookMeta; simp [recEnv, hi']; rfl
        rw [this]
        simp only
        exact ih st (fun y hy => hx y (by simp [hy]))
  obtain ⟨st', w, h1, h2, h3⟩ := key xs st hx
  refine ⟨st', w, ?_, h2, h3⟩
  unfold stepM
  rw [h1]
  rfl

theorem mark_ne_value (pre x : String) (hp : pre = "#loop_" ∨ pre = "#endloop_") : pre ++ x ≠ "#value" := by
  intro h
  have := congrArg String.toList h
  rcases hp with rfl | rfl <;> simp [String.toList_append] at this

/-- the `return` statement: the value is shown under `#value`, then returned -/
theorem vX_ret (hVal : shouldInstr cfg "#value" [] = true) {m : M PW PH Val} (hm : VM PyLite.Good m) :
    VX (stepM (m >>= fun x => hook (recEnv sc cfg) "#value" none x) fun r => done (.ret r)) := by
  intro st hp
  obtain ⟨a1, a2, w1, a3, a4⟩ := hm st hp
  unfold stepM
  rw [bind_def_M]
  rcases hms : m st with ⟨r, st1⟩
  rw [hms] at a1 a2 a3
  simp only at a1 a2 a3 ⊢
  cases r with
  | err e => exact ⟨w1, a3, valProp_noValue (by intro v h; cases h) (filter_noValue a4)⟩
  | ok x =>
    simp only
    have hne : x ≠ .absent := PyLite.hostGood.notMarker x a2
    have hh : (hook (recEnv sc cfg) "#value" none x : M PW PH Val) st1
        = (.ok x, { st1 with hs := { st1.hs with events := st1.hs.events ++
            [{ name := "#value", key := .noneV, ann := PyLite.annVal (annArg none), value := x, ovr := true }] } }) := by
      unfold hook
      simp only [recEnv, annTags, hVal, if_true]
      unfold interactSem
      simp only [PyLite.hostObs, annValOpt]
      cases x <;> first | exact absurd rfl hne | rfl
    rw [hh]
    simp only [done]
    refine ⟨w1 ++ [{ name := "#value", key := .noneV, ann := PyLite.annVal (annArg none), value := x, ovr := true }],
      by simp [a3], ?_⟩
    unfold ValProp
    simp only
    rw [List.filter_append, filter_noValue a4]
    simp [isValueEv]

theorem vX_inHandler (e : Val) (he : PyLite.Good e) (name : Option String) {b : Exec PW PH} (vb : VX b) :
    VX (inHandler e name b) := by
  have kit := mk (fun _ => false) []
  intro st hp
  unfold inHandler
  cases name with
  | none =>
    simp only
    have h0 := kit.pushCur st e hp he
    obtain ⟨w, h1, h2⟩ := vb _ h0
    rcases hast : b { st with cur := e :: st.cur } with ⟨k, st1⟩
    rw [hast] at h1 h2
    exact ⟨w, h1, h2⟩
  | some n =>
    simp only
    have h0 : MF { st with cur := e :: st.cur, loc := fun y => if y = n then some e else st.loc y } :=
      kit.setLoc { st with cur := e :: st.cur } n e (kit.pushCur st e hp he) he
    obtain ⟨w, h1, h2⟩ := vb _ h0
    rcases hast : b { st with cur := e :: st.cur, loc := fun y => if y = n then some e else st.loc y } with ⟨k, st1⟩
    rw [hast] at h1 h2
    exact ⟨w, h1, h2⟩

theorem benign_done : Benign (done .normal : Exec PW PH) :=
  fun st => ⟨st, [], rfl, by simp, rfl⟩

theorem notValue_loop (vars : List String) (pre : String) (hp : pre = "#loop_" ∨ pre = "#endloop_") :
    ∀ x ∈ vars.map (pre ++ ·), x ≠ "#value" := by
  intro x hx
  simp only [List.mem_map] at hx
  obtain ⟨y, _, rfl⟩ := hx
  exact mark_ne_value pre y hp

theorem vHookMetas (xs : List String) (h1 : ∀ x ∈ xs, bodyName x = true) (h2 : ∀ x ∈ xs, x ≠ "#value") :
    VM (fun _ => True) (hookMetas (recEnv sc cfg) none xs) :=
  vM_of (invM_hookMetas (mk sc cfg) none xs h1) fun b => invM_hookMetas (valKit sc (some cfg) b) none xs h2

/-! ## statements -/

mutual
theorem valS (hVal : shouldInstr cfg "#value" [] = true) (fuel : Nat) :
    (s : Stmt) → coreS s = true → plainS s = true → VX (execS (recEnv sc cfg) fuel s)
  | .assign ts v, h, _ => by
    simp only [coreS, Bool.and_eq_true] at h
    simp only [execS]
    exact vX_stepM (vE sc cfg v h.2) fun u hu =>
      vX_stepM (vAssignTs sc cfg ts (by simpa using h.1.2) u hu) fun _ _ => vX_done _ (by intro v; simp)
  | .augassign t op v, h, _ => by
    simp only [coreS, Bool.and_eq_true] at h
    have hv := vE sc cfg v h.2
    cases t with
    | name y =>
      have hu : isUser y = true := by simpa [coreAugT] using h.1
      simp only [execS]
      refine vX_stepM (QA := fun _ => True) ?_ fun _ _ => vX_done _ (by intro v; simp)
      exact vM_bind (vLookup sc cfg y hu) fun a ha => vM_bind hv fun b hb =>
        vM_bind (vM_liftW _ _ fun w hw => PyLite.hostGood.binop op a b w ha hb hw) fun cc hcc =>
          vM_bind (vSetLoc y cc hcc) fun _ _ => vPostBind1 sc cfg y hu
    | attr e a =>
      simp only [coreAugT, Bool.and_eq_true] at h
      simp only [execS]
      refine vX_stepM (QA := fun _ => True) ?_ fun _ _ => vX_done _ (by intro v; simp)
      exact vM_bind (vE sc cfg e h.1.1) fun o ho =>
        vM_bind (vM_liftW _ _ fun w hw => PyLite.hostGood.getattr o a w ho hw) fun cur hcur =>
          vM_bind hv fun b hb => vM_bind (vM_liftW _ _ fun w hw => PyLite.hostGood.binop op cur b w hcur hb hw) fun r hr =>
            vM_liftW _ _ fun w hw => PyLite.hostGood.setattr o a r w ho hr hw
    | sub e i =>
      simp only [coreAugT, Bool.and_eq_true] at h
      simp only [execS]
      refine vX_stepM (QA := fun _ => True) ?_ fun _ _ => vX_done _ (by intro v; simp)
      exact vM_bind (vE sc cfg e h.1.1.1.1) fun o ho => vM_bind (vE sc cfg i h.1.1.2) fun k hk =>
        vM_bind (vM_liftW _ _ fun w hw => PyLite.hostGood.getitem o k w ho hk hw) fun cur hcur =>
          vM_bind hv fun b hb => vM_bind (vM_liftW _ _ fun w hw => PyLite.hostGood.binop op cur b w hcur hb hw) fun r hr =>
            vM_liftW _ _ fun w hw => PyLite.hostGood.setitem o k r w ho hk hr hw
    | tuple ts => simp [coreAugT] at h
    | list ts => simp [coreAugT] at h
    | starred t => simp [coreAugT] at h
  | .annassign t ann v, h, _ => by
    simp only [coreS, Bool.and_eq_true] at h
    cases t with
    | name y =>
      have hu : isUser y = true := by simpa using h.1
      cases v with
      | some e =>
        simp only [execS]
        exact vX_stepM (vE sc cfg e (by simpa [coreOptE] using h.2)) fun u hu' =>
          vX_stepM (vAssignT sc cfg (.name y) (by simpa [coreAssignT] using hu) (some ann) u hu')
            fun _ _ => vX_done _ (by intro v; simp)
      | none =>
        simp only [execS]
        refine vX_stepM (QA := fun _ => True) ?_ fun _ _ => vX_done _ (by intro v; simp)
        refine vM_bind (QA := PyLite.Good) (vM_of (fun st hp => ?_) fun b st hp => ?_) fun r hr => vSetLoc y r hr
        · exact (mk sc cfg).interact st y .noneV _ .absent true hp ((mk sc cfg).nUser _ hu) (Or.inl rfl)
        · exact (valKit sc (some cfg) b).interact st y .noneV _ .absent true hp
            ((valKit sc (some cfg) b).nUser _ hu) (Or.inl rfl)
    | tuple ts => simp at h
    | list ts => simp at h
    | starred t => simp at h
    | attr e a => simp at h
    | sub e i => simp at h
  | .expr e, h, _ => by
    simp only [coreS] at h
    simp only [execS]
    exact vX_stepM (vE sc cfg e h) fun _ _ => vX_done _ (by intro v; simp)
  | .ret v, h, _ => by
    simp only [coreS] at h
    simp only [execS]
    cases v with
    | none =>
      have := vX_ret sc cfg hVal (vM_pure PyLite.Good .noneV PyLite.hostGood.noneV)
      simpa only [pure_bind_M] using this
    | some e =>
      simp only
      exact vX_ret sc cfg hVal (vE sc cfg e (by simpa [coreOptE] using h))
  | .pass, _, _ => by simp only [execS]; exact vX_done _ (by intro v; simp)
  | .brk, _, _ => by simp only [execS]; exact vX_done _ (by intro v; simp)
  | .cont, _, _ => by simp only [execS]; exact vX_done _ (by intro v; simp)
  | .raise e, h, _ => by
    simp only [coreS] at h
    cases e with
    | none =>
      simp only [execS]
      intro st _
      dsimp only
      cases st.cur with
      | nil => exact ⟨[], by simp, rfl⟩
      | cons e0 rest => exact ⟨[], by simp, rfl⟩
    | some e =>
      simp only [execS]
      exact vX_stepM (vE sc cfg e (by simpa [coreOptE] using h)) fun v _ => vX_done _ (by intro v; simp)
  | .ite cnd b o, h, hp => by
    simp only [coreS, Bool.and_eq_true] at h
    simp only [plainS, Bool.and_eq_true] at hp
    simp only [execS]
    refine vX_stepM (vTruthyE sc cfg cnd h.1.1) fun t _ => ?_
    cases t
    · simpa using valB hVal fuel o h.2 hp.2
    · simpa using valB hVal fuel b h.1.2 hp.1
  | .while cnd b o, h, hp => by
    simp only [coreS, Bool.and_eq_true] at h
    simp only [plainS, Bool.and_eq_true] at hp
    simp only [execS]
    exact vX_whileLoop fuel (vTruthyE sc cfg cnd h.1.1) (invB (mk sc cfg) bodyName_marks fuel b h.1.2)
      (valB hVal fuel b h.1.2 hp.1) (valB hVal fuel o h.2 hp.2)
  | .for t it b o, h, hp => by
    simp only [coreS, Bool.and_eq_true] at h
    simp only [plainS, Bool.and_eq_true] at hp
    simp only [execS]
    have kit := mk sc cfg
    have hopen : ∀ x ∈ (loopVars t).map ("#loop_" ++ ·), bodyName x = true := by
      intro x hx
      simp only [List.mem_map] at hx
      obtain ⟨y, _, rfl⟩ := hx
      exact bodyName_marks.loop y
    have hclose : ∀ x ∈ (loopVars t).map ("#endloop_" ++ ·), bodyName x = true := by
      intro x hx
      simp only [List.mem_map] at hx
      obtain ⟨y, _, rfl⟩ := hx
      exact bodyName_marks.endloop y
    refine vX_stepM (QA := fun items => ∀ v ∈ items, PyLite.Good v) ?_ fun items hitems => ?_
    · exact vM_bind (vE sc cfg it h.1.1.2) fun v hv => vM_liftW _ _ fun w hw => PyLite.hostGood.iter v w hv hw
    · refine vX_forLoop items hitems (fun item hitem => ?_) (fun item hitem => ?_) (valB hVal fuel o h.2 hp.2)
      · refine invX_stepM (invT kit t h.1.1.1 item hitem) fun _ _ => ?_
        refine invX_tryFinally ?_ ?_
        · refine invX_stepM (QA := fun _ => True) ?_ fun _ _ => invB kit bodyName_marks fuel b h.1.2
          exact invM_bind (invM_hookMetas kit none _ hopen) fun _ _ => invM_postBind kit _ (coreT_names_user t h.1.1.1)
        · exact invX_stepM (invM_hookMetas kit none _ hclose) fun _ _ => invX_done _ trivial
      · refine vX_stepM (vT sc cfg t h.1.1.1 item hitem) fun _ _ => ?_
        refine vX_tryFinally_benign ?_ (benign_metas sc cfg _ (notValue_loop _ "#endloop_" (Or.inr rfl)))
        refine vX_stepM (QA := fun _ => True) ?_ fun _ _ => valB hVal fuel b h.1.2 hp.1
        exact vM_bind (vHookMetas sc cfg _ hopen (notValue_loop _ "#loop_" (Or.inl rfl))) fun _ _ =>
          vPostBind sc cfg _ (coreT_names_user t h.1.1.1)
  | .try b hds o f, h, hp => by
    simp only [coreS, Bool.and_eq_true] at h
    simp only [plainS, Bool.and_eq_true, List.isEmpty_iff] at hp
    obtain ⟨⟨⟨hpb, hph⟩, hpo⟩, hf⟩ := hp
    subst hf
    simp only [execS, execB_nil]
    refine vX_tryFinally_benign ?_ benign_done
    exact vX_tryExcept (invB (mk sc cfg) bodyName_marks fuel b h.1.1.1) (valB hVal fuel b h.1.1.1 hpb)
      (fun e he => valHL hVal fuel hds h.1.1.2 hph e he) (valB hVal fuel o h.1.2 hpo)
  | .with ctx t b, _, hp => by simp [plainS] at hp
  | .defn name src loads, h, _ => by
    simp only [coreS, Bool.and_eq_true, List.all_eq_true] at h
    simp only [execS]
    intro st hp
    have hargs : ∀ p ∈ (loads.map fun x => (x, lookupV (recEnv sc cfg) st x)), ∀ v, p.2 = some v → PyLite.Good v := by
      intro p hpm v hv
      simp only [List.mem_map] at hpm
      obtain ⟨x, hx, rfl⟩ := hpm
      exact (mk sc cfg).look st x v (h.2 x hx) hp hv
    refine vX_stepM (QA := fun vals => ∀ v ∈ vals, PyLite.Good v)
      (vM_liftW _ _ fun w hw => PyLite.hostGood.bindStmt src _ w hargs hw) (fun vals hvals => ?_) st hp
    refine vX_stepM (QA := fun _ => True) ?_ fun _ _ => vX_done _ (by intro v; simp)
    have hq : PyLite.Good (vals.headD .noneV) := by
      cases vals with
      | nil => exact PyLite.hostGood.noneV
      | cons v0 _ => exact hvals v0 (by simp)
    exact vM_bind (vSetLoc name _ hq) fun _ _ => vPostBind1 sc cfg name h.1
  | .cls name src loads, h, _ => by
    simp only [coreS, Bool.and_eq_true, List.all_eq_true] at h
    simp only [execS]
    intro st hp
    have hargs : ∀ p ∈ (loads.map fun x => (x, lookupV (recEnv sc cfg) st x)), ∀ v, p.2 = some v → PyLite.Good v := by
      intro p hpm v hv
      simp only [List.mem_map] at hpm
      obtain ⟨x, hx, rfl⟩ := hpm
      exact (mk sc cfg).look st x v (h.2 x hx) hp hv
    refine vX_stepM (QA := fun vals => ∀ v ∈ vals, PyLite.Good v)
      (vM_liftW _ _ fun w hw => PyLite.hostGood.bindStmt src _ w hargs hw) (fun vals hvals => ?_) st hp
    refine vX_stepM (QA := fun _ => True) ?_ fun _ _ => vX_done _ (by intro v; simp)
    have hq : PyLite.Good (vals.headD .noneV) := by
      cases vals with
      | nil => exact PyLite.hostGood.noneV
      | cons v0 _ => exact hvals v0 (by simp)
    exact vM_bind (vSetLoc name _ hq) fun _ _ => vPostBind1 sc cfg name h.1
  | .imp bound src, h, _ => by
    simp only [coreS, List.all_eq_true] at h
    simp only [execS]
    refine vX_stepM (QA := fun vals => ∀ v ∈ vals, PyLite.Good v)
      (vM_liftW _ _ fun w hw => PyLite.hostGood.bindStmt src [] w (fun p hp => by simp at hp) hw) fun vals hvals => ?_
    refine vX_stepM (QA := fun _ => True) ?_ fun _ _ => vX_done _ (by intro v; simp)
    refine vM_bind (vForM _ fun p hp => ?_) fun _ _ => vPostBind sc cfg bound h
    have := (List.of_mem_zip hp).2
    simp only [padVals, List.mem_append, List.mem_replicate] at this
    rcases this with hv | ⟨_, hv⟩
    · exact hvals _ hv
    · rw [hv]; exact PyLite.hostGood.noneV
  | .glob _, h, _ => by simp [coreS] at h
  | .nonloc _, h, _ => by simp [coreS] at h
  | .opaque .., h, _ => by simp [coreS] at h
theorem valB (hVal : shouldInstr cfg "#value" [] = true) (fuel : Nat) :
    (ss : List Stmt) → coreB ss = true → plainB ss = true → VX (execB (recEnv sc cfg) fuel ss)
  | [], _, _ => by simp only [execB_nil]; exact vX_done _ (by intro v; simp)
  | s :: ss, h, hp => by
    simp only [coreB, Bool.and_eq_true] at h
    simp only [plainB, Bool.and_eq_true] at hp
    simp only [execB_cons]
    exact vX_seqX (invS (mk sc cfg) bodyName_marks fuel s h.1) (valS hVal fuel s h.1 hp.1) (valB hVal fuel ss h.2 hp.2)
theorem valHL (hVal : shouldInstr cfg "#value" [] = true) (fuel : Nat) :
    (hds : List Handler) → coreHL hds = true → plainHL hds = true →
      ∀ e, PyLite.Good e → VX (execHL (recEnv sc cfg) fuel hds e)
  | [], _, _, e, _ => by simp only [execHL]; exact vX_done _ (by intro v; simp)
  | .mk typ name body :: hds, h, hp, e, he => by
    simp only [coreHL, coreH, Bool.and_eq_true] at h
    simp only [plainHL, plainH, Bool.and_eq_true] at hp
    have ihb := valB hVal fuel body h.1.2 hp.1
    have ihh := valHL hVal fuel hds h.2 hp.2 e he
    have hte : ∀ te, typ = some te → coreE te = true := by
      intro te ht; subst ht
      have := h.1.1.1
      simpa [coreOptE] using this.1
    cases name with
    | none =>
      have hbody : VX (inHandler e none (stepM (postBind (recEnv sc cfg) []) fun _ => execB (recEnv sc cfg) fuel body)) :=
        vX_inHandler e he none (vX_stepM (QA := fun _ => True)
          (by simp only [postBind]; exact vM_pure _ () trivial) fun _ _ => ihb)
      cases typ with
      | none =>
        simp only [execHL]
        exact hbody
      | some te =>
        simp only [execHL]
        refine vX_stepM (vE sc cfg te (hte te rfl)) fun tv _ => ?_
        split
        · exact hbody
        · exact ihh
    | some n =>
      have hbody : VX (inHandler e (some n) (stepM (postBind (recEnv sc cfg) [n]) fun _ => execB (recEnv sc cfg) fuel body)) :=
        vX_inHandler e he (some n) (vX_stepM (QA := fun _ => True)
          (vPostBind sc cfg [n] (fun y hy => by
            simp only [List.mem_singleton] at hy; subst hy; simpa using h.1.1.2)) fun _ _ => ihb)
      cases typ with
      | none =>
        simp only [execHL]
        exact hbody
      | some te =>
        simp only [execHL]
        refine vX_stepM (vE sc cfg te (hte te rfl)) fun tv _ => ?_
        split
        · exact hbody
        · exact ihh
end

end

/-! ## the whole activation -/

theorem mf_afterEnter (sc : String → Bool) (cfg : Cfg) (hE : shouldInstr cfg "#enter" ["enter"] = true)
    (st0 : St PW PH) (h0 : MF st0) : MF (afterEnter st0) := by
  have henter : hookMetas (recEnv sc cfg) (some enterAnn) ["#enter"] st0 = (.ok (), afterEnter st0) := by
    simp only [hookMetas]
    rw [bind_def_M, hookMeta_rec sc cfg "#enter" (some enterAnn) (.bool true) hE (by simp) st0]
    rfl
  have := (marker_hookMetas (recEnv sc cfg) PyLite.Good PyLite.WInv hndGood_obs (PyLite.hostGood.bool true)
    (some enterAnn) ["#enter"] st0 h0).1
  rw [henter] at this
  exact this

theorem vX_runInner (sc : String → Bool) (cfg : Cfg) (hVal : shouldInstr cfg "#value" [] = true)
    (fuel : Nat) (f : FunDef) (hf : coreF f = true) (hp : plainB (bodyWithReturn f) = true) :
    VX (runInner (recEnv sc cfg) fuel f) := by
  have hbody : coreB (bodyWithReturn f) = true := by
    simp only [coreF, Bool.and_eq_true] at hf
    exact hf.1.1.1.1.1
  have kit := mk sc cfg
  have ipro := invM_prologue kit f hf fun x v hx hv => PyLite.hostGood.glob x v hx hv
  have vpro : VM (fun _ => True) (prologue (recEnv sc cfg) f) :=
    vM_of ipro fun b => invM_prologue (valKit sc (some cfg) b) f hf fun _ _ _ _ => trivial
  unfold runInner
  refine vX_seqX ?_ (vX_stepM vpro fun _ _ => vX_done _ (by intro v; simp)) (valB sc cfg hVal fuel _ hbody hp)
  exact invX_stepM ipro fun _ _ => invX_done _ trivial

theorem tail_noValue (c : Ctl) : (tailEvents c).filter isValueEv = [] := by
  unfold tailEvents
  split
  · split <;> simp [isValueEv, metaEv]
  · simp [isValueEv, metaEv]

/-- **The returned value is shown exactly once, when and only when the activation returns.**  For every function
    of the core fragment without `with` blocks and without `finally` clauses, every capture set that takes
    `#enter`, `#exit`, `#error` and `#value`, every input and every state without markers: among the events the
    activation records, those named `#value` are — exactly one, carrying the value returned, when the activation
    ends by returning; none at all when it ends any other way (an exception, exhaustion of the driver script).
    (With a `finally` clause the statement is false of the model and of ptera alike: findings F7c and F7d.) -/
theorem value_once (sc : String → Bool) (cfg : Cfg)
    (hE : shouldInstr cfg "#enter" ["enter"] = true) (hX : shouldInstr cfg "#exit" ["exit"] = true)
    (hEr : shouldInstr cfg "#error" [] = true) (hVal : shouldInstr cfg "#value" [] = true)
    (fuel : Nat) (f : FunDef) (hf : coreF f = true) (hp : plainB (bodyWithReturn f) = true)
    (st0 : St PW PH) (h0 : MF st0) :
    ∃ w, (runRef (recEnv sc cfg) fuel f st0).2.hs.events = st0.hs.events ++ w
      ∧ ValProp (runRef (recEnv sc cfg) fuel f st0).1 w := by
  obtain ⟨hc, he⟩ := activation_shape sc cfg hE hX hEr fuel f hf st0 h0
  obtain ⟨wi, hi1, hi2⟩ := vX_runInner sc cfg hVal fuel f hf hp (afterEnter st0) (mf_afterEnter sc cfg hE st0 h0)
  refine ⟨[metaEv "#enter" (some enterAnn) (.bool true)] ++ wi
    ++ tailEvents (runInner (recEnv sc cfg) fuel f (afterEnter st0)).1, ?_, ?_⟩
  · rw [he, hi1]
    simp [afterEnter, List.append_assoc]
  · rw [hc]
    exact valProp_append (valProp_prepend (by simp [isValueEv, metaEv]) hi2) (tail_noValue _)

end Ptera.Sem
