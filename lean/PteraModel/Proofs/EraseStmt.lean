import PteraModel.Proofs.EraseBound
/-!
# Erasure, part 4: statements
-/
namespace Ptera.Sem
open Ptera.Py

variable {W HS : Type}

/-! ## pointwise forms of the relations, and the statement combinators -/

def EMp {α} (c : ECtx W HS) (GoodA : α → Prop) (mr mp : M W HS α) (sr sp : St W HS) : Prop :=
  (mr sr).1 = (mp sp).1 ∧ ResOK c GoodA (mp sp).1 ∧ ERel c [] (mr sr).2 (mp sp).2

def EXp (c : ECtx W HS) (ar ap : Exec W HS) (sr sp : St W HS) : Prop :=
  (ar sr).1 = (ap sp).1 ∧ CtlOK c (ap sp).1 ∧ ERel c [] (ar sr).2 (ap sp).2

theorem eX_done (c : ECtx W HS) (k : Ctl) (hk : CtlOK c k) : EX c (done k) (done k) :=
  fun _ _ h => ⟨rfl, hk, h⟩

theorem eXp_stepM {α} (c : ECtx W HS) {GA : α → Prop} {mr mp : M W HS α} {kr kp : α → Exec W HS}
    {sr sp : St W HS} (hm : EMp c GA mr mp sr sp) (hk : ∀ a, GA a → EX c (kr a) (kp a)) :
    EXp c (stepM mr kr) (stepM mp kp) sr sp := by
  unfold EXp stepM
  obtain ⟨hr, hok, hrel⟩ := hm
  rcases hmr : mr sr with ⟨rr, sr1⟩
  rcases hmp : mp sp with ⟨rp, sp1⟩
  rw [hmr, hmp] at hr hrel
  rw [hmp] at hok
  simp only at hr hok hrel
  subst hr
  cases rr with
  | ok a => exact hk a hok sr1 sp1 hrel
  | err e => exact ⟨rfl, hok, hrel⟩

theorem eX_stepM {α} (c : ECtx W HS) {GA : α → Prop} {mr mp : M W HS α} {kr kp : α → Exec W HS}
    (hm : EM c GA mr mp) (hk : ∀ a, GA a → EX c (kr a) (kp a)) : EX c (stepM mr kr) (stepM mp kp) :=
  fun sr sp h => eXp_stepM c (hm sr sp h) hk

theorem eXp_seqX (c : ECtx W HS) {ar ap br bp : Exec W HS} {sr sp : St W HS}
    (ha : EXp c ar ap sr sp) (hb : EX c br bp) : EXp c (seqX ar br) (seqX ap bp) sr sp := by
  unfold EXp seqX
  obtain ⟨hr, hok, hrel⟩ := ha
  rcases har : ar sr with ⟨kr, sr1⟩
  rcases hap : ap sp with ⟨kp, sp1⟩
  rw [har, hap] at hr hrel
  rw [hap] at hok
  simp only at hr hok hrel
  subst hr
  cases kr <;> first | exact hb sr1 sp1 hrel | exact ⟨rfl, hok, hrel⟩

theorem eX_seqX (c : ECtx W HS) {ar ap br bp : Exec W HS} (ha : EX c ar ap) (hb : EX c br bp) :
    EX c (seqX ar br) (seqX ap bp) := fun sr sp h => eXp_seqX c (ha sr sp h) hb

theorem eXp_tryFinally (c : ECtx W HS) {ar ap br bp : Exec W HS} {sr sp : St W HS}
    (ha : EXp c ar ap sr sp) (hb : EX c br bp) : EXp c (tryFinally ar br) (tryFinally ap bp) sr sp := by
  unfold EXp tryFinally
  obtain ⟨hr, hok, hrel⟩ := ha
  rcases har : ar sr with ⟨kr, sr1⟩
  rcases hap : ap sp with ⟨kp, sp1⟩
  rw [har, hap] at hr hrel
  rw [hap] at hok
  simp only at hr hok hrel
  subst hr
  simp only
  split
  · exact ⟨rfl, hok, hrel⟩
  · have h2 := hb sr1 sp1 hrel
    rcases hbr : br sr1 with ⟨k2r, sr2⟩
    rcases hbp : bp sp1 with ⟨k2p, sp2⟩
    rw [hbr, hbp] at h2
    simp only at h2
    obtain ⟨hr2, hok2, hrel2⟩ := h2
    subst hr2
    cases k2r <;> first | exact ⟨rfl, hok, hrel2⟩ | exact ⟨rfl, hok2, hrel2⟩

theorem eX_tryFinally (c : ECtx W HS) {ar ap br bp : Exec W HS} (ha : EX c ar ap) (hb : EX c br bp) :
    EX c (tryFinally ar br) (tryFinally ap bp) := fun sr sp h => eXp_tryFinally c (ha sr sp h) hb

theorem eX_tryExcept (c : ECtx W HS) {ar ap orr op : Exec W HS} {hr hp : Val → Exec W HS}
    (ha : EX c ar ap) (hh : ∀ e, c.Good e → EX c (hr e) (hp e)) (ho : EX c orr op) :
    EX c (tryExcept ar hr orr) (tryExcept ap hp op) := by
  intro sr sp h
  have h1 := ha sr sp h
  unfold tryExcept
  rcases har : ar sr with ⟨kr, sr1⟩
  rcases hap : ap sp with ⟨kp, sp1⟩
  rw [har, hap] at h1
  simp only at h1
  obtain ⟨hre, hok, hrel⟩ := h1
  subst hre
  cases kr with
  | exc e =>
    simp only
    split
    · exact ⟨rfl, hok, hrel⟩
    · rename_i hnf
      have hge : c.Good e := by
        rcases hok with hf | hgd
        · exact absurd hf hnf
        · exact hgd
      exact hh e hge sr1 sp1 hrel
  | normal => exact ho sr1 sp1 hrel
  | brk => exact ⟨rfl, hok, hrel⟩
  | cont => exact ⟨rfl, hok, hrel⟩
  | ret v => exact ⟨rfl, hok, hrel⟩

theorem eX_forLoop (c : ECtx W HS) (items : List Val) {ir ip : Val → Exec W HS} {orr op : Exec W HS}
    (hi : ∀ v, c.Good v → EX c (ir v) (ip v)) (hitems : ∀ v ∈ items, c.Good v) (ho : EX c orr op) :
    EX c (forLoop items ir orr) (forLoop items ip op) := by
  induction items with
  | nil => simpa [forLoop] using ho
  | cons v rest ih =>
    intro sr sp h
    have h1 := hi v (hitems v (by simp)) sr sp h
    unfold forLoop
    rcases har : ir v sr with ⟨kr, sr1⟩
    rcases hap : ip v sp with ⟨kp, sp1⟩
    rw [har, hap] at h1
    simp only at h1
    obtain ⟨hre, hok, hrel⟩ := h1
    subst hre
    have ih' := ih (fun u hu => hitems u (by simp [hu]))
    cases kr <;> first | exact ih' sr1 sp1 hrel | exact ⟨rfl, trivial, hrel⟩ | exact ⟨rfl, hok, hrel⟩

theorem eX_whileLoop (c : ECtx W HS) (fuel : Nat) {cr cp : M W HS Bool} {br bp orr op : Exec W HS}
    (hc : EM c (fun _ => True) cr cp) (hb : EX c br bp) (ho : EX c orr op) :
    EX c (whileLoop fuel cr br orr) (whileLoop fuel cp bp op) := by
  induction fuel with
  | zero => simpa [whileLoop] using eX_done c _ (show CtlOK c (.exc (fatal "fuel")) from Or.inl rfl)
  | succ n ih =>
    unfold whileLoop
    apply eX_stepM c hc
    intro t _
    cases t with
    | false => simpa using ho
    | true =>
      simp only [if_true]
      intro sr sp h
      dsimp only
      have h1 := hb sr sp h
      rcases har : br sr with ⟨kr, sr1⟩
      rcases hap : bp sp with ⟨kp, sp1⟩
      rw [har, hap] at h1
      simp only at h1
      obtain ⟨hre, hok, hrel⟩ := h1
      subst hre
      cases kr <;> first | exact ih sr1 sp1 hrel | exact ⟨rfl, trivial, hrel⟩ | exact ⟨rfl, hok, hrel⟩

theorem eX_withBlock (c : ECtx W HS) (hg : HostGood c.host c.Good c.WInv) (cm : Val) (hcm : c.Good cm)
    {br bp : Exec W HS} (hb : EX c br bp) : EX c (withBlock c.envR cm br) (withBlock c.envP cm bp) := by
  intro sr sp h
  have h1 := hb sr sp h
  unfold withBlock
  rcases har : br sr with ⟨kr, sr1⟩
  rcases hap : bp sp with ⟨kp, sp1⟩
  rw [har, hap] at h1
  simp only at h1
  obtain ⟨hre, hok, hrel⟩ := h1
  subst hre
  have hh : c.envR.host = c.envP.host := rfl
  cases kr with
  | exc e =>
    simp only
    split
    · exact ⟨rfl, hok, hrel⟩
    · rename_i hnf
      have hge : c.Good e := by
        rcases hok with hf | hgd
        · exact absurd hf hnf
        · exact hgd
      rw [hh, hrel.w]
      have hres := hg.exit cm (some e) sp1.w hcm (fun x hx => by injection hx with hx; rw [← hx]; exact hge) hrel.winv
      rcases hex : c.envP.host.exit cm (some e) sp1.w with ⟨r, w⟩
      have hex' : c.host.exit cm (some e) sp1.w = (r, w) := hex
      rw [hex'] at hres
      cases r with
      | ok b => cases b <;> first | exact ⟨rfl, Or.inr hge, hrel.congrW w hres.1⟩ | exact ⟨rfl, trivial, hrel.congrW w hres.1⟩
      | err e' => exact ⟨rfl, hres.2, hrel.congrW w hres.1⟩
  | normal | brk | cont | ret v =>
    simp only
    rw [hh, hrel.w]
    have hres := hg.exit cm none sp1.w hcm (fun x hx => by simp at hx) hrel.winv
    rcases hex : c.envP.host.exit cm none sp1.w with ⟨r, w⟩
    have hex' : c.host.exit cm none sp1.w = (r, w) := hex
    rw [hex'] at hres
    cases r with
    | ok b => exact ⟨rfl, hok, hrel.congrW w hres.1⟩
    | err e' => exact ⟨rfl, hres.2, hrel.congrW w hres.1⟩

/-! ## re-binding a bound name to itself -/

theorem locPres_interactSem (env : Env W HS) (name : String) (key ann v : Val) (ovr : Bool) :
    LocPres (interactSem env name key ann v ovr) := by
  intro st
  unfold interactSem
  rcases env.host.hnd _ st.hs with ⟨r, hs1⟩
  cases r with
  | ok w => cases w <;> rfl
  | err e => rfl

theorem locPres_hookMeta (env : Env W HS) (x : String) (ann : Option Ann) (v : Val) : LocPres (hookMeta env x ann v) := by
  unfold hookMeta
  cases env.hk with
  | none => exact locPres_pure _
  | some cfg =>
    simp only
    split
    · exact locPres_bind (locPres_interactSem env _ _ _ _ _) fun _ => locPres_pure _
    · exact locPres_pure _

theorem locPres_hookMetas (env : Env W HS) (ann : Option Ann) : (xs : List String) → LocPres (hookMetas env ann xs)
  | [] => by simp only [hookMetas]; exact locPres_pure _
  | x :: xs => by
    simp only [hookMetas]
    exact locPres_bind (locPres_hookMeta env x ann _) fun _ => locPres_hookMetas env ann xs

/-- one re-binding on the reference side, nothing on the plain side -/
theorem postBind1_observer (c : ECtx W HS) (hg : HostGood c.host c.Good c.WInv) (hobs : Observer c.host) (x : String)
    (hl : c.local x) (sr sp : St W HS) (h : ERel c [] sr sp) (hb : sr.loc x ≠ none) :
    (postBind1 c.envR x sr).1 = .ok () ∧ ERel c [] (postBind1 c.envR x sr).2 sp
    ∧ ∀ y, sr.loc y ≠ none → (postBind1 c.envR x sr).2.loc y ≠ none := by
  obtain ⟨v, hv⟩ : ∃ v, sr.loc x = some v := by
    cases hx : sr.loc x with
    | none => exact absurd hx hb
    | some v => exact ⟨v, rfl⟩
  have hgv : c.Good v := h.goodLocR x v hv
  have hlook : lookup c.envR x sr = (.ok v, sr) := by
    unfold lookup lookupV
    simp [ECtx.envR, hl.1, hv]
  have e : postBind1 c.envR x = (lookup c.envR x >>= fun v => hook c.envR x none v >>= fun r => setLoc x (some r)) := by
    unfold postBind1; simp [ECtx.envR]
  rw [e, bind_def_M, hlook]
  simp only
  rw [bind_def_M]
  have hhook : ∃ hs1, (hook c.envR x none v : M W HS Val) sr = (.ok v, { sr with hs := hs1 }) := by
    unfold hook
    simp only [ECtx.envR]
    split
    · refine ⟨(c.host.hnd { name := x, key := .noneV, ann := annValOpt c.envR none, value := v, ovr := true } sr.hs).2, ?_⟩
      rw [show interactSem { host := c.host, sc := c.scR, hk := some c.cfg } x .noneV
          (annValOpt { host := c.host, sc := c.scR, hk := some c.cfg } none) v true sr
          = interactSem c.envR x .noneV (annValOpt c.envR none) v true sr from rfl,
        observe c hobs x .noneV _ v true (hg.notMarker v hgv) sr]
    · exact ⟨sr.hs, rfl⟩
  obtain ⟨hs1, hh⟩ := hhook
  rw [hh]
  simp only [setLoc]
  refine ⟨by first | rfl | trivial, ?_, ?_⟩
  · refine ⟨h.w, h.inp, h.out, h.cur, h.closed, ?_, ?_, h.goodLoc, ?_, h.goodInp, h.goodCur, h.winv⟩
    · intro y _
      by_cases hyx : y = x
      · subst hyx
        rw [lookupV_upd_eq c.envR sr y (some v) hl.1]
        rw [← h.look y (by simp)]
        unfold lookupV
        simp [ECtx.envR, hl.1, hv]
      · rw [lookupV_upd_ne c.envR sr x y (some v) hyx]
        exact h.look y (by simp)
    · intro y hy; simp at hy
    · intro y u hu
      simp only at hu
      by_cases hyx : y = x
      · simp [hyx] at hu; subst hu; exact hgv
      · simp [hyx] at hu; exact h.goodLocR y u hu
  · intro y hy
    by_cases hyx : y = x <;> simp [hyx, hy]

theorem postBind_observer (c : ECtx W HS) (hg : HostGood c.host c.Good c.WInv) (hobs : Observer c.host) :
    (xs : List String) → (∀ x ∈ xs, c.local x) → ∀ sr sp, ERel c [] sr sp → (∀ x ∈ xs, sr.loc x ≠ none) →
    (postBind c.envR xs sr).1 = .ok () ∧ ERel c [] (postBind c.envR xs sr).2 sp
    ∧ ∀ y, sr.loc y ≠ none → (postBind c.envR xs sr).2.loc y ≠ none
  | [], _, sr, sp, h, _ => by simp only [postBind]; exact ⟨rfl, h, fun _ hy => hy⟩
  | x :: xs, hl, sr, sp, h, hb => by
    simp only [postBind]
    rw [bind_def_M]
    obtain ⟨h1, h2, h3⟩ := postBind1_observer c hg hobs x (hl x (by simp)) sr sp h (hb x (by simp))
    rcases hp : postBind1 c.envR x sr with ⟨r, sr1⟩
    rw [hp] at h1 h2 h3
    simp only at h1 h2 h3
    subst h1
    simp only
    obtain ⟨g1, g2, g3⟩ := postBind_observer c hg hobs xs (fun y hy => hl y (by simp [hy])) sr1 sp h2
      (fun y hy => h3 y (hb y (by simp [hy])))
    exact ⟨g1, g2, fun y hy => g3 y (h3 y hy)⟩

theorem postBind_envP (c : ECtx W HS) : (xs : List String) → postBind c.envP xs = pure ()
  | [] => by simp [postBind]
  | x :: xs => by
    have : postBind1 c.envP x = pure () := by unfold postBind1; simp [ECtx.envP]
    simp [postBind, this, postBind_envP c xs]

theorem postBind1_envP (c : ECtx W HS) (x : String) : postBind1 c.envP x = pure () := by
  unfold postBind1; simp [ECtx.envP]

/-- a computation that leaves its names bound on the reference side, followed by their re-binding -/
theorem erase_thenPost (c : ECtx W HS) (hg : HostGood c.host c.Good c.WInv) (hobs : Observer c.host)
    {mr mp : M W HS Unit} (xs : List String) (hl : ∀ x ∈ xs, c.local x) (hm : EM c (fun _ => True) mr mp)
    (hb : Binds mr xs) :
    EM c (fun _ => True) (mr >>= fun _ => postBind c.envR xs) (mp >>= fun _ => postBind c.envP xs) := by
  intro sr sp h
  rw [postBind_envP, bind_def_M, bind_def_M]
  obtain ⟨hr, hok, hrel⟩ := hm sr sp h
  have hbs := hb sr
  rcases hmr : mr sr with ⟨rr, sr1⟩
  rcases hmp : mp sp with ⟨rp, sp1⟩
  rw [hmr] at hr hrel hbs
  rw [hmp] at hr hok hrel
  simp only at hr hok hrel hbs
  subst hr
  cases rr with
  | ok u =>
    simp only
    obtain ⟨g1, g2, _⟩ := postBind_observer c hg hobs xs hl sr1 sp1 hrel (hbs u rfl)
    exact ⟨g1, trivial, g2⟩
  | err e => exact ⟨rfl, hok, hrel⟩

end Ptera.Sem
