import PteraModel.Proofs.EraseBase
/-!
# Erasure, part 2: expressions, targets, and the re-binding after Python's own stores
-/
namespace Ptera.Sem
open Ptera.Py

variable {W HS : Type}

def GoodL (c : ECtx W HS) (vs : List Val) : Prop := ∀ v ∈ vs, c.Good v

mutual
theorem eraseE (c : ECtx W HS) (hg : HostGood c.host c.Good c.WInv) (hobs : Observer c.host) :
    (e : Expr) → coreE e = true → (∀ x ∈ e.stores, c.local x) →
    EM c c.Good (evalE c.envR e) (evalE c.envP e)
  | .int n, _, _ => by simp only [evalE]; exact eM_pure c _ _ (hg.int n)
  | .str s, _, _ => by simp only [evalE]; exact eM_pure c _ _ (hg.str s)
  | .noneLit, _, _ => by simp only [evalE]; exact eM_pure c _ _ hg.noneV
  | .bool b, _, _ => by simp only [evalE]; exact eM_pure c _ _ (hg.bool b)
  | .constOther r, _, _ => by simp only [evalE]; exact eM_pure c _ _ (hg.const r)
  | .name x, h, _ => by
    simp only [coreE] at h
    simp only [evalE]
    exact eM_lookup c hg x h
  | .call f args, h, hs => by
    simp only [coreE, Bool.and_eq_true] at h
    simp only [Expr.stores, List.mem_append] at hs
    simp only [evalE]
    exact eM_bind c (eraseE c hg hobs f h.1 fun x hx => hs x (Or.inl hx)) fun fv hfv =>
      eM_bind c (eraseEL c hg hobs args h.2 fun x hx => hs x (Or.inr hx)) fun avs havs =>
        eM_liftW c _ _ fun w hw => hg.call fv avs w hfv havs hw
  | .attr v a, h, hs => by
    simp only [coreE] at h
    simp only [Expr.stores] at hs
    simp only [evalE]
    exact eM_bind c (eraseE c hg hobs v h hs) fun x hx => eM_liftW c _ _ fun w hw => hg.getattr x a w hx hw
  | .sub v i, h, hs => by
    simp only [coreE, Bool.and_eq_true] at h
    simp only [Expr.stores, List.mem_append] at hs
    simp only [evalE]
    exact eM_bind c (eraseE c hg hobs v h.1 fun x hx => hs x (Or.inl hx)) fun x hx =>
      eM_bind c (eraseE c hg hobs i h.2 fun y hy => hs y (Or.inr hy)) fun k hk =>
        eM_liftW c _ _ fun w hw => hg.getitem x k w hx hk hw
  | .tuple es, h, hs => by
    simp only [coreE] at h
    simp only [Expr.stores] at hs
    simp only [evalE]
    exact eM_bind c (eraseEL c hg hobs es h hs) fun vs hvs => eM_pure c _ _ (hg.tuple vs hvs)
  | .list es, h, hs => by
    simp only [coreE] at h
    simp only [Expr.stores] at hs
    simp only [evalE]
    exact eM_bind c (eraseEL c hg hobs es h hs) fun vs hvs => eM_pure c _ _ (hg.list vs hvs)
  | .binop op l r, h, hs => by
    simp only [coreE, Bool.and_eq_true] at h
    simp only [Expr.stores, List.mem_append] at hs
    simp only [evalE]
    exact eM_bind c (eraseE c hg hobs l h.1 fun x hx => hs x (Or.inl hx)) fun a ha =>
      eM_bind c (eraseE c hg hobs r h.2 fun x hx => hs x (Or.inr hx)) fun b hb =>
        eM_liftW c _ _ fun w hw => hg.binop op a b w ha hb hw
  | .walrus t v, h, hs => by
    simp only [coreE, Bool.and_eq_true] at h
    simp only [Expr.stores, List.mem_cons] at hs
    simp only [evalE]
    exact eM_bind c (eraseE c hg hobs v h.2 fun x hx => hs x (Or.inr hx)) fun x hx =>
      eM_bind c (eM_hook c hg hobs t none x false .noneV hx) fun r hr =>
        eM_bind c (eM_setLoc c t r (hs t (Or.inl rfl)) hr) fun _ _ => eM_pure c _ r hr
  | .yield v, h, hs => by
    cases v with
    | none =>
      simp only [evalE, pure_bind_M]
      exact eM_bind c (eM_hook c hg hobs "#yield" (some exitAnn) .noneV false .noneV hg.noneV) fun y hy =>
        eM_bind c (eM_doYield c hg y) fun r hr => eM_hook c hg hobs "#receive" (some enterAnn) r false .noneV hr
    | some e0 =>
      simp only [coreE] at h
      simp only [Expr.stores] at hs
      simp only [evalE]
      exact eM_bind c (eraseE c hg hobs e0 h hs) fun x hx =>
        eM_bind c (eM_hook c hg hobs "#yield" (some exitAnn) x false .noneV hx) fun y hy =>
          eM_bind c (eM_doYield c hg y) fun r hr => eM_hook c hg hobs "#receive" (some enterAnn) r false .noneV hr
  | .interact .., h, _ => by simp [coreE] at h
  | .opaque src loads st0 a0, h, _ => by
    simp only [coreE, List.all_eq_true] at h
    simp only [evalE]
    intro sr sp hrel
    have hl : (loads.map fun x => (x, lookupV c.envR sr x)) = (loads.map fun x => (x, lookupV c.envP sp x)) := by
      apply List.map_congr_left
      intro x _
      rw [hrel.look x (by simp)]
    have hargs : ∀ p ∈ (loads.map fun x => (x, lookupV c.envP sp x)), ∀ v, p.2 = some v → c.Good v := by
      intro p hp v hv
      simp only [List.mem_map] at hp
      obtain ⟨x, hx, rfl⟩ := hp
      simp only at hv
      unfold lookupV at hv
      split at hv
      · exact hrel.goodLoc x v hv
      · exact hg.glob x v (h x hx) hv
    have hres := hg.opaqueE src _ sp.w hargs hrel.winv
    dsimp only [ECtx.envR, ECtx.envP] at hl ⊢
    rw [hl, hrel.w]
    refine ⟨rfl, ?_, hrel.congrW _ hres.1⟩
    have := hres.2
    dsimp only [ECtx.envP] at this
    cases hr : (c.host.opaqueE src (loads.map fun x => (x, lookupV { host := c.host, sc := c.scP, hk := none } sp x)) sp.w).1 with
    | ok a => rw [hr] at this; exact this
    | err e => rw [hr] at this; exact this
theorem eraseEL (c : ECtx W HS) (hg : HostGood c.host c.Good c.WInv) (hobs : Observer c.host) :
    (es : List Expr) → coreEL es = true → (∀ x ∈ Expr.storesL es, c.local x) →
    EM c (GoodL c) (evalEL c.envR es) (evalEL c.envP es)
  | [], _, _ => by simp only [evalEL]; exact eM_pure c _ _ (fun v hv => by simp at hv)
  | e :: es, h, hs => by
    simp only [coreEL, Bool.and_eq_true] at h
    simp only [Expr.storesL, List.mem_append] at hs
    simp only [evalEL]
    exact eM_bind c (eraseE c hg hobs e h.1 fun x hx => hs x (Or.inl hx)) fun v hv =>
      eM_bind c (eraseEL c hg hobs es h.2 fun x hx => hs x (Or.inr hx)) fun vs hvs =>
        eM_pure c _ _ (fun u hu => by
          simp only [List.mem_cons] at hu
          rcases hu with rfl | hu
          · exact hv
          · exact hvs u hu)
end

/-! ## targets -/

mutual
theorem eraseT (c : ECtx W HS) (hg : HostGood c.host c.Good c.WInv) (hobs : Observer c.host) :
    (t : Target) → coreT t = true → (∀ x ∈ t.names ++ t.stores, c.local x) → ∀ v, c.Good v →
    EM c (fun _ => True) (storeT c.envR t v) (storeT c.envP t v)
  | .name x, _, hs, v, hv => by
    simp only [storeT]
    exact eM_setLoc c x v (hs x (by simp [Target.names])) hv
  | .tuple ts, h, hs, v, hv => by
    simp only [coreT] at h
    simp only [storeT]
    refine eM_bind c (eM_liftW c _ _ fun w hw => hg.iter v w hv hw) fun items hitems => ?_
    split
    · exact eraseTL c hg hobs ts h (by simpa [Target.names, Target.stores] using hs) items hitems
    · exact eM_throw c _ _ hg.unpackError
  | .list ts, h, hs, v, hv => by
    simp only [coreT] at h
    simp only [storeT]
    refine eM_bind c (eM_liftW c _ _ fun w hw => hg.iter v w hv hw) fun items hitems => ?_
    split
    · exact eraseTL c hg hobs ts h (by simpa [Target.names, Target.stores] using hs) items hitems
    · exact eM_throw c _ _ hg.unpackError
  | .starred t, h, hs, v, hv => by
    simp only [coreT] at h
    simp only [storeT]
    exact eraseT c hg hobs t h (by simpa [Target.names, Target.stores] using hs) v hv
  | .attr e a, h, hs, v, hv => by
    simp only [coreT, Bool.and_eq_true] at h
    simp only [storeT]
    exact eM_bind c (eraseE c hg hobs e h.1 (fun x hx => hs x (by simp [Target.names, Target.stores, hx])))
      fun o ho => eM_liftW c _ _ fun w hw => hg.setattr o a v w ho hv hw
  | .sub e i, h, hs, v, hv => by
    simp only [coreT, Bool.and_eq_true] at h
    simp only [storeT]
    exact eM_bind c (eraseE c hg hobs e h.1.1.1 (fun x hx => hs x (by simp [Target.names, Target.stores, hx])))
      fun o ho => eM_bind c (eraseE c hg hobs i h.1.2 (fun x hx => hs x (by simp [Target.names, Target.stores, hx])))
        fun k hk => eM_liftW c _ _ fun w hw => hg.setitem o k v w ho hk hv hw
theorem eraseTL (c : ECtx W HS) (hg : HostGood c.host c.Good c.WInv) (hobs : Observer c.host) :
    (ts : List Target) → coreTL ts = true → (∀ x ∈ Target.namesL ts ++ Target.storesL ts, c.local x) →
    ∀ items, GoodL c items → EM c (fun _ => True) (storeTL c.envR ts items) (storeTL c.envP ts items)
  | [], _, _, items, _ => by simp only [storeTL]; exact eM_pure c _ _ trivial
  | .starred t :: ts, h, hs, items, hi => by
    simp only [coreTL, coreT, Bool.and_eq_true] at h
    simp only [storeTL]
    exact eM_bind c (eraseT c hg hobs t h.1 (fun x hx => hs x (by
        simp only [Target.namesL, Target.storesL, Target.names, Target.stores, List.mem_append] at hx ⊢
        rcases hx with hx | hx <;> simp [hx])) _ (hg.list _ fun v hv => hi v (List.mem_of_mem_take hv))) fun _ _ =>
      eraseTL c hg hobs ts h.2 (fun x hx => hs x (by
        simp only [Target.namesL, Target.storesL, List.mem_append] at hx ⊢
        rcases hx with hx | hx <;> simp [hx])) _ (fun v hv => hi v (List.mem_of_mem_drop hv))
  | .name x :: ts, h, hs, items, hi => by
    cases items with
    | nil => simp only [storeTL]; exact eM_throw c _ _ hg.unpackError
    | cons v vs =>
      simp only [coreTL, Bool.and_eq_true] at h
      simp only [storeTL]
      exact eM_bind c (eraseT c hg hobs (.name x) h.1 (fun y hy => hs y (by
          simp only [Target.namesL, Target.storesL, List.mem_append] at hy ⊢
          rcases hy with hy | hy <;> simp [hy])) v (hi v (by simp))) fun _ _ =>
        eraseTL c hg hobs ts h.2 (fun y hy => hs y (by
          simp only [Target.namesL, Target.storesL, List.mem_append] at hy ⊢
          rcases hy with hy | hy <;> simp [hy])) vs (fun u hu => hi u (by simp [hu]))
  | .tuple us :: ts, h, hs, items, hi => by
    cases items with
    | nil => simp only [storeTL]; exact eM_throw c _ _ hg.unpackError
    | cons v vs =>
      simp only [coreTL, Bool.and_eq_true] at h
      simp only [storeTL]
      exact eM_bind c (eraseT c hg hobs (.tuple us) h.1 (fun y hy => hs y (by
          simp only [Target.namesL, Target.storesL, List.mem_append] at hy ⊢
          rcases hy with hy | hy <;> simp [hy])) v (hi v (by simp))) fun _ _ =>
        eraseTL c hg hobs ts h.2 (fun y hy => hs y (by
          simp only [Target.namesL, Target.storesL, List.mem_append] at hy ⊢
          rcases hy with hy | hy <;> simp [hy])) vs (fun u hu => hi u (by simp [hu]))
  | .list us :: ts, h, hs, items, hi => by
    cases items with
    | nil => simp only [storeTL]; exact eM_throw c _ _ hg.unpackError
    | cons v vs =>
      simp only [coreTL, Bool.and_eq_true] at h
      simp only [storeTL]
      exact eM_bind c (eraseT c hg hobs (.list us) h.1 (fun y hy => hs y (by
          simp only [Target.namesL, Target.storesL, List.mem_append] at hy ⊢
          rcases hy with hy | hy <;> simp [hy])) v (hi v (by simp))) fun _ _ =>
        eraseTL c hg hobs ts h.2 (fun y hy => hs y (by
          simp only [Target.namesL, Target.storesL, List.mem_append] at hy ⊢
          rcases hy with hy | hy <;> simp [hy])) vs (fun u hu => hi u (by simp [hu]))
  | .attr e a :: ts, h, hs, items, hi => by
    cases items with
    | nil => simp only [storeTL]; exact eM_throw c _ _ hg.unpackError
    | cons v vs =>
      simp only [coreTL, Bool.and_eq_true] at h
      simp only [storeTL]
      exact eM_bind c (eraseT c hg hobs (.attr e a) h.1 (fun y hy => hs y (by
          simp only [Target.namesL, Target.storesL, List.mem_append] at hy ⊢
          rcases hy with hy | hy <;> simp [hy])) v (hi v (by simp))) fun _ _ =>
        eraseTL c hg hobs ts h.2 (fun y hy => hs y (by
          simp only [Target.namesL, Target.storesL, List.mem_append] at hy ⊢
          rcases hy with hy | hy <;> simp [hy])) vs (fun u hu => hi u (by simp [hu]))
  | .sub e i :: ts, h, hs, items, hi => by
    cases items with
    | nil => simp only [storeTL]; exact eM_throw c _ _ hg.unpackError
    | cons v vs =>
      simp only [coreTL, Bool.and_eq_true] at h
      simp only [storeTL]
      exact eM_bind c (eraseT c hg hobs (.sub e i) h.1 (fun y hy => hs y (by
          simp only [Target.namesL, Target.storesL, List.mem_append] at hy ⊢
          rcases hy with hy | hy <;> simp [hy])) v (hi v (by simp))) fun _ _ =>
        eraseTL c hg hobs ts h.2 (fun y hy => hs y (by
          simp only [Target.namesL, Target.storesL, List.mem_append] at hy ⊢
          rcases hy with hy | hy <;> simp [hy])) vs (fun u hu => hi u (by simp [hu]))
end

end Ptera.Sem
