/-
  The evaluator (every registered action of `evaluate` and `value_evaluate`)
  can only fail with a `SyntaxError`: never with an internal error.
-/
import PteraModel.Model.Selector
namespace Ptera.Selector
open Ptera.Lex Ptera.Parse

def NoInt {α} (x : Except Err α) : Prop := ∀ e, x = .error e → e.isInternal = false

theorem NoInt.ok {α} (a : α) : NoInt (Except.ok a : Except Err α) := by
  intro e h; cases h
theorem NoInt.pure {α} (a : α) : NoInt (pure a : Except Err α) := NoInt.ok a
theorem NoInt.err {α} (e : Err) (h : e.isInternal = false) : NoInt (Except.error e : Except Err α) := by
  intro e' h'; cases h'; exact h
theorem NoInt.bind {α β} (x : Except Err α) (f : α → Except Err β)
    (hx : NoInt x) (hf : ∀ a, NoInt (f a)) : NoInt (x >>= f) := by
  intro e h
  cases x with
  | error e' => 
    have : e' = e := by cases h; rfl
    subst this; exact hx _ rfl
  | ok a => exact hf a e h

macro "noint_step" : tactic => `(tactic| first
  | assumption
  | exact NoInt.ok _
  | exact NoInt.pure _
  | exact NoInt.err _ rfl
  | refine NoInt.bind _ _ ?_ (fun _ => ?_)
  | split)

theorem valueEvaluate_noInt (t : PTree) : NoInt (valueEvaluate t) := by
  fun_induction valueEvaluate t
  all_goals (repeat' noint_step)

theorem guaranteeCall_noInt (it : Item) (h : ∀ xs, it ≠ .list xs) : NoInt (guaranteeCall it) := by
  cases it with
  | elem e => exact NoInt.ok _
  | call c => exact NoInt.ok _
  | list xs => exact absurd rfl (h xs)

theorem makeNestedImm_noInt (here p c) : NoInt (makeNestedImm here p c) := by
  cases p <;> cases c <;> (unfold makeNestedImm; repeat' noint_step)

theorem makeClass_noInt (here e t) (ht : NoInt t) : NoInt (makeClass here e t) := by
  unfold makeClass; repeat' noint_step
theorem makeFocus_noInt (here e) : NoInt (makeFocus here e) := by
  unfold makeFocus; repeat' noint_step
theorem makeDoubleFocus_noInt (here e) : NoInt (makeDoubleFocus here e) := by
  unfold makeDoubleFocus; repeat' noint_step
theorem makeDollar_noInt (here e) : NoInt (makeDollar here e) := by
  unfold makeDollar; repeat' noint_step
theorem makeAs_noInt (ctx here e n) : NoInt (makeAs ctx here e n) := by
  unfold makeAs; repeat' noint_step
theorem makeEquals_noInt (here m e v) (hv : NoInt v) : NoInt (makeEquals here m e v) := by
  unfold makeEquals; repeat' noint_step
theorem makeCallCapture_noInt (here f ns) : NoInt (makeCallCapture here f ns) := by
  cases f <;> (unfold makeCallCapture; repeat' noint_step)

theorem evaluate_noInt (ctx : Ctx) (t : PTree) : NoInt (evaluate ctx t) := by
  fun_induction evaluate ctx t
  all_goals (repeat' (first
    | assumption
    | exact NoInt.ok _
    | exact NoInt.pure _
    | exact NoInt.err _ rfl
    | exact makeNestedImm_noInt _ _ _
    | exact makeClass_noInt _ _ _ (valueEvaluate_noInt _)
    | exact makeFocus_noInt _ _
    | exact makeDoubleFocus_noInt _ _
    | exact makeDollar_noInt _ _
    | exact makeAs_noInt _ _ _ _
    | exact makeEquals_noInt _ _ _ _ (valueEvaluate_noInt _)
    | exact makeCallCapture_noInt _ _ _
    | refine NoInt.bind _ _ ?_ (fun _ => ?_)))

end Ptera.Selector
