import PteraModel.Proofs.SimTarget
/-!
# Simulation, part 4: statements

`simS`: running the statements the rewriter produces for `s` (plain Python, `interact` calls consult the
handler) and running `s` itself in the reference semantics (bindings consult the handler) end the same way
from related states, and end in related states.
-/
namespace Ptera.Sem
open Ptera.Py

variable {W HS : Type}

/-! ## the fragment -/

def coreOptE : Option Expr → Bool
  | none => true
  | some e => coreE e

def coreOptT : Option Target → Bool
  | none => true
  | some t => coreT t

/-- the target of a (single-target) assignment statement -/
def coreAssignT : Target → Bool
  | .name x => isUser x
  | .tuple ts => coreTL ts
  | .list ts => coreTL ts
  | .starred _ => false
  | .attr e _ =>
    match e with
    | .name b => isUser b
    | e => coreE e && simpleE e
  | .sub e i =>
    match e with
    | .name b => isUser b && coreE i && simpleE i
    | e => coreE e && simpleE e && coreE i && simpleE i

def coreAssignTL : List Target → Bool
  | [] => true
  | t :: ts => coreAssignT t && coreAssignTL ts

def coreAugT : Target → Bool
  | .name x => isUser x
  | .attr e _ => coreE e && simpleE e
  | .sub e i => coreE e && simpleE e && coreE i && simpleE i
  | _ => false

mutual
def coreS : Stmt → Bool
  | .assign ts v => (!ts.isEmpty && coreAssignTL ts) && coreE v
  | .augassign t _ v => coreAugT t && coreE v
  | .annassign t _ v =>
    (match t with
     | .name x => isUser x
     | _ => false) && coreOptE v
  | .expr e => coreE e
  | .ret v => coreOptE v
  | .pass | .brk | .cont => true
  | .raise e => coreOptE e
  | .ite c b o => coreE c && coreB b && coreB o
  | .while c b o => coreE c && coreB b && coreB o
  | .for t it b o => coreT t && coreE it && coreB b && coreB o
  | .try b hs o f => coreB b && coreHL hs && coreB o && coreB f
  | .with c t b => coreE c && coreOptT t && coreB b
  | .defn name _ loads => isUser name && loads.all isUser
  | .cls name _ loads => isUser name && loads.all isUser
  | .imp bound _ => bound.all isUser
  | .glob _ | .nonloc _ | .opaque .. => false
def coreB : List Stmt → Bool
  | [] => true
  | s :: ss => coreS s && coreB ss
def coreH : Handler → Bool
  | .mk typ name body =>
    coreOptE typ && (match typ with | Option.none => true | Option.some e => simpleE e)
      && (match name with | Option.none => true | Option.some n => isUser n) && coreB body
def coreHL : List Handler → Bool
  | [] => true
  | h :: hs => coreH h && coreHL hs
end

/-! ## pieces -/

theorem relX_stepM_unit (c : Ctx W HS) {m' m : M W HS Unit} {k' k : Exec W HS}
    (hm : RelM c m' m) (hk : RelX c k' k) : RelX c (stepM m' fun _ => k') (stepM m fun _ => k) :=
  relX_stepM c hm fun _ => hk

/-- the general form of `eval_interactE`: a key that evaluates purely -/
theorem eval_interactE_key (c : Ctx W HS) (name : String) (key : Expr) (kv : Val)
    (hk : evalE c.envI key = pure kv) (ann : Option Ann) (e : Expr) (ovr keyed force : Bool) :
    evalE c.envI (interactE c.cfg name key ann e ovr keyed force)
      = (evalE c.envI e >>= fun v => maybeInteract c.envI c.cfg name kv ann v ovr keyed force) := by
  unfold interactE maybeInteract
  split
  · simp only [evalE, hk, pure_bind_M]
  · exact (bind_pure_M _).symm

theorem eval_keyAttr (c : Ctx W HS) (lib : LibSpec c) (a : String) :
    evalE c.envI (keyAttr a) = pure (keyVal "attr" (.str a)) := by
  obtain ⟨k, hk1, hk2⟩ := lib.key
  have lK := lookup_lib c lib nKey k (by simp) hk1
  have cK : ∀ kind v, (liftW (c.envI.host.call k [.str kind, v]) : M W HS Val) = pure (keyVal kind v) := by
    intro kind v; funext st; simp only [liftW, Ctx.envI, hk2]; rfl
  simp only [keyAttr, evalE, evalEL, lK, pure_bind_M, cK]

/-- a binding of a plain name by an assignment statement (with or without annotation) -/
theorem sim_assignName (c : Ctx W HS) (x : String) (hx : isUser x = true) (hs : c.scoped x)
    (ann : Option Ann) {e' : Expr} {m : M W HS Val} (he : RelM c (evalE c.envI e') m) :
    RelX c (execS c.envI c.fuel (.assign [.name x] (interactE c.cfg x .noneLit ann e' true false false)))
      (stepM m fun v => stepM (assignT c.envR (.name x) ann v) fun _ => done .normal) := by
  simp only [execS, eval_interactE, assignTs, assignT, hook_envI, hook_envR, stepM_bind, stepM_pure, pure_bind_M]
  refine relX_stepM c he fun v => ?_
  refine relX_stepM c (relM_maybe c x .noneV ann v true false false) fun r => ?_
  exact relX_stepM c (relM_setLoc c x (some r) hs hx) fun _ => relX_done c _


/-! ## meta events and `delimit` -/

theorem stepM_as_seq {α} (m : M W HS α) (k : Exec W HS) :
    stepM m (fun _ => k) = seqX (stepM m fun _ => done .normal) k := by
  rw [seqX_stepM]; simp only [seqX_done_normal]

theorem standalone_on (cfg : Cfg) (x : String) (ann : Option Ann) (v : Expr)
    (h : shouldInstr cfg x (annTags ann) = true) :
    standalone cfg x ann v = [.expr (.interact x .noneLit (annArg ann) v false)] := by
  simp [standalone, interactE, h]

theorem hookMeta_envR (c : Ctx W HS) (x : String) (ann : Option Ann) (v : Val) :
    hookMeta c.envR x ann v = if shouldInstr c.cfg x (annTags ann) then
      (interactSem c.envR x .noneV (c.host.annVal (annArg ann)) v false >>= fun _ => pure ()) else pure () := by
  unfold hookMeta; simp [Ctx.envR, annValOpt]

theorem sim_standalones (c : Ctx W HS) (ann : Option Ann) : (xs : List String) →
    RelX c (execB c.envI c.fuel
        ((xs.filter fun x => shouldInstr c.cfg x (annTags ann)).flatMap fun sym => standalone c.cfg sym ann (.bool true)))
      (stepM (hookMetas c.envR ann xs) fun _ => done .normal)
  | [] => by simp [execB_nil, hookMetas, stepM_pure]; exact relX_done c _
  | x :: xs => by
    have ih := sim_standalones c ann xs
    simp only [hookMetas, stepM_bind, hookMeta_envR]
    by_cases h : shouldInstr c.cfg x (annTags ann) = true
    · simp only [List.filter_cons, h, if_true, List.flatMap_cons, standalone_on c.cfg x ann _ h, execB_append,
        execB_single, execS, evalE, pure_bind_M, stepM_bind, stepM_pure]
      rw [seqX_stepM]
      refine relX_stepM c (relM_interactSem c _ _ _ _ _) fun _ => ?_
      rw [seqX_done_normal]
      exact ih
    · simp only [Bool.not_eq_true] at h
      simp only [List.filter_cons, h, Bool.false_eq_true, if_false, stepM_pure]
      exact ih

theorem hookMetas_none (c : Ctx W HS) (ann : Option Ann) : (xs : List String) →
    (xs.filter fun x => shouldInstr c.cfg x (annTags ann)) = [] → hookMetas c.envR ann xs = pure ()
  | [], _ => by simp [hookMetas]
  | x :: xs, h => by
    simp only [List.filter_cons] at h
    by_cases hx : shouldInstr c.cfg x (annTags ann) = true
    · simp [hx] at h
    · simp only [Bool.not_eq_true] at hx
      simp only [hx, Bool.false_eq_true, if_false] at h
      simp [hookMetas, hookMeta_envR, hx, hookMetas_none c ann xs h]

/-- the body of a loop (or of the function, without `#error`): `enter` events, the body, `exit` events on
    every way out -/
theorem sim_delimit (c : Ctx W HS) (enter exit : List String) (eAnn xAnn : Option Ann)
    {body' : List Stmt} {body : Exec W HS} (hb : RelX c (execB c.envI c.fuel body') body) :
    RelX c (execB c.envI c.fuel (delimit c.cfg body' enter [] exit eAnn xAnn))
      (tryFinally (seqX (stepM (hookMetas c.envR eAnn enter) fun _ => done .normal) body)
        (stepM (hookMetas c.envR xAnn exit) fun _ => done .normal)) := by
  have he := sim_standalones c eAnn enter
  have hx := sim_standalones c xAnn exit
  unfold delimit
  simp only [List.filter_nil, List.isEmpty_nil, Bool.true_and]
  split
  · rename_i hemp
    have : (exit.filter fun x => shouldInstr c.cfg x (annTags xAnn)) = [] := by simpa using hemp
    rw [hookMetas_none c xAnn exit this, stepM_pure, tryFinally_skip, execB_append]
    exact relX_seqX c he hb
  · simp only [List.map_nil, execB_single, execS, execHL, execB_nil, tryExcept_none, execB_append]
    exact relX_tryFinally c (relX_seqX c he hb) hx


/-! ## assignments -/

theorem assignTs_single (env : Env W HS) (v : Val) (t : Target) (k : Unit → Exec W HS) :
    stepM (assignTs env v [t]) k = stepM (assignT env t none v) k := by
  simp only [assignTs, stepM_bind, stepM_pure]

theorem mkInteraction_attr_other (cfg : Cfg) (e : Expr) (a : String) (ann : Option Ann) (v : Expr) (n : Nat)
    (h : ∀ b, e ≠ .name b) : mkInteraction cfg (.attr e a) ann (some v) n = ([.assign [.attr e a] v], n) := by
  cases e <;> first | (exfalso; exact h _ rfl) | simp [mkInteraction]

theorem mkInteraction_sub_other (cfg : Cfg) (e i : Expr) (ann : Option Ann) (v : Expr) (n : Nat)
    (h : ∀ b, e ≠ .name b) : mkInteraction cfg (.sub e i) ann (some v) n = ([.assign [.sub e i] v], n) := by
  cases e <;> first | (exfalso; exact h _ rfl) | simp [mkInteraction]

theorem assignT_attr_other (env : Env W HS) (e : Expr) (a : String) (ann : Option Ann) (v : Val)
    (h : ∀ b, e ≠ .name b) : assignT env (.attr e a) ann v = storeT env (.attr e a) v := by
  cases e <;> first | (exfalso; exact h _ rfl) | rfl

theorem assignT_sub_other (env : Env W HS) (e i : Expr) (ann : Option Ann) (v : Val)
    (h : ∀ b, e ≠ .name b) : assignT env (.sub e i) ann v = storeT env (.sub e i) v := by
  cases e <;> first | (exfalso; exact h _ rfl) | rfl

/-- a statement `t = e'` that the rewriter left alone, against a native store -/
theorem sim_plainAssign (c : Ctx W HS) (lib : LibSpec c) (t : Target) (ht : coreT t = true)
    (hs : ∀ x ∈ t.names ++ t.stores, c.scoped x)
    (hplainI : ∀ v, assignT c.envI t none v = storeT c.envI t v)
    (hplainR : ∀ v, assignT c.envR t none v = storeT c.envR t v)
    {e' : Expr} {m : M W HS Val} (he : RelM c (evalE c.envI e') m) :
    RelX c (execS c.envI c.fuel (.assign [t] e'))
      (stepM m fun v => stepM (assignT c.envR t none v) fun _ => done .normal) := by
  simp only [execS, assignTs_single, hplainI, hplainR]
  refine relX_stepM c he fun v => ?_
  exact relX_stepM c (simStoreT c lib t ht hs v) fun _ => relX_done c _

/-! ### element assignment `b[i] = v` with a variable as container -/

def constVal : Expr → Val
  | .int n => .int n
  | .str s => .str s
  | .noneLit => .noneV
  | .bool b => .bool b
  | .constOther r => .obj "const" [.str r]
  | _ => .noneV

theorem eval_const (env : Env W HS) (i : Expr) (h : isConst i = true) : evalE env i = pure (constVal i) := by
  cases i <;> first | (simp [isConst] at h; done) | rfl

theorem eval_keyIndex_const (c : Ctx W HS) (lib : LibSpec c) (i : Expr) (h : isConst i = true) :
    evalE c.envI (keyIndex i) = pure (keyVal "index" (constVal i)) := by
  obtain ⟨k, hk1, hk2⟩ := lib.key
  have lK := lookup_lib c lib nKey k (by simp) hk1
  have cK : ∀ kind v, (liftW (c.envI.host.call k [.str kind, v]) : M W HS Val) = pure (keyVal kind v) := by
    intro kind v; funext st; simp only [liftW, Ctx.envI, hk2]; rfl
  simp only [keyIndex, evalE, evalEL, lK, pure_bind_M, cK, eval_const c.envI i h]

theorem assignT_sub_envI (c : Ctx W HS) (b : String) (i : Expr) (ann : Option Ann) (v : Val) :
    assignT c.envI (.sub (.name b) i) ann v = storeT c.envI (.sub (.name b) i) v := by
  simp [assignT, hookOn, Ctx.envI]

theorem assignT_sub_envR_off (c : Ctx W HS) (b : String) (i : Expr) (ann : Option Ann) (v : Val)
    (h : shouldInstr c.cfg b (annTags ann) true = false) :
    assignT c.envR (.sub (.name b) i) ann v = storeT c.envR (.sub (.name b) i) v := by
  simp [assignT, hookOn, Ctx.envR, h]

theorem assignT_sub_envR_nc (c : Ctx W HS) (b : String) (i : Expr) (ann : Option Ann) (v : Val)
    (h : shouldInstr c.cfg b (annTags ann) true = true) (hnc : isConst i = false) :
    assignT c.envR (.sub (.name b) i) ann v =
      (lookup c.envR b >>= fun _ => evalE c.envR i >>= fun k =>
        maybeInteract c.envR c.cfg b (keyVal "index" k) ann v true true false >>= fun r =>
        lookup c.envR b >>= fun o => liftW (c.envR.host.setitem o k r)) := by
  have hh : hookOn c.envR b (annTags ann) true = true := by simp [hookOn, Ctx.envR, h]
  simp only [assignT, hh, if_true, hook_envR, hnc, Bool.not_false, bind_assoc_M, pure_bind_M]

theorem assignT_sub_envR_c (c : Ctx W HS) (b : String) (i : Expr) (ann : Option Ann) (v : Val)
    (h : shouldInstr c.cfg b (annTags ann) true = true) (hc : isConst i = true) :
    assignT c.envR (.sub (.name b) i) ann v =
      (maybeInteract c.envR c.cfg b (keyVal "index" (constVal i)) ann v true true false >>= fun r =>
        lookup c.envR b >>= fun o => liftW (c.envR.host.setitem o (constVal i) r)) := by
  have hh : hookOn c.envR b (annTags ann) true = true := by simp [hookOn, Ctx.envR, h]
  simp only [assignT, hh, if_true, hook_envR, hc, Bool.not_true, Bool.false_eq_true, if_false, pure_bind_M,
    eval_const c.envR i hc]

theorem assignT_name_envI (c : Ctx W HS) (x : String) (ann : Option Ann) (v : Val) :
    assignT c.envI (.name x) ann v = setLoc x (some v) := by
  simp only [assignT, hook_envI, pure_bind_M]

/-- the last three statements of the element assignment with a computed index: the value is in `vv` -/
theorem sim_subTail (c : Ctx W HS) (lib : LibSpec c) (b : String) (hb : isUser b = true) (i : Expr)
    (hci : coreE i = true) (hsi : simpleE i = true) (hst : ∀ x ∈ i.stores, c.scoped x)
    (vv vi : String) (v : Val) (hvv : c.pin vv = some v) (hscv : c.scI vv = true)
    (hviu : isUser vi = false) (hvin : c.pin vi = none) (hsci : c.scI vi = true) (hne : vv ≠ vi)
    (hon : shouldInstr c.cfg b [] true = true) (hnc : isConst i = false) :
    RelX c (execB c.envI c.fuel [.expr (.name b), .assign [.name vi] i,
        .assign [.sub (.name b) (.name vi)] (.interact b (keyIndex (.name vi)) (annArg none) (.name vv) true)])
      (stepM (assignT c.envR (.sub (.name b) i) none v) fun _ => done .normal) := by
  obtain ⟨kf, hk1, hk2⟩ := lib.key
  have lK := lookup_lib c lib nKey kf (by simp) hk1
  have cK : ∀ kind u, (liftW (c.envI.host.call kf [.str kind, u]) : M W HS Val) = pure (keyVal kind u) := by
    intro kind u; funext st; simp only [liftW, Ctx.envI, hk2]; rfl
  have hon' : shouldInstr c.cfg b (annTags none) true = true := hon
  rw [assignT_sub_envR_nc c b i none v hon' hnc]
  simp only [stepM_bind, execB_cons, execB_nil, seqX_normal_right, execS,
    evalE, evalEL, keyIndex, lK, pure_bind_M, assignTs_single, assignT_name_envI, assignT_sub_envI, storeT,
    seqX_stepM, seqX_done_normal, bind_assoc_M]
  refine relX_stepM c (relM_lookup c b hb) fun _ => ?_
  refine relX_stepM c (simE_simple c lib i hci hsi hst) fun k => ?_
  refine relX_pin c vi hviu hvin k ?_
  have hvv2 : (c.pinned vi k).pin vv = some v := by rw [pinned_pin_ne c vi k vv hne]; exact hvv
  have hvi2 : (c.pinned vi k).pin vi = some k := pinned_pin_self c vi k
  refine relX_stepM_pin (c.pinned vi k) (relM_lookup_pin (c.pinned vi k) vi k hvi2 hsci) ?_
  simp only [cK, stepM_pure]
  refine relX_stepM_pin (c.pinned vi k) (relM_lookup_pin (c.pinned vi k) vv v hvv2 hscv) ?_
  have hm : maybeInteract c.envR c.cfg b (keyVal "index" k) none v true true false
      = interactSem c.envR b (keyVal "index" k) (c.envR.host.annVal (annArg none)) v true := by
    simp [maybeInteract, hon']
  rw [hm]
  refine relX_stepM (c.pinned vi k) (relM_interactSem (c.pinned vi k) _ _ _ _ _) fun r => ?_
  refine relX_stepM (c.pinned vi k) (relM_lookup (c.pinned vi k) b hb) fun o => ?_
  refine relX_stepM_pin (c.pinned vi k) (relM_lookup_pin (c.pinned vi k) vi k hvi2 hsci) ?_
  exact relX_stepM (c.pinned vi k) (relM_liftW (c.pinned vi k) _) fun _ => relX_done _ _

/-- the rewriter leaves the targets of an assignment of the fragment alone -/
theorem instrT_coreAssign (cfg : Cfg) (t : Target) (h : coreAssignT t = true) : instrT cfg t = t := by
  cases t with
  | name x => simp [instrT]
  | tuple ts => simp only [coreAssignT] at h; simp [instrT, instrTL_core cfg ts h]
  | list ts => simp only [coreAssignT] at h; simp [instrT, instrTL_core cfg ts h]
  | starred t => simp [coreAssignT] at h
  | attr e a =>
    have he : instrE cfg e = e := by
      cases e with
      | name b => simp [instrE]
      | _ => simp only [coreAssignT, Bool.and_eq_true] at h; exact instrE_simple cfg _ h.2
    simp [instrT, he]
  | sub e i =>
    have hei : instrE cfg e = e ∧ instrE cfg i = i := by
      cases e with
      | name b =>
        simp only [coreAssignT, Bool.and_eq_true] at h
        exact ⟨by simp [instrE], instrE_simple cfg i h.2⟩
      | _ =>
        simp only [coreAssignT, Bool.and_eq_true] at h
        exact ⟨instrE_simple cfg _ h.1.1.2, instrE_simple cfg i h.2⟩
    simp [instrT, hei.1, hei.2]

theorem instrTL_coreAssign (cfg : Cfg) : (ts : List Target) → coreAssignTL ts = true → instrTL cfg ts = ts
  | [], _ => by simp [instrTL]
  | t :: ts, h => by
    simp only [coreAssignTL, Bool.and_eq_true] at h
    simp [instrTL, instrT_coreAssign cfg t h.1, instrTL_coreAssign cfg ts h.2]

theorem sim_assignOne (c : Ctx W HS) (lib : LibSpec c) (t : Target) (ht : coreAssignT t = true)
    (hs : ∀ x ∈ t.names ++ t.stores, c.scoped x) {e' : Expr} {m : M W HS Val}
    (he : RelM c (evalE c.envI e') m) (n : Nat) (hfresh : ∀ k, n ≤ k → c.pin (gensym k) = none) :
    RelX c (execB c.envI c.fuel (assignOne c.cfg t e' n).1)
      (stepM m fun v => stepM (assignT c.envR t none v) fun _ => done .normal) := by
  cases t with
  | name x =>
    simp only [coreAssignT] at ht
    simp only [assignOne, mkInteraction, Option.getD_some, Option.isNone_some, execB_single]
    exact sim_assignName c x ht (hs x (by simp [Target.names])) none he
  | tuple ts =>
    simp only [coreAssignT] at ht
    have hn : ∀ x ∈ (Target.tuple ts).names, isUser x = true ∧ c.scoped x := fun x hx =>
      ⟨coreT_names_user (.tuple ts) (by simpa [coreT] using ht) x hx, hs x (by simp [hx])⟩
    simp only [assignOne, execB_cons, genInteractions_names, execS, assignTs_single, assignT, postBind_envI,
      bind_pure_M, stepM_bind, seqX_stepM, seqX_done_normal]
    refine relX_stepM c he fun v => ?_
    refine relX_stepM c (simStoreT c lib (.tuple ts) (by simpa [coreT] using ht) hs v) fun _ => ?_
    exact sim_genNames c _ hn
  | list ts =>
    simp only [coreAssignT] at ht
    have hn : ∀ x ∈ (Target.list ts).names, isUser x = true ∧ c.scoped x := fun x hx =>
      ⟨coreT_names_user (.list ts) (by simpa [coreT] using ht) x hx, hs x (by simp [hx])⟩
    simp only [assignOne, execB_cons, genInteractions_names, execS, assignTs_single, assignT, postBind_envI,
      bind_pure_M, stepM_bind, seqX_stepM, seqX_done_normal]
    refine relX_stepM c he fun v => ?_
    refine relX_stepM c (simStoreT c lib (.list ts) (by simpa [coreT] using ht) hs v) fun _ => ?_
    exact sim_genNames c _ hn
  | starred t => simp [coreAssignT] at ht
  | attr e a =>
    by_cases hname : ∃ b, e = .name b
    · obtain ⟨b, rfl⟩ := hname
      simp only [coreAssignT] at ht
      simp only [assignOne, mkInteraction, Option.getD_some, Option.isNone_some, execB_single, execS,
        assignTs_single, assignT, hook_envI, hook_envR, eval_interactE_key c b _ _ (eval_keyAttr c lib a),
        stepM_bind, stepM_pure, pure_bind_M]
      refine relX_stepM c he fun v => ?_
      refine relX_stepM c (relM_maybe c b _ none v true true false) fun r => ?_
      exact relX_stepM c (simStoreT c lib (.attr (.name b) a) (by simp [coreT, coreE, simpleE, ht]) hs r)
        fun _ => relX_done c _
    · have hn : ∀ b, e ≠ .name b := fun b hb => hname ⟨b, hb⟩
      have ht' : coreT (.attr e a) = true := by
        cases e <;> first | (exfalso; exact hn _ rfl) | simpa [coreAssignT, coreT] using ht
      simp only [assignOne, mkInteraction_attr_other _ _ _ _ _ _ hn, execB_single]
      exact sim_plainAssign c lib _ ht' hs (fun v => assignT_attr_other c.envI e a none v hn)
        (fun v => assignT_attr_other c.envR e a none v hn) he
  | sub e i =>
    by_cases hname : ∃ b, e = .name b
    · obtain ⟨b, rfl⟩ := hname
      simp only [coreAssignT, Bool.and_eq_true] at ht
      obtain ⟨⟨hb, hci⟩, hsi⟩ := ht
      have hst : ∀ x ∈ i.stores, c.scoped x := fun x hx =>
        hs x (by simp [Target.names, Target.stores, Expr.stores, hx])
      by_cases hon : shouldInstr c.cfg b [] true = true
      · by_cases hc : isConst i = true
        · simp only [assignOne, mkInteraction, hc, Bool.not_true, Bool.false_and, Bool.false_eq_true, if_false,
            Option.getD_some, Option.isNone_some, execB_single, execS, assignTs_single, assignT_sub_envI,
            eval_interactE_key c b _ _ (eval_keyIndex_const c lib i hc), stepM_bind, storeT, evalE,
            eval_const c.envI i hc, pure_bind_M, assignT_sub_envR_c c b i none _ hon hc]
          refine relX_stepM c he fun v => ?_
          refine relX_stepM c (relM_maybe c b _ none v true true false) fun r => ?_
          refine relX_stepM c (relM_lookup c b hb) fun o => ?_
          exact relX_stepM c (relM_liftW c _) fun _ => relX_done c _
        · simp only [Bool.not_eq_true] at hc
          simp only [assignOne, mkInteraction, hc, Bool.not_false, Bool.true_and, annTags, hon, if_true,
            Option.getD_some, interactE, Option.isNone_some, Bool.false_or]
          rw [execB_cons]
          simp only [execS, assignTs_single, assignT_name_envI, seqX_stepM, seqX_done_normal]
          refine relX_stepM c he fun v => ?_
          refine relX_pin c (gensym n) (isUser_gensym n) (hfresh n (Nat.le_refl n)) v ?_
          exact sim_subTail (c.pinned (gensym n) v) (lib.pinned _ _) b hb i hci hsi hst (gensym n) (gensym (n + 1)) v
            (pinned_pin_self c _ v) (lib.temps n) (isUser_gensym (n + 1))
            (by rw [pinned_pin_ne c (gensym n) v (gensym (n + 1)) (fun h => by have := gensym_inj h; omega)]
                exact hfresh (n + 1) (by omega))
            (lib.temps (n + 1)) (fun h => by have := gensym_inj h; omega) hon hc
      · simp only [Bool.not_eq_true] at hon
        have hmk : mkInteraction c.cfg (.sub (.name b) i) none (some e') n = ([.assign [.sub (.name b) i] e'], n) := by
          simp [mkInteraction, interactE, annTags, hon]
        simp only [assignOne, hmk, execB_single]
        exact sim_plainAssign c lib _ (by simp [coreT, coreE, simpleE, hb, hci, hsi]) hs
          (fun v => assignT_sub_envI c b i none v) (fun v => assignT_sub_envR_off c b i none v hon) he
    · have hn : ∀ b, e ≠ .name b := fun b hb => hname ⟨b, hb⟩
      have ht' : coreT (.sub e i) = true := by
        cases e <;> first | (exfalso; exact hn _ rfl) | simpa [coreAssignT, coreT] using ht
      simp only [assignOne, mkInteraction_sub_other _ _ _ _ _ _ hn, execB_single]
      exact sim_plainAssign c lib _ ht' hs (fun v => assignT_sub_other c.envI e i none v hn)
        (fun v => assignT_sub_other c.envR e i none v hn) he


/-! ### chained assignment `a = b = v`: the value is kept in a temporary -/

theorem mkInteraction_mono (cfg : Cfg) (t : Target) (ann : Option Ann) (value : Option Expr) (n : Nat) :
    n ≤ (mkInteraction cfg t ann value n).2 := by
  unfold mkInteraction
  simp only
  split
  · exact Nat.le_refl n
  · split
    · exact Nat.le_add_right n 2
    · exact Nat.le_refl n
  · exact Nat.le_refl n
  · exact Nat.le_refl n

theorem assignOne_mono (cfg : Cfg) (t : Target) (e : Expr) (n : Nat) : n ≤ (assignOne cfg t e n).2 := by
  unfold assignOne
  split
  · exact Nat.le_refl n
  · exact Nat.le_refl n
  · exact mkInteraction_mono cfg t none (some e) n

theorem sim_chain (c : Ctx W HS) (lib : LibSpec c) (tmp : String) (v : Val) (hp : c.pin tmp = some v)
    (hsc : c.scI tmp = true) : (ts : List Target) → coreAssignTL ts = true →
    (∀ x ∈ Target.namesL ts ++ Target.storesL ts, c.scoped x) → ∀ n, (∀ k, n ≤ k → c.pin (gensym k) = none) →
    RelX c (execB c.envI c.fuel (assignChain c.cfg (.name tmp) ts n).1)
      (stepM (assignTs c.envR v ts) fun _ => done .normal)
  | [], _, _, n, _ => by
    simp only [assignChain, execB_nil, assignTs, stepM_pure]
    exact relX_done c _
  | t :: ts, h, hs, n, hf => by
    simp only [coreAssignTL, Bool.and_eq_true] at h
    have he : RelM c (evalE c.envI (.name tmp)) (pure v) := by
      simp only [evalE]; exact relM_lookup_pin c tmp v hp hsc
    have h1 := sim_assignOne c lib t h.1
      (fun x hx => hs x (by
        simp only [Target.namesL, Target.storesL, List.mem_append] at hx ⊢
        rcases hx with hx | hx
        · exact Or.inl (Or.inl hx)
        · exact Or.inr (Or.inl hx))) he n hf
    have hmono := assignOne_mono c.cfg t (.name tmp) n
    have h2 := sim_chain c lib tmp v hp hsc ts h.2
      (fun x hx => hs x (by
        simp only [Target.namesL, Target.storesL, List.mem_append] at hx ⊢
        rcases hx with hx | hx
        · exact Or.inl (Or.inr hx)
        · exact Or.inr (Or.inr hx))) (assignOne c.cfg t (.name tmp) n).2
      (fun k hk => hf k (Nat.le_trans hmono hk))
    rcases hao : assignOne c.cfg t (.name tmp) n with ⟨s1, n1⟩
    rw [hao] at h1 h2
    rcases hch : assignChain c.cfg (.name tmp) ts n1 with ⟨s2, n2⟩
    rw [hch] at h2
    simp only [assignChain, hao, hch, execB_append, assignTs, stepM_bind]
    simp only [stepM_pure] at h1
    rw [stepM_as_seq (assignT c.envR t none v)]
    exact relX_seqX c h1 h2

/-! ## other binding statements -/

theorem relM_truthyE (c : Ctx W HS) (lib : LibSpec c) (e : Expr) (h : coreE e = true)
    (hs : ∀ x ∈ e.stores, c.scoped x) : RelM c (truthyE c.envI (instrE c.cfg e)) (truthyE c.envR e) := by
  unfold truthyE
  exact relM_bind c (simE c lib e h hs) fun v => relM_liftW c _

/-- re-binding a name to itself when the handler is not consulted changes nothing -/
theorem setLoc_postBind_off (c : Ctx W HS) (x : String) (v : Val) (hsc : c.scR x = true)
    (hoff : shouldInstr c.cfg x [] = false) :
    (setLoc x (some v) >>= fun _ => postBind1 c.envR x : M W HS Unit) = setLoc x (some v) := by
  funext st
  have e : postBind1 c.envR x = (lookup c.envR x >>= fun v => hook c.envR x none v >>= fun r => setLoc x (some r)) := by
    unfold postBind1; simp [Ctx.envR]
  rw [e]
  simp only [hook_envR, maybeInteract, annTags, hoff, Bool.or_self, Bool.false_eq_true, if_false, pure_bind_M]
  rw [bind_def_M]
  simp only [setLoc]
  rw [bind_def_M]
  simp only [lookup, lookupV, Ctx.envR, hsc, if_true]
  simp only [setLoc]
  congr 2
  funext y
  by_cases hy : y = x <;> simp [hy]

theorem relM_forM_setLoc (c : Ctx W HS) : (l : List (String × Val)) →
    (∀ p ∈ l, isUser p.1 = true ∧ c.scoped p.1) →
    RelM c (l.forM fun (x, v) => (setLoc x (some v) : M W HS Unit)) (l.forM fun (x, v) => setLoc x (some v))
  | [], _ => by simp only [List.forM_nil]; exact relM_pure c _
  | (x, v) :: l, h => by
    simp only [List.forM_cons]
    exact relM_bind c (relM_setLoc c x (some v) (h (x, v) (by simp)).2 (h (x, v) (by simp)).1) fun _ =>
      relM_forM_setLoc c l fun p hp => h p (by simp [hp])

theorem sim_hbody_none (c : Ctx W HS) (e : Val) {b' body : List Stmt}
    (ihb : RelX c (execB c.envI c.fuel b') (execB c.envR c.fuel body)) :
    RelX c (inHandler e none (stepM (postBind c.envI []) fun _ => execB c.envI c.fuel ([] ++ b')))
      (inHandler e none (stepM (postBind c.envR []) fun _ => execB c.envR c.fuel body)) := by
  refine relX_inHandler c e none (fun n hn => by simp at hn) ?_
  simp only [postBind, stepM_pure, List.nil_append]
  exact ihb

theorem sim_hbody_some (c : Ctx W HS) (e : Val) (nm : String) (hsc : c.scoped nm) (hu : isUser nm = true)
    {b' body : List Stmt} (ihb : RelX c (execB c.envI c.fuel b') (execB c.envR c.fuel body)) :
    RelX c (inHandler e (some nm) (stepM (postBind c.envI [nm]) fun _ => execB c.envI c.fuel (genName c.cfg nm ++ b')))
      (inHandler e (some nm) (stepM (postBind c.envR [nm]) fun _ => execB c.envR c.fuel body)) := by
  refine relX_inHandler c e (some nm) (fun n hn => by simp at hn; subst hn; exact ⟨hsc, hu⟩) ?_
  simp only [postBind_envI, stepM_pure, execB_append]
  rw [stepM_as_seq (postBind c.envR [nm])]
  have hg := sim_genNames c [nm] (fun x hx => by
    simp only [List.mem_singleton] at hx; subst hx; exact ⟨hu, hsc⟩)
  simp only [List.flatMap_cons, List.flatMap_nil, List.append_nil] at hg
  exact relX_seqX c hg ihb

/-! ## statements -/

mutual
theorem simS (c : Ctx W HS) (lib : LibSpec c) (hpin : ∀ k, c.pin (gensym k) = none) : (s : Stmt) → coreS s = true →
    (∀ x ∈ s.assigned, c.scoped x) → ∀ n,
    RelX c (execB c.envI c.fuel (instrS c.cfg s n).1) (execS c.envR c.fuel s)
  | .assign ts v, h, hs, n => by
    simp only [coreS, Bool.and_eq_true] at h
    have he := simE c lib v h.2 (fun x hx => hs x (by simp [Stmt.assigned, hx]))
    have chain : ∀ ts : List Target, coreAssignTL ts = true →
        (∀ x ∈ Target.namesL ts ++ Target.storesL ts, c.scoped x) →
        RelX c (execB c.envI c.fuel
            (.assign [.name (gensym n)] (instrE c.cfg v) :: (assignChain c.cfg (.name (gensym n)) ts (n + 1)).1))
          (stepM (evalE c.envR v) fun u => stepM (assignTs c.envR u ts) fun _ => done .normal) := by
      intro ts hts hsts
      rw [execB_cons]
      simp only [execS, assignTs_single, assignT_name_envI, seqX_stepM, seqX_done_normal]
      refine relX_stepM c he fun u => ?_
      refine relX_pin c (gensym n) (isUser_gensym n) (hpin n) u ?_
      exact sim_chain (c.pinned (gensym n) u) (lib.pinned _ _) (gensym n) u (pinned_pin_self c _ u) (lib.temps n)
        ts hts hsts (n + 1) (fun k hk => by
          rw [pinned_pin_ne c (gensym n) u (gensym k) (fun h => by have := gensym_inj h; omega)]
          exact hpin k)
    have hsts : ∀ x ∈ Target.namesL ts ++ Target.storesL ts, c.scoped x := fun x hx =>
      hs x (by simp only [Stmt.assigned, List.mem_append] at hx ⊢; exact Or.inl hx)
    match ts, h, hsts, chain with
    | [t], h, hsts, _ =>
      have ht : coreAssignT t = true := by simpa [coreAssignTL] using h.1
      simp only [instrS, instrT_coreAssign c.cfg t ht]
      have := sim_assignOne c lib t ht (fun x hx => hsts x (by
        simpa [Target.namesL, Target.storesL] using hx)) he n (fun k _ => hpin k)
      simpa only [execS, assignTs_single] using this
    | [], h, _, _ => simp at h
    | t1 :: t2 :: rest, h, hsts, chain =>
      have := chain (t1 :: t2 :: rest) (by simpa using h.1) hsts
      rcases hch : assignChain c.cfg (.name (gensym n)) (t1 :: t2 :: rest) (n + 1) with ⟨ss, n'⟩
      rw [hch] at this
      simp only [instrS, instrTL_coreAssign c.cfg (t1 :: t2 :: rest) (by simpa using h.1), hch, execS]
      exact this
  | .augassign t op v, h, hs, n => by
    simp only [coreS, Bool.and_eq_true] at h
    simp only [Stmt.assigned, List.mem_append] at hs
    have hv := simE c lib v h.2 (fun x hx => hs x (Or.inr hx))
    cases t with
    | name x =>
      have hu : isUser x = true := by simpa [coreAugT] using h.1
      have hsc : c.scoped x := hs x (by simp [Target.names])
      simp only [instrS, instrT]
      have body : RelM c (lookup c.envI x >>= fun a => evalE c.envI (instrE c.cfg v) >>= fun b =>
            liftW (c.envI.host.binop op a b) >>= fun r => setLoc x (some r))
          (lookup c.envR x >>= fun a => evalE c.envR v >>= fun b =>
            liftW (c.envR.host.binop op a b) >>= fun r => setLoc x (some r)) :=
        relM_bind c (relM_lookup c x hu) fun a => relM_bind c hv fun b =>
          relM_bind c (relM_liftW c _) fun r => relM_setLoc c x (some r) hsc hu
      by_cases hi : shouldInstr c.cfg x [] = true
      · simp only [hi, if_true, execB_cons, execB_nil, seqX_normal_right, execS, postBind1_envI, bind_pure_M]
        have h2 := sim_genName c x hu hsc
        simp only [genName, genInteractions, execB_single] at h2
        have e : (fun (_ : Unit) => (pure () : M W HS Unit)) = pure := rfl
        simp only [stepM_bind, e, stepM_pure] at h2 ⊢
        rw [seqX_stepM]
        refine relX_stepM c (relM_lookup c x hu) fun a => ?_
        rw [seqX_stepM]
        refine relX_stepM c hv fun b => ?_
        rw [seqX_stepM]
        refine relX_stepM c (relM_liftW c _) fun r => ?_
        rw [seqX_stepM]
        refine relX_stepM c (relM_setLoc c x (some r) hsc hu) fun _ => ?_
        rw [seqX_done_normal]
        exact h2
      · simp only [Bool.not_eq_true] at hi
        simp only [hi, Bool.false_eq_true, if_false, execB_single, execS, postBind1_envI, bind_pure_M]
        have e : ∀ r : Val, (do setLoc x (some r); postBind1 c.envR x : M W HS Unit) = setLoc x (some r) :=
          fun r => setLoc_postBind_off c x r hsc.2 hi
        simp only [e]
        exact relX_stepM c body fun _ => relX_done c _
    | attr e a =>
      simp only [coreAugT, Bool.and_eq_true] at h
      have he := simE_simple c lib e h.1.1 h.1.2 (fun x hx => hs x (Or.inl (by simp [Target.names, Target.stores, hx])))
      simp only [instrS, instrT, instrE_simple c.cfg e h.1.2, execB_single, execS]
      refine relX_stepM c ?_ fun _ => relX_done c _
      exact relM_bind c he fun o => relM_bind c (relM_liftW c _) fun cur => relM_bind c hv fun b =>
        relM_bind c (relM_liftW c _) fun r => relM_liftW c _
    | sub e i =>
      simp only [coreAugT, Bool.and_eq_true] at h
      have he := simE_simple c lib e h.1.1.1.1 h.1.1.1.2 (fun x hx => hs x (Or.inl (by simp [Target.names, Target.stores, hx])))
      have hi := simE_simple c lib i h.1.1.2 h.1.2 (fun x hx => hs x (Or.inl (by simp [Target.names, Target.stores, hx])))
      simp only [instrS, instrT, instrE_simple c.cfg e h.1.1.1.2, instrE_simple c.cfg i h.1.2, execB_single, execS]
      refine relX_stepM c ?_ fun _ => relX_done c _
      exact relM_bind c he fun o => relM_bind c hi fun k => relM_bind c (relM_liftW c _) fun cur =>
        relM_bind c hv fun b => relM_bind c (relM_liftW c _) fun r => relM_liftW c _
    | tuple ts => simp [coreAugT] at h
    | list ts => simp [coreAugT] at h
    | starred t => simp [coreAugT] at h
  | .annassign t ann v, h, hs, n => by
    simp only [coreS, Bool.and_eq_true] at h
    cases t with
    | name x =>
      have hu : isUser x = true := by simpa using h.1
      simp only [Stmt.assigned, List.mem_append] at hs
      have hsc : c.scoped x := hs x (by simp [Target.names])
      cases v with
      | some e =>
        have he := simE c lib e (by simpa [coreOptE] using h.2) (fun x hx => hs x (Or.inr (by simpa [optStores] using hx)))
        simp only [instrS, instrT, instrOpt, mkInteraction, Option.getD_some, Option.isNone_some, execB_single]
        have := sim_assignName c x hu hsc (some ann) he
        simpa only [execS] using this
      | none =>
        obtain hab := lib.absent
        have lA := lookup_lib c lib nAbsent .absent (by simp) hab
        simp only [instrS, instrT, instrOpt, mkInteraction, Option.getD_none, Option.isNone_none, execB_single, execS,
          eval_interactE, evalE, lA, pure_bind_M, maybeInteract, Bool.true_or, if_true, assignTs_single, assignT,
          hook_envI, stepM_bind, stepM_pure, Ctx.envR, annValOpt]
        refine relX_stepM c (relM_interactSem c _ _ _ _ _) fun r => ?_
        exact relX_stepM c (relM_setLoc c x (some r) hsc hu) fun _ => relX_done c _
    | tuple ts => simp at h
    | list ts => simp at h
    | starred t => simp at h
    | attr e a => simp at h
    | sub e i => simp at h
  | .expr e, h, hs, n => by
    simp only [coreS] at h
    simp only [instrS, execB_single, execS]
    exact relX_stepM c (simE c lib e h (by simpa [Stmt.assigned] using hs)) fun _ => relX_done c _
  | .ret v, h, hs, n => by
    simp only [coreS] at h
    simp only [instrS, execB_single, execS, eval_interactE, hook_envI, hook_envR, bind_assoc_M, bind_pure_M]
    cases v with
    | none =>
      simp only [evalE, pure_bind_M]
      exact relX_stepM c (relM_maybe c _ _ _ _ _ _ _) fun r => relX_done c _
    | some e =>
      simp only
      refine relX_stepM c ?_ fun r => relX_done c _
      exact relM_bind c (simE c lib e (by simpa [coreOptE] using h) (by simpa [Stmt.assigned, optStores] using hs))
        fun x => relM_maybe c _ _ _ _ _ _ _
  | .pass, _, _, n => by simp only [instrS, execB_single, execS]; exact relX_done c _
  | .brk, _, _, n => by simp only [instrS, execB_single, execS]; exact relX_done c _
  | .cont, _, _, n => by simp only [instrS, execB_single, execS]; exact relX_done c _
  | .raise e, h, hs, n => by
    simp only [coreS] at h
    cases e with
    | none =>
      simp only [instrS, instrOpt, execB_single, execS]
      intro st' st hr
      have hh : c.envI.host = c.envR.host := rfl
      dsimp only
      rw [hr.cur, hh]
      cases st.cur <;> exact ⟨rfl, hr⟩
    | some e =>
      simp only [instrS, instrOpt, execB_single, execS]
      exact relX_stepM c (simE c lib e (by simpa [coreOptE] using h) (by simpa [Stmt.assigned, optStores] using hs))
        fun v => relX_done c _
  | .ite cnd b o, h, hs, n => by
    simp only [coreS, Bool.and_eq_true] at h
    simp only [Stmt.assigned, List.mem_append] at hs
    rcases hb : instrB c.cfg b n with ⟨b', n1⟩
    rcases ho : instrB c.cfg o n1 with ⟨o', n2⟩
    have ihb := simB c lib hpin b h.1.2 (fun x hx => hs x (Or.inl (Or.inr hx))) n
    have iho := simB c lib hpin o h.2 (fun x hx => hs x (Or.inr hx)) n1
    rw [hb] at ihb; rw [ho] at iho
    simp only [instrS, hb, ho, execB_single, execS]
    refine relX_stepM c (relM_truthyE c lib cnd h.1.1 (fun x hx => hs x (Or.inl (Or.inl hx)))) fun t => ?_
    cases t
    · simpa using iho
    · simpa using ihb
  | .while cnd b o, h, hs, n => by
    simp only [coreS, Bool.and_eq_true] at h
    simp only [Stmt.assigned, List.mem_append] at hs
    rcases hb : instrB c.cfg b n with ⟨b', n1⟩
    rcases ho : instrB c.cfg o n1 with ⟨o', n2⟩
    have ihb := simB c lib hpin b h.1.2 (fun x hx => hs x (Or.inl (Or.inr hx))) n
    have iho := simB c lib hpin o h.2 (fun x hx => hs x (Or.inr hx)) n1
    rw [hb] at ihb; rw [ho] at iho
    simp only [instrS, hb, ho, execB_single, execS]
    exact relX_whileLoop c c.fuel (relM_truthyE c lib cnd h.1.1 (fun x hx => hs x (Or.inl (Or.inl hx)))) ihb iho
  | .for t it b o, h, hs, n => by
    simp only [coreS, Bool.and_eq_true] at h
    simp only [Stmt.assigned, List.mem_append] at hs
    rcases hb : instrB c.cfg b n with ⟨b', n1⟩
    rcases ho : instrB c.cfg o n1 with ⟨o', n2⟩
    have ihb := simB c lib hpin b h.1.2 (fun x hx => hs x (Or.inl (Or.inr hx))) n
    have iho := simB c lib hpin o h.2 (fun x hx => hs x (Or.inr hx)) n1
    rw [hb] at ihb; rw [ho] at iho
    have hn : ∀ x ∈ t.names, isUser x = true ∧ c.scoped x := fun x hx =>
      ⟨coreT_names_user t h.1.1.1 x hx, hs x (Or.inl (Or.inl (Or.inl (Or.inl hx))))⟩
    simp only [instrS, instrT_core c.cfg t h.1.1.1, hb, ho, execB_single, execS, hookMetas_envI, postBind_envI,
      pure_bind_M, stepM_pure, tryFinally_skip]
    refine relX_stepM c ?_ fun items => ?_
    · exact relM_bind c (simE c lib it h.1.1.2 (fun x hx => hs x (Or.inl (Or.inl (Or.inr hx))))) fun v =>
        relM_liftW c _
    · refine relX_forLoop c items (fun item => ?_) iho
      refine relX_stepM c (simStoreT c lib t h.1.1.1 (fun x hx => hs x (by
        simp only [List.mem_append] at hx
        rcases hx with hx | hx
        · exact Or.inl (Or.inl (Or.inl (Or.inl hx)))
        · exact Or.inl (Or.inl (Or.inl (Or.inr hx))))) item) fun _ => ?_
      have hbody : RelX c (execB c.envI c.fuel (genInteractions c.cfg t ++ b'))
          (seqX (stepM (postBind c.envR t.names) fun _ => done .normal) (execB c.envR c.fuel b)) := by
        rw [execB_append, genInteractions_names]
        exact relX_seqX c (sim_genNames c _ hn) ihb
      have := sim_delimit c ((loopVars t).map ("#loop_" ++ ·)) ((loopVars t).map ("#endloop_" ++ ·)) none none hbody
      simp only [stepM_bind] at this ⊢
      rw [stepM_as_seq (hookMetas c.envR none _) (stepM (postBind c.envR t.names) fun _ => execB c.envR c.fuel b),
        stepM_as_seq (postBind c.envR t.names)]
      exact this
  | .try b hds o f, h, hs, n => by
    simp only [coreS, Bool.and_eq_true] at h
    simp only [Stmt.assigned, List.mem_append] at hs
    rcases hb : instrB c.cfg b n with ⟨b', n1⟩
    rcases hh : instrHL c.cfg hds n1 with ⟨hds', n2⟩
    rcases ho : instrB c.cfg o n2 with ⟨o', n3⟩
    rcases hf : instrB c.cfg f n3 with ⟨f', n4⟩
    have ihb := simB c lib hpin b h.1.1.1 (fun x hx => hs x (Or.inl (Or.inl (Or.inl hx)))) n
    have ihh := simHL c lib hpin hds h.1.1.2 (fun x hx => hs x (Or.inl (Or.inl (Or.inr hx)))) n1
    have iho := simB c lib hpin o h.1.2 (fun x hx => hs x (Or.inl (Or.inr hx))) n2
    have ihf := simB c lib hpin f h.2 (fun x hx => hs x (Or.inr hx)) n3
    rw [hb] at ihb; rw [hh] at ihh; rw [ho] at iho; rw [hf] at ihf
    simp only [instrS, hb, hh, ho, hf, execB_single, execS]
    exact relX_tryFinally c (relX_tryExcept c ihb ihh iho) ihf
  | .with ctx t b, h, hs, n => by
    simp only [coreS, Bool.and_eq_true] at h
    simp only [Stmt.assigned, List.mem_append] at hs
    rcases hb : instrB c.cfg b n with ⟨b', n1⟩
    have ihb := simB c lib hpin b h.2 (fun x hx => hs x (Or.inr hx)) n
    rw [hb] at ihb
    simp only [instrS, hb, execB_single, execS]
    refine relX_stepM c ?_ fun p => ?_
    · exact relM_bind c (simE c lib ctx h.1.1 (fun x hx => hs x (Or.inl (Or.inl hx)))) fun cm =>
        relM_bind c (relM_liftW c _) fun v => relM_pure c _
    · obtain ⟨cm, v⟩ := p
      refine relX_withBlock c cm ?_
      cases t with
      | none =>
        simp only [stepM_pure, List.nil_append]
        exact ihb
      | some t =>
        have ht : coreT t = true := by simpa [coreOptT] using h.1.2
        have hn : ∀ x ∈ t.names, isUser x = true ∧ c.scoped x := fun x hx =>
          ⟨coreT_names_user t ht x hx, hs x (Or.inl (Or.inr (by simp [hx])))⟩
        simp only [Option.map_some, instrT_core c.cfg t ht, postBind_envI, bind_pure_M, stepM_bind, execB_append,
          genInteractions_names]
        refine relX_stepM c (simStoreT c lib t ht (fun x hx => hs x (Or.inl (Or.inr (by simpa using hx)))) v) fun _ => ?_
        rw [stepM_as_seq (postBind c.envR t.names)]
        exact relX_seqX c (sim_genNames c _ hn) ihb
  | .defn name src loads, h, hs, n => by
    simp only [coreS, Bool.and_eq_true, List.all_eq_true] at h
    have hsc : c.scoped name := hs name (by simp [Stmt.assigned])
    simp only [instrS, execB_cons, execS]
    intro st' st hr
    have hl : (loads.map fun x => (x, lookupV c.envI st' x)) = (loads.map fun x => (x, lookupV c.envR st x)) := by
      apply List.map_congr_left
      intro x hx
      rw [hr.loc x (h.2 x hx)]
    have key : RelX c
        (seqX (stepM (liftW (c.envI.host.bindStmt src (loads.map fun x => (x, lookupV c.envR st x)))) fun vals =>
          stepM (do setLoc name (some (vals.headD .noneV)); postBind1 c.envI name) fun _ => done .normal)
          (execB c.envI c.fuel (genName c.cfg name)))
        (stepM (liftW (c.envR.host.bindStmt src (loads.map fun x => (x, lookupV c.envR st x)))) fun vals =>
          stepM (do setLoc name (some (vals.headD .noneV)); postBind1 c.envR name) fun _ => done .normal) := by
      rw [seqX_stepM]
      refine relX_stepM c (relM_liftW c _) fun vals => ?_
      simp only [postBind1_envI, bind_pure_M, stepM_bind]
      rw [seqX_stepM]
      refine relX_stepM c (relM_setLoc c name _ hsc h.1) fun _ => ?_
      simp only [stepM_pure, seqX_done_normal]
      exact sim_genName c name h.1 hsc
    have := key st' st hr
    unfold seqX at this ⊢
    simp only [hl]
    exact this
  | .cls name src loads, h, hs, n => by
    simp only [coreS, Bool.and_eq_true, List.all_eq_true] at h
    have hsc : c.scoped name := hs name (by simp [Stmt.assigned])
    simp only [instrS, execB_cons, execS]
    intro st' st hr
    have hl : (loads.map fun x => (x, lookupV c.envI st' x)) = (loads.map fun x => (x, lookupV c.envR st x)) := by
      apply List.map_congr_left
      intro x hx
      rw [hr.loc x (h.2 x hx)]
    have key : RelX c
        (seqX (stepM (liftW (c.envI.host.bindStmt src (loads.map fun x => (x, lookupV c.envR st x)))) fun vals =>
          stepM (do setLoc name (some (vals.headD .noneV)); postBind1 c.envI name) fun _ => done .normal)
          (execB c.envI c.fuel (genName c.cfg name)))
        (stepM (liftW (c.envR.host.bindStmt src (loads.map fun x => (x, lookupV c.envR st x)))) fun vals =>
          stepM (do setLoc name (some (vals.headD .noneV)); postBind1 c.envR name) fun _ => done .normal) := by
      rw [seqX_stepM]
      refine relX_stepM c (relM_liftW c _) fun vals => ?_
      simp only [postBind1_envI, bind_pure_M, stepM_bind]
      rw [seqX_stepM]
      refine relX_stepM c (relM_setLoc c name _ hsc h.1) fun _ => ?_
      simp only [stepM_pure, seqX_done_normal]
      exact sim_genName c name h.1 hsc
    have := key st' st hr
    unfold seqX at this ⊢
    simp only [hl]
    exact this
  | .imp bound src, h, hs, n => by
    simp only [coreS, List.all_eq_true] at h
    have hn : ∀ x ∈ bound, isUser x = true ∧ c.scoped x := fun x hx => ⟨h x hx, hs x (by simpa [Stmt.assigned] using hx)⟩
    simp only [instrS, execB_cons, execS, postBind_envI, bind_pure_M, stepM_bind]
    rw [seqX_stepM]
    refine relX_stepM c (relM_liftW c _) fun vals => ?_
    rw [seqX_stepM]
    refine relX_stepM c (relM_forM_setLoc c _ (fun p hp => hn p.1 (List.of_mem_zip hp).1)) fun _ => ?_
    simp only [stepM_pure, seqX_done_normal]
    exact sim_genNames c bound hn
  | .glob _, h, _, _ => by simp [coreS] at h
  | .nonloc _, h, _, _ => by simp [coreS] at h
  | .opaque .., h, _, _ => by simp [coreS] at h
theorem simB (c : Ctx W HS) (lib : LibSpec c) (hpin : ∀ k, c.pin (gensym k) = none) : (ss : List Stmt) → coreB ss = true →
    (∀ x ∈ Stmt.assignedL ss, c.scoped x) → ∀ n,
    RelX c (execB c.envI c.fuel (instrB c.cfg ss n).1) (execB c.envR c.fuel ss)
  | [], _, _, n => by simp only [instrB, execB_nil]; exact relX_done c _
  | s :: ss, h, hs, n => by
    simp only [coreB, Bool.and_eq_true] at h
    simp only [Stmt.assignedL, List.mem_append] at hs
    rcases h1 : instrS c.cfg s n with ⟨s', n1⟩
    rcases h2 : instrB c.cfg ss n1 with ⟨ss', n2⟩
    have ih1 := simS c lib hpin s h.1 (fun x hx => hs x (Or.inl hx)) n
    have ih2 := simB c lib hpin ss h.2 (fun x hx => hs x (Or.inr hx)) n1
    rw [h1] at ih1; rw [h2] at ih2
    simp only [instrB, h1, h2, execB_append, execB_cons]
    exact relX_seqX c ih1 ih2
theorem simHL (c : Ctx W HS) (lib : LibSpec c) (hpin : ∀ k, c.pin (gensym k) = none) : (hds : List Handler) → coreHL hds = true →
    (∀ x ∈ Handler.assignedL hds, c.scoped x) → ∀ n e,
    RelX c (execHL c.envI c.fuel (instrHL c.cfg hds n).1 e) (execHL c.envR c.fuel hds e)
  | [], _, _, n, e => by simp only [instrHL, execHL]; exact relX_done c _
  | .mk typ name body :: hds, h, hs, n, e => by
    simp only [coreHL, coreH, Bool.and_eq_true] at h
    simp only [Handler.assignedL, Handler.assigned, List.mem_append] at hs
    rcases hb : instrB c.cfg body n with ⟨b', n1⟩
    rcases hh : instrHL c.cfg hds n1 with ⟨hds', n2⟩
    have ihb := simB c lib hpin body h.1.2 (fun x hx => hs x (Or.inl (Or.inr hx))) n
    have ihh := simHL c lib hpin hds h.2 (fun x hx => hs x (Or.inr hx)) n1 e
    rw [hb] at ihb; rw [hh] at ihh
    have hte : ∀ te, typ = some te → coreE te = true ∧ simpleE te = true := by
      intro te hte; subst hte
      have := h.1.1.1
      simpa [coreOptE] using this
    have hh2 : c.envI.host = c.envR.host := rfl
    cases name with
    | none =>
      have hbody := sim_hbody_none c e ihb
      cases typ with
      | none =>
        simp only [instrHL, instrH, hb, hh, instrOpt, execHL]
        exact hbody
      | some te =>
        simp only [instrHL, instrH, hb, hh, instrOpt, execHL, instrE_simple c.cfg te (hte te rfl).2]
        refine relX_stepM c (simE_simple c lib te (hte te rfl).1 (hte te rfl).2
          (fun x hx => hs x (Or.inl (Or.inl (Or.inl (by simpa [optStores] using hx)))))) fun tv => ?_
        rw [hh2]
        split
        · exact hbody
        · exact ihh
    | some nm =>
      have hbody := sim_hbody_some c e nm (hs nm (Or.inl (Or.inl (Or.inr (by simp))))) (by simpa using h.1.1.2) ihb
      cases typ with
      | none =>
        simp only [instrHL, instrH, hb, hh, instrOpt, execHL]
        exact hbody
      | some te =>
        simp only [instrHL, instrH, hb, hh, instrOpt, execHL, instrE_simple c.cfg te (hte te rfl).2]
        refine relX_stepM c (simE_simple c lib te (hte te rfl).1 (hte te rfl).2
          (fun x hx => hs x (Or.inl (Or.inl (Or.inl (by simpa [optStores] using hx)))))) fun tv => ?_
        rw [hh2]
        split
        · exact hbody
        · exact ihh
end

end Ptera.Sem
