/-
  The operator-precedence loop never pops an empty stack and never runs out of
  the fuel `process` gives it — for every operator table and every token list.
-/
import PteraModel.Model.Parse
namespace Ptera.Parse
open Ptera.Lex

/-- every handle that ends with a real operator has something below it -/
def WF : List Handle → Prop
  | [] => True
  | h :: rest => (h.lastOp.isSome → rest ≠ []) ∧ WF rest

def PState.wf (s : PState) : Prop := WF (s.current :: s.stack)

def PState.mu (s : PState) : Nat :=
  2 * (s.tokens.length + (if s.right.isSome then 1 else 0)) + s.stack.length

theorem order_opn {tbl l r} (h : order tbl l r = .ok .opn) : r.isSome := by
  cases l <;> cases r <;> simp_all [order, bind, Except.bind, pure, Except.pure]
  all_goals (split at h <;> simp_all)

theorem order_cls {tbl l r} (h : order tbl l r = .ok .cls) : l.isSome := by
  cases l <;> cases r <;> simp_all [order, bind, Except.bind, pure, Except.pure]
  all_goals (split at h <;> simp_all)

theorem order_mrg {tbl l r} (h : order tbl l r = .ok .mrg) : l.isSome ∧ r.isSome := by
  cases l <;> cases r <;> simp_all [order, bind, Except.bind, pure, Except.pure]
  all_goals (split at h <;> simp_all)

theorem resolve_err {tbl t e} (h : resolve tbl t = .error e) : ∃ off, e = .invalidToken off := by
  unfold resolve at h
  split at h
  · cases h
  · split at h
    · cases h
    · cases h; exact ⟨_, rfl⟩

theorem order_err {tbl l r e} (h : order tbl l r = .error e) : ∃ off, e = .invalidToken off := by
  cases l <;> cases r <;> simp only [order, bind, Except.bind, pure, Except.pure] at h
  · cases h
  · split at h
    · rename_i h'; cases h; exact resolve_err h'
    · cases h
  · split at h
    · rename_i h'; cases h; exact resolve_err h'
    · cases h
  · split at h
    · rename_i h'; cases h; exact resolve_err h'
    · split at h
      · rename_i h'; cases h; exact resolve_err h'
      · cases h

theorem next_len (s : PState) :
    s.next.2.length + (if s.next.1.isSome then 1 else 0) = s.tokens.length := by
  unfold PState.next; cases s.tokens <;> simp


theorem step_err (tbl : Table) (s : PState) (hwf : s.wf) (e : PErr)
    (h : step tbl s = .error e) : ∃ off, e = .invalidToken off := by
  unfold step at h
  simp only [bind, Except.bind] at h
  split at h
  · rename_i e' ho; cases h; exact order_err ho
  · rename_i o ho
    cases o with
    | done => simp [pure, Except.pure] at h
    | opn => simp [pure, Except.pure] at h
    | mrg =>
      have := order_mrg ho
      simp only at h
      split at h
      · simp [pure, Except.pure] at h
      · rename_i hl; simp [hl] at this
    | cls =>
      have hl := order_cls ho
      have hw := hwf
      unfold PState.wf WF at hw
      have hs := hw.1 hl
      simp only at h
      split at h
      · simp [pure, Except.pure] at h
      · rename_i hno
        cases hc : s.current.lastOp with
        | none => simp [hc] at hl
        | some l =>
          cases hst : s.stack with
          | nil => exact absurd hst hs
          | cons hd tl => exact (hno l hd tl hc hst).elim

theorem step_next (tbl : Table) (s s' : PState) (hwf : s.wf)
    (h : step tbl s = .ok (.inr s')) : s'.wf ∧ s'.mu < s.mu := by
  unfold step at h
  simp only [bind, Except.bind] at h
  split at h
  · cases h
  · rename_i o ho
    have hlen := next_len s
    cases o with
    | done => simp [pure, Except.pure] at h
    | opn =>
      have hr := order_opn ho
      simp only [pure, Except.pure, Except.ok.injEq, Sum.inr.injEq] at h
      subst h
      refine ⟨?_, ?_⟩
      · unfold PState.wf WF; exact ⟨fun _ => by simp, hwf⟩
      · simp only [PState.mu, List.length_cons, hr, if_true]; omega
    | mrg =>
      have ⟨hl, hr⟩ := order_mrg ho
      simp only at h
      split at h
      · simp only [pure, Except.pure, Except.ok.injEq, Sum.inr.injEq] at h
        subst h
        refine ⟨?_, ?_⟩
        · unfold PState.wf WF at *
          exact ⟨fun _ => hwf.1 hl, hwf.2⟩
        · simp only [PState.mu, hr, if_true]; omega
      · cases h
    | cls =>
      simp only at h
      split at h
      · rename_i l hd tl hc hst
        simp only [pure, Except.pure, Except.ok.injEq, Sum.inr.injEq] at h
        subst h
        refine ⟨?_, ?_⟩
        · unfold PState.wf at *; rw [hst] at hwf; unfold WF at hwf; exact hwf.2
        · simp only [PState.mu, hst, List.length_cons]; omega
      · cases h

theorem run_total (tbl : Table) : ∀ (fuel : Nat) (s : PState), s.wf → s.mu < fuel →
    ∀ e, run tbl fuel s = .error e → ∃ off, e = .invalidToken off := by
  intro fuel
  induction fuel with
  | zero => intro s _ h; omega
  | succ n ih =>
    intro s hwf hmu e h
    unfold run at h
    simp only [bind, Except.bind] at h
    split at h
    · rename_i e' hs; cases h; exact step_err tbl s hwf _ hs
    · rename_i r hs
      cases r with
      | inl r => simp [pure, Except.pure] at h
      | inr s' =>
        have ⟨hwf', hmu'⟩ := step_next tbl s s' hwf hs
        exact ih s' hwf' (by omega) e h

theorem init_wf (tokens : List Token) : (PState.init tokens).wf := by
  cases tokens <;> simp [PState.init, PState.wf, WF]

theorem init_mu (tokens : List Token) : (PState.init tokens).mu < 2 * tokens.length + 2 := by
  cases tokens <;> simp [PState.init, PState.mu] <;> omega

/-- `Parser.process` can only fail with the "Invalid token" syntax error:
    no `IndexError` from `stack.pop()`, and the loop terminates. -/
theorem process_total (tbl : Table) (tokens : List Token) (e : PErr)
    (h : process tbl tokens = .error e) : ∃ off, e = .invalidToken off :=
  run_total tbl _ _ (init_wf tokens) (init_mu tokens) e h

end Ptera.Parse
