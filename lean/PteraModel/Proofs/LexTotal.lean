/-
  Every lexing step consumes at least one character, so the lexer terminates on
  every input and the fuel `lex` passes to `lexAux` is never exhausted.
-/
import PteraModel.Model.Lex
namespace Ptera.Lex

theorem spanBang_pos (a : Ch) (rest : List Ch) (h : (a.c == '!') = true) :
    1 ≤ spanBang (a :: rest) := by
  simp [spanBang, h]

theorem matchAlt_pos (pw : Bool) (l : List Ch) (n : Nat) (h : matchAlt pw l = some n) : 1 ≤ n := by
  cases l with
  | nil => simp [matchAlt] at h
  | cons a rest =>
    simp only [matchAlt] at h
    repeat' split at h
    all_goals first
      | (cases h; omega)
      | (cases h; simp [spanBang, *])
      | cases h

theorem matchOperator_pos (l : List Ch) (n : Nat) (h : matchOperator l = some n) : 1 ≤ n := by
  simp only [matchOperator] at h
  split at h
  · rename_i a ha
    have := matchAlt_pos _ _ _ ha
    cases h; omega
  · split at h
    · cases h; omega
    · cases h

theorem matchWord_pos (l : List Ch) (n : Nat) (h : matchWord l = some n) : 1 ≤ n := by
  simp only [matchWord] at h
  split at h
  · cases h; omega
  · cases h

theorem matchString_pos (l : List Ch) (n : Nat) (h : matchString l = some n) : 1 ≤ n := by
  cases l with
  | nil => simp [matchString] at h
  | cons q rest =>
    simp only [matchString] at h
    split at h
    · split at h
      · cases h; omega
      · cases h
    · cases h

/-- the regular expressions never match the empty string (the commented-out older
    operator regex in `selector.py` would) -/
theorem lexStep_pos (code : List Ch) : 1 ≤ (lexStep code).2 := by
  unfold lexStep
  split
  · rename_i n h; exact matchOperator_pos _ _ h
  · split
    · rename_i n h; exact matchWord_pos _ _ h
    · split
      · rename_i n h; exact matchString_pos _ _ h
      · exact Nat.le_refl 1

/-- the result does not depend on the fuel once it covers the input length -/
theorem lexAux_fuel (fuel : Nat) : ∀ (code : List Ch) (pos : Nat), code.length ≤ fuel →
    lexAux (fuel + 1) code pos = lexAux fuel code pos := by
  induction fuel with
  | zero =>
    intro code pos h
    have : code = [] := List.eq_nil_of_length_eq_zero (by omega)
    subst this; simp [lexAux]
  | succ n ih =>
    intro code pos h
    cases code with
    | nil => simp [lexAux]
    | cons c cs =>
      have hp := lexStep_pos (c :: cs)
      simp only [lexAux]
      congr 1
      apply ih
      simp only [List.length_drop, List.length_cons] at *
      omega

/-- more fuel never changes what `lex` returns -/
theorem lex_fuel_indep (code : List Ch) (extra : Nat) :
    lexAux ((strip code).length + extra) (strip code) 0 = lex code := by
  unfold lex
  induction extra with
  | zero => rfl
  | succ k ih =>
    rw [← ih]
    exact lexAux_fuel _ _ _ (Nat.le_add_right _ _)

end Ptera.Lex
