import PteraModel.Proofs.EraseStmt
/-!
# Erasure, part 5: every statement of the core fragment (without bare declarations)
-/
namespace Ptera.Sem
open Ptera.Py

variable {W HS : Type}

/-! ## no bare declaration (`x: T` without a value): the documented exception of transparency -/

mutual
def noDeclS : Stmt → Bool
  | .annassign _ _ Option.none => false
  | .ite _ b o => noDeclB b && noDeclB o
  | .while _ b o => noDeclB b && noDeclB o
  | .for _ _ b o => noDeclB b && noDeclB o
  | .try b hs o f => noDeclB b && noDeclHL hs && noDeclB o && noDeclB f
  | .with _ _ b => noDeclB b
  | _ => true
def noDeclB : List Stmt → Bool
  | [] => true
  | s :: ss => noDeclS s && noDeclB ss
def noDeclH : Handler → Bool
  | .mk _ _ body => noDeclB body
def noDeclHL : List Handler → Bool
  | [] => true
  | h :: hs => noDeclH h && noDeclHL hs
end

/-! ## single steps -/

theorem erase_setPost1 (c : ECtx W HS) (hg : HostGood c.host c.Good c.WInv) (hobs : Observer c.host) (x : String)
    (v : Val) (hl : c.local x) (hv : c.Good v) :
    EM c (fun _ => True) (setLoc x (some v) >>= fun _ => postBind1 c.envR x)
      (setLoc x (some v) >>= fun _ => postBind1 c.envP x) := by
  intro sr sp h
  rw [postBind1_envP, bind_def_M, bind_def_M]
  obtain ⟨_, _, hrel⟩ := eM_setLoc c x v hl hv sr sp h
  simp only [setLoc] at hrel ⊢
  have hb : ({ sr with loc := fun y => if y = x then some v else sr.loc y } : St W HS).loc x ≠ none := by simp
  obtain ⟨g1, g2, _⟩ := postBind1_observer c hg hobs x hl _ _ hrel hb
  exact ⟨g1, trivial, g2⟩

theorem eM_truthyE (c : ECtx W HS) (hg : HostGood c.host c.Good c.WInv) (hobs : Observer c.host) (e : Expr)
    (h : coreE e = true) (hs : ∀ x ∈ e.stores, c.local x) :
    EM c (fun _ => True) (truthyE c.envR e) (truthyE c.envP e) := by
  unfold truthyE
  exact eM_bind c (eraseE c hg hobs e h hs) fun v hv => eM_liftW c _ _ fun w hw => hg.truthy v w hv hw

theorem coreT_of_assign_attr (b a : String) (h : isUser b = true) : coreT (.attr (.name b) a) = true := by
  simp [coreT, coreE, simpleE, h]

theorem lookup_some (env : Env W HS) (x : String) (st : St W HS) (o : Val) (h : lookupV env st x = some o) :
    lookup env x st = (.ok o, st) := by
  unfold lookup; simp only [h]

theorem lookup_none (env : Env W HS) (x : String) (st : St W HS) (h : lookupV env st x = none) :
    lookup env x st = (.err (env.host.nameError x), st) := by
  unfold lookup; simp only [h]

/-- reading a variable again after a computation that does not touch the variables gives the same -/
theorem lookup_again {α β} (env : Env W HS) (x : String) (m : M W HS α) (hm : LocPres m) (F : Val → α → M W HS β) :
    (lookup env x >>= fun o => m >>= fun k => F o k)
      = (lookup env x >>= fun _ => m >>= fun k => lookup env x >>= fun o => F o k) := by
  funext st
  rw [bind_def_M, bind_def_M]
  cases hl : lookupV env st x with
  | none => rw [lookup_none env x st hl]
  | some o =>
    rw [lookup_some env x st o hl]
    simp only
    rw [bind_def_M, bind_def_M]
    have h1 := hm st
    rcases hms : m st with ⟨r, st1⟩
    rw [hms] at h1
    cases r with
    | err e => rfl
    | ok k =>
      simp only
      rw [bind_def_M, lookup_some env x st1 o (by rw [lookupV_same_loc env st st1 h1 x]; exact hl)]

/-- one assignment target (of an assignment statement, or annotated) -/
theorem erase_assignT (c : ECtx W HS) (hg : HostGood c.host c.Good c.WInv) (hobs : Observer c.host) (t : Target)
    (ht : coreAssignT t = true) (hl : ∀ x ∈ t.names ++ t.stores, c.local x) (ann : Option Ann) (v : Val)
    (hv : c.Good v) : EM c (fun _ => True) (assignT c.envR t ann v) (assignT c.envP t ann v) := by
  cases t with
  | name x =>
    show EM c _ (hook c.envR x ann v >>= fun r => setLoc x (some r)) (hook c.envP x ann v >>= fun r => setLoc x (some r))
    exact eM_bind c (eM_hook c hg hobs x ann v false .noneV hv) fun r hr =>
      eM_setLoc c x r (hl x (by simp [Target.names])) hr
  | tuple ts =>
    simp only [coreAssignT] at ht
    show EM c _ (storeT c.envR (.tuple ts) v >>= fun _ => postBind c.envR (Target.tuple ts).names)
      (storeT c.envP (.tuple ts) v >>= fun _ => postBind c.envP (Target.tuple ts).names)
    exact erase_thenPost c hg hobs _ (fun x hx => hl x (by simp [hx]))
      (eraseT c hg hobs (.tuple ts) (by simpa [coreT] using ht) hl v hv)
      (binds_storeT c.envR (.tuple ts) (by simpa [coreT] using ht) v)
  | list ts =>
    simp only [coreAssignT] at ht
    show EM c _ (storeT c.envR (.list ts) v >>= fun _ => postBind c.envR (Target.list ts).names)
      (storeT c.envP (.list ts) v >>= fun _ => postBind c.envP (Target.list ts).names)
    exact erase_thenPost c hg hobs _ (fun x hx => hl x (by simp [hx]))
      (eraseT c hg hobs (.list ts) (by simpa [coreT] using ht) hl v hv)
      (binds_storeT c.envR (.list ts) (by simpa [coreT] using ht) v)
  | starred t => simp [coreAssignT] at ht
  | attr e a =>
    by_cases hname : ∃ b, e = .name b
    · obtain ⟨b, rfl⟩ := hname
      simp only [coreAssignT] at ht
      show EM c _ (hook c.envR b ann v true (keyVal "attr" (.str a)) >>= fun r => storeT c.envR (.attr (.name b) a) r)
        (hook c.envP b ann v true (keyVal "attr" (.str a)) >>= fun r => storeT c.envP (.attr (.name b) a) r)
      exact eM_bind c (eM_hook c hg hobs b ann v true _ hv) fun r hr =>
        eraseT c hg hobs (.attr (.name b) a) (coreT_of_assign_attr b a ht) hl r hr
    · have hn : ∀ b, e ≠ .name b := fun b hb => hname ⟨b, hb⟩
      have ht' : coreT (.attr e a) = true := by
        cases e <;> first | (exfalso; exact hn _ rfl) | simpa [coreAssignT, coreT] using ht
      rw [assignT_attr_other c.envR e a ann v hn, assignT_attr_other c.envP e a ann v hn]
      exact eraseT c hg hobs (.attr e a) ht' hl v hv
  | sub e i =>
    by_cases hname : ∃ b, e = .name b
    · obtain ⟨b, rfl⟩ := hname
      simp only [coreAssignT, Bool.and_eq_true] at ht
      obtain ⟨⟨hb, hci⟩, hsi⟩ := ht
      have hst : ∀ x ∈ i.stores, c.local x := fun x hx =>
        hl x (by simp [Target.names, Target.stores, Expr.stores, hx])
      have hP : assignT c.envP (.sub (.name b) i) ann v
          = (lookup c.envP b >>= fun o => evalE c.envP i >>= fun k => liftW (c.envP.host.setitem o k v)) := by
        simp [assignT, hookOn, ECtx.envP, storeT, evalE]
      have hookP : ∀ k, hook c.envP b ann v true (keyVal "index" k) = pure v := by
        intro k; unfold hook; simp [ECtx.envP]
      by_cases hon : hookOn c.envR b (annTags ann) true = true
      · have tail : ∀ k, c.Good k → EM c (fun _ => True)
            (hook c.envR b ann v true (keyVal "index" k) >>= fun r => lookup c.envR b >>= fun o =>
              liftW (c.host.setitem o k r))
            (lookup c.envP b >>= fun o => liftW (c.host.setitem o k v)) := by
          intro k hk
          have := eM_bind c (eM_hook c hg hobs b ann v true (keyVal "index" k) hv) fun r hr =>
            eM_bind c (eM_lookup c hg b hb) fun o ho =>
              eM_liftW c (fun _ => True) (c.host.setitem o k r) fun w hw => hg.setitem o k r w ho hk hr hw
          rw [hookP k, pure_bind_M] at this
          exact this
        cases hc : isConst i with
        | true =>
          have hgk : c.Good (constVal i) := by
            cases i <;> first | (simp [isConst] at hc; done) | exact hg.int _ | exact hg.str _ | exact hg.noneV | exact hg.bool _ | exact hg.const _
          rw [hP]
          simp only [assignT, hon, if_true, hc, Bool.not_true, Bool.false_eq_true, if_false, pure_bind_M,
            eval_const _ i hc]
          exact tail _ hgk
        | false =>
          rw [hP, lookup_again c.envP b (evalE c.envP i) (locPres_evalE c.envP i hsi)]
          simp only [assignT, hon, if_true, hc, Bool.not_false, bind_assoc_M, pure_bind_M]
          exact eM_bind c (eM_lookup c hg b hb) fun _ _ =>
            eM_bind c (eraseE c hg hobs i hci hst) fun k hk => tail k hk
      · have hR : assignT c.envR (.sub (.name b) i) ann v = storeT c.envR (.sub (.name b) i) v := by
          simp only [assignT, hon, Bool.false_eq_true, if_false]
        have hP2 : assignT c.envP (.sub (.name b) i) ann v = storeT c.envP (.sub (.name b) i) v := by
          simp [assignT, hookOn, ECtx.envP]
        rw [hR, hP2]
        exact eraseT c hg hobs (.sub (.name b) i) (by simp [coreT, coreE, simpleE, hb, hci, hsi]) hl v hv
    · have hn : ∀ b, e ≠ .name b := fun b hb => hname ⟨b, hb⟩
      have ht' : coreT (.sub e i) = true := by
        cases e <;> first | (exfalso; exact hn _ rfl) | simpa [coreAssignT, coreT] using ht
      rw [assignT_sub_other c.envR e i ann v hn, assignT_sub_other c.envP e i ann v hn]
      exact eraseT c hg hobs (.sub e i) ht' hl v hv

/-- the targets of a (chained) assignment, in turn -/
theorem erase_assignTs (c : ECtx W HS) (hg : HostGood c.host c.Good c.WInv) (hobs : Observer c.host) :
    (ts : List Target) → coreAssignTL ts = true → (∀ x ∈ Target.namesL ts ++ Target.storesL ts, c.local x) →
    ∀ v, c.Good v → EM c (fun _ => True) (assignTs c.envR v ts) (assignTs c.envP v ts)
  | [], _, _, v, _ => by simp only [assignTs]; exact eM_pure c _ () trivial
  | t :: ts, h, hl, v, hv => by
    simp only [coreAssignTL, Bool.and_eq_true] at h
    simp only [assignTs]
    refine eM_bind c (erase_assignT c hg hobs t h.1 (fun x hx => hl x (by
      simp only [Target.namesL, Target.storesL, List.mem_append] at hx ⊢
      rcases hx with hx | hx
      · exact Or.inl (Or.inl hx)
      · exact Or.inr (Or.inl hx))) none v hv) fun _ _ => ?_
    exact erase_assignTs c hg hobs ts h.2 (fun x hx => hl x (by
      simp only [Target.namesL, Target.storesL, List.mem_append] at hx ⊢
      rcases hx with hx | hx
      · exact Or.inl (Or.inr hx)
      · exact Or.inr (Or.inr hx))) v hv

/-- the body of an `except … as name` clause -/
theorem eX_handlerBody (c : ECtx W HS) (hg : HostGood c.host c.Good c.WInv) (hobs : Observer c.host) (e : Val)
    (he : c.Good e) (name : Option String) (hn : ∀ n, name = some n → c.local n) {br bp : Exec W HS}
    (hb : EX c br bp) :
    EX c (inHandler e name (stepM (postBind c.envR (match name with | none => [] | some n => [n])) fun _ => br))
      (inHandler e name (stepM (postBind c.envP (match name with | none => [] | some n => [n])) fun _ => bp)) := by
  intro sr sp h
  unfold inHandler
  cases name with
  | none =>
    simp only [postBind, stepM_pure]
    have h0 : ERel c [] { sr with cur := e :: sr.cur } { sp with cur := e :: sp.cur } :=
      h.congr _ _ rfl rfl h.w h.winv h.inp h.goodInp h.out (by simp [h.cur])
        (fun x hx => by
          simp only [List.mem_cons] at hx
          rcases hx with rfl | hx
          · exact he
          · exact h.goodCur x hx) h.closed
    have h1 := hb _ _ h0
    rcases har : br { sr with cur := e :: sr.cur } with ⟨kr, sr1⟩
    rcases hap : bp { sp with cur := e :: sp.cur } with ⟨kp, sp1⟩
    rw [har, hap] at h1
    simp only at h1
    obtain ⟨hre, hok, hrel⟩ := h1
    subst hre
    exact ⟨rfl, hok, hrel.congr _ _ rfl rfl hrel.w hrel.winv hrel.inp hrel.goodInp hrel.out (by simp [hrel.cur])
      (fun x hx => hrel.goodCur x (List.mem_of_mem_tail hx)) hrel.closed⟩
  | some n =>
    have hl := hn n rfl
    simp only
    -- the states in which the handler starts
    have h0 : ERel c [] { sr with cur := e :: sr.cur, loc := fun y => if y = n then some e else sr.loc y }
        { sp with cur := e :: sp.cur, loc := fun y => if y = n then some e else sp.loc y } := by
      refine ⟨h.w, h.inp, h.out, by simp [h.cur], h.closed, ?_, ?_, ?_, ?_, h.goodInp, ?_, h.winv⟩
      · intro y _
        by_cases hyn : y = n
        · subst hyn
          rw [lookupV_upd_eq c.envR sr y (some e) hl.1, lookupV_upd_eq c.envP sp y (some e) hl.2]
        · rw [lookupV_upd_ne c.envR sr n y (some e) hyn, lookupV_upd_ne c.envP sp n y (some e) hyn]
          exact h.look y (by simp)
      · intro y hy; simp at hy
      · intro y u hu
        simp only at hu
        by_cases hyn : y = n
        · simp [hyn] at hu; subst hu; exact he
        · simp [hyn] at hu; exact h.goodLoc y u hu
      · intro y u hu
        simp only at hu
        by_cases hyn : y = n
        · simp [hyn] at hu; subst hu; exact he
        · simp [hyn] at hu; exact h.goodLocR y u hu
      · intro x hx
        simp only [List.mem_cons] at hx
        rcases hx with rfl | hx
        · exact he
        · exact h.goodCur x hx
    have hbnd : ∀ x ∈ [n], ({ sr with cur := e :: sr.cur, loc := fun y => if y = n then some e else sr.loc y } : St W HS).loc x ≠ none := by
      intro x hx; simp only [List.mem_singleton] at hx; subst hx; simp
    obtain ⟨g1, g2, _⟩ := postBind_observer c hg hobs [n] (fun x hx => by simp at hx; subst hx; exact hl) _ _ h0 hbnd
    rw [postBind_envP, stepM_pure]
    unfold stepM
    rcases hpb : postBind c.envR [n] { sr with cur := e :: sr.cur, loc := fun y => if y = n then some e else sr.loc y } with ⟨r, sr0⟩
    rw [hpb] at g1 g2
    simp only at g1 g2
    subst g1
    simp only
    have h1 := hb _ _ g2
    rcases har : br sr0 with ⟨kr, sr1⟩
    rcases hap : bp { sp with cur := e :: sp.cur, loc := fun y => if y = n then some e else sp.loc y } with ⟨kp, sp1⟩
    rw [har, hap] at h1
    simp only at h1
    obtain ⟨hre, hok, hrel⟩ := h1
    subst hre
    refine ⟨rfl, hok, ⟨hrel.w, hrel.inp, hrel.out, by simp [hrel.cur], hrel.closed, ?_, ?_, ?_, ?_, hrel.goodInp, ?_, hrel.winv⟩⟩
    · intro y _
      by_cases hyn : y = n
      · subst hyn
        rw [lookupV_upd_eq c.envR sr1 y none hl.1, lookupV_upd_eq c.envP sp1 y none hl.2]
      · rw [lookupV_upd_ne c.envR sr1 n y none hyn, lookupV_upd_ne c.envP sp1 n y none hyn]
        exact hrel.look y (by simp)
    · intro y hy; simp at hy
    · intro y u hu
      simp only at hu
      by_cases hyn : y = n
      · simp [hyn] at hu
      · simp [hyn] at hu; exact hrel.goodLoc y u hu
    · intro y u hu
      simp only at hu
      by_cases hyn : y = n
      · simp [hyn] at hu
      · simp [hyn] at hu; exact hrel.goodLocR y u hu
    · intro x hx
      exact hrel.goodCur x (List.mem_of_mem_tail hx)

end Ptera.Sem

namespace Ptera.Sem
open Ptera.Py

variable {W HS : Type}

/-! ## binding every name of an import -/

theorem eM_forM_setLoc (c : ECtx W HS) : (l : List (String × Val)) →
    (∀ p ∈ l, c.local p.1 ∧ c.Good p.2) →
    EM c (fun _ => True) (l.forM fun (x, v) => (setLoc x (some v) : M W HS Unit)) (l.forM fun (x, v) => setLoc x (some v))
  | [], _ => by simp only [List.forM_nil]; exact eM_pure c _ _ trivial
  | (x, v) :: l, h => by
    simp only [List.forM_cons]
    exact eM_bind c (eM_setLoc c x v (h (x, v) (by simp)).1 (h (x, v) (by simp)).2) fun _ _ =>
      eM_forM_setLoc c l fun p hp => h p (by simp [hp])

theorem keeps_forM_setLoc : (l : List (String × Val)) →
    Keeps (l.forM fun (x, v) => (setLoc x (some v) : M W HS Unit))
  | [] => by simp only [List.forM_nil]; exact keeps_of_locPres (locPres_pure _)
  | (x, v) :: l => by
    simp only [List.forM_cons]
    exact keeps_bind (keeps_setLoc x v) fun _ => keeps_forM_setLoc l

theorem binds_forM_setLoc : (xs : List String) → (vs : List Val) → xs.length ≤ vs.length →
    Binds ((xs.zip vs).forM fun (x, v) => (setLoc x (some v) : M W HS Unit)) xs
  | [], _, _ => binds_nil _
  | x :: xs, [], h => by simp at h
  | x :: xs, v :: vs, h => by
    simp only [List.zip_cons_cons, List.forM_cons]
    have := binds_bind (m := (setLoc x (some v) : M W HS Unit)) (binds_setLoc x v)
      (fun _ => keeps_forM_setLoc (xs.zip vs))
      (fun _ => binds_forM_setLoc xs vs (by simpa using h))
    simpa using this

theorem padVals_length (n : Nat) (vals : List Val) : n ≤ (padVals n vals).length := by
  simp only [padVals, List.length_append, List.length_replicate]
  omega

theorem padVals_good (c : ECtx W HS) (hg : HostGood c.host c.Good c.WInv) (n : Nat) (vals : List Val)
    (h : ∀ v ∈ vals, c.Good v) : ∀ v ∈ padVals n vals, c.Good v := by
  intro v hv
  simp only [padVals, List.mem_append, List.mem_replicate] at hv
  rcases hv with hv | ⟨_, rfl⟩
  · exact h v hv
  · exact hg.noneV

/-! ## statements -/

theorem good_lookups (c : ECtx W HS) (hg : HostGood c.host c.Good c.WInv) {sr sp : St W HS} (h : ERel c [] sr sp)
    (loads : List String) (hu : ∀ x ∈ loads, isUser x = true) :
    (loads.map fun x => (x, lookupV c.envR sr x)) = (loads.map fun x => (x, lookupV c.envP sp x))
    ∧ ∀ p ∈ (loads.map fun x => (x, lookupV c.envP sp x)), ∀ v, p.2 = some v → c.Good v := by
  constructor
  · apply List.map_congr_left
    intro x _
    rw [h.look x (by simp)]
  · intro p hp v hv
    simp only [List.mem_map] at hp
    obtain ⟨x, hx, rfl⟩ := hp
    simp only at hv
    unfold lookupV at hv
    split at hv
    · exact h.goodLoc x v hv
    · exact hg.glob x v (hu x hx) hv

mutual
theorem eraseS (c : ECtx W HS) (hg : HostGood c.host c.Good c.WInv) (hobs : Observer c.host) :
    (s : Stmt) → coreS s = true → noDeclS s = true → (∀ x ∈ s.assigned, c.local x) →
    EX c (execS c.envR c.fuel s) (execS c.envP c.fuel s)
  | .assign ts v, h, _, hs => by
    simp only [coreS, Bool.and_eq_true] at h
    simp only [Stmt.assigned, List.mem_append] at hs
    simp only [execS]
    exact eX_stepM c (eraseE c hg hobs v h.2 (fun x hx => hs x (Or.inr hx))) fun u hu =>
      eX_stepM c (erase_assignTs c hg hobs ts (by simpa using h.1.2)
        (fun x hx => hs x (Or.inl (by simpa [List.mem_append] using hx))) u hu) fun _ _ => eX_done c _ trivial
  | .augassign t op v, h, _, hs => by
    simp only [coreS, Bool.and_eq_true] at h
    simp only [Stmt.assigned, List.mem_append] at hs
    have hv := eraseE c hg hobs v h.2 (fun x hx => hs x (Or.inr hx))
    cases t with
    | name x =>
      have hu : isUser x = true := by simpa [coreAugT] using h.1
      have hl : c.local x := hs x (by simp [Target.names])
      simp only [execS]
      refine eX_stepM c (GA := fun _ => True) ?_ fun _ _ => eX_done c _ trivial
      have e : ∀ env : Env W HS, (do
          let a ← lookup env x
          let b ← evalE env v
          let cc ← liftW (env.host.binop op a b)
          setLoc x (some cc)
          postBind1 env x) = (lookup env x >>= fun a => evalE env v >>= fun b =>
            liftW (env.host.binop op a b) >>= fun cc => (setLoc x (some cc) >>= fun _ => postBind1 env x)) := by
        intro env; rfl
      rw [e c.envR, e c.envP]
      exact eM_bind c (eM_lookup c hg x hu) fun a ha => eM_bind c hv fun b hb =>
        eM_bind c (eM_liftW c _ _ fun w hw => hg.binop op a b w ha hb hw) fun cc hcc =>
          erase_setPost1 c hg hobs x cc hl hcc
    | attr e a =>
      simp only [coreAugT, Bool.and_eq_true] at h
      have he := eraseE c hg hobs e h.1.1 (fun x hx => hs x (Or.inl (by simp [Target.names, Target.stores, hx])))
      simp only [execS]
      refine eX_stepM c (GA := fun _ => True) ?_ fun _ _ => eX_done c _ trivial
      exact eM_bind c he fun o ho => eM_bind c (eM_liftW c _ _ fun w hw => hg.getattr o a w ho hw) fun cur hcur =>
        eM_bind c hv fun b hb => eM_bind c (eM_liftW c _ _ fun w hw => hg.binop op cur b w hcur hb hw) fun r hr =>
          eM_liftW c _ _ fun w hw => hg.setattr o a r w ho hr hw
    | sub e i =>
      simp only [coreAugT, Bool.and_eq_true] at h
      have he := eraseE c hg hobs e h.1.1.1.1 (fun x hx => hs x (Or.inl (by simp [Target.names, Target.stores, hx])))
      have hi := eraseE c hg hobs i h.1.1.2 (fun x hx => hs x (Or.inl (by simp [Target.names, Target.stores, hx])))
      simp only [execS]
      refine eX_stepM c (GA := fun _ => True) ?_ fun _ _ => eX_done c _ trivial
      exact eM_bind c he fun o ho => eM_bind c hi fun k hk =>
        eM_bind c (eM_liftW c _ _ fun w hw => hg.getitem o k w ho hk hw) fun cur hcur =>
          eM_bind c hv fun b hb => eM_bind c (eM_liftW c _ _ fun w hw => hg.binop op cur b w hcur hb hw) fun r hr =>
            eM_liftW c _ _ fun w hw => hg.setitem o k r w ho hk hr hw
    | tuple ts => simp [coreAugT] at h
    | list ts => simp [coreAugT] at h
    | starred t => simp [coreAugT] at h
  | .annassign t ann v, h, hnd, hs => by
    simp only [coreS, Bool.and_eq_true] at h
    cases t with
    | name x =>
      have hu : isUser x = true := by simpa using h.1
      simp only [Stmt.assigned, List.mem_append] at hs
      have hl : c.local x := hs x (by simp [Target.names])
      cases v with
      | some e =>
        have he := eraseE c hg hobs e (by simpa [coreOptE] using h.2) (fun x hx => hs x (Or.inr (by simpa [optStores] using hx)))
        simp only [execS]
        exact eX_stepM c he fun u hu' =>
          eX_stepM c (erase_assignT c hg hobs (.name x) (by simpa [coreAssignT] using hu)
            (fun y hy => by simp [Target.names, Target.stores] at hy; subst hy; exact hl) (some ann) u hu')
            fun _ _ => eX_done c _ trivial
      | none => simp [noDeclS] at hnd
    | tuple ts => simp at h
    | list ts => simp at h
    | starred t => simp at h
    | attr e a => simp at h
    | sub e i => simp at h
  | .expr e, h, _, hs => by
    simp only [coreS] at h
    simp only [execS]
    exact eX_stepM c (eraseE c hg hobs e h (by simpa [Stmt.assigned] using hs)) fun _ _ => eX_done c _ trivial
  | .ret v, h, _, hs => by
    simp only [coreS] at h
    simp only [execS]
    cases v with
    | none =>
      simp only [pure_bind_M]
      exact eX_stepM c (eM_hook c hg hobs "#value" none .noneV false .noneV hg.noneV) fun r hr => eX_done c _ hr
    | some e =>
      simp only
      refine eX_stepM c ?_ fun r hr => eX_done c _ hr
      exact eM_bind c (eraseE c hg hobs e (by simpa [coreOptE] using h) (by simpa [Stmt.assigned, optStores] using hs))
        fun x hx => eM_hook c hg hobs "#value" none x false .noneV hx
  | .pass, _, _, _ => by simp only [execS]; exact eX_done c _ trivial
  | .brk, _, _, _ => by simp only [execS]; exact eX_done c _ trivial
  | .cont, _, _, _ => by simp only [execS]; exact eX_done c _ trivial
  | .raise e, h, _, hs => by
    simp only [coreS] at h
    cases e with
    | none =>
      simp only [execS]
      intro sr sp hr
      have hh : c.envR.host = c.envP.host := rfl
      dsimp only
      rw [hr.cur, hh]
      cases hc : sp.cur with
      | nil => exact ⟨rfl, Or.inr hg.noActiveExc, hr⟩
      | cons e0 rest => exact ⟨rfl, Or.inr (hr.goodCur e0 (by rw [hc]; simp)), hr⟩
    | some e =>
      simp only [execS]
      exact eX_stepM c (eraseE c hg hobs e (by simpa [coreOptE] using h) (by simpa [Stmt.assigned, optStores] using hs))
        fun v hv => eX_done c _ (Or.inr hv)
  | .ite cnd b o, h, hnd, hs => by
    simp only [coreS, Bool.and_eq_true] at h
    simp only [noDeclS, Bool.and_eq_true] at hnd
    simp only [Stmt.assigned, List.mem_append] at hs
    have ihb := eraseB c hg hobs b h.1.2 hnd.1 (fun x hx => hs x (Or.inl (Or.inr hx)))
    have iho := eraseB c hg hobs o h.2 hnd.2 (fun x hx => hs x (Or.inr hx))
    simp only [execS]
    refine eX_stepM c (eM_truthyE c hg hobs cnd h.1.1 (fun x hx => hs x (Or.inl (Or.inl hx)))) fun t _ => ?_
    cases t
    · simpa using iho
    · simpa using ihb
  | .while cnd b o, h, hnd, hs => by
    simp only [coreS, Bool.and_eq_true] at h
    simp only [noDeclS, Bool.and_eq_true] at hnd
    simp only [Stmt.assigned, List.mem_append] at hs
    have ihb := eraseB c hg hobs b h.1.2 hnd.1 (fun x hx => hs x (Or.inl (Or.inr hx)))
    have iho := eraseB c hg hobs o h.2 hnd.2 (fun x hx => hs x (Or.inr hx))
    simp only [execS]
    exact eX_whileLoop c c.fuel (eM_truthyE c hg hobs cnd h.1.1 (fun x hx => hs x (Or.inl (Or.inl hx)))) ihb iho
  | .for t it b o, h, hnd, hs => by
    simp only [coreS, Bool.and_eq_true] at h
    simp only [noDeclS, Bool.and_eq_true] at hnd
    simp only [Stmt.assigned, List.mem_append] at hs
    have ihb := eraseB c hg hobs b h.1.2 hnd.1 (fun x hx => hs x (Or.inl (Or.inr hx)))
    have iho := eraseB c hg hobs o h.2 hnd.2 (fun x hx => hs x (Or.inr hx))
    have hln : ∀ x ∈ t.names, c.local x := fun x hx => hs x (Or.inl (Or.inl (Or.inl (Or.inl hx))))
    simp only [execS]
    refine eX_stepM c (GA := fun items => ∀ v ∈ items, c.Good v) ?_ fun items hitems => ?_
    · exact eM_bind c (eraseE c hg hobs it h.1.1.2 (fun x hx => hs x (Or.inl (Or.inl (Or.inr hx))))) fun v hv =>
        eM_liftW c _ _ fun w hw => hg.iter v w hv hw
    · refine eX_forLoop c items (fun item hitem => ?_) hitems iho
      -- one iteration: Python stores the item, then the markers, the re-binding, the body
      intro sr sp hr
      have hst := eraseT c hg hobs t h.1.1.1 (fun x hx => hs x (by
        simp only [List.mem_append] at hx
        rcases hx with hx | hx
        · exact Or.inl (Or.inl (Or.inl (Or.inl hx)))
        · exact Or.inl (Or.inl (Or.inl (Or.inr hx))))) item hitem sr sp hr
      have hbnd := binds_storeT c.envR t h.1.1.1 item sr
      unfold stepM
      rcases hmr : storeT c.envR t item sr with ⟨rr, sr1⟩
      rcases hmp : storeT c.envP t item sp with ⟨rp, sp1⟩
      rw [hmr, hmp] at hst
      rw [hmr] at hbnd
      simp only at hst hbnd
      obtain ⟨hre, hok, hrel⟩ := hst
      subst hre
      cases rr with
      | err e => exact ⟨rfl, hok, hrel⟩
      | ok u =>
        simp only
        refine eXp_tryFinally c ?_ (eX_stepM c (eM_hookMetas c hg hobs none _) fun _ _ => eX_done c _ trivial)
        -- markers (only the handler state changes on the reference side), then the re-binding
        have hm := eM_hookMetas c hg hobs none ((loopVars t).map ("#loop_" ++ ·)) sr1 sp1 hrel
        have hlp := locPres_hookMetas c.envR none ((loopVars t).map ("#loop_" ++ ·)) sr1
        refine eXp_stepM c (GA := fun _ => True) ?_ fun _ _ => ihb
        unfold EMp
        rw [postBind_envP, bind_def_M, bind_def_M]
        rcases hhr : hookMetas c.envR none ((loopVars t).map ("#loop_" ++ ·)) sr1 with ⟨r1, sr2⟩
        rcases hhp : hookMetas c.envP none ((loopVars t).map ("#loop_" ++ ·)) sp1 with ⟨r2, sp2⟩
        rw [hhr, hhp] at hm
        rw [hhr] at hlp
        simp only at hm hlp
        obtain ⟨hre2, hok2, hrel2⟩ := hm
        subst hre2
        cases r1 with
        | err e => exact ⟨rfl, hok2, hrel2⟩
        | ok u2 =>
          simp only
          obtain ⟨g1, g2, _⟩ := postBind_observer c hg hobs t.names hln sr2 sp2 hrel2
            (fun x hx => by rw [hlp]; exact hbnd u rfl x hx)
          exact ⟨g1, trivial, g2⟩
  | .try b hds o f, h, hnd, hs => by
    simp only [coreS, Bool.and_eq_true] at h
    simp only [noDeclS, Bool.and_eq_true] at hnd
    simp only [Stmt.assigned, List.mem_append] at hs
    have ihb := eraseB c hg hobs b h.1.1.1 hnd.1.1.1 (fun x hx => hs x (Or.inl (Or.inl (Or.inl hx))))
    have ihh := fun e he => eraseHL c hg hobs hds h.1.1.2 hnd.1.1.2 (fun x hx => hs x (Or.inl (Or.inl (Or.inr hx)))) e he
    have iho := eraseB c hg hobs o h.1.2 hnd.1.2 (fun x hx => hs x (Or.inl (Or.inr hx)))
    have ihf := eraseB c hg hobs f h.2 hnd.2 (fun x hx => hs x (Or.inr hx))
    simp only [execS]
    exact eX_tryFinally c (eX_tryExcept c ihb ihh iho) ihf
  | .with ctx t b, h, hnd, hs => by
    simp only [coreS, Bool.and_eq_true] at h
    simp only [noDeclS] at hnd
    simp only [Stmt.assigned, List.mem_append] at hs
    have ihb := eraseB c hg hobs b h.2 hnd (fun x hx => hs x (Or.inr hx))
    simp only [execS]
    refine eX_stepM c (GA := fun p => c.Good p.1 ∧ c.Good p.2) ?_ fun p hp => ?_
    · exact eM_bind c (eraseE c hg hobs ctx h.1.1 (fun x hx => hs x (Or.inl (Or.inl hx)))) fun cm hcm =>
        eM_bind c (eM_liftW c _ _ fun w hw => hg.enter cm w hcm hw) fun v hv => eM_pure c _ (cm, v) ⟨hcm, hv⟩
    · obtain ⟨cm, v⟩ := p
      refine eX_withBlock c hg cm hp.1 ?_
      cases t with
      | none =>
        simp only [stepM_pure]
        exact ihb
      | some t =>
        have ht : coreT t = true := by simpa [coreOptT] using h.1.2
        simp only
        refine eX_stepM c (GA := fun _ => True) ?_ fun _ _ => ihb
        exact erase_thenPost c hg hobs t.names (fun x hx => hs x (Or.inl (Or.inr (by simp [hx]))))
          (eraseT c hg hobs t ht (fun x hx => hs x (Or.inl (Or.inr (by simpa using hx)))) v hp.2)
          (binds_storeT c.envR t ht v)
  | .defn name src loads, h, _, hs => by
    simp only [coreS, Bool.and_eq_true, List.all_eq_true] at h
    have hl : c.local name := hs name (by simp [Stmt.assigned])
    simp only [execS]
    intro sr sp hr
    obtain ⟨hl1, hl2⟩ := good_lookups c hg hr loads h.2
    have key : EX c
        (stepM (liftW (c.envR.host.bindStmt src (loads.map fun x => (x, lookupV c.envP sp x)))) fun vals =>
          stepM (do setLoc name (some (vals.headD .noneV)); postBind1 c.envR name) fun _ => done .normal)
        (stepM (liftW (c.envP.host.bindStmt src (loads.map fun x => (x, lookupV c.envP sp x)))) fun vals =>
          stepM (do setLoc name (some (vals.headD .noneV)); postBind1 c.envP name) fun _ => done .normal) := by
      refine eX_stepM c (GA := fun vals => ∀ v ∈ vals, c.Good v)
        (eM_liftW c _ _ fun w hw => hg.bindStmt src _ w hl2 hw) fun vals hvals => ?_
      refine eX_stepM c (erase_setPost1 c hg hobs name _ hl ?_) fun _ _ => eX_done c _ trivial
      cases vals with
      | nil => exact hg.noneV
      | cons v0 _ => exact hvals v0 (by simp)
    have := key sr sp hr
    simp only [hl1]
    exact this
  | .cls name src loads, h, _, hs => by
    simp only [coreS, Bool.and_eq_true, List.all_eq_true] at h
    have hl : c.local name := hs name (by simp [Stmt.assigned])
    simp only [execS]
    intro sr sp hr
    obtain ⟨hl1, hl2⟩ := good_lookups c hg hr loads h.2
    have key : EX c
        (stepM (liftW (c.envR.host.bindStmt src (loads.map fun x => (x, lookupV c.envP sp x)))) fun vals =>
          stepM (do setLoc name (some (vals.headD .noneV)); postBind1 c.envR name) fun _ => done .normal)
        (stepM (liftW (c.envP.host.bindStmt src (loads.map fun x => (x, lookupV c.envP sp x)))) fun vals =>
          stepM (do setLoc name (some (vals.headD .noneV)); postBind1 c.envP name) fun _ => done .normal) := by
      refine eX_stepM c (GA := fun vals => ∀ v ∈ vals, c.Good v)
        (eM_liftW c _ _ fun w hw => hg.bindStmt src _ w hl2 hw) fun vals hvals => ?_
      refine eX_stepM c (erase_setPost1 c hg hobs name _ hl ?_) fun _ _ => eX_done c _ trivial
      cases vals with
      | nil => exact hg.noneV
      | cons v0 _ => exact hvals v0 (by simp)
    have := key sr sp hr
    simp only [hl1]
    exact this
  | .imp bound src, h, _, hs => by
    simp only [coreS, List.all_eq_true] at h
    have hl : ∀ x ∈ bound, c.local x := fun x hx => hs x (by simpa [Stmt.assigned] using hx)
    simp only [execS]
    refine eX_stepM c (GA := fun vals => ∀ v ∈ vals, c.Good v)
      (eM_liftW c _ _ fun w hw => hg.bindStmt src _ w (fun p hp => by simp at hp) hw) fun vals hvals => ?_
    refine eX_stepM c (GA := fun _ => True) ?_ fun _ _ => eX_done c _ trivial
    exact erase_thenPost c hg hobs bound hl
      (eM_forM_setLoc c _ fun p hp => ⟨hl p.1 (List.of_mem_zip hp).1, padVals_good c hg _ _ hvals p.2 (List.of_mem_zip hp).2⟩)
      (binds_forM_setLoc bound _ (padVals_length _ _))
  | .glob _, h, _, _ => by simp [coreS] at h
  | .nonloc _, h, _, _ => by simp [coreS] at h
  | .opaque .., h, _, _ => by simp [coreS] at h
theorem eraseB (c : ECtx W HS) (hg : HostGood c.host c.Good c.WInv) (hobs : Observer c.host) :
    (ss : List Stmt) → coreB ss = true → noDeclB ss = true → (∀ x ∈ Stmt.assignedL ss, c.local x) →
    EX c (execB c.envR c.fuel ss) (execB c.envP c.fuel ss)
  | [], _, _, _ => by simp only [execB_nil]; exact eX_done c _ trivial
  | s :: ss, h, hnd, hs => by
    simp only [coreB, Bool.and_eq_true] at h
    simp only [noDeclB, Bool.and_eq_true] at hnd
    simp only [Stmt.assignedL, List.mem_append] at hs
    simp only [execB_cons]
    exact eX_seqX c (eraseS c hg hobs s h.1 hnd.1 (fun x hx => hs x (Or.inl hx)))
      (eraseB c hg hobs ss h.2 hnd.2 (fun x hx => hs x (Or.inr hx)))
theorem eraseHL (c : ECtx W HS) (hg : HostGood c.host c.Good c.WInv) (hobs : Observer c.host) :
    (hds : List Handler) → coreHL hds = true → noDeclHL hds = true → (∀ x ∈ Handler.assignedL hds, c.local x) →
    ∀ e, c.Good e → EX c (execHL c.envR c.fuel hds e) (execHL c.envP c.fuel hds e)
  | [], _, _, _, e, he => by simp only [execHL]; exact eX_done c _ (Or.inr he)
  | .mk typ name body :: hds, h, hnd, hs, e, he => by
    simp only [coreHL, coreH, Bool.and_eq_true] at h
    simp only [noDeclHL, noDeclH, Bool.and_eq_true] at hnd
    simp only [Handler.assignedL, Handler.assigned, List.mem_append] at hs
    have ihb := eraseB c hg hobs body h.1.2 hnd.1 (fun x hx => hs x (Or.inl (Or.inr hx)))
    have ihh := eraseHL c hg hobs hds h.2 hnd.2 (fun x hx => hs x (Or.inr hx)) e he
    have hh2 : c.envR.host = c.envP.host := rfl
    have hte : ∀ te, typ = some te → coreE te = true := by
      intro te ht; subst ht
      have := h.1.1.1
      simpa [coreOptE] using this.1
    cases name with
    | none =>
      have hbody := eX_handlerBody c hg hobs e he none (fun n hn => by simp at hn) ihb
      simp only at hbody
      cases typ with
      | none =>
        simp only [execHL]
        exact hbody
      | some te =>
        simp only [execHL]
        refine eX_stepM c (eraseE c hg hobs te (hte te rfl)
          (fun x hx => hs x (Or.inl (Or.inl (Or.inl (by simpa [optStores] using hx)))))) fun tv _ => ?_
        rw [hh2]
        split
        · exact hbody
        · exact ihh
    | some nm =>
      have hbody := eX_handlerBody c hg hobs e he (some nm)
        (fun n hn => by
          have hnm : nm = n := by injection hn
          subst hnm
          exact hs nm (Or.inl (Or.inl (Or.inr (by simp))))) ihb
      simp only at hbody
      cases typ with
      | none =>
        simp only [execHL]
        exact hbody
      | some te =>
        simp only [execHL]
        refine eX_stepM c (eraseE c hg hobs te (hte te rfl)
          (fun x hx => hs x (Or.inl (Or.inl (Or.inl (by simpa [optStores] using hx)))))) fun tv _ => ?_
        rw [hh2]
        split
        · exact hbody
        · exact ihh
end

end Ptera.Sem
