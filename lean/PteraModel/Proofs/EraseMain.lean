import PteraModel.Proofs.EraseStmt
/-!
# Erasure, part 5: every statement of the core fragment (without bare declarations)
-/
namespace Ptera.Sem
open Ptera.Py

variable {W HS : Type}

/-! ## no bare declaration (`x: T` without a value): the documented exception of transparency -/

mutual
def noDeclS : Stmt → Bool
  | .annassign _ _ Option.none => false
  | .ite _ b o => noDeclB b && noDeclB o
  | .while _ b o => noDeclB b && noDeclB o
  | .for _ _ b o => noDeclB b && noDeclB o
  | .try b hs o f => noDeclB b && noDeclHL hs && noDeclB o && noDeclB f
  | .with _ _ b => noDeclB b
  | _ => true
def noDeclB : List Stmt → Bool
  | [] => true
  | s :: ss => noDeclS s && noDeclB ss
def noDeclH : Handler → Bool
  | .mk _ _ body => noDeclB body
def noDeclHL : List Handler → Bool
  | [] => true
  | h :: hs => noDeclH h && noDeclHL hs
end

/-! ## single steps -/

theorem erase_setPost1 (c : ECtx W HS) (hg : HostGood c.host c.Good c.WInv) (hobs : Observer c.host) (x : String)
    (v : Val) (hl : c.local x) (hv : c.Good v) :
    EM c (fun _ => True) (setLoc x (some v) >>= fun _ => postBind1 c.envR x)
      (setLoc x (some v) >>= fun _ => postBind1 c.envP x) := by
  intro sr sp h
  rw [postBind1_envP, bind_def_M, bind_def_M]
  obtain ⟨_, _, hrel⟩ := eM_setLoc c x v hl hv sr sp h
  simp only [setLoc] at hrel ⊢
  have hb : ({ sr with loc := fun y => if y = x then some v else sr.loc y } : St W HS).loc x ≠ none := by simp
  obtain ⟨g1, g2, _⟩ := postBind1_observer c hg hobs x hl _ _ hrel hb
  exact ⟨g1, trivial, g2⟩

theorem eM_truthyE (c : ECtx W HS) (hg : HostGood c.host c.Good c.WInv) (hobs : Observer c.host) (e : Expr)
    (h : coreE e = true) (hs : ∀ x ∈ e.stores, c.local x) :
    EM c (fun _ => True) (truthyE c.envR e) (truthyE c.envP e) := by
  unfold truthyE
  exact eM_bind c (eraseE c hg hobs e h hs) fun v hv => eM_liftW c _ _ fun w hw => hg.truthy v w hv hw

theorem coreT_of_assign_attr (b a : String) (h : isUser b = true) : coreT (.attr (.name b) a) = true := by
  simp [coreT, coreE, simpleE, h]

/-- one assignment target (of an assignment statement, or annotated) -/
theorem erase_assignT (c : ECtx W HS) (hg : HostGood c.host c.Good c.WInv) (hobs : Observer c.host) (t : Target)
    (ht : coreAssignT t = true) (hl : ∀ x ∈ t.names ++ t.stores, c.local x) (ann : Option Ann) (v : Val)
    (hv : c.Good v) : EM c (fun _ => True) (assignT c.envR t ann v) (assignT c.envP t ann v) := by
  cases t with
  | name x =>
    show EM c _ (hook c.envR x ann v >>= fun r => setLoc x (some r)) (hook c.envP x ann v >>= fun r => setLoc x (some r))
    exact eM_bind c (eM_hook c hg hobs x ann v false .noneV hv) fun r hr =>
      eM_setLoc c x r (hl x (by simp [Target.names])) hr
  | tuple ts =>
    simp only [coreAssignT] at ht
    show EM c _ (storeT c.envR (.tuple ts) v >>= fun _ => postBind c.envR (Target.tuple ts).names)
      (storeT c.envP (.tuple ts) v >>= fun _ => postBind c.envP (Target.tuple ts).names)
    exact erase_thenPost c hg hobs _ (fun x hx => hl x (by simp [hx]))
      (eraseT c hg hobs (.tuple ts) (by simpa [coreT] using ht) hl v hv)
      (binds_storeT c.envR (.tuple ts) (by simpa [coreT] using ht) v)
  | list ts =>
    simp only [coreAssignT] at ht
    show EM c _ (storeT c.envR (.list ts) v >>= fun _ => postBind c.envR (Target.list ts).names)
      (storeT c.envP (.list ts) v >>= fun _ => postBind c.envP (Target.list ts).names)
    exact erase_thenPost c hg hobs _ (fun x hx => hl x (by simp [hx]))
      (eraseT c hg hobs (.list ts) (by simpa [coreT] using ht) hl v hv)
      (binds_storeT c.envR (.list ts) (by simpa [coreT] using ht) v)
  | starred t => simp [coreAssignT] at ht
  | attr e a =>
    by_cases hname : ∃ b, e = .name b
    · obtain ⟨b, rfl⟩ := hname
      simp only [coreAssignT] at ht
      show EM c _ (hook c.envR b ann v true (keyVal "attr" (.str a)) >>= fun r => storeT c.envR (.attr (.name b) a) r)
        (hook c.envP b ann v true (keyVal "attr" (.str a)) >>= fun r => storeT c.envP (.attr (.name b) a) r)
      exact eM_bind c (eM_hook c hg hobs b ann v true _ hv) fun r hr =>
        eraseT c hg hobs (.attr (.name b) a) (coreT_of_assign_attr b a ht) hl r hr
    · have hn : ∀ b, e ≠ .name b := fun b hb => hname ⟨b, hb⟩
      have ht' : coreT (.attr e a) = true := by
        cases e <;> first | (exfalso; exact hn _ rfl) | simpa [coreAssignT, coreT] using ht
      rw [assignT_attr_other c.envR e a ann v hn, assignT_attr_other c.envP e a ann v hn]
      exact eraseT c hg hobs (.attr e a) ht' hl v hv
  | sub e i =>
    have hn : ∀ b, e ≠ .name b := by
      intro b hb; subst hb; simp [coreAssignT] at ht
    have ht' : coreT (.sub e i) = true := by
      cases e <;> first | (exfalso; exact hn _ rfl) | simpa [coreAssignT, coreT] using ht
    rw [assignT_sub_other c.envR e i ann v hn, assignT_sub_other c.envP e i ann v hn]
    exact eraseT c hg hobs (.sub e i) ht' hl v hv

/-- the body of an `except … as name` clause -/
theorem eX_handlerBody (c : ECtx W HS) (hg : HostGood c.host c.Good c.WInv) (hobs : Observer c.host) (e : Val)
    (he : c.Good e) (name : Option String) (hn : ∀ n, name = some n → c.local n) {br bp : Exec W HS}
    (hb : EX c br bp) :
    EX c (inHandler e name (stepM (postBind c.envR (match name with | none => [] | some n => [n])) fun _ => br))
      (inHandler e name (stepM (postBind c.envP (match name with | none => [] | some n => [n])) fun _ => bp)) := by
  intro sr sp h
  unfold inHandler
  cases name with
  | none =>
    simp only [postBind, stepM_pure]
    have h0 : ERel c [] { sr with cur := e :: sr.cur } { sp with cur := e :: sp.cur } :=
      h.congr _ _ rfl rfl h.w h.winv h.inp h.goodInp h.out (by simp [h.cur])
        (fun x hx => by
          simp only [List.mem_cons] at hx
          rcases hx with rfl | hx
          · exact he
          · exact h.goodCur x hx) h.closed
    have h1 := hb _ _ h0
    rcases har : br { sr with cur := e :: sr.cur } with ⟨kr, sr1⟩
    rcases hap : bp { sp with cur := e :: sp.cur } with ⟨kp, sp1⟩
    rw [har, hap] at h1
    simp only at h1
    obtain ⟨hre, hok, hrel⟩ := h1
    subst hre
    exact ⟨rfl, hok, hrel.congr _ _ rfl rfl hrel.w hrel.winv hrel.inp hrel.goodInp hrel.out (by simp [hrel.cur])
      (fun x hx => hrel.goodCur x (List.mem_of_mem_tail hx)) hrel.closed⟩
  | some n =>
    have hl := hn n rfl
    simp only
    -- the states in which the handler starts
    have h0 : ERel c [] { sr with cur := e :: sr.cur, loc := fun y => if y = n then some e else sr.loc y }
        { sp with cur := e :: sp.cur, loc := fun y => if y = n then some e else sp.loc y } := by
      refine ⟨h.w, h.inp, h.out, by simp [h.cur], h.closed, ?_, ?_, ?_, ?_, h.goodInp, ?_, h.winv⟩
      · intro y _
        by_cases hyn : y = n
        · subst hyn
          rw [lookupV_upd_eq c.envR sr y (some e) hl.1, lookupV_upd_eq c.envP sp y (some e) hl.2]
        · rw [lookupV_upd_ne c.envR sr n y (some e) hyn, lookupV_upd_ne c.envP sp n y (some e) hyn]
          exact h.look y (by simp)
      · intro y hy; simp at hy
      · intro y u hu
        simp only at hu
        by_cases hyn : y = n
        · simp [hyn] at hu; subst hu; exact he
        · simp [hyn] at hu; exact h.goodLoc y u hu
      · intro y u hu
        simp only at hu
        by_cases hyn : y = n
        · simp [hyn] at hu; subst hu; exact he
        · simp [hyn] at hu; exact h.goodLocR y u hu
      · intro x hx
        simp only [List.mem_cons] at hx
        rcases hx with rfl | hx
        · exact he
        · exact h.goodCur x hx
    have hbnd : ∀ x ∈ [n], ({ sr with cur := e :: sr.cur, loc := fun y => if y = n then some e else sr.loc y } : St W HS).loc x ≠ none := by
      intro x hx; simp only [List.mem_singleton] at hx; subst hx; simp
    obtain ⟨g1, g2, _⟩ := postBind_observer c hg hobs [n] (fun x hx => by simp at hx; subst hx; exact hl) _ _ h0 hbnd
    rw [postBind_envP, stepM_pure]
    unfold stepM
    rcases hpb : postBind c.envR [n] { sr with cur := e :: sr.cur, loc := fun y => if y = n then some e else sr.loc y } with ⟨r, sr0⟩
    rw [hpb] at g1 g2
    simp only at g1 g2
    subst g1
    simp only
    have h1 := hb _ _ g2
    rcases har : br sr0 with ⟨kr, sr1⟩
    rcases hap : bp { sp with cur := e :: sp.cur, loc := fun y => if y = n then some e else sp.loc y } with ⟨kp, sp1⟩
    rw [har, hap] at h1
    simp only at h1
    obtain ⟨hre, hok, hrel⟩ := h1
    subst hre
    refine ⟨rfl, hok, ⟨hrel.w, hrel.inp, hrel.out, by simp [hrel.cur], hrel.closed, ?_, ?_, ?_, ?_, hrel.goodInp, ?_, hrel.winv⟩⟩
    · intro y _
      by_cases hyn : y = n
      · subst hyn
        rw [lookupV_upd_eq c.envR sr1 y none hl.1, lookupV_upd_eq c.envP sp1 y none hl.2]
      · rw [lookupV_upd_ne c.envR sr1 n y none hyn, lookupV_upd_ne c.envP sp1 n y none hyn]
        exact hrel.look y (by simp)
    · intro y hy; simp at hy
    · intro y u hu
      simp only at hu
      by_cases hyn : y = n
      · simp [hyn] at hu
      · simp [hyn] at hu; exact hrel.goodLoc y u hu
    · intro y u hu
      simp only at hu
      by_cases hyn : y = n
      · simp [hyn] at hu
      · simp [hyn] at hu; exact hrel.goodLocR y u hu
    · intro x hx
      exact hrel.goodCur x (List.mem_of_mem_tail hx)

end Ptera.Sem
