import PteraModel.Proofs.SimExpr
/-!
# Simulation, part 3: assignment targets, and the algebra of the statement combinators
-/
namespace Ptera.Sem
open Ptera.Py

variable {W HS : Type}

/-! ## algebra -/

theorem stepM_bind {α β} (m : M W HS α) (f : α → M W HS β) (k : β → Exec W HS) :
    stepM (m >>= f) k = stepM m (fun a => stepM (f a) k) := by
  funext st
  show stepM (M.bind m f) k st = _
  unfold stepM M.bind
  rcases m st with ⟨r, st1⟩
  cases r <;> rfl

theorem stepM_pure {α} (a : α) (k : α → Exec W HS) : stepM (pure a) k = k a := by
  funext st; rfl

theorem seqX_stepM {α} (m : M W HS α) (k : α → Exec W HS) (b : Exec W HS) :
    seqX (stepM m k) b = stepM m (fun a => seqX (k a) b) := by
  funext st
  unfold seqX stepM
  rcases m st with ⟨r, st1⟩
  cases r <;> rfl

theorem seqX_done_normal (b : Exec W HS) : seqX (done .normal) b = b := by
  funext st; rfl

theorem seqX_normal_right (a : Exec W HS) : seqX a (done .normal) = a := by
  funext st
  unfold seqX done
  rcases a st with ⟨k, st1⟩
  cases k <;> rfl

theorem seqX_assoc (a b d : Exec W HS) : seqX (seqX a b) d = seqX a (seqX b d) := by
  funext st
  unfold seqX
  rcases a st with ⟨k, st1⟩
  cases k <;> rfl

theorem execB_cons (env : Env W HS) (fuel : Nat) (s : Stmt) (ss : List Stmt) :
    execB env fuel (s :: ss) = seqX (execS env fuel s) (execB env fuel ss) := by
  simp [execB]

theorem execB_nil (env : Env W HS) (fuel : Nat) : execB env fuel [] = done .normal := by
  simp [execB]

theorem execB_append (env : Env W HS) (fuel : Nat) (a b : List Stmt) :
    execB env fuel (a ++ b) = seqX (execB env fuel a) (execB env fuel b) := by
  induction a with
  | nil => simp [execB_nil, seqX_done_normal]
  | cons s ss ih => simp [execB_cons, ih, seqX_assoc]

theorem execB_single (env : Env W HS) (fuel : Nat) (s : Stmt) :
    execB env fuel [s] = execS env fuel s := by
  simp [execB_cons, execB_nil, seqX_normal_right]

theorem tryFinally_skip (a : Exec W HS) : tryFinally a (done .normal) = a := by
  funext st
  unfold tryFinally done
  rcases a st with ⟨k, st1⟩
  simp only
  split <;> rfl

theorem tryExcept_none (a : Exec W HS) : tryExcept a (fun e => done (.exc e)) (done .normal) = a := by
  funext st
  unfold tryExcept done
  rcases a st with ⟨k, st1⟩
  cases k <;> simp

/-! ## without hooks, the reference-only steps vanish -/

theorem postBind1_envI (c : Ctx W HS) (x : String) : postBind1 c.envI x = pure () := by
  unfold postBind1; simp [Ctx.envI]

theorem postBind_envI (c : Ctx W HS) : (xs : List String) → postBind c.envI xs = pure ()
  | [] => by simp [postBind]
  | x :: xs => by simp [postBind, postBind1_envI, postBind_envI c xs]

theorem hookMeta_envI (c : Ctx W HS) (x : String) (ann : Option Ann) (v : Val) :
    hookMeta c.envI x ann v = pure () := by
  unfold hookMeta; simp [Ctx.envI]

theorem hookMetas_envI (c : Ctx W HS) (ann : Option Ann) : (xs : List String) → hookMetas c.envI ann xs = pure ()
  | [] => by simp [hookMetas]
  | x :: xs => by simp [hookMetas, hookMeta_envI, hookMetas_envI c ann xs]

/-! ## targets -/

mutual
def coreT : Target → Bool
  | .name x => isUser x
  | .tuple ts => coreTL ts
  | .list ts => coreTL ts
  | .starred t => coreT t
  | .attr e _ => coreE e && simpleE e
  | .sub e i => coreE e && simpleE e && coreE i && simpleE i
def coreTL : List Target → Bool
  | [] => true
  | t :: ts => coreT t && coreTL ts
end

mutual
/-- the rewriter leaves a target of the fragment alone: the expressions inside of it are simple -/
theorem instrT_core (cfg : Cfg) : (t : Target) → coreT t = true → instrT cfg t = t
  | .name x, _ => by simp [instrT]
  | .tuple ts, h => by simp only [coreT] at h; simp [instrT, instrTL_core cfg ts h]
  | .list ts, h => by simp only [coreT] at h; simp [instrT, instrTL_core cfg ts h]
  | .starred t, h => by simp only [coreT] at h; simp [instrT, instrT_core cfg t h]
  | .attr e a, h => by
    simp only [coreT, Bool.and_eq_true] at h
    simp [instrT, instrE_simple cfg e h.2]
  | .sub e i, h => by
    simp only [coreT, Bool.and_eq_true] at h
    simp [instrT, instrE_simple cfg e h.1.1.2, instrE_simple cfg i h.2]
theorem instrTL_core (cfg : Cfg) : (ts : List Target) → coreTL ts = true → instrTL cfg ts = ts
  | [], _ => by simp [instrTL]
  | t :: ts, h => by
    simp only [coreTL, Bool.and_eq_true] at h
    simp [instrTL, instrT_core cfg t h.1, instrTL_core cfg ts h.2]
end

/-- evaluating an expression the rewriter leaves alone -/
theorem simE_simple (c : Ctx W HS) (lib : LibSpec c) (e : Expr) (h : coreE e = true) (hs : simpleE e = true)
    (hst : ∀ x ∈ e.stores, c.scoped x) : RelM c (evalE c.envI e) (evalE c.envR e) := by
  have := simE c lib e h hst
  rwa [instrE_simple c.cfg e hs] at this

mutual
theorem simStoreT (c : Ctx W HS) (lib : LibSpec c) : (t : Target) → coreT t = true →
    (∀ x ∈ t.names ++ t.stores, c.scoped x) → ∀ v, RelM c (storeT c.envI t v) (storeT c.envR t v)
  | .name x, h, hs, v => by
    simp only [coreT] at h
    simp only [storeT]
    exact relM_setLoc c x (some v) (hs x (by simp [Target.names])) h
  | .tuple ts, h, hs, v => by
    simp only [coreT] at h
    simp only [storeT]
    refine relM_bind c (relM_liftW c _) fun items => ?_
    split
    · exact simStoreTL c lib ts h (by simpa [Target.names, Target.stores] using hs) items
    · exact relM_throw c _
  | .list ts, h, hs, v => by
    simp only [coreT] at h
    simp only [storeT]
    refine relM_bind c (relM_liftW c _) fun items => ?_
    split
    · exact simStoreTL c lib ts h (by simpa [Target.names, Target.stores] using hs) items
    · exact relM_throw c _
  | .starred t, h, hs, v => by
    simp only [coreT] at h
    simp only [storeT]
    exact simStoreT c lib t h (by simpa [Target.names, Target.stores] using hs) v
  | .attr e a, h, hs, v => by
    simp only [coreT, Bool.and_eq_true] at h
    simp only [storeT]
    exact relM_bind c (simE_simple c lib e h.1 h.2 (fun x hx => hs x (by simp [Target.names, Target.stores, hx])))
      fun o => relM_liftW c _
  | .sub e i, h, hs, v => by
    simp only [coreT, Bool.and_eq_true] at h
    simp only [storeT]
    exact relM_bind c (simE_simple c lib e h.1.1.1 h.1.1.2 (fun x hx => hs x (by simp [Target.names, Target.stores, hx])))
      fun o => relM_bind c (simE_simple c lib i h.1.2 h.2 (fun x hx => hs x (by simp [Target.names, Target.stores, hx])))
        fun k => relM_liftW c _
theorem simStoreTL (c : Ctx W HS) (lib : LibSpec c) : (ts : List Target) → coreTL ts = true →
    (∀ x ∈ Target.namesL ts ++ Target.storesL ts, c.scoped x) → ∀ items,
    RelM c (storeTL c.envI ts items) (storeTL c.envR ts items)
  | [], _, _, items => by simp only [storeTL]; exact relM_pure c _
  | .starred t :: ts, h, hs, items => by
    simp only [coreTL, coreT, Bool.and_eq_true] at h
    simp only [storeTL]
    exact relM_bind c (simStoreT c lib t h.1 (fun x hx => hs x (by
        simp only [Target.namesL, Target.storesL, Target.names, Target.stores, List.mem_append] at hx ⊢
        rcases hx with hx | hx <;> simp [hx])) _) fun _ =>
      simStoreTL c lib ts h.2 (fun x hx => hs x (by
        simp only [Target.namesL, Target.storesL, List.mem_append] at hx ⊢
        rcases hx with hx | hx <;> simp [hx])) _
  | .name x :: ts, h, hs, items => by
    cases items with
    | nil => simp only [storeTL]; exact relM_throw c _
    | cons v vs =>
      simp only [coreTL, Bool.and_eq_true] at h
      simp only [storeTL]
      exact relM_bind c (simStoreT c lib (.name x) h.1 (fun y hy => hs y (by
          simp only [Target.namesL, Target.storesL, List.mem_append] at hy ⊢
          rcases hy with hy | hy <;> simp [hy])) v) fun _ =>
        simStoreTL c lib ts h.2 (fun y hy => hs y (by
          simp only [Target.namesL, Target.storesL, List.mem_append] at hy ⊢
          rcases hy with hy | hy <;> simp [hy])) vs
  | .tuple us :: ts, h, hs, items => by
    cases items with
    | nil => simp only [storeTL]; exact relM_throw c _
    | cons v vs =>
      simp only [coreTL, Bool.and_eq_true] at h
      simp only [storeTL]
      exact relM_bind c (simStoreT c lib (.tuple us) h.1 (fun y hy => hs y (by
          simp only [Target.namesL, Target.storesL, List.mem_append] at hy ⊢
          rcases hy with hy | hy <;> simp [hy])) v) fun _ =>
        simStoreTL c lib ts h.2 (fun y hy => hs y (by
          simp only [Target.namesL, Target.storesL, List.mem_append] at hy ⊢
          rcases hy with hy | hy <;> simp [hy])) vs
  | .list us :: ts, h, hs, items => by
    cases items with
    | nil => simp only [storeTL]; exact relM_throw c _
    | cons v vs =>
      simp only [coreTL, Bool.and_eq_true] at h
      simp only [storeTL]
      exact relM_bind c (simStoreT c lib (.list us) h.1 (fun y hy => hs y (by
          simp only [Target.namesL, Target.storesL, List.mem_append] at hy ⊢
          rcases hy with hy | hy <;> simp [hy])) v) fun _ =>
        simStoreTL c lib ts h.2 (fun y hy => hs y (by
          simp only [Target.namesL, Target.storesL, List.mem_append] at hy ⊢
          rcases hy with hy | hy <;> simp [hy])) vs
  | .attr e a :: ts, h, hs, items => by
    cases items with
    | nil => simp only [storeTL]; exact relM_throw c _
    | cons v vs =>
      simp only [coreTL, Bool.and_eq_true] at h
      simp only [storeTL]
      exact relM_bind c (simStoreT c lib (.attr e a) h.1 (fun y hy => hs y (by
          simp only [Target.namesL, Target.storesL, List.mem_append] at hy ⊢
          rcases hy with hy | hy <;> simp [hy])) v) fun _ =>
        simStoreTL c lib ts h.2 (fun y hy => hs y (by
          simp only [Target.namesL, Target.storesL, List.mem_append] at hy ⊢
          rcases hy with hy | hy <;> simp [hy])) vs
  | .sub e i :: ts, h, hs, items => by
    cases items with
    | nil => simp only [storeTL]; exact relM_throw c _
    | cons v vs =>
      simp only [coreTL, Bool.and_eq_true] at h
      simp only [storeTL]
      exact relM_bind c (simStoreT c lib (.sub e i) h.1 (fun y hy => hs y (by
          simp only [Target.namesL, Target.storesL, List.mem_append] at hy ⊢
          rcases hy with hy | hy <;> simp [hy])) v) fun _ =>
        simStoreTL c lib ts h.2 (fun y hy => hs y (by
          simp only [Target.namesL, Target.storesL, List.mem_append] at hy ⊢
          rcases hy with hy | hy <;> simp [hy])) vs
end

mutual
theorem coreT_names_user : (t : Target) → coreT t = true → ∀ x ∈ t.names, isUser x = true
  | .name y, h, x, hx => by
    simp only [Target.names, List.mem_singleton] at hx
    subst hx; simpa [coreT] using h
  | .tuple ts, h, x, hx => coreTL_names_user ts (by simpa [coreT] using h) x (by simpa [Target.names] using hx)
  | .list ts, h, x, hx => coreTL_names_user ts (by simpa [coreT] using h) x (by simpa [Target.names] using hx)
  | .starred t, h, x, hx => coreT_names_user t (by simpa [coreT] using h) x (by simpa [Target.names] using hx)
  | .attr _ _, _, x, hx => by simp [Target.names] at hx
  | .sub _ _, _, x, hx => by simp [Target.names] at hx
theorem coreTL_names_user : (ts : List Target) → coreTL ts = true → ∀ x ∈ Target.namesL ts, isUser x = true
  | [], _, x, hx => by simp [Target.namesL] at hx
  | t :: ts, h, x, hx => by
    simp only [coreTL, Bool.and_eq_true] at h
    simp only [Target.namesL, List.mem_append] at hx
    rcases hx with hx | hx
    · exact coreT_names_user t h.1 x hx
    · exact coreTL_names_user ts h.2 x hx
end

/-! ## `generate_interactions` against `postBind` -/

mutual
theorem genInteractions_names (cfg : Cfg) : (t : Target) →
    genInteractions cfg t = t.names.flatMap (genName cfg)
  | .name x => by simp [genInteractions, Target.names, genName]
  | .tuple ts => by simp [genInteractions, Target.names, genInteractionsL_names cfg ts]
  | .list ts => by simp [genInteractions, Target.names, genInteractionsL_names cfg ts]
  | .starred t => by simp [genInteractions, Target.names, genInteractions_names cfg t]
  | .attr _ _ => by simp [genInteractions, Target.names]
  | .sub _ _ => by simp [genInteractions, Target.names]
theorem genInteractionsL_names (cfg : Cfg) : (ts : List Target) →
    genInteractionsL cfg ts = (Target.namesL ts).flatMap (genName cfg)
  | [] => by simp [genInteractionsL, Target.namesL]
  | t :: ts => by
    simp [genInteractionsL, Target.namesL, genInteractions_names cfg t, genInteractionsL_names cfg ts]
end

/-- `x = interact('x', None, None, x, True)` (or `x = x`) is the reference semantics' re-binding -/
theorem sim_genName (c : Ctx W HS) (x : String) (hx : isUser x = true) (hs : c.scoped x) :
    RelX c (execB c.envI c.fuel (genName c.cfg x)) (stepM (postBind1 c.envR x) fun _ => done .normal) := by
  simp only [genName, genInteractions, execB_single, execS, eval_interactE, assignTs, assignT, hook_envI,
    evalE, stepM_bind, stepM_pure, pure_bind_M]
  have e : postBind1 c.envR x = (lookup c.envR x >>= fun v => hook c.envR x none v >>= fun r => setLoc x (some r)) := by
    unfold postBind1; simp [Ctx.envR]
  rw [e]
  simp only [stepM_bind, hook_envR]
  refine relX_stepM c (relM_lookup c x hx) fun v => ?_
  refine relX_stepM c (relM_maybe c x .noneV none v true false false) fun r => ?_
  exact relX_stepM c (relM_setLoc c x (some r) hs hx) fun _ => relX_done c _

theorem sim_genNames (c : Ctx W HS) : (xs : List String) → (∀ x ∈ xs, isUser x = true ∧ c.scoped x) →
    RelX c (execB c.envI c.fuel (xs.flatMap (genName c.cfg))) (stepM (postBind c.envR xs) fun _ => done .normal)
  | [], _ => by simp [execB_nil, postBind, stepM_pure]; exact relX_done c _
  | x :: xs, h => by
    simp only [List.flatMap_cons, execB_append, postBind, stepM_bind]
    have h1 := sim_genName c x (h x (by simp)).1 (h x (by simp)).2
    have h2 := sim_genNames c xs (fun y hy => h y (by simp [hy]))
    have := relX_seqX c h1 h2
    rwa [seqX_stepM, show (fun (a : Unit) => seqX (done .normal) (stepM (postBind c.envR xs) fun _ => done .normal))
      = (fun _ => stepM (postBind c.envR xs) fun _ => done .normal) from by funext a; rw [seqX_done_normal]] at this

end Ptera.Sem
