import Lean.Data.Json
import PteraModel.Model.Handlers
/-! line-protocol handlers for the matching runtime M3 -/
namespace Ptera.Driver.Handlers
open Lean Ptera.Handlers

def optStr (j : Json) (k : String) : Option String := (j.getObjValAs? String k).toOption
def getBool (j : Json) (k : String) : Bool := ((j.getObjVal? k).toOption.bind (·.getBool?.toOption)).getD false
def getInt (j : Json) (k : String) : Int := ((j.getObjVal? k).toOption.bind (·.getInt?.toOption)).getD 0
def getNat (j : Json) (k : String) : Nat := ((j.getObjVal? k).toOption.bind (·.getNat?.toOption)).getD 0
def getArr (j : Json) (k : String) : List Json :=
  match j.getObjVal? k with
  | .ok (.arr a) => a.toList
  | _ => []

def valOf (j : Json) : Val := { v := getInt j "v", oid := getNat j "oid" }
def optVal (j : Json) (k : String) : Option Val :=
  match j.getObjVal? k with
  | .ok .null => none
  | .ok o => some (valOf o)
  | .error _ => none

def catOf (j : Json) : Cat :=
  match j with
  | .null => .none
  | .str "other" => .other
  | .arr a => .tags (a.toList.filterMap fun x => x.getStr?.toOption)
  | _ => .other

def predOf (j : Json) : Pred :=
  match optStr j "p" with
  | some "every" => .every (getInt j "n") (getInt j "start")
      (match j.getObjVal? "stop" with | .ok .null => none | .ok x => x.getInt?.toOption | _ => none)
  | some "between" => .between (getInt j "a") (getInt j "b")
  | some "lt" => .lt (getInt j "a")
  | some "gt" => .gt (getInt j "a")
  | some "lte" => .lte (getInt j "a")
  | _ => .gte (getInt j "a")

def condOf (j : Json) : Option Cond :=
  match j with
  | .null => none
  | j =>
    match optStr j "c" with
    | some "eq" => some (.eq (valOf j))
    | some "is" => some (.is_ (valOf j))
    | some "pred" => some (.pred (predOf j))
    | _ => none

def elOf (j : Json) : El :=
  { name := optStr j "name", category := optStr j "category", capture := (optStr j "capture").getD "",
    focus := getBool j "focus", tag2 := getBool j "tag2",
    value := condOf (j.getObjValD "value") }

partial def selOf (j : Json) : Sel :=
  .mk ((j.getObjVal? "fn").toOption.bind (·.getNat?.toOption)) (optStr j "fcat")
    ((getArr j "captures").map elOf) ((getArr j "children").map selOf) (getBool j "immediate")

def overrideOf (j : Json) : Option Override :=
  match j with
  | .null => none
  | j =>
    match optStr j "o" with
    | some "const" => some (.const (getInt j "v"))
    | some "addTo" => some (.addTo ((optStr j "cap").getD "") (getInt j "k"))
    | some "ifEq" => some (.ifEq ((optStr j "cap").getD "") (getInt j "v") (getInt j "res"))
    | _ => none

def handlerOf (j : Json) : Handler :=
  { kind := if optStr j "kind" == some "total" then .total else .immediate,
    sel := selOf (j.getObjValD "sel"), hasTrigger := getBool j "trigger",
    intercept := overrideOf (j.getObjValD "intercept"), hasClose := getBool j "close" }

def infoOf (j : Json) : FnInfo :=
  { vars := (getArr j "vars").filterMap fun p => match p with
      | .arr #[n, c] => n.getStr?.toOption.map fun s => (s, catOf c)
      | _ => none,
    ret := catOf (j.getObjValD "ret") }

partial def trOf (j : Json) : Tr :=
  .node (getNat j "fn") ((getArr j "items").map fun it =>
    match it.getObjVal? "call" with
    | .ok t => Sum.inr (trOf t)
    | .error _ =>
      Sum.inl { name := (optStr it "name").getD "", cat := catOf (it.getObjValD "cat"),
                value := optVal it "value",
                overridable := ((it.getObjVal? "overridable").toOption.bind (·.getBool?.toOption)).getD true })

def capToJson (c : Capture) : Json :=
  Json.mkObj [("names", Json.arr (c.names.map Json.str).toArray),
              ("values", Json.arr (c.values.map fun v => Json.mkObj [("v", v.v), ("oid", v.oid)]).toArray)]

/-- canonical: keys sorted -/
def snapToJson (s : Snapshot) : Json :=
  Json.mkObj (s.map fun (k, c) => (k, capToJson c))

def evToJson : Event → Json
  | .trigger h a => Json.mkObj [("ev", "trigger"), ("h", h), ("args", snapToJson a)]
  | .intercept h a r => Json.mkObj [("ev", "intercept"), ("h", h), ("args", snapToJson a),
      ("reply", match r with | some x => Json.num (JsonNumber.fromInt x) | none => Json.null)]
  | .close h a => Json.mkObj [("ev", "close"), ("h", h), ("args", snapToJson a)]

def errToJson : Option RErr → Json
  | none => .null
  | some (.overrideException v) => Json.mkObj [("err", "OverrideException"), ("var", v)]
  | some (.pteraNameError v) => Json.mkObj [("err", "PteraNameError"), ("var", v)]
  | some .userRaise => Json.mkObj [("err", "Boom")]
  | some .badHeap => Json.mkObj [("err", "model-bad-heap")]

/-- {"op":"tagmatch","name":..,"category":..,"var":..,"cat":..} -> check_element / match_tag -/
def handleTag (j : Json) : Json :=
  Json.mkObj [("match", matchTag (optStr j "category") (catOf (j.getObjValD "cat"))),
              ("check", checkElement (optStr j "name") (optStr j "category") ((optStr j "var").getD "")
                          (catOf (j.getObjValD "cat")))]

def handle (j : Json) : Json :=
  let handlers := ((getArr j "handlers").map handlerOf).toArray
  let infos := ((getArr j "infos").map infoOf).toArray
  let trees := (getArr j "trees").map trOf
  let (evs, err) := runAll handlers infos trees
  Json.mkObj [("events", Json.arr (evs.map evToJson).toArray), ("error", errToJson err)]

end Ptera.Driver.Handlers
