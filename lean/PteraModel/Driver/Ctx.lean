import Lean.Data.Json
import PteraModel.Model.Ctx
/-! line-protocol handler for the generator-context model -/
namespace Ptera.Driver.Ctx
open Lean Ptera.Ctx

def getArr (j : Json) (k : String) : List Json :=
  match j.getObjVal? k with
  | .ok (.arr a) => a.toList
  | _ => []

def opOf (j : Json) : Op :=
  let n k := ((j.getObjVal? k).toOption.bind (·.getNat?.toOption)).getD 0
  match (j.getObjValAs? String "op").toOption.getD "" with
  | "enter" => .enter (n "o")
  | "leave" => .leave (n "o")
  | "next" => .next (n "g")
  | "close" => .close (n "g")
  | "drop" => .drop (n "g")
  | _ => .call

def ctxToJson (c : CtxVal) : Json :=
  Json.mkObj [("overlays", Json.arr (c.overlays.map fun (x : Nat) => (x : Json)).toArray),
              ("inside", Json.arr (c.inside.map fun (x : Nat) => (x : Json)).toArray)]

def handle (j : Json) : Json :=
  let gens := (getArr j "gens").map fun r => ({ remaining := (r.getNat?.toOption).getD 0 } : Gen)
  let ops := (getArr j "ops").map opOf
  Json.arr ((trace { gens := gens } ops).map fun (s, o) =>
    Json.mkObj [("current", ctxToJson s.current),
                ("out", match o with | .none => Json.null | .ranUnder c => ctxToJson c)]).toArray

end Ptera.Driver.Ctx
