import Lean.Data.Json
import PteraModel.Model.PyRun
import PteraModel.Model.PyLiteHost
import PteraModel.Driver.Rewrite
import PteraModel.Proofs.SimFun
/-! line-protocol handler: run a PyLite function in the model interpreter with the PyLite host -/
namespace Ptera.Driver.Exec
open Lean Ptera.Py Ptera.Sem Ptera.Sem.PyLite

partial def valJ : Val → Json
  | .int n => Json.num (JsonNumber.fromInt n)
  | .str s => Json.str s
  | .noneV => Json.null
  | .bool b => Json.bool b
  | .tuple vs => Json.arr (vs.map valJ).toArray
  | .list vs => Json.arr (vs.map valJ).toArray
  | .obj "exc" (.str c :: args) => Json.mkObj [("exc", c), ("args", Json.arr (args.map valJ).toArray)]
  | .obj kind _ => Json.mkObj [("obj", kind)]
  | .absent => Json.mkObj [("absent", true)]

def ctlJ : Ctl → Json
  | .normal => Json.arr #["normal"]
  | .brk => Json.arr #["break"]
  | .cont => Json.arr #["continue"]
  | .ret v => Json.arr #["ret", valJ v]
  | .exc e => Json.arr #["exc", valJ e]

def intOf (j : Json) : Int := (j.getInt?.toOption).getD 0

def cmdOf (j : Json) : GenCmd :=
  match j with
  | .arr a =>
    match (a[0]?.bind (·.getStr?.toOption)).getD "" with
    | "send" => match a[1]?.getD .null with
      | .null => .send .noneV
      | v => .send (.int (intOf v))
    | "throw" => .throw (exc "Boom" [.int (intOf (a[1]?.getD .null))])
    | _ => .send .noneV
  | _ => .send .noneV

def handle (j : Json) : Json :=
  match Rewrite.funOf (j.getObjValD "fn") with
  | .error e => Json.mkObj [("err", e)]
  | .ok f =>
    let cfg := Rewrite.cfgOf (j.getObjValD "cfg")
    let mode := (j.getObjValAs? String "mode").toOption.getD "plain"
    let args : List Val := match j.getObjValD "args" with
      | .arr a => a.toList.map fun x => .int (intOf x)
      | _ => []
    let script : List Bool := match j.getObjValD "script" with
      | .arr a => a.toList.map fun x => x.getBool?.toOption.getD false
      | _ => []
    let inp : List GenCmd := match j.getObjValD "inp" with
      | .arr a => a.toList.map cmdOf
      | _ => []
    let fuel := ((j.getObjVal? "fuel").toOption.bind (·.getNat?.toOption)).getD 50
    let ovr : Option (String × Int) := match j.getObjValD "override" with
      | .arr a => some ((a[0]?.bind (·.getStr?.toOption)).getD "", intOf (a[1]?.getD .null))
      | _ => none
    let params := f.params.map (·.name)
    let st0 (extra : List (String × Val)) : St World HState :=
      { loc := initLoc params args extra, w := { script := script }, hs := { override := ovr },
        inp := inp, out := [], cur := [] }
    let (c, st) : Ctl × St World HState :=
      match mode with
      | "plain" => runRef { host := host, sc := scopeOf f, hk := none } fuel f (st0 [])
      | "ref" => runRef { host := host, sc := scopeRef cfg f, hk := some cfg } fuel f (st0 [])
      | _ => runInstr { host := host, sc := scopeInstr f, hk := none } fuel (instrument cfg f)
               (st0 [])
    Json.mkObj [
      ("ctl", ctlJ c),
      ("log", Json.arr (st.w.log.map valJ).toArray),
      ("out", Json.arr (st.out.map valJ).toArray),
      ("obj", Json.arr #[valJ st.w.oa, valJ st.w.ob,
        Json.arr (st.w.items.map fun p => Json.arr #[valJ p.1, valJ p.2]).toArray]),
      ("events", Json.arr (st.hs.events.map fun i =>
        Json.arr #[Json.str i.name, valJ i.value, valJ i.key, valJ i.ann, Json.bool i.ovr]).toArray),
      ("inp_left", st.inp.length),
      ("core", coreF f)]

end Ptera.Driver.Exec
