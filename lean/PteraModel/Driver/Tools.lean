import Lean.Data.Json
import PteraModel.Generated.Tools
/-! line-protocol handlers for the translated `tools.py` -/
namespace Ptera.Driver.Tools
open Lean Ptera.PyVal Ptera.Generated.Tools

def pyOfJson : Json → PyV
  | .null => .none
  | .bool b => .bool b
  | j => match j.getInt? with
    | .ok i => .int i
    | .error _ => .none

def pyToJson : PyV → Json
  | .none => .null
  | .bool b => .bool b
  | .int i => Json.num (JsonNumber.fromInt i)

def resToJson (r : PyM PyV) : Json :=
  match r with
  | .ok v => Json.mkObj [("ok", pyToJson v)]
  | .error .typeError => Json.mkObj [("err", "TypeError")]
  | .error .zeroDivision => Json.mkObj [("err", "ZeroDivisionError")]

def arg (j : Json) (k : String) : PyV := pyOfJson (j.getObjValD k)

/-- {"op":"tools","fn":"every","modulo":..,"start":..,"end":..,"v":..} -/
def handle (j : Json) : Json :=
  let fn := (j.getObjValAs? String "fn").toOption.getD ""
  let v := arg j "v"
  match fn with
  | "every" => resToJson (((every (arg j "modulo") (arg j "start") (arg j "end")).call v).map Prod.fst)
  | "between" => resToJson (((between (arg j "start") (arg j "end") (arg j "modulo")).call v).map Prod.fst)
  | "lt" => resToJson (lt (arg j "a") v)
  | "gt" => resToJson (gt (arg j "a") v)
  | "lte" => resToJson (lte (arg j "a") v)
  | "gte" => resToJson (gte (arg j "a") v)
  | "throttle" =>
    -- "vs": list of values fed to one throttle(period) object; answers the list of results
    let vs := match j.getObjValD "vs" with
      | .arr a => a.toList.map pyOfJson
      | _ => []
    let rec go (t : throttle) (vs : List PyV) (acc : List Json) : List Json :=
      match vs with
      | [] => acc.reverse
      | x :: xs =>
        match t.call x with
        | .ok (r, t') => go t' xs (pyToJson r :: acc)
        | .error _ => (Json.str "error" :: acc).reverse
    Json.mkObj [("ok", Json.arr (go (throttle.init (arg j "period")) vs []).toArray)]
  | _ => Json.mkObj [("err", "bad-op")]

end Ptera.Driver.Tools
