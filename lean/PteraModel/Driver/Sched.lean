import Lean.Data.Json
import PteraModel.Generated.Steps
/-! line-protocol handler for the thread-interleaving model -/
namespace Ptera.Driver.Sched
open Lean Ptera.Sched Ptera.Generated.Steps

def natArr (j : Json) : List Nat :=
  match j with
  | .arr a => a.toList.filterMap fun x => x.getNat?.toOption
  | _ => []

/-- the first source line of every merged group of a generated program -/
def groupLines (lines : List (String × Nat × List Step)) : List (String × Nat) :=
  (lines.foldl (fun (acc : List (String × Nat)) (f, n, g) =>
    match acc with
    | _ :: _ => if g == [Step.release] then acc else (f, n) :: acc
    | [] => [(f, n)]) []).reverse

def shJson (sh : Shared) : Json :=
  Json.mkObj [("stack", sh.stackExists), ("count", sh.count),
              ("caps", Json.arr (sh.caps.eraseDups.map fun (c : Nat) => Json.arr #[c, sh.caps.count c]).toArray),
              ("orig", sh.code.isNone), ("info", sh.info),
              ("code", match sh.code with | none => Json.null | some l => Json.arr (l.map fun (x : Nat) => (x : Json)).toArray)]

/-- follow a schedule, reporting which choices were enabled and the shared state after each -/
def follow (s : State) : List Nat → List (Nat × Bool × Nat × Shared)
  | [] => []
  | t :: rest =>
    let remaining := ((s.threads[t]?).map (·.prog.length)).getD 0
    match stepThread s t with
    | some s' => (t, true, remaining, s'.sh) :: follow s' rest
    | none => (t, false, remaining, s.sh) :: follow s rest

def handleRun (j : Json) : Json :=
  let owns := match j.getObjValD "owns" with
    | .arr a => a.toList.map natArr
    | _ => []
  let sched := natArr (j.getObjValD "schedule")
  let tool := mergeRelease (toolerLines.map (·.2.2))
  let untool := mergeRelease (untoolerLines.map (·.2.2))
  let s0 := initStateB tool untool (bystanderLines.map (·.2.2)) owns
  let fin := exec s0 sched
  Json.mkObj [
    ("steps", Json.arr ((follow s0 sched).map fun (t, en, remaining, sh) =>
      Json.mkObj [("t", t), ("enabled", en), ("pc", (((s0.threads[t]?).map (·.prog.length)).getD 0) - remaining),
                  ("sh", shJson sh)]).toArray),
    ("finished", finished fin), ("good", good fin),
    ("raised", Json.arr (fin.threads.map fun th => (th.raised : Json)).toArray),
    ("covered", Json.arr (fin.threads.map fun th => Json.arr (th.covered.map fun (b : Bool) => (b : Json)).toArray).toArray)]

def handle (j : Json) : Json :=
  let owns := match j.getObjValD "owns" with
    | .arr a => a.toList.map natArr
    | _ => []
  let fuel := ((j.getObjVal? "fuel").toOption.bind (·.getNat?.toOption)).getD 200
  let tool := mergeRelease (toolerLines.map (·.2.2))
  let untool := mergeRelease (untoolerLines.map (·.2.2))
  let s0 := initStateB tool untool (bystanderLines.map (·.2.2)) owns
  let disc := disciplined tool.flatten false && disciplined untool.flatten true
  let bad := searchBad s0 fuel
  let lineJson (l : List (String × Nat)) := Json.arr (l.map fun (f, n) => Json.arr #[f, n]).toArray
  Json.mkObj [
    ("disciplined", disc),
    ("bad_schedule", match bad with
      | some sch => Json.arr (sch.map fun (x : Nat) => (x : Json)).toArray
      | none => Json.null),
    ("tool_lines", lineJson (groupLines toolerLines)),
    ("untool_lines", lineJson (groupLines untoolerLines)),
    ("bystander_lines", lineJson (bystanderLines.map fun (f, n, _) => (f, n))),
    ("program_length", (program tool untool).length)]

end Ptera.Driver.Sched
