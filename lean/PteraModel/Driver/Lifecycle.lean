import Lean.Data.Json
import PteraModel.Model.Lifecycle
/-! line-protocol handler for the life-cycle model M5 -/
namespace Ptera.Driver.Lifecycle
open Lean Ptera.Lifecycle

def natArr (j : Json) : List Nat :=
  match j with
  | .arr a => a.toList.filterMap fun x => x.getNat?.toOption
  | _ => []

def getArr (j : Json) (k : String) : List Json :=
  match j.getObjVal? k with
  | .ok (.arr a) => a.toList
  | _ => []

def specOf (j : Json) : ProbeSpec :=
  { targets := (getArr j "targets").filterMap fun t => match t with
      | .arr #[f, caps] => f.getNat?.toOption.map fun f => (f, natArr caps)
      | _ => none,
    focus := natArr (j.getObjValD "focus"),
    refused := ((j.getObjVal? "refused").toOption.bind (·.getBool?.toOption)).getD false }

def opOf (j : Json) : Op :=
  let n k := ((j.getObjVal? k).toOption.bind (·.getNat?.toOption)).getD 0
  match (j.getObjValAs? String "op").toOption.getD "" with
  | "activate" => .activate (n "p")
  | "deactivate" => .deactivate (n "p")
  | "attach" => .attach (n "p") (n "stage")
  | _ => .call (n "f")

def outToJson : Out → Json
  | .ok => "ok"
  | .refusedTwice => "refused-twice"
  | .refusedSelector => "refused-selector"
  | .notActive => "not-active"
  | .events evs => Json.mkObj [("events", Json.arr (evs.map fun (p, v, st) =>
      Json.arr #[p, v, Json.arr (st.map fun (x : Nat) => (x : Json)).toArray]).toArray)]

def stateToJson (s : State) : Json :=
  Json.mkObj [
    ("fns", Json.arr (s.fns.map fun f => Json.mkObj [
      ("count", f.count),
      ("caps", Json.arr (f.caps.eraseDups.map fun (c : Nat) => Json.arr #[c, f.caps.count c]).toArray),
      ("installed", match f.installed with
        | none => Json.null
        | some l => Json.arr (l.map fun (x : Nat) => (x : Json)).toArray)]).toArray),
    ("current", Json.arr (s.current.map fun (x : Nat) => (x : Json)).toArray),
    ("completed", Json.arr (s.completed.map fun (p, st) => Json.arr #[p, st]).toArray),
    ("active", Json.arr (s.probes.map fun (p : Probe) => (p.active : Json)).toArray)]

def handle (j : Json) : Json :=
  let bodies := (getArr j "body").map natArr
  let varOf := natArr (j.getObjValD "varOf")
  let probes := (getArr j "probes").map fun p => ({ spec := specOf p } : Probe)
  let nf := ((j.getObjVal? "fns").toOption.bind (·.getNat?.toOption)).getD 0
  let s0 : State := { fns := List.replicate nf {}, probes := probes }
  let ops := (getArr j "ops").map opOf
  let tr := trace (fun f => bodies.getD f []) (fun c => varOf.getD c 0) s0 ops
  Json.arr (tr.map fun (s, o) => Json.mkObj [("out", outToJson o), ("state", stateToJson s)]).toArray

end Ptera.Driver.Lifecycle
