import Lean.Data.Json
import PteraModel.Model.Instrument
/-! line-protocol handler for the rewrite model: JSON trees in, JSON trees out -/
namespace Ptera.Driver.Rewrite
open Lean Ptera.Py

def strs (j : Json) : List String :=
  match j with
  | .arr a => a.toList.filterMap fun x => x.getStr?.toOption
  | _ => []

def jstrs (l : List String) : Json := Json.arr (l.map Json.str).toArray

partial def exprOf (j : Json) : Except String Expr := do
  match j with
  | .arr a =>
    let tag ← (a[0]?.bind (·.getStr?.toOption)).elim (throw "expr: no tag") pure
    let arg (i : Nat) : Json := a[i]?.getD Json.null
    match tag with
    | "Int" => match (arg 1).getInt? with
      | .ok n => pure (.int n)
      | .error _ => throw "Int"
    | "Str" => pure (.str ((arg 1).getStr?.toOption.getD ""))
    | "None" => pure .noneLit
    | "Bool" => pure (.bool ((arg 1).getBool?.toOption.getD false))
    | "ConstOther" => pure (.constOther ((arg 1).getStr?.toOption.getD ""))
    | "Name" => pure (.name ((arg 1).getStr?.toOption.getD ""))
    | "Call" => do
      let f ← exprOf (arg 1)
      let args ← exprsOf (arg 2)
      pure (.call f args)
    | "Attr" => do pure (.attr (← exprOf (arg 1)) ((arg 2).getStr?.toOption.getD ""))
    | "Sub" => do pure (.sub (← exprOf (arg 1)) (← exprOf (arg 2)))
    | "Tuple" => do pure (.tuple (← exprsOf (arg 1)))
    | "List" => do pure (.list (← exprsOf (arg 1)))
    | "BinOp" => do pure (.binop ((arg 1).getStr?.toOption.getD "") (← exprOf (arg 2)) (← exprOf (arg 3)))
    | "Walrus" => do pure (.walrus ((arg 1).getStr?.toOption.getD "") (← exprOf (arg 2)))
    | "Yield" => match arg 1 with
      | .null => pure (.yield none)
      | v => do pure (.yield (some (← exprOf v)))
    | "Interact" => do
      pure (.interact ((arg 1).getStr?.toOption.getD "") (← exprOf (arg 2)) (← exprOf (arg 3)) (← exprOf (arg 4))
        ((arg 5).getBool?.toOption.getD false))
    | "Opaque" => pure (.opaque ((arg 1).getStr?.toOption.getD "") (strs (arg 2)) (strs (arg 3)) (strs (arg 4)))
    | t => throw s!"expr: unknown tag {t}"
  | _ => throw "expr: not an array"
where
  exprsOf (j : Json) : Except String (List Expr) :=
    match j with
    | .arr a => a.toList.mapM exprOf
    | _ => throw "exprs: not an array"

def optExprOf (j : Json) : Except String (Option Expr) :=
  match j with
  | .null => pure none
  | v => do pure (some (← exprOf v))

partial def targetOf (j : Json) : Except String Target := do
  match j with
  | .arr a =>
    let tag := (a[0]?.bind (·.getStr?.toOption)).getD ""
    let arg (i : Nat) : Json := a[i]?.getD Json.null
    match tag with
    | "TName" => pure (.name ((arg 1).getStr?.toOption.getD ""))
    | "TTuple" => match arg 1 with
      | .arr ts => do pure (.tuple (← ts.toList.mapM targetOf))
      | _ => throw "TTuple"
    | "TList" => match arg 1 with
      | .arr ts => do pure (.list (← ts.toList.mapM targetOf))
      | _ => throw "TList"
    | "TStar" => do pure (.starred (← targetOf (arg 1)))
    | "TAttr" => do pure (.attr (← exprOf (arg 1)) ((arg 2).getStr?.toOption.getD ""))
    | "TSub" => do pure (.sub (← exprOf (arg 1)) (← exprOf (arg 2)))
    | t => throw s!"target: unknown tag {t}"
  | _ => throw "target: not an array"

def optTargetOf (j : Json) : Except String (Option Target) :=
  match j with
  | .null => pure none
  | v => do pure (some (← targetOf v))

def optStr (j : Json) : Option String := j.getStr?.toOption

partial def stmtOf (j : Json) : Except String Stmt := do
  match j with
  | .arr a =>
    let tag := (a[0]?.bind (·.getStr?.toOption)).getD ""
    let arg (i : Nat) : Json := a[i]?.getD Json.null
    let s (i : Nat) : String := (arg i).getStr?.toOption.getD ""
    match tag with
    | "Assign" => match arg 1 with
      | .arr ts => do pure (.assign (← ts.toList.mapM targetOf) (← exprOf (arg 2)))
      | _ => throw "Assign"
    | "AugAssign" => do pure (.augassign (← targetOf (arg 1)) (s 2) (← exprOf (arg 3)))
    | "AnnAssign" => do
      pure (.annassign (← targetOf (arg 1)) { expr := ← exprOf (arg 2), tags := strs (arg 3) } (← optExprOf (arg 4)))
    | "Expr" => do pure (.expr (← exprOf (arg 1)))
    | "Return" => do pure (.ret (← optExprOf (arg 1)))
    | "Pass" => pure .pass
    | "Break" => pure .brk
    | "Continue" => pure .cont
    | "Raise" => do pure (.raise (← optExprOf (arg 1)))
    | "If" => do pure (.ite (← exprOf (arg 1)) (← stmtsOf (arg 2)) (← stmtsOf (arg 3)))
    | "While" => do pure (.while (← exprOf (arg 1)) (← stmtsOf (arg 2)) (← stmtsOf (arg 3)))
    | "For" => do pure (.for (← targetOf (arg 1)) (← exprOf (arg 2)) (← stmtsOf (arg 3)) (← stmtsOf (arg 4)))
    | "Try" => do
      let hs ← match arg 2 with
        | .arr hs => hs.toList.mapM handlerOf
        | _ => throw "Try handlers"
      pure (.try (← stmtsOf (arg 1)) hs (← stmtsOf (arg 3)) (← stmtsOf (arg 4)))
    | "With" => do pure (.with (← exprOf (arg 1)) (← optTargetOf (arg 2)) (← stmtsOf (arg 3)))
    | "Def" => pure (.defn (s 1) (s 2) (strs (arg 3)))
    | "Class" => pure (.cls (s 1) (s 2) (strs (arg 3)))
    | "Import" => pure (.imp (strs (arg 1)) (s 2))
    | "Global" => pure (.glob (strs (arg 1)))
    | "Nonlocal" => pure (.nonloc (strs (arg 1)))
    | "SOpaque" => pure (.opaque (s 1) (strs (arg 2)) (strs (arg 3)))
    | t => throw s!"stmt: unknown tag {t}"
  | _ => throw "stmt: not an array"
where
  stmtsOf (j : Json) : Except String (List Stmt) :=
    match j with
    | .arr a => a.toList.mapM stmtOf
    | _ => throw "stmts: not an array"
  handlerOf (j : Json) : Except String Handler := do
    match j with
    | .arr a =>
      let arg (i : Nat) : Json := a[i]?.getD Json.null
      pure (.mk (← optExprOf (arg 1)) (optStr (arg 2)) (← stmtsOf (arg 3)))
    | _ => throw "handler"

def stmtsOf (j : Json) : Except String (List Stmt) :=
  match j with
  | .arr a => a.toList.mapM stmtOf
  | _ => throw "stmts: not an array"

def annOf (e tags : Json) : Except String (Option Ann) :=
  match e with
  | .null => pure none
  | v => do pure (some { expr := ← exprOf v, tags := strs tags })

def funOf (j : Json) : Except String FunDef := do
  let params ← match j.getObjValD "params" with
    | .arr ps => ps.toList.mapM fun p => do
        match p with
        | .arr a => pure ({ name := (a[0]?.bind optStr).getD "", ann := ← annOf (a[1]?.getD .null) (a[2]?.getD .null) } : Param)
        | _ => throw "param"
    | _ => throw "params"
  let defaults ← match j.getObjValD "defaults" with
    | .arr ds => ds.toList.mapM exprOf
    | _ => pure []
  pure { name := (optStr (j.getObjValD "name")).getD "", params := params, defaults := defaults,
         returns := ← optExprOf (j.getObjValD "returns"), doc := optStr (j.getObjValD "doc"),
         body := ← stmtsOf (j.getObjValD "body"), freevars := strs (j.getObjValD "freevars") }

def cfgOf (j : Json) : Cfg :=
  match j with
  | .arr els => els.toList.map fun e =>
      match e with
      | .arr a => { name := a[0]?.bind optStr, cat := a[1]?.bind optStr }
      | _ => { name := none, cat := none }
  | _ => []

/-! ### output -/

partial def exprJ : Expr → Json
  | .int n => Json.arr #["Int", Json.num (JsonNumber.fromInt n)]
  | .str s => Json.arr #["Str", s]
  | .noneLit => Json.arr #["None"]
  | .bool b => Json.arr #["Bool", b]
  | .constOther r => Json.arr #["ConstOther", r]
  | .name id => Json.arr #["Name", id]
  | .call f args => Json.arr #["Call", exprJ f, Json.arr (args.map exprJ).toArray]
  | .attr v a => Json.arr #["Attr", exprJ v, a]
  | .sub v i => Json.arr #["Sub", exprJ v, exprJ i]
  | .tuple es => Json.arr #["Tuple", Json.arr (es.map exprJ).toArray]
  | .list es => Json.arr #["List", Json.arr (es.map exprJ).toArray]
  | .binop op l r => Json.arr #["BinOp", op, exprJ l, exprJ r]
  | .walrus t v => Json.arr #["Walrus", t, exprJ v]
  | .yield none => Json.arr #["Yield", Json.null]
  | .yield (some v) => Json.arr #["Yield", exprJ v]
  | .interact n k a v o => Json.arr #["Interact", n, exprJ k, exprJ a, exprJ v, o]
  | .opaque src l s a => Json.arr #["Opaque", src, jstrs l, jstrs s, jstrs a]

def optExprJ : Option Expr → Json
  | none => Json.null
  | some e => exprJ e

partial def targetJ : Target → Json
  | .name id => Json.arr #["TName", id]
  | .tuple ts => Json.arr #["TTuple", Json.arr (ts.map targetJ).toArray]
  | .list ts => Json.arr #["TList", Json.arr (ts.map targetJ).toArray]
  | .starred t => Json.arr #["TStar", targetJ t]
  | .attr v a => Json.arr #["TAttr", exprJ v, a]
  | .sub v i => Json.arr #["TSub", exprJ v, exprJ i]

def optS : Option String → Json
  | none => Json.null
  | some s => s

mutual
partial def stmtJ : Stmt → Json
  | .assign ts v => Json.arr #["Assign", Json.arr (ts.map targetJ).toArray, exprJ v]
  | .augassign t op v => Json.arr #["AugAssign", targetJ t, op, exprJ v]
  | .annassign t ann v => Json.arr #["AnnAssign", targetJ t, exprJ ann.expr, jstrs ann.tags, optExprJ v]
  | .expr e => Json.arr #["Expr", exprJ e]
  | .ret v => Json.arr #["Return", optExprJ v]
  | .pass => Json.arr #["Pass"]
  | .brk => Json.arr #["Break"]
  | .cont => Json.arr #["Continue"]
  | .raise e => Json.arr #["Raise", optExprJ e]
  | .ite c b o => Json.arr #["If", exprJ c, stmtsJ b, stmtsJ o]
  | .while c b o => Json.arr #["While", exprJ c, stmtsJ b, stmtsJ o]
  | .for t it b o => Json.arr #["For", targetJ t, exprJ it, stmtsJ b, stmtsJ o]
  | .try b hs o f => Json.arr #["Try", stmtsJ b, Json.arr (hs.map handlerJ).toArray, stmtsJ o, stmtsJ f]
  | .with c t b => Json.arr #["With", exprJ c, (match t with | none => Json.null | some t => targetJ t), stmtsJ b]
  | .defn name src loads => Json.arr #["Def", name, src, jstrs loads]
  | .cls name src loads => Json.arr #["Class", name, src, jstrs loads]
  | .imp bound src => Json.arr #["Import", jstrs bound, src]
  | .glob names => Json.arr #["Global", jstrs names]
  | .nonloc names => Json.arr #["Nonlocal", jstrs names]
  | .opaque src l s => Json.arr #["SOpaque", src, jstrs l, jstrs s]
partial def stmtsJ (ss : List Stmt) : Json := Json.arr (ss.map stmtJ).toArray
partial def handlerJ : Handler → Json
  | .mk typ name body => Json.arr #["Handler", optExprJ typ, optS name, stmtsJ body]
end

/-- `{"op":"rewrite","fn":…,"cfg":[[name|null, category|null],…]}` → the rewritten function and the
    variable table -/
def handle (j : Json) : Json :=
  match funOf (j.getObjValD "fn") with
  | .error e => Json.mkObj [("err", e)]
  | .ok f =>
    let cfg := cfgOf (j.getObjValD "cfg")
    let r := instrument cfg f
    let c := collect f
    Json.mkObj [
      ("name", r.name), ("doc", optS r.doc), ("declarations", stmtsJ r.declarations),
      ("body", stmtsJ r.body), ("syms", r.syms),
      ("info", Json.arr (c.allVars.map fun (x : String) => Json.arr #[Json.str x, optS (c.provenance x)]).toArray),
      ("external", jstrs c.external)]

end Ptera.Driver.Rewrite
