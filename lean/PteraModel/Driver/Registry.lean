import Lean.Data.Json
import PteraModel.Model.Registry
/-! line-protocol handler for the registry model -/
namespace Ptera.Driver.Registry
open Lean Ptera.Registry

def natArr (j : Json) : List Nat :=
  match j with
  | .arr a => a.toList.filterMap fun x => x.getNat?.toOption
  | _ => []

def opOf (j : Json) : Op :=
  let n k := ((j.getObjVal? k).toOption.bind (·.getNat?.toOption)).getD 0
  match (j.getObjValAs? String "op").toOption.getD "" with
  | "install" =>
    .install (n "f") (match j.getObjValD "caps" with | .null => none | c => some (natArr c))
      (((j.getObjVal? "fresh").toOption.bind (·.getBool?.toOption)).getD false)
  | _ => .resolve (n "f")

def handle (j : Json) : Json :=
  let n := ((j.getObjVal? "n").toOption.bind (·.getNat?.toOption)).getD 0
  let ops := match j.getObjValD "ops" with | .arr a => a.toList.map opOf | _ => []
  let outs := (run (init n) ops).2
  Json.arr (outs.map fun o => match o with
    | none => Json.null
    | some (.ok f) => Json.mkObj [("ok", f)]
    | some .notFound => "not-found"
    | some (.ambiguous k) => Json.mkObj [("ambiguous", k)]).toArray

end Ptera.Driver.Registry
