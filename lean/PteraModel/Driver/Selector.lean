import Lean.Data.Json
import PteraModel.Model.Selector
import PteraModel.Generated.Tables
/-! line-protocol handlers for the selector compiler (lexer, parser, evaluator) -/
namespace Ptera.Driver.Selector
open Lean Ptera.Lex Ptera.Parse Ptera.Selector

/-- {"s": "...", "flags": [[index, isSpace, isWord], …]} (flags only for non-ASCII characters) -/
def chsOfJson (j : Json) : List Ch :=
  let s := (j.getObjValAs? String "s").toOption.getD ""
  let flags : List (Nat × Bool × Bool) := match j.getObjValD "flags" with
    | .arr a => a.toList.filterMap fun e => match e with
      | .arr #[i, sp, w] => match i.getNat?, sp.getBool?, w.getBool? with
        | .ok i, .ok sp, .ok w => some (i, sp, w)
        | _, _, _ => none
      | _ => none
    | _ => []
  (s.toList.zipIdx).map fun (c, i) =>
    match flags.find? (·.1 == i) with
    | some (_, sp, w) => { c := c, uSpace := sp, uWord := w }
    | none => { c := c }

def tokToJson (t : Token) : Json :=
  Json.arr #[t.value, t.type.pyName, t.start, t.stop]

partial def vnodeToJson : VNode → Json
  | .sym s => Json.mkObj [("sym", s)]
  | .call fn args => Json.mkObj [("call", Json.arr #[vnodeToJson fn, Json.arr (args.map vnodeToJson).toArray])]
  | .kw k v => Json.mkObj [("kw", Json.arr #[k, vnodeToJson v])]
  | .list xs => Json.mkObj [("list", Json.arr (xs.map vnodeToJson).toArray)]
  | .matchFn => "MatchFunction"

def optV : Option VNode → Json
  | none => .null
  | some v => vnodeToJson v

def nameToJson : NameRef → Json
  | .none => .null
  | .str s => Json.mkObj [("s", s)]
  | .vsym s => Json.mkObj [("v", s)]

def elemToJson (e : Element) : Json :=
  Json.mkObj [("E", Json.mkObj [
    ("name", nameToJson e.name), ("value", optV e.value), ("category", optV e.category),
    ("capture", match e.capture with | none => .null | some s => s),
    ("tags", Json.arr ((if e.tag1 then #[(1 : Json)] else #[]) ++ (if e.tag2 then #[(2 : Json)] else #[])))])]

partial def callToJson : Call → Json
  | .mk e ch caps imm => Json.mkObj [("C", Json.mkObj [
      ("element", elemToJson e), ("children", Json.arr (ch.map callToJson).toArray),
      ("captures", Json.arr (caps.map elemToJson).toArray), ("immediate", imm)])]

partial def itemToJson : Item → Json
  | .elem e => elemToJson e
  | .call c => callToJson c
  | .list xs => Json.mkObj [("L", Json.arr (xs.map itemToJson).toArray)]

def errToJson : Err → Json
  | .syntax off => Json.mkObj [("err", "SyntaxError"), ("offset", off)]
  | .selector => Json.mkObj [("err", "SelectorError")]
  | .typeCategory => Json.mkObj [("err", "TypeError:category")]
  | .codeNotFound => Json.mkObj [("err", "CodeNotFoundError")]
  | .internal .assertion => Json.mkObj [("err", "AssertionError")]
  | .internal .attribute => Json.mkObj [("err", "AttributeError")]
  | .internal .typeError => Json.mkObj [("err", "TypeError")]
  | .internal .index => Json.mkObj [("err", "IndexError")]
  | .internal .fuel => Json.mkObj [("err", "model-out-of-fuel")]

partial def treeToJson : PTree → Json
  | .tok t => tokToJson t
  | .node first rest =>
    Json.mkObj [("key", renderKey (keyOf first rest)),
      ("args", Json.arr ((first :: rest.map (·.2)).map fun
        | none => Json.null
        | some t => treeToJson t).toArray)]

def tbl : Table := Ptera.Generated.Tables.operators

def handle (j : Json) : Json :=
  let cs := chsOfJson j
  match (j.getObjValAs? String "op").toOption.getD "" with
  | "lex" => Json.mkObj [("ok", Json.arr ((lex cs).map tokToJson).toArray)]
  | "ptree" =>
    match liftP (process tbl (lex cs)) with
    | .ok none => Json.mkObj [("ok", Json.null)]
    | .ok (some t) => Json.mkObj [("ok", treeToJson t)]
    | .error e => errToJson e
  | "parse" =>
    match parse tbl cs with
    | .ok it => Json.mkObj [("ok", itemToJson it)]
    | .error e => errToJson e
  | "hashvar" =>
    Json.mkObj [("accepted", hashvarAccepted Ptera.Generated.Tables.validHashvars
      ((j.getObjValAs? String "s").toOption.getD ""))]
  | "select0" =>
    match select0 tbl cs with
    | .ok c => Json.mkObj [("ok", callToJson c)]
    | .error e => errToJson e
  | _ => Json.mkObj [("err", "bad-op")]

end Ptera.Driver.Selector
