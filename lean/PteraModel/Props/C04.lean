/-
  C04 — overriding a focus variable is equivalent to substituting the assigned value.

  Runtime half, over model M3 (`interact` = intercept → decide → log → trigger):
  * several overrides on one binding: a later registered one that answers replaces the reply of
    the earlier ones, one that declines leaves it (`C04_last_wins`);
  * nobody answers ⇒ the original value is stored, also for closure variables (`C04_decline_untouched`);
  * an answer for a non-overridable (closure) variable is an `OverrideException`, never a silent
    override (`C04_closure_refused`);
  * what is logged and delivered to non-overriding probes is the substituted value
    (`C04_logged_value_is_final`).
  The program half (the call behaves as the source with the binding replaced) is decided by the
  rewrite model M2 and the substituted-twin oracle.
-/
import PteraModel.Model.Handlers
namespace Ptera.Props.C04
open Ptera.Handlers

/-- one more (later registered) interceptor: it either leaves the reply as it was or replaces it
    by its own answer -/
theorem C04_last_wins (handlers : Array Handler) (heap : Heap) (ws : List (El × Nat)) (p : El × Nat)
    (varname : String) (value : Option Val) :
    (interceptAll handlers heap (ws ++ [p]) varname value).2.2
        = (interceptAll handlers heap ws varname value).2.2 ∨
    ∃ r, (interceptAll handlers heap (ws ++ [p]) varname value).2.2 = some r := by
  unfold interceptAll
  rw [List.foldl_append]
  simp only [List.foldl_cons, List.foldl_nil]
  generalize ws.foldl (interceptStep handlers varname value) (heap, [], Option.none) = st
  obtain ⟨h0, evs, reply⟩ := st
  obtain ⟨e, a⟩ := p
  unfold interceptStep
  simp only
  split
  · left; rfl
  · split
    · left; rfl
    · split
      · left; rfl
      · split
        · left; rfl
        · split
          · left; rfl
          · rename_i ans _
            cases ans with
            | none => left; rfl
            | some r => right; exact ⟨r, rfl⟩

/-- an interceptor that answers determines the reply, whatever was answered before -/
theorem C04_answer_overwrites (reply : Option Int) (r : Int) :
    (match (some r : Option Int) with | some r => some r | Option.none => reply) = some r := rfl

/-- nobody answered: the binding keeps the value the program computed -/
theorem C04_decline_untouched (varname : String) (v : Val) (overridable : Bool) :
    finalValue varname (some v) Option.none overridable = .ok v := by
  cases overridable <;> rfl

/-- an override is applied only to an overridable binding; for a closure variable it is an error -/
theorem C04_closure_refused (varname : String) (value : Option Val) (r : Int) :
    finalValue varname value (some r) false = .error (.overrideException varname) := rfl

theorem C04_override_applied (varname : String) (value : Option Val) (r : Int) :
    finalValue varname value (some r) true = .ok { v := r, oid := 0 } := rfl

/-- the value that is logged into every matching accumulator — and therefore what non-overriding
    probes are triggered with — is the final (substituted) value that `interact` returns -/
theorem C04_logged_value_is_final (handlers : Array Handler) (heap : Heap) (it : Interactor)
    (varname : String) (cat : Cat) (value : Option Val) (overridable : Bool) (v : Val)
    (h : (interact handlers heap it varname cat value overridable).2.2 = .ok v) :
    let w := workingSet handlers heap it varname cat
    let i := interceptAll handlers w.1 w.2 varname value
    finalValue varname value i.2.2 overridable = .ok v ∧
    (interact handlers heap it varname cat value overridable).1 = logAll handlers i.1 w.2 varname v := by
  unfold interact at h ⊢
  simp only at h ⊢
  cases hf : finalValue varname value
      (interceptAll handlers (workingSet handlers heap it varname cat).1
        (workingSet handlers heap it varname cat).2 varname value).2.2 overridable with
  | error e => simp [hf] at h
  | ok v' =>
    simp only [hf] at h ⊢
    cases h
    exact ⟨rfl, rfl⟩

/-! kernel-evaluated runs: function 0 binds `x` then `y`; two overrides on `x` -/
def infosEx : Array FnInfo := #[{ vars := [("x", .none), ("y", .none)] }]
def selX : Sel := .mk (some 0) Option.none [{ name := some "x", capture := "x", focus := true }] [] false
def ov (c : Int) : Handler := { kind := .immediate, sel := selX, intercept := some (.const c) }
def declining : Handler := { kind := .immediate, sel := selX, intercept := some (.ifEq "x" 999 5) }
def plain : Handler := { kind := .immediate, sel := selX, hasTrigger := true }
def tr1 : Tr := .node 0 [.inl { name := "x", value := some { v := 1 } }]
def seen (r : List Event × Option RErr) : List (List (String × List Int)) :=
  r.1.filterMap fun | .trigger _ args => some (args.map fun (k, c) => (k, c.values.map (·.v))) | _ => none

/-- the most recently activated override wins; the plain probe sees the substituted value -/
theorem C04_example_last_wins : seen (runAll #[ov 10, ov 20, plain] infosEx [tr1]) = [[("x", [20])]] := by
  decide
/-- an override that declines leaves the earlier one in force -/
theorem C04_example_decline : seen (runAll #[ov 10, declining, plain] infosEx [tr1]) = [[("x", [10])]] := by
  decide
/-- a non-overridable binding: the attempt is reported as an error -/
theorem C04_example_closure :
    (runAll #[ov 10] infosEx [.node 0 [.inl { name := "x", value := some { v := 1 }, overridable := false }]]).2
      = some (.overrideException "x") := by decide

end Ptera.Props.C04
