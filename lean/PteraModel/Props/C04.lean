/-
  C04 — overriding a focus variable is equivalent to substituting the assigned value.

  Runtime half, over model M3 (`interact` = intercept → decide → log → trigger):
  * several overrides on one binding: a later registered one that answers replaces the reply of
    the earlier ones, one that declines leaves it (`C04_last_wins`);
  * nobody answers ⇒ the original value is stored, also for closure variables (`C04_decline_untouched`);
  * an answer for a non-overridable (closure) variable is an `OverrideException`, never a silent
    override (`C04_closure_refused`);
  * what is logged and delivered to non-overriding probes is the substituted value
    (`C04_logged_value_is_final`).
  Program half, over model M2 (Props/C01 describes it): the reference semantics binds a captured name to
  what the handler answers and goes on with it (`C04_binding_stores_the_answer`), after evaluating the
  right-hand side once (`C04_rhs_once_then_binding`); the REWRITTEN function does exactly what that
  semantics does, for every handler — overriding or not — (`C04_rewritten_is_substituted_program`), every
  function of the core fragment, capture set, input and generator script.  A binding whose override
  declines (answers the value) stores the value (`C04_declined_untouched`).
-/
import PteraModel.Model.Handlers
import PteraModel.Props.C01
namespace Ptera.Props.C04
open Ptera.Handlers

/-- one more (later registered) interceptor: it either leaves the reply as it was or replaces it
    by its own answer -/
theorem C04_last_wins (handlers : Array Handler) (heap : Heap) (ws : List (El × Nat)) (p : El × Nat)
    (varname : String) (value : Option Val) :
    (interceptAll handlers heap (ws ++ [p]) varname value).2.2
        = (interceptAll handlers heap ws varname value).2.2 ∨
    ∃ r, (interceptAll handlers heap (ws ++ [p]) varname value).2.2 = some r := by
  unfold interceptAll
  rw [List.foldl_append]
  simp only [List.foldl_cons, List.foldl_nil]
  generalize ws.foldl (interceptStep handlers varname value) (heap, [], Option.none) = st
  obtain ⟨h0, evs, reply⟩ := st
  obtain ⟨e, a⟩ := p
  unfold interceptStep
  simp only
  split
  · left; rfl
  · split
    · left; rfl
    · split
      · left; rfl
      · split
        · left; rfl
        · split
          · left; rfl
          · rename_i ans _
            cases ans with
            | none => left; rfl
            | some r => right; exact ⟨r, rfl⟩

/-- an interceptor that answers determines the reply, whatever was answered before -/
theorem C04_answer_overwrites (reply : Option Int) (r : Int) :
    (match (some r : Option Int) with | some r => some r | Option.none => reply) = some r := rfl

/-- nobody answered: the binding keeps the value the program computed -/
theorem C04_decline_untouched (varname : String) (v : Val) (overridable : Bool) :
    finalValue varname (some v) Option.none overridable = .ok v := by
  cases overridable <;> rfl

/-- an override is applied only to an overridable binding; for a closure variable it is an error -/
theorem C04_closure_refused (varname : String) (value : Option Val) (r : Int) :
    finalValue varname value (some r) false = .error (.overrideException varname) := rfl

theorem C04_override_applied (varname : String) (value : Option Val) (r : Int) :
    finalValue varname value (some r) true = .ok { v := r, oid := 0 } := rfl

/-- the value that is logged into every matching accumulator — and therefore what non-overriding
    probes are triggered with — is the final (substituted) value that `interact` returns -/
theorem C04_logged_value_is_final (handlers : Array Handler) (heap : Heap) (it : Interactor)
    (varname : String) (cat : Cat) (value : Option Val) (overridable : Bool) (v : Val)
    (h : (interact handlers heap it varname cat value overridable).2.2 = .ok v) :
    let w := workingSet handlers heap it varname cat
    let i := interceptAll handlers w.1 w.2 varname value
    finalValue varname value i.2.2 overridable = .ok v ∧
    (interact handlers heap it varname cat value overridable).1 = logAll handlers i.1 w.2 varname v := by
  unfold interact at h ⊢
  simp only at h ⊢
  cases hf : finalValue varname value
      (interceptAll handlers (workingSet handlers heap it varname cat).1
        (workingSet handlers heap it varname cat).2 varname value).2.2 overridable with
  | error e => simp [hf] at h
  | ok v' =>
    simp only [hf] at h ⊢
    cases h
    exact ⟨rfl, rfl⟩

/-! kernel-evaluated runs: function 0 binds `x` then `y`; two overrides on `x` -/
def infosEx : Array FnInfo := #[{ vars := [("x", .none), ("y", .none)] }]
def selX : Sel := .mk (some 0) Option.none [{ name := some "x", capture := "x", focus := true }] [] false
def ov (c : Int) : Handler := { kind := .immediate, sel := selX, intercept := some (.const c) }
def declining : Handler := { kind := .immediate, sel := selX, intercept := some (.ifEq "x" 999 5) }
def plain : Handler := { kind := .immediate, sel := selX, hasTrigger := true }
def tr1 : Tr := .node 0 [.inl { name := "x", value := some { v := 1 } }]
def seen (r : List Event × Option RErr) : List (List (String × List Int)) :=
  r.1.filterMap fun | .trigger _ args => some (args.map fun (k, c) => (k, c.values.map (·.v))) | _ => none

/-- the most recently activated override wins; the plain probe sees the substituted value -/
theorem C04_example_last_wins : seen (runAll #[ov 10, ov 20, plain] infosEx [tr1]) = [[("x", [20])]] := by
  decide
/-- an override that declines leaves the earlier one in force -/
theorem C04_example_decline : seen (runAll #[ov 10, declining, plain] infosEx [tr1]) = [[("x", [10])]] := by
  decide
/-- a non-overridable binding: the attempt is reported as an error -/
theorem C04_example_closure :
    (runAll #[ov 10] infosEx [.node 0 [.inl { name := "x", value := some { v := 1 }, overridable := false }]]).2
      = some (.overrideException "x") := by decide


/-! ## program half (model M2) -/
section Program
open Ptera.Py Ptera.Sem
variable {W HS : Type}

/-- whatever the handler answers (override, decline, error), the rewritten function behaves as the
    reference semantics, in which the answer is what the binding stores -/
theorem C04_rewritten_is_substituted_program (host : Host W HS) (hh : HostSpec host) (cfg : Cfg) (f : FunDef)
    (fuel : Nat) (hf : coreF f = true) (st0 : St W HS) (hinit : ∀ x ∈ (collect f).external, st0.loc x = none) :
    (runInstr (ctxOf host cfg f fuel).envI fuel (instrument cfg f) st0).1
      = (runRef (ctxOf host cfg f fuel).envR fuel f st0).1
    ∧ Obs (runInstr (ctxOf host cfg f fuel).envI fuel (instrument cfg f) st0).2
        (runRef (ctxOf host cfg f fuel).envR fuel f st0).2 :=
  instrument_refines host cfg f fuel hf (libSpec_of_host host hh cfg f fuel hf) st0 hinit

/-- a binding of a name stores the handler's answer -/
theorem C04_binding_stores_the_answer (env : Env W HS) (x : String) (ann : Option Ann) (v : Sem.Val) :
    assignT env (.name x) ann v = (hook env x ann v >>= fun r => setLoc x (some r)) := rfl

/-- `x = e`: the right-hand side is evaluated (once), then the binding takes place -/
theorem C04_rhs_once_then_binding (env : Env W HS) (fuel : Nat) (x : String) (e : Expr) :
    execS env fuel (.assign [.name x] e) =
      stepM (evalE env e) fun v => stepM (assignTs env v [.name x]) fun _ => done .normal := by
  simp [execS]

/-- the override declines (the handler answers the value it was shown): the value is stored -/
theorem C04_declined_untouched (env : Env W HS) (name : String) (key ann v : Sem.Val) (ovr : Bool) (st : St W HS)
    (hv : v ≠ .absent)
    (hdecl : (env.host.hnd { name := name, key := key, ann := ann, value := v, ovr := ovr } st.hs).1 = .ok v) :
    (interactSem env name key ann v ovr st).1 = .ok v := by
  unfold interactSem
  rcases hh : env.host.hnd { name := name, key := key, ann := ann, value := v, ovr := ovr } st.hs with ⟨r, hs1⟩
  rw [hh] at hdecl
  simp only at hdecl
  subst hdecl
  cases v <;> first | exact absurd rfl hv | rfl

/-- a closure variable is shown to the handler and never re-bound: whatever the handler answers, the variables of
    the call are what they were (an answer that differs is the handler's business — ptera's interactor raises
    `OverrideException`, M3: `C04_closure_refused`) -/
theorem C04_closure_never_rebound (env : Env W HS) (x : String) (st : St W HS) :
    (freeHook env x st).2.loc = st.loc ∧ (freeHook env x st).2.w = st.w := by
  unfold freeHook
  cases env.hk with
  | none => exact ⟨rfl, rfl⟩
  | some cfg =>
    simp only
    have inner : ((lookup env x >>= fun v =>
          if shouldInstr cfg x [] then interactSem env x .noneV (annValOpt env none) v false else pure v) st).2.loc = st.loc
        ∧ ((lookup env x >>= fun v =>
          if shouldInstr cfg x [] then interactSem env x .noneV (annValOpt env none) v false else pure v) st).2.w = st.w := by
      rw [bind_def_M]
      unfold lookup
      cases lookupV env st x with
      | none => exact ⟨rfl, rfl⟩
      | some v =>
        simp only
        split
        · unfold interactSem
          rcases env.host.hnd { name := x, key := .noneV, ann := annValOpt env none, value := v, ovr := false } st.hs
            with ⟨r, hs1⟩
          cases r with
          | err e => exact ⟨rfl, rfl⟩
          | ok a => cases a <;> exact ⟨rfl, rfl⟩
        · exact ⟨rfl, rfl⟩
    rcases hm : (lookup env x >>= fun v =>
        if shouldInstr cfg x [] then interactSem env x .noneV (annValOpt env none) v false else pure v) st with ⟨r, st1⟩
    rw [hm] at inner
    cases r with
    | ok a => exact inner
    | err e =>
      simp only
      split
      · exact inner
      · split
        · split
          · exact inner
          · exact inner
        · exact inner

/-- a test: `def f(a): b = a; return b` with `b` overridden to `b + 3` returns 8 through the rewritten code -/
theorem C04_example_program :
    Ptera.Props.C01.isRetInt (runInstr (ctxOf PyLite.host [⟨some "b", none⟩] Ptera.Props.C01.sample 5).envI 5
        (instrument [⟨some "b", none⟩] Ptera.Props.C01.sample)
        { Ptera.Props.C01.sampleState with hs := { override := some ("b", 3) } }).1 8 = true := by decide

end Program

end Ptera.Props.C04
