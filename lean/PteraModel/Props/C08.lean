/-
  C08 — overlays and probes in concurrent threads do not interfere.  (PARTIAL, see below.)

  Two levels.
  (1) Atomic level, ANY number of threads, ANY interleaving: when activation, deactivation and
      call entry are atomic, an interleaving of the threads' operations is a history of the
      life-cycle model M5, whose invariant (Proofs/LifecycleInv.lean) gives: whatever a thread's
      active probe captures is instrumented by the installed code, and when all are done every
      function is back on its original code with zero counters (`C08_atomic_*`).
  (2) Line level: the step skeleton of `_tooler` / `_untooler` (with `push`/`pop`/`_apply`/`get`
      inlined) is GENERATED from the source.  `C08_generated_disciplined` checks that every
      access to the shared counters / code object happens under the lock; for two threads the
      set of reachable states of the generated programs under EVERY schedule is computed and
      checked closed and good in the kernel (`C08_two_threads_*`), hence every schedule of two
      threads is good (`C08_two_threads_all_schedules`).  Without the lock the same programs
      reach a bad state (`C08_lock_needed_witness`).
  (3) Bystanders: a thread whose own probe is on ANOTHER function and that calls the shared function while
      another thread activates / deactivates a probe on it.  Its call reads the code object and, if that is a
      variant, the variant's prologue looks the function's variable table up (`fits_selector`); the generated
      bystander program says whether that lookup can raise.  `C08_bystander_*`: under every schedule the
      bystander's call never raises (one probing thread and one bystander in the kernel; two probing threads and
      two bystanders by the compiled model in the check, a test).
  PARTIAL: the atomicity unit (one source line under CPython's GIL), per-thread ContextVar
  values and atomic dict/Counter operations are assumptions; three threads at line level are
  explored by the compiled model in the thorough tier (a test), not in the kernel.
-/
import PteraModel.Generated.Steps
import PteraModel.Proofs.LifecycleInv
namespace Ptera.Props.C08
open Ptera.Sched Ptera.Generated.Steps

def tool : List (List Step) := mergeRelease (toolerLines.map (·.2.2))
def untool : List (List Step) := mergeRelease (untoolerLines.map (·.2.2))

/-- every access to the shared instrumentation state is made under the lock -/
theorem C08_generated_disciplined :
    disciplined tool.flatten false = true ∧ disciplined untool.flatten true = true := by decide

/-- a set of states closed under every thread's step contains every state any schedule reaches -/
theorem exec_mem_of_closed (R : List State) (hc : closed R = true) :
    ∀ (sched : List Nat) (s : State), s ∈ R → exec s sched ∈ R := by
  intro sched
  induction sched with
  | nil => intro s hs; exact hs
  | cons t rest ih =>
    intro s hs
    simp only [exec]
    cases hst : stepThread s t with
    | none => exact ih s hs
    | some s' =>
      apply ih s'
      have hs1 := (List.all_eq_true.mp hc) s hs
      have hs2 := List.all_eq_true.mp hs1 s' (by
        simp only [successors, List.mem_filterMap, List.mem_range]
        refine ⟨t, ?_, hst⟩
        unfold stepThread at hst
        cases hth : s.threads[t]? with
        | none => simp [hth] at hst
        | some th =>
          exact (List.getElem?_eq_some_iff.mp hth).1)
      simpa using hs2

def s2 (owns : List (List Nat)) : State := initState tool untool owns

/-- the precondition under which the exhaustive exploration is attempted at all (without the lock
    the state space is two orders of magnitude larger and the exploration is pointless) -/
def discOK : Bool := disciplined tool.flatten false && disciplined untool.flatten true

theorem C08_two_threads_distinct : discOK = true →
    closed (reachable (s2 [[0], [1]]) 200) = true ∧ (reachable (s2 [[0], [1]]) 200).all good = true := by
  decide +kernel

theorem C08_two_threads_same_variable : discOK = true →
    closed (reachable (s2 [[0], [0]]) 200) = true ∧ (reachable (s2 [[0], [0]]) 200).all good = true := by
  decide +kernel

theorem C08_two_threads_overlapping : discOK = true →
    closed (reachable (s2 [[0, 1], [1]]) 200) = true ∧ (reachable (s2 [[0, 1], [1]]) 200).all good = true := by
  decide +kernel

theorem init_mem_reachable (s : State) (fuel : Nat) : s ∈ reachable s (fuel + 1) := by
  unfold reachable reachAux
  simp only
  split
  · simp
  · have : ∀ (fuel : Nat) (seen frontier : List State), s ∈ seen → s ∈ reachAux fuel seen frontier := by
      intro fuel
      induction fuel with
      | zero => intro seen _ h; exact h
      | succ n ih =>
        intro seen frontier h
        unfold reachAux
        simp only
        split
        · exact h
        · exact ih _ _ (List.mem_append_left _ h)
    exact this _ _ _ (List.mem_append_left _ (by simp))

/-- EVERY schedule of two threads running the generated activate / call / deactivate programs
    keeps every call covered and ends on the original code with zero counters -/
theorem C08_two_threads_all_schedules (sched : List Nat) :
    good (exec (s2 [[0], [1]]) sched) = true ∧ good (exec (s2 [[0], [0]]) sched) = true ∧
    good (exec (s2 [[0, 1], [1]]) sched) = true := by
  have hd : discOK = true := by
    have := C08_generated_disciplined
    simp [discOK, this.1, this.2]
  refine ⟨?_, ?_, ?_⟩
  · exact List.all_eq_true.mp (C08_two_threads_distinct hd).2 _
      (exec_mem_of_closed _ (C08_two_threads_distinct hd).1 sched _ (init_mem_reachable _ 199))
  · exact List.all_eq_true.mp (C08_two_threads_same_variable hd).2 _
      (exec_mem_of_closed _ (C08_two_threads_same_variable hd).1 sched _ (init_mem_reachable _ 199))
  · exact List.all_eq_true.mp (C08_two_threads_overlapping hd).2 _
      (exec_mem_of_closed _ (C08_two_threads_overlapping hd).1 sched _ (init_mem_reachable _ 199))

/-! bystanders: a thread with a probe elsewhere calls the function in the middle of the others' activations -/
def bystander : List (List Step) := bystanderLines.map (·.2.2)

def s3 (owns : List (List Nat)) : State := initStateB tool untool bystander owns

theorem C08_bystander_one_prober : discOK = true →
    closed (reachable (s3 [[0], []]) 200) = true ∧ (reachable (s3 [[0], []]) 200).all good = true := by
  decide +kernel

/-- EVERY schedule of a probing thread and bystanders: no call raises, every call of the prober is covered -/
theorem C08_bystander_all_schedules (sched : List Nat) : good (exec (s3 [[0], []]) sched) = true := by
  have hd : discOK = true := by
    have := C08_generated_disciplined
    simp [discOK, this.1, this.2]
  exact List.all_eq_true.mp (C08_bystander_one_prober hd).2 _
    (exec_mem_of_closed _ (C08_bystander_one_prober hd).1 sched _ (init_mem_reachable _ 199))

/-- the model can tell: with a lookup that raises when the table is absent, a bad schedule exists (the prober
    is preempted between installing the code and the table, or removes the table under a running call) -/
def strictBystander : List (List Step) := [[Step.callFetch], [Step.callEnter]]

theorem C08_bystander_strict_lookup_witness :
    (searchBad (initStateB tool untool strictBystander [[0], []]) 200).isSome = true := by decide +kernel

/-! the lock is what makes it true: the same programs without lock operations -/
def strip (l : List (List Step)) : List (List Step) :=
  (l.map fun g => g.filter fun s => s != .acquire && s != .release).filter (!·.isEmpty)

def noLock : State := initState (strip (toolerLines.map (·.2.2))) (strip (untoolerLines.map (·.2.2))) [[0], [1]]

/-- thread 0 is preempted after reading the variant and before installing it; thread 1 activates
    completely; thread 0 installs its stale variant; thread 1's call is not covered -/
def staleWrite : List Nat :=
  let k := ((strip (toolerLines.map (·.2.2))).takeWhile fun g => !g.contains .writeCode).length
  List.replicate k 0 ++ List.replicate (strip (toolerLines.map (·.2.2))).length 1 ++ [0] ++ [1]

theorem C08_lock_needed_witness : good (exec noLock staleWrite) = false := by decide +kernel

/-! atomic level, any number of threads: corollaries of the M5 invariant -/
open Ptera.Lifecycle in
theorem C08_atomic_any_interleaving (body : Nat → List Nat) (varOf : Nat → Nat) (nfns : Nat)
    (specs : List ProbeSpec) (ops : List Op) :
    Inv (run body varOf { fns := List.replicate nfns {}, probes := specs.map fun sp => { spec := sp } } ops).1 := by
  apply run_inv
  apply init_inv
  intro pr hpr
  simp only [List.mem_map] at hpr
  obtain ⟨sp, _, rfl⟩ := hpr
  rfl

end Ptera.Props.C08
