/-
  C13 — method selectors bind to the right function and the right receiver.

  `_resolve` turns `obj.meth > v` into a selector on the underlying function plus a capture of
  the receiver parameter constrained to the receiver (by identity, `_Receiver`).  Over the
  runtime model M3: the handler runs iff the captured receiver IS the probed object, whatever
  the parameter is called and whatever `==` says; a selector through the class is unfiltered.
  Finding F24 (open): a focus variable that is bound before the receiver parameter is captured
  (a global read by the method, fetched in the prologue) fires for every receiver.
-/
import PteraModel.Model.Handlers
namespace Ptera.Props.C13
open Ptera.Handlers

/-- the level `_resolve` builds for a bound method -/
def methodSel (fn : Nat) (caps : List El) (selfname : String) (recv : Val) (children : List Sel) : Sel :=
  .mk (some fn) Option.none
    (caps ++ [{ name := some selfname, capture := selfname, value := some (.is_ recv) }]) children false

/-- `_dig`: follow `__wrapped__` until a tooled function, and `property.fget` -/
inductive FnObj where
  | func (id : Nat) (tooled : Bool)
  | wrapper (inner : FnObj) (tooled : Bool)      -- an object with `__wrapped__`
  | property (fget : FnObj)
  deriving Repr

def dig : FnObj → FnObj
  | .func id t => .func id t
  | .wrapper inner t => if t then .wrapper inner t else dig inner
  | .property fget => dig fget

/-- digging never stops on an untooled wrapper or a property: it reaches a function or a tooled wrapper -/
theorem C13_dig_reaches_function (f : FnObj) :
    (∃ id t, dig f = .func id t) ∨ (∃ inner, dig f = .wrapper inner true) := by
  induction f with
  | func id t => exact Or.inl ⟨id, t, rfl⟩
  | wrapper inner t ih =>
    cases t with
    | true => exact Or.inr ⟨inner, rfl⟩
    | false => simpa [dig] using ih
  | property fget ih => simpa [dig] using ih

theorem hasval_methodSel (fn caps selfname recv children) :
    (methodSel fn caps selfname recv children).hasval = true := by
  simp [methodSel, Sel.hasval]

/-- with the receiver parameter captured, the handler runs iff the receiver IS the probed object -/
theorem C13_receiver_filter (h : Handler) (fn : Nat) (caps : List El) (selfname : String)
    (recv r : Val) (args : Snapshot)
    (hsel : h.sel = methodSel fn caps selfname recv [])
    (hcaps : ∀ e ∈ caps, e.value = Option.none)
    (hself : dictGet args selfname = some { names := [selfname], values := [r] }) :
    passes h args = true ↔ r.oid = recv.oid := by
  unfold passes
  rw [hsel, hasval_methodSel]
  simp only [Bool.not_true, Bool.false_or]
  have hv : (methodSel fn caps selfname recv []).allValues
      = [{ name := some selfname, capture := selfname, value := some (.is_ recv) }] := by
    simp only [methodSel, Sel.allValues, allValuesList, List.append_nil, List.filter_append]
    have : caps.filter (fun e => e.value.isSome) = [] := by
      simp only [List.filter_eq_nil_iff]; intro e he; simp [hcaps e he]
    simp [this]
  unfold checkCaptures
  rw [hv]
  simp only [List.all_cons, List.all_nil, Bool.and_true, hself, Cond.holds, beq_iff_eq]
  exact eq_comm

/-- equality of values is irrelevant: only identity counts -/
theorem C13_equal_but_distinct_rejected (recv r : Val) (hv : r.v = recv.v) (ho : r.oid ≠ recv.oid) :
    (Cond.is_ recv).holds r = false := by
  simp [Cond.holds, Ne.symm ho]

/-- a selector written through the class has no receiver constraint: every instance is observed -/
theorem C13_class_unfiltered (h : Handler) (args : Snapshot) (hnv : h.sel.hasval = false) :
    passes h args = true := by
  simp [passes, hnv]

/-- finding F24, model level: while the receiver parameter is not captured yet the constraint
    imposes nothing, so a focus variable bound before it fires for ANY receiver -/
theorem C13_receiver_not_yet_captured (h : Handler) (fn : Nat) (caps : List El) (selfname : String)
    (recv : Val) (args : Snapshot)
    (hsel : h.sel = methodSel fn caps selfname recv [])
    (hcaps : ∀ e ∈ caps, e.value = Option.none)
    (hself : dictGet args selfname = Option.none) :
    passes h args = true := by
  unfold passes
  rw [hsel, hasval_methodSel]
  simp only [Bool.not_true, Bool.false_or]
  unfold checkCaptures
  simp only [List.all_eq_true]
  intro el hel
  simp only [methodSel, Sel.allValues, allValuesList, List.append_nil, List.filter_append,
    List.mem_append, List.mem_filter] at hel
  rcases hel with ⟨he, hv⟩ | ⟨he, _⟩
  · simp [hcaps el he] at hv
  · simp only [List.mem_singleton] at he
    subst he
    simp [hself]

/-! kernel-evaluated runs of the whole runtime model: function 0 is `meth(self, x)` binding `v` -/
def infosEx : Array FnInfo := #[{ vars := [("self", .none), ("x", .none), ("v", .none), ("G", .none)] }]
def recvA : Val := { v := 1, oid := 11 }
def recvB : Val := { v := 1, oid := 22 }      -- compares equal to recvA, distinct object
def hObj (focus : String) : Array Handler :=
  #[{ kind := .immediate, hasTrigger := true,
      sel := methodSel 0 [{ name := some focus, capture := focus, focus := true }] "self" recvA [] }]
def call (recv : Val) (x : Int) : Tr :=
  .node 0 [.inl { name := "G", value := some { v := 100 } },          -- external, fetched in the prologue
           .inl { name := "self", value := some recv }, .inl { name := "x", value := some { v := x } },
           .inl { name := "v", value := some { v := x + 1 } }]
def fired (r : List Event × Option RErr) : List (List (String × List Int)) :=
  r.1.filterMap fun | .trigger _ args => some (args.map fun (k, c) => (k, c.values.map (·.v))) | _ => none

/-- `objA.meth > v`: only the call on objA is observed, although objB == objA -/
theorem C13_object_example :
    fired (runAll (hObj "v") infosEx [call recvA 5, call recvB 7]) = [[("self", [1]), ("v", [6])]] := by
  decide

/-- F24 witness: `objA.meth > G` (a global read by the method) fires for objB's call too -/
theorem C13_F24_witness :
    (fired (runAll (hObj "G") infosEx [call recvA 5, call recvB 7])).length = 2 := by
  decide

end Ptera.Props.C13
