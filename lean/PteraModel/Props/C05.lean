/-
  C05 — probes deliver exactly-once while active and leave no trace once deactivated.

  Life-cycle model M5 (`Model/Lifecycle.lean`, hand-written; compared with the implementation
  after every step of generated histories).  For EVERY list of operations — activations,
  deactivations in any order, repeated and refused activations, attachments, calls:

  * `C05_inv`: the context holds exactly the active probes, once each, in activation order; every
    function's `instrument_count` and capture counters are the sums of what the active probes pushed;
  * `C05_installed_covers`: whatever an active probe captures in a function is instrumented by the
    code currently installed on it;
  * `C05_inactive_silent`: a call delivers nothing to a probe that is not active;
  * `C05_quiescent`: when no probe is active every function runs its original code, all counters
    are zero and no handler is installed — after any history whatsoever (clean restart);
  * `C05_refused_no_trace`: an activation refused by verification changes no counter.
-/
import PteraModel.Proofs.LifecycleInv
namespace Ptera.Props.C05
open Ptera.Lifecycle

def initState (nfns : Nat) (specs : List ProbeSpec) : State :=
  { fns := List.replicate nfns {}, probes := specs.map fun sp => { spec := sp } }

theorem C05_inv (body : Nat → List Nat) (varOf : Nat → Nat) (nfns : Nat) (specs : List ProbeSpec)
    (ops : List Op) : Inv (run body varOf (initState nfns specs) ops).1 := by
  apply run_inv
  apply init_inv
  intro pr hpr
  simp only [List.mem_map] at hpr
  obtain ⟨sp, _, rfl⟩ := hpr
  rfl

theorem C05_quiescent (s : State) (h : Inv s) (hq : ∀ p, isActive s.probes p = false) :
    s.current = [] ∧ ∀ (f : Nat) (fs : FnState), s.fns[f]? = some fs →
      fs.count = 0 ∧ fs.installed = none ∧ ∀ c, fs.caps.count c = 0 := by
  have hcur : s.current = [] := by
    cases hc : s.current with
    | nil => rfl
    | cons p rest =>
      have := (h.active_iff p).mp (by simp [hc])
      rw [hq p] at this; cases this
  refine ⟨hcur, ?_⟩
  intro f fs hfs
  have h1 := h.count f fs hfs
  have h2 := fun c => h.caps f fs c hfs
  simp only [hcur, entriesSum, occSum, List.map_nil, List.sum_nil] at h1 h2
  exact ⟨h1, by simp [FnState.installed, h1], h2⟩

theorem C05_installed_covers (s : State) (h : Inv s) (p f c : Nat) (hp : p ∈ s.current)
    (hc : c ∈ capsFor (specOf s.probes p).targets f) (fs : FnState) (hfs : s.fns[f]? = some fs) :
    ∃ inst, fs.installed = some inst ∧ c ∈ inst := by
  have hcount : 1 ≤ fs.caps.count c := by
    rw [h.caps f fs c hfs]
    have h1 := le_sum_of_mem s.current p
      (fun q => (capsFor (specOf s.probes q).targets f).count c) hp
    have h2 : 1 ≤ (capsFor (specOf s.probes p).targets f).count c := List.count_pos_iff.mpr hc
    simp only [occSum]; omega
  have hent : 1 ≤ fs.count := by
    rw [h.count f fs hfs]
    have h1 := le_sum_of_mem s.current p (fun q => entries (specOf s.probes q).targets f) hp
    have h2 : 1 ≤ entries (specOf s.probes p).targets f := by
      unfold entries
      unfold capsFor at hc
      simp only [List.mem_flatMap] at hc
      obtain ⟨e, he, _⟩ := hc
      exact List.length_pos_of_mem he
    simp only [entriesSum]; omega
  refine ⟨fs.caps.eraseDups, ?_, ?_⟩
  · simp only [FnState.installed]
    have : fs.count ≠ 0 := by omega
    simp [this]
  · rw [List.mem_eraseDups]
    exact List.count_pos_iff.mp hcount

theorem C05_inactive_silent (body : Nat → List Nat) (varOf : Nat → Nat) (s : State) (f p : Nat)
    (hp : p ∉ s.current) : ∀ ev ∈ callEvents body varOf s f, ev.1 ≠ p := by
  intro ev hev heq
  unfold callEvents at hev
  split at hev
  · simp at hev
  · simp only [List.mem_flatMap] at hev
    obtain ⟨v, _, q, hq, hev⟩ := hev
    split at hev
    · simp only [List.mem_map] at hev
      obtain ⟨_, _, rfl⟩ := hev
      exact hp (heq ▸ hq)
    · simp at hev

theorem C05_refused_no_trace (s : State) (p : Nat) (pr : Probe) (hp : s.probes[p]? = some pr)
    (hna : pr.activated = false) (href : pr.spec.refused = true) (f : Nat) (fs : FnState)
    (hfs : s.fns[f]? = some fs) :
    (activate s p).2 = .refusedSelector ∧ (activate s p).1.current = s.current ∧
    ∃ fs', (activate s p).1.fns[f]? = some fs' ∧ fs'.count = fs.count ∧
      ∀ c, fs'.caps.count c = fs.caps.count c := by
  simp only [activate, hp, hna, href, Bool.false_eq_true, if_false, if_true, true_and]
  simp only [popAll_get, pushAll_get, hfs, Option.map_some]
  refine ⟨_, rfl, ?_, ?_⟩
  · have he : entries pr.spec.targets.reverse f = entries pr.spec.targets f := by
      simp [entries, List.filter_reverse]
    show fs.count + entries pr.spec.targets f - entries pr.spec.targets.reverse f = fs.count
    rw [he, Nat.add_sub_cancel]
  · intro c
    show ((capsFor pr.spec.targets.reverse f).foldl List.erase
        (fs.caps ++ capsFor pr.spec.targets f)).count c = _
    have hperm : ∀ d, (capsFor pr.spec.targets.reverse f).count d
        = (capsFor pr.spec.targets f).count d := by
      intro d
      simp only [capsFor, List.filter_reverse, List.count_flatMap, List.map_reverse, List.sum_reverse]
    rw [count_foldl_erase]
    · rw [hperm c, List.count_append, Nat.add_sub_cancel]
    · intro d; rw [hperm d, List.count_append]; omega

/-! non-vacuity: two global probes on f0, deactivated in the order they were activated -/
def specA : ProbeSpec := { targets := [(0, [0])], focus := [0] }
def specB : ProbeSpec := { targets := [(0, [0, 1])], focus := [1] }
def hist : List Op := [.activate 0, .activate 1, .call 0, .deactivate 0, .call 0, .deactivate 1, .call 0]
def bodyEx : Nat → List Nat := fun _ => [10, 11]
def varOfEx : Nat → Nat := fun c => 10 + c

theorem C05_example_non_lifo :
    (run bodyEx varOfEx (initState 1 [specA, specB]) hist).2.map (fun o => match o with
      | .events evs => evs.map (fun e => (e.1, e.2.1)) | _ => [])
      = [[], [], [(0, 10), (1, 11)], [], [(1, 11)], [], []] := by decide

end Ptera.Props.C05
