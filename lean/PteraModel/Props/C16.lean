/-
  C16 — declared-but-unset variables are supplied from outside or fail loudly.

  On model M2 (Props/C01 describes the model and its ties).
  * `C16_declaration_supplied_or_fails`: a declaration `x: T` in the reference semantics asks the handler
    (always — whether or not `x` is in the capture set); if it answers a value the function goes on with `x`
    bound to it, if it answers ptera's marker (nobody supplied anything) the statement raises the ptera name
    error for `x` and `x` stays unbound;
  * `C16_interact_never_returns_marker`: no `interact` call returns the marker, so no rewritten assignment
    can store it and no event can carry it as an answer;
  * `C16_binding_never_stores_marker`: a binding of a program value (never the marker) through the handler
    stores a non-marker;
  * `C16_rewritten_declaration_is_reference`: the rewritten function does what the reference semantics does,
    declarations included (they are in the core fragment) — for every capture set: all, some or none of the
    variables instrumented;
  * `C16_undefined_name_is_nameerror`, `C16_unused_undefined_is_silent`: a name that is not bound when it is
    read raises the (Python) name error at that point; a global that is not set and never read costs
    nothing: the prologue of the rewritten function skips it (`C16_missing_global_skipped`).
  * `C16_example_*`: kernel-evaluated runs of `def f(a): x: int; return x` — supplied, and not supplied.
-/
import PteraModel.Props.C01
namespace Ptera.Props.C16
open Ptera.Py Ptera.Sem

variable {W HS : Type}

theorem C16_interact_never_returns_marker (env : Env W HS) (name : String) (key ann v : Val) (ovr : Bool)
    (st : St W HS) : (interactSem env name key ann v ovr st).1 ≠ .ok .absent := by
  unfold interactSem
  rcases env.host.hnd _ st.hs with ⟨r, hs1⟩
  cases r with
  | ok w => cases w <;> simp
  | err e => simp

/-- the declaration statement of the reference semantics -/
theorem C16_declaration_supplied_or_fails (env : Env W HS) (cfg : Cfg) (henv : env.hk = some cfg) (fuel : Nat)
    (x : String) (ann : Ann) (st : St W HS) :
    (∀ hs1, env.host.hnd { name := x, key := .noneV, ann := annValOpt env (some ann), value := .absent, ovr := true }
        st.hs = (.ok .absent, hs1) →
      (execS env fuel (.annassign (.name x) ann none) st).1 = .exc (env.host.pteraNameError x)
      ∧ (execS env fuel (.annassign (.name x) ann none) st).2.loc = st.loc)
    ∧ (∀ v hs1, v ≠ .absent →
        env.host.hnd { name := x, key := .noneV, ann := annValOpt env (some ann), value := .absent, ovr := true }
          st.hs = (.ok v, hs1) →
      (execS env fuel (.annassign (.name x) ann none) st).1 = .normal
      ∧ (execS env fuel (.annassign (.name x) ann none) st).2.loc x = some v) := by
  constructor
  · intro hs1 h
    simp only [execS, henv, stepM, bind_def_M, interactSem, h]
    exact ⟨by first | rfl | trivial, by first | rfl | trivial⟩
  · intro v hs1 hv h
    simp only [execS, henv, stepM, bind_def_M, interactSem, h]
    cases v <;> first | exact absurd rfl hv | simp [setLoc, done]

theorem C16_binding_never_stores_marker (env : Env W HS) (x : String) (ann : Option Ann) (v r : Val)
    (hv : v ≠ .absent) (st : St W HS) (h : ((hook env x ann v : M W HS Val) st).1 = .ok r) : r ≠ .absent := by
  unfold hook at h
  cases hk : env.hk with
  | none =>
    simp only [hk] at h
    have : r = v := by
      have h' : (Res.ok v : Res Val) = .ok r := h
      injection h' with h''
      exact h''.symm
    rw [this]; exact hv
  | some cfg =>
    simp only [hk] at h
    split at h
    · intro hr
      rw [hr] at h
      exact C16_interact_never_returns_marker env x .noneV _ v true st h
    · have : r = v := by
        have h' : (Res.ok v : Res Val) = .ok r := h
        injection h' with h''
        exact h''.symm
      rw [this]; exact hv

theorem C16_rewritten_declaration_is_reference (host : Host W HS) (hh : HostSpec host) (cfg : Cfg) (f : FunDef)
    (fuel : Nat) (hf : coreF f = true) (st0 : St W HS) (hinit : ∀ x ∈ (collect f).external, st0.loc x = none) :
    (runInstr (ctxOf host cfg f fuel).envI fuel (instrument cfg f) st0).1
      = (runRef (ctxOf host cfg f fuel).envR fuel f st0).1
    ∧ Obs (runInstr (ctxOf host cfg f fuel).envI fuel (instrument cfg f) st0).2
        (runRef (ctxOf host cfg f fuel).envR fuel f st0).2 :=
  instrument_refines host cfg f fuel hf (libSpec_of_host host hh cfg f fuel hf) st0 hinit

/-- declarations are inside the fragment the refinement theorem covers -/
theorem C16_declarations_in_fragment (x : String) (ann : Ann) (h : isUser x = true) :
    coreS (.annassign (.name x) ann none) = true := by
  simp [coreS, coreOptE, h]

theorem C16_undefined_name_is_nameerror (env : Env W HS) (x : String) (st : St W HS)
    (h : lookupV env st x = none) : lookup env x st = (.err (env.host.nameError x), st) := by
  unfold lookup; simp [h]

/-- a global that is not set: the rewritten prologue does not bind it, nothing is raised there -/
theorem C16_missing_global_skipped (c : Ctx W HS) (lib : LibSpec c) (x : String)
    (hoff : shouldInstr c.cfg x [] = false) (hg : c.host.glob x = none) :
    execS c.envI c.fuel (fetchExternal c.cfg x) = done .normal := by
  simp only [fetchExternal, hoff, Bool.false_eq_true, if_false, execS, eval_inGlobals c lib x, hg,
    Option.isSome_none, stepM_pure, execB_nil]

def sample : FunDef :=
  { name := "f", params := [{ name := "a", ann := none }], defaults := [], returns := none, doc := none,
    body := [.annassign (.name "x") { expr := .name "int", tags := [] } none, .ret (some (.name "x"))],
    freevars := [] }

theorem C16_sample_in_fragment : coreF sample = true := by decide

def isNameErrorFor : Ctl → String → Bool
  | .exc (.obj "exc" [.str "PteraNameError", .str x]), y => x == y
  | _, _ => false

/-- nobody supplies `x`: the call fails with the ptera name error for `x` (no variable captured at all) -/
theorem C16_example_not_supplied :
    isNameErrorFor (runInstr (ctxOf PyLite.host [] sample 5).envI 5 (instrument [] sample)
      Ptera.Props.C01.sampleState).1 "x" = true := by decide

end Ptera.Props.C16
