/-
  C16 — declared-but-unset variables are supplied from outside or fail loudly.

  On model M2 (Props/C01 describes the model and its ties).
  * `C16_declaration_supplied_or_fails`: a declaration `x: T` in the reference semantics asks the handler
    (always — whether or not `x` is in the capture set); if it answers a value the function goes on with `x`
    bound to it, if it answers ptera's marker (nobody supplied anything) the statement raises the ptera name
    error for `x` and `x` stays unbound;
  * `C16_interact_never_returns_marker`: no `interact` call returns the marker, so no rewritten assignment
    can store it and no event can carry it as an answer;
  * `C16_binding_never_stores_marker`: a binding of a program value (never the marker) through the handler
    stores a non-marker;
  * `C16_rewritten_declaration_is_reference`: the rewritten function does what the reference semantics does,
    declarations included (they are in the core fragment) — for every capture set: all, some or none of the
    variables instrumented;
  * `C16_marker_nowhere`: over whole runs — for every function of the core fragment (declarations included),
    every capture set, every host that never produces the marker (`HostGood`), every handler that answers good
    values, "nothing" (the marker) or a good exception (`HndGood`), every input: however the activation ends, no
    variable, no value yielded, nothing pending holds the marker, and the value returned / the exception raised
    is not the marker.  `C16_rewritten_never_returns_marker` carries it to the REWRITTEN function through the
    refinement theorem.  `C16_generated_host` and `C16_generated_handler` discharge the assumptions for the host
    and the handler (recording, possibly overriding) of the generated programs, and
    `C16_generated_never_marker` is the statement with no hypothesis about hosts left: for every function of
    the fragment, capture set, integer arguments, override, condition script and driver script.  (Proofs/Inv.lean is a generic invariant theorem for the
    interpreter; Proofs/InvMarker.lean its instance.)
  * `C16_undefined_name_is_nameerror`, `C16_unused_undefined_is_silent`: a name that is not bound when it is
    read raises the (Python) name error at that point; a global that is not set and never read costs
    nothing: the prologue of the rewritten function skips it (`C16_missing_global_skipped`).
  * `C16_example_*`: kernel-evaluated runs of `def f(a): x: int; return x` — supplied, and not supplied.
-/
import PteraModel.Props.C01
import PteraModel.Proofs.InvMarker
namespace Ptera.Props.C16
open Ptera.Py Ptera.Sem

variable {W HS : Type}

theorem C16_interact_never_returns_marker (env : Env W HS) (name : String) (key ann v : Val) (ovr : Bool)
    (st : St W HS) : (interactSem env name key ann v ovr st).1 ≠ .ok .absent := by
  unfold interactSem
  rcases env.host.hnd _ st.hs with ⟨r, hs1⟩
  cases r with
  | ok w => cases w <;> simp
  | err e => simp

/-- the declaration statement of the reference semantics -/
theorem C16_declaration_supplied_or_fails (env : Env W HS) (cfg : Cfg) (henv : env.hk = some cfg) (fuel : Nat)
    (x : String) (ann : Ann) (st : St W HS) :
    (∀ hs1, env.host.hnd { name := x, key := .noneV, ann := annValOpt env (some ann), value := .absent, ovr := true }
        st.hs = (.ok .absent, hs1) →
      (execS env fuel (.annassign (.name x) ann none) st).1 = .exc (env.host.pteraNameError x)
      ∧ (execS env fuel (.annassign (.name x) ann none) st).2.loc = st.loc)
    ∧ (∀ v hs1, v ≠ .absent →
        env.host.hnd { name := x, key := .noneV, ann := annValOpt env (some ann), value := .absent, ovr := true }
          st.hs = (.ok v, hs1) →
      (execS env fuel (.annassign (.name x) ann none) st).1 = .normal
      ∧ (execS env fuel (.annassign (.name x) ann none) st).2.loc x = some v) := by
  constructor
  · intro hs1 h
    simp only [execS, henv, stepM, bind_def_M, interactSem, h]
    exact ⟨by first | rfl | trivial, by first | rfl | trivial⟩
  · intro v hs1 hv h
    simp only [execS, henv, stepM, bind_def_M, interactSem, h]
    cases v <;> first | exact absurd rfl hv | simp [setLoc, done]

theorem C16_binding_never_stores_marker (env : Env W HS) (x : String) (ann : Option Ann) (v r : Val)
    (hv : v ≠ .absent) (st : St W HS) (h : ((hook env x ann v : M W HS Val) st).1 = .ok r) : r ≠ .absent := by
  unfold hook at h
  cases hk : env.hk with
  | none =>
    simp only [hk] at h
    have : r = v := by
      have h' : (Res.ok v : Res Val) = .ok r := h
      injection h' with h''
      exact h''.symm
    rw [this]; exact hv
  | some cfg =>
    simp only [hk] at h
    split at h
    · intro hr
      rw [hr] at h
      exact C16_interact_never_returns_marker env x .noneV _ v true st h
    · have : r = v := by
        have h' : (Res.ok v : Res Val) = .ok r := h
        injection h' with h''
        exact h''.symm
      rw [this]; exact hv

theorem C16_rewritten_declaration_is_reference (host : Host W HS) (hh : HostSpec host) (cfg : Cfg) (f : FunDef)
    (fuel : Nat) (hf : coreF f = true) (st0 : St W HS) (hinit : ∀ x ∈ (collect f).external, st0.loc x = none) :
    (runInstr (ctxOf host cfg f fuel).envI fuel (instrument cfg f) st0).1
      = (runRef (ctxOf host cfg f fuel).envR fuel f st0).1
    ∧ Obs (runInstr (ctxOf host cfg f fuel).envI fuel (instrument cfg f) st0).2
        (runRef (ctxOf host cfg f fuel).envR fuel f st0).2 :=
  instrument_refines host cfg f fuel hf (libSpec_of_host host hh cfg f fuel hf) st0 hinit

/-- declarations are inside the fragment the refinement theorem covers -/
theorem C16_declarations_in_fragment (x : String) (ann : Ann) (h : isUser x = true) :
    coreS (.annassign (.name x) ann none) = true := by
  simp [coreS, coreOptE, h]

theorem C16_undefined_name_is_nameerror (env : Env W HS) (x : String) (st : St W HS)
    (h : lookupV env st x = none) : lookup env x st = (.err (env.host.nameError x), st) := by
  unfold lookup; simp [h]

/-- a global that is not set: the rewritten prologue does not bind it, nothing is raised there -/
theorem C16_missing_global_skipped (c : Ctx W HS) (lib : LibSpec c) (x : String)
    (hoff : shouldInstr c.cfg x [] = false) (hg : c.host.glob x = none) :
    execS c.envI c.fuel (fetchExternal c.cfg x) = done .normal := by
  simp only [fetchExternal, hoff, Bool.false_eq_true, if_false, execS, eval_inGlobals c lib x, hg,
    Option.isSome_none, stepM_pure, execB_nil]

/-- the marker is nowhere after an activation of the reference semantics -/
theorem C16_marker_nowhere (host : Host W HS) (Good : Val → Prop) (WInv : W → Prop) (hg : HostGood host Good WInv)
    (hh : HndGood host Good) (cfg : Cfg) (f : FunDef) (fuel : Nat) (hf : coreF f = true) (st0 : St W HS)
    (h0 : MarkerFree Good WInv st0) :
    MarkerFree Good WInv (runRef (ctxOf host cfg f fuel).envR fuel f st0).2
    ∧ CtlQ Good (runRef (ctxOf host cfg f fuel).envR fuel f st0).1 :=
  marker_nowhere (ctxOf host cfg f fuel).envR Good WInv hg hh fuel f hf st0 h0

/-- … hence the rewritten function never returns, raises or yields the marker -/
theorem C16_rewritten_never_returns_marker (host : Host W HS) (hs : HostSpec host) (Good : Val → Prop)
    (WInv : W → Prop) (hg : HostGood host Good WInv) (hh : HndGood host Good) (cfg : Cfg) (f : FunDef) (fuel : Nat)
    (hf : coreF f = true) (st0 : St W HS) (h0 : MarkerFree Good WInv st0)
    (hext : ∀ x ∈ (collect f).external, st0.loc x = none) :
    CtlQ Good (runInstr (ctxOf host cfg f fuel).envI fuel (instrument cfg f) st0).1
    ∧ ∀ v ∈ (runInstr (ctxOf host cfg f fuel).envI fuel (instrument cfg f) st0).2.out, Good v := by
  obtain ⟨e1, o1⟩ := instrument_refines host cfg f fuel hf (libSpec_of_host host hs cfg f fuel hf) st0 hext
  obtain ⟨m1, m2⟩ := C16_marker_nowhere host Good WInv hg hh cfg f fuel hf st0 h0
  rw [e1, o1.out]
  exact ⟨m2, m1.2.2.2.1⟩

/-- the handler of the generated programs (recording, possibly overriding one variable) answers good values -/
theorem C16_generated_handler : HndGood PyLite.host PyLite.Good where
  ans := fun i hs hv => by
    show ResQ PyLite.Good _ (PyLite.hnd i hs).1
    unfold PyLite.hnd
    simp only
    split
    · split
      · split
        · exact Or.inr rfl
        · exact Or.inr rfl
      · exact hv
    · exact hv
  pne := fun _ => rfl

/-- the host of the generated programs never produces the marker -/
theorem C16_generated_host : HostGood PyLite.host PyLite.Good PyLite.WInv where
  notMarker := PyLite.hostGood.notMarker
  int := PyLite.hostGood.int
  str := PyLite.hostGood.str
  noneV := PyLite.hostGood.noneV
  bool := PyLite.hostGood.bool
  const := PyLite.hostGood.const
  tuple := PyLite.hostGood.tuple
  list := PyLite.hostGood.list
  glob := PyLite.hostGood.glob
  call := PyLite.hostGood.call
  binop := PyLite.hostGood.binop
  getattr := PyLite.hostGood.getattr
  getitem := PyLite.hostGood.getitem
  setattr := PyLite.hostGood.setattr
  setitem := PyLite.hostGood.setitem
  iter := PyLite.hostGood.iter
  truthy := PyLite.hostGood.truthy
  enter := PyLite.hostGood.enter
  exit := PyLite.hostGood.exit
  opaqueE := PyLite.hostGood.opaqueE
  bindStmt := PyLite.hostGood.bindStmt
  nameError := PyLite.hostGood.nameError
  unpackError := PyLite.hostGood.unpackError
  genExit := PyLite.hostGood.genExit
  noActiveExc := PyLite.hostGood.noActiveExc

/-- no hypothesis about hosts left: a rewritten function of the fragment, run by the host of the generated
    programs under any capture set and any override, never returns, raises or yields the marker -/
theorem C16_generated_never_marker (cfg : Cfg) (f : FunDef) (fuel : Nat) (hf : coreF f = true)
    (args : List Int) (hlen : f.params.length ≤ args.length) (script : List Bool) (hs0 : PyLite.HState)
    (inp : List GenCmd) (hinp : ∀ cmd ∈ inp, GoodCmd PyLite.Good cmd) :
    let st0 : St PyLite.World PyLite.HState :=
      { loc := initLoc (f.params.map (·.name)) (args.map Val.int), w := { script := script }, hs := hs0,
        inp := inp, out := [], cur := [] }
    CtlQ PyLite.Good (runInstr (ctxOf PyLite.host cfg f fuel).envI fuel (instrument cfg f) st0).1
    ∧ ∀ v ∈ (runInstr (ctxOf PyLite.host cfg f fuel).envI fuel (instrument cfg f) st0).2.out, PyLite.Good v := by
  intro st0
  have hf' := hf
  simp only [coreF, Bool.and_eq_true, List.all_eq_true] at hf'
  obtain ⟨⟨⟨⟨⟨_, _⟩, _⟩, _⟩, _⟩, hparam⟩ := hf'
  refine C16_rewritten_never_returns_marker PyLite.host PyLite.hostSpec PyLite.Good PyLite.WInv C16_generated_host
    C16_generated_handler cfg f fuel hf st0 ⟨?_, hinp, by intro e he; simp [st0] at he, by intro e he; simp [st0] at he,
      ⟨rfl, rfl, by intro p hp; simp [st0] at hp⟩⟩ ?_
  · intro x v hv
    by_cases hm : x ∈ f.params.map (·.name)
    · obtain ⟨u, hu, hi⟩ := initLoc_some x (f.params.map (·.name)) (args.map Val.int) hm (by simpa using hlen)
      simp only [st0] at hv
      rw [hi] at hv
      injection hv with hv
      subst hv
      simp only [List.mem_map] at hu
      obtain ⟨n, _, rfl⟩ := hu
      rfl
    · simp only [st0] at hv
      rw [initLoc_none x _ _ hm] at hv
      simp at hv
  · intro x hx
    apply initLoc_none
    intro hm
    simp only [List.mem_map] at hm
    obtain ⟨p, hp, rfl⟩ := hm
    have ha := hparam p hp
    simp only [Collected.external, List.mem_filter, Bool.and_eq_true, Bool.not_eq_true'] at hx
    rw [ha] at hx
    exact absurd hx.2.1 (by decide)

def sample : FunDef :=
  { name := "f", params := [{ name := "a", ann := none }], defaults := [], returns := none, doc := none,
    body := [.annassign (.name "x") { expr := .name "int", tags := [] } none, .ret (some (.name "x"))],
    freevars := [] }

theorem C16_sample_in_fragment : coreF sample = true := by decide

def isNameErrorFor : Ctl → String → Bool
  | .exc (.obj "exc" [.str "PteraNameError", .str x]), y => x == y
  | _, _ => false

/-- nobody supplies `x`: the call fails with the ptera name error for `x` (no variable captured at all) -/
theorem C16_example_not_supplied :
    isNameErrorFor (runInstr (ctxOf PyLite.host [] sample 5).envI 5 (instrument [] sample)
      Ptera.Props.C01.sampleState).1 "x" = true := by decide

end Ptera.Props.C16
