namespace Ptera.Props.C16
theorem C16_placeholder : True := trivial
end Ptera.Props.C16
