namespace Ptera.Props.C06
theorem C06_placeholder : True := trivial
end Ptera.Props.C06
