/-
  C06 — entry/exit, loop, yield, return and error meta-events bracket every path.

  On model M2 (Props/C01 describes the model and its ties).  In the reference semantics the brackets are
  part of the *shape* of the semantics, so they hold on every path by construction; the theorem that carries
  them to the real rewritten code is the refinement:
  * `C06_rewritten_has_reference_events`: the events recorded by running the rewritten function are those of
    the reference semantics (every core function, capture set, host, input, generator script).
  Shape of the reference semantics:
  * `C06_exit_on_every_way_out`: when `#exit` is captured the activation is `try: … finally: #exit`, and a
    `finally` part is run after EVERY non-abandoned outcome of the body — return, fall-through, exception,
    generator closed (`C06_finally_always_runs`);
  * `C06_error_exactly_on_exception`: the `#error` event is delivered, with the exception, exactly when the
    body ends by raising (`tryExcept` only enters its handler on `exc`);
  * `C06_loop_iteration_bracketed`: an iteration is `try: #loop_x…; rebind targets; body finally: #endloop_x…`,
    so break / continue / return / raise inside it all pass through the end markers;
  * `C06_yield_then_receive`: a `yield` is `#yield` event, suspension, `#receive` event, in that order; when
    the driver throws or closes instead of sending, there is no `#receive`.
  * `C06_return_value_event`: `return e` reports the value through `#value` and returns the answer; falling
    off the end is `return None` (`bodyWithReturn`).
  Over whole runs, with the recording handler of the generated programs (Proofs/Inv.lean is a generic invariant
  theorem for the interpreter, Proofs/InvEvents.lean its instance):
  * `C06_events_of_activation`: the events of an activation are `#enter`, then events carrying only names of
    variables and of the body's own meta events (`#value`, `#yield`, `#receive`, `#loop_x`, `#endloop_x`), then
    `#error` with the exception exactly if the activation ends by raising, then `#exit` — for every function of
    the core fragment, capture set containing the three, input, generator script; nothing of the last two after
    an abandoned activation (a closed generator that yields again: Python never resumes it);
  * `C06_rewritten_events`: the same for the REWRITTEN function, through the refinement theorem, and
    `C06_generated_events` with no hypothesis about hosts or states left (initial state of a generated program);
  * `C06_enter_exactly_once`: hence exactly one `#enter` event per activation.
  * `C06_loop_markers_balanced` (Proofs/Balance.lean, a relational induction over statements: what a statement
    appends to the recorded names never goes below the marker depth it started at and, unless the activation is
    abandoned, comes back to it; expressions, targets and bindings record no marker — an instance of the
    invariant theorem): for every function of the core fragment, capture set that takes `#enter / #exit /
    #error` and treats `#loop_y` and `#endloop_y` alike, input, driver script and variable `x`: along the whole
    activation the depth of `#loop_x … #endloop_x` never goes below zero and is zero at the end, however the
    iteration and the activation are left (fall-through, continue, break, return, raise, generator close);
    `C06_rewritten_loop_markers_balanced` for the REWRITTEN function, `C06_generic_capture_symmetric` shows
    the hypothesis on the capture set holds for the generic capture.
  * `C06_yield_receive_paired` (Proofs/YieldPair.lean, another instance of the invariant theorem, whose kit
    treats a `yield` expression as one step): along the whole activation no `#receive` event occurs without the
    `#yield` it answers directly before it (among the two kinds of events) — whatever the driver does (next,
    send, throw, close, drop); `C06_rewritten_yield_receive_paired` for the REWRITTEN function.  That a yield
    resumed by a value does report `#receive` is `C06_yield_then_receive`.
  * `C06_value_once_partial` (Proofs/ValueOnce.lean, a relational induction over statements in the style of
    Balance.lean): for every function of the core fragment WITHOUT `with` blocks and `finally` clauses
    (`plainB`), capture set that takes `#enter / #exit / #error / #value`, input and driver script: among the
    events of the whole activation those named `#value` are exactly one, carrying the value returned, when
    the activation ends by returning (a `return`, or falling off the end), and none when it ends any other way;
    `C06_rewritten_value_once_partial` for the REWRITTEN function; `C06_value_count_partial` in counting form.
    The FULL statement (every function of the fragment) is false of the model and of ptera alike:
    `C06_value_twice_with_finally` is the witness in the model (a `return` inside `try` whose `finally` clause
    returns again: two `#value` events for one completion), findings F7c / F7d are the same inputs replayed on
    ptera by the check.  What is missing for the full statement is therefore not a proof but a repair of ptera.
-/
import PteraModel.Proofs.PyLiteSpec
import PteraModel.Proofs.InvEvents
import PteraModel.Proofs.Balance
import PteraModel.Proofs.YieldPair
import PteraModel.Proofs.ValueOnce
namespace Ptera.Props.C06
open Ptera.Py Ptera.Sem

variable {W HS : Type}

theorem C06_rewritten_has_reference_events (host : Host W HS) (hh : HostSpec host) (cfg : Cfg) (f : FunDef)
    (fuel : Nat) (hf : coreF f = true) (st0 : St W HS) (hinit : ∀ x ∈ (collect f).external, st0.loc x = none) :
    (runInstr (ctxOf host cfg f fuel).envI fuel (instrument cfg f) st0).1
      = (runRef (ctxOf host cfg f fuel).envR fuel f st0).1
    ∧ (runInstr (ctxOf host cfg f fuel).envI fuel (instrument cfg f) st0).2.hs
      = (runRef (ctxOf host cfg f fuel).envR fuel f st0).2.hs :=
  let h := instrument_refines host cfg f fuel hf (libSpec_of_host host hh cfg f fuel hf) st0 hinit
  ⟨h.1, h.2.hs⟩

/-- with `#exit` captured, the activation is a `try … finally` whose final part is the `#exit` event -/
theorem C06_exit_on_every_way_out (env : Env W HS) (cfg : Cfg) (henv : env.hk = some cfg) (fuel : Nat) (f : FunDef)
    (hexit : shouldInstr cfg "#exit" ["exit"] = true) :
    ∃ body : Exec W HS, runRef env fuel f =
      tryFinally body (stepM (hookMetas env (some exitAnn) ["#exit"]) fun _ => done .normal) := by
  unfold runRef
  simp only [henv, hexit, Bool.not_true, Bool.and_false, Bool.false_eq_true, if_false]
  exact ⟨_, rfl⟩

/-- a `finally` part runs after every outcome of the body that is not an abandoned activation, and the
    outcome of the body stands unless the `finally` part itself ends otherwise -/
theorem C06_finally_always_runs (body fin : Exec W HS) (st : St W HS) (h : ctlFatal (body st).1 = false) :
    tryFinally body fin st =
      (match fin (body st).2 with
       | (.normal, st2) => ((body st).1, st2)
       | (c', st2) => (c', st2)) := by
  unfold Ptera.Sem.tryFinally
  rcases hb : body st with ⟨c, st1⟩
  rw [hb] at h
  simp only at h
  simp only [h, Bool.false_eq_true, if_false]
  rcases fin st1 with ⟨c2, st2⟩
  cases c2 <;> rfl

/-- `#error` is delivered exactly when the body ends by raising (and is not abandoned) -/
theorem C06_error_exactly_on_exception (body : Exec W HS) (handler : Val → Exec W HS) (st : St W HS) :
    tryExcept body handler (done .normal) st =
      (match body st with
       | (.exc e, st1) => if isFatal e then (.exc e, st1) else handler e st1
       | (c, st1) => (c, st1)) := by
  unfold tryExcept
  rcases body st with ⟨c, st1⟩
  cases c <;> rfl

/-- the `#error` event carries the exception, and the exception goes on -/
theorem C06_error_event (env : Env W HS) (cfg : Cfg) (henv : env.hk = some cfg)
    (herr : shouldInstr cfg "#error" [] = true) (e : Val) :
    errorHook env e = stepM (interactSem env "#error" .noneV (annValOpt env none) e false) fun _ => done (.exc e) := by
  unfold errorHook
  simp [henv, herr]

/-- one iteration of a `for` loop in the reference semantics -/
theorem C06_loop_iteration_bracketed (env : Env W HS) (fuel : Nat) (t : Target) (it : Expr) (b o : List Stmt) :
    execS env fuel (.for t it b o) =
      stepM (do let v ← evalE env it; liftW (env.host.iter v)) fun items =>
        forLoop items
          (fun item => stepM (storeT env t item) fun _ =>
            tryFinally
              (stepM (do hookMetas env none ((loopVars t).map ("#loop_" ++ ·)); postBind env t.names) fun _ =>
                execB env fuel b)
              (stepM (hookMetas env none ((loopVars t).map ("#endloop_" ++ ·))) fun _ => done .normal))
          (execB env fuel o) := by
  simp [execS]

/-- `yield`: the `#yield` event with the value, the suspension, then the `#receive` event with what was sent -/
theorem C06_yield_then_receive (env : Env W HS) (e : Expr) :
    evalE env (.yield (some e)) = (do
      let x ← evalE env e
      let y ← hook env "#yield" (some exitAnn) x
      let r ← doYield env y
      hook env "#receive" (some enterAnn) r) := by
  simp [evalE]

/-- when the driver throws into the generator (or closes it) nothing is received -/
theorem C06_throw_no_receive (env : Env W HS) (y : Val) (st : St W HS) (e : Val) (rest : List GenCmd)
    (h : st.inp = .throw e :: rest) : (doYield env y st).1 = .err e := by
  unfold doYield
  simp [h]

theorem C06_return_value_event (env : Env W HS) (fuel : Nat) (e : Expr) :
    execS env fuel (.ret (some e)) =
      stepM (do let x ← evalE env e; hook env "#value" none x) fun r => done (.ret r) := by
  simp [execS]

/-- falling off the end is `return None`: the rewritten function and the reference semantics both run the
    body with that statement appended -/
theorem C06_fall_off_is_return_none (f : FunDef) (h : endsWithReturn (hoistB f.body).1 = false) :
    bodyWithReturn f = (hoistB f.body).1 ++ [.ret none] := by
  unfold bodyWithReturn
  rcases hh : hoistB f.body with ⟨b, d⟩
  rw [hh] at h
  simp only at h ⊢
  simp [h]

/-- the events of an activation of the reference semantics, with the recording handler -/
theorem C06_events_of_activation (sc : String → Bool) (cfg : Cfg)
    (hE : shouldInstr cfg "#enter" ["enter"] = true) (hX : shouldInstr cfg "#exit" ["exit"] = true)
    (hEr : shouldInstr cfg "#error" [] = true) (fuel : Nat) (f : FunDef) (hf : coreF f = true)
    (st0 : St PyLite.World PyLite.HState) (h0 : MarkerFree PyLite.Good PyLite.WInv st0) :
    ∃ mid, (∀ i ∈ mid, bodyName i.name = true) ∧
      (runRef (recEnv sc cfg) fuel f st0).2.hs.events
        = st0.hs.events ++ [metaEv "#enter" (some enterAnn) (.bool true)] ++ mid ++
          (match (runRef (recEnv sc cfg) fuel f st0).1 with
           | .exc e => if isFatal e then [] else [metaEv "#error" none e, metaEv "#exit" (some exitAnn) (.bool true)]
           | _ => [metaEv "#exit" (some exitAnn) (.bool true)]) :=
  events_of_activation sc cfg hE hX hEr fuel f hf st0 h0

/-- … and of the rewritten function -/
theorem C06_rewritten_events (cfg : Cfg)
    (hE : shouldInstr cfg "#enter" ["enter"] = true) (hX : shouldInstr cfg "#exit" ["exit"] = true)
    (hEr : shouldInstr cfg "#error" [] = true) (fuel : Nat) (f : FunDef) (hf : coreF f = true)
    (st0 : St PyLite.World PyLite.HState) (h0 : MarkerFree PyLite.Good PyLite.WInv st0)
    (hext : ∀ x ∈ (collect f).external, st0.loc x = none) :
    ∃ mid, (∀ i ∈ mid, bodyName i.name = true) ∧
      (runInstr (ctxOf PyLite.hostObs cfg f fuel).envI fuel (instrument cfg f) st0).2.hs.events
        = st0.hs.events ++ [metaEv "#enter" (some enterAnn) (.bool true)] ++ mid ++
          (match (runInstr (ctxOf PyLite.hostObs cfg f fuel).envI fuel (instrument cfg f) st0).1 with
           | .exc e => if isFatal e then [] else [metaEv "#error" none e, metaEv "#exit" (some exitAnn) (.bool true)]
           | _ => [metaEv "#exit" (some exitAnn) (.bool true)]) := by
  obtain ⟨e1, o1⟩ := instrument_refines PyLite.hostObs cfg f fuel hf
    (libSpec_of_host PyLite.hostObs PyLite.hostSpecObs cfg f fuel hf) st0 hext
  rw [e1, o1.hs]
  exact events_of_activation (scopeRef cfg f) cfg hE hX hEr fuel f hf st0 h0

/-- no hypothesis about hosts or states left: the events of the rewritten function, run from the initial state of
    a generated program (integer arguments, any condition script, any driver script) -/
theorem C06_generated_events (cfg : Cfg)
    (hE : shouldInstr cfg "#enter" ["enter"] = true) (hX : shouldInstr cfg "#exit" ["exit"] = true)
    (hEr : shouldInstr cfg "#error" [] = true) (fuel : Nat) (f : FunDef) (hf : coreF f = true)
    (args : List Int) (hlen : f.params.length ≤ args.length) (script : List Bool)
    (inp : List GenCmd) (hinp : ∀ cmd ∈ inp, GoodCmd PyLite.Good cmd) :
    let r := runInstr (ctxOf PyLite.hostObs cfg f fuel).envI fuel (instrument cfg f) (genState f args script {} inp)
    ∃ mid, (∀ i ∈ mid, bodyName i.name = true) ∧
      r.2.hs.events = [metaEv "#enter" (some enterAnn) (.bool true)] ++ mid ++
          (match r.1 with
           | .exc e => if isFatal e then [] else [metaEv "#error" none e, metaEv "#exit" (some exitAnn) (.bool true)]
           | _ => [metaEv "#exit" (some exitAnn) (.bool true)]) := by
  intro r
  obtain ⟨mid, hm, he⟩ := C06_rewritten_events cfg hE hX hEr fuel f hf (genState f args script {} inp)
    (genState_markerFree f args hlen script {} inp hinp) (genState_external f hf args script {} inp)
  have h0 : (genState f args script {} inp).hs.events = [] := rfl
  rw [h0, List.nil_append] at he
  exact ⟨mid, hm, he⟩

/-- exactly one `#enter` event per activation -/
theorem C06_enter_exactly_once (sc : String → Bool) (cfg : Cfg)
    (hE : shouldInstr cfg "#enter" ["enter"] = true) (hX : shouldInstr cfg "#exit" ["exit"] = true)
    (hEr : shouldInstr cfg "#error" [] = true) (fuel : Nat) (f : FunDef) (hf : coreF f = true)
    (st0 : St PyLite.World PyLite.HState) (h0 : MarkerFree PyLite.Good PyLite.WInv st0)
    (hnone : st0.hs.events = []) :
    ((runRef (recEnv sc cfg) fuel f st0).2.hs.events.filter (fun i => i.name == "#enter")).length = 1 := by
  obtain ⟨mid, hm, he⟩ := events_of_activation sc cfg hE hX hEr fuel f hf st0 h0
  rw [he, hnone]
  have hmid : mid.filter (fun i => i.name == "#enter") = [] := by
    rw [List.filter_eq_nil_iff]
    intro i hi
    have := hm i hi
    intro hc
    have hn : i.name = "#enter" := by simpa using hc
    rw [hn] at this
    exact absurd this (by decide)
  simp only [List.nil_append, List.filter_append, hmid, List.append_nil]
  cases (runRef (recEnv sc cfg) fuel f st0).1 with
  | exc e =>
    simp only
    split <;> simp [metaEv]
  | normal => simp [metaEv]
  | brk => simp [metaEv]
  | cont => simp [metaEv]
  | ret v => simp [metaEv]

/-- loop markers are balanced along a whole activation of the reference semantics, for every variable -/
theorem C06_loop_markers_balanced (sc : String → Bool) (cfg : Cfg)
    (hE : shouldInstr cfg "#enter" ["enter"] = true) (hX : shouldInstr cfg "#exit" ["exit"] = true)
    (hEr : shouldInstr cfg "#error" [] = true)
    (hsym : ∀ y, shouldInstr cfg ("#endloop_" ++ y) [] = shouldInstr cfg ("#loop_" ++ y) [])
    (fuel : Nat) (f : FunDef) (hf : coreF f = true) (st0 : St PyLite.World PyLite.HState)
    (h0 : MarkerFree PyLite.Good PyLite.WInv st0) (x : String) :
    ∃ w, evNames (runRef (recEnv sc cfg) fuel f st0).2 = evNames st0 ++ w ∧ Open x w ∧
      (ctlFatal (runRef (recEnv sc cfg) fuel f st0).1 = false → Neutral x w) :=
  loop_markers_balanced sc cfg hE hX hEr hsym fuel f hf st0 h0 x

/-- hence: unless the activation is abandoned, exactly as many `#endloop_x` as `#loop_x` events — one end per
    iteration begun, however it was left -/
theorem C06_one_end_per_iteration (sc : String → Bool) (cfg : Cfg)
    (hE : shouldInstr cfg "#enter" ["enter"] = true) (hX : shouldInstr cfg "#exit" ["exit"] = true)
    (hEr : shouldInstr cfg "#error" [] = true)
    (hsym : ∀ y, shouldInstr cfg ("#endloop_" ++ y) [] = shouldInstr cfg ("#loop_" ++ y) [])
    (fuel : Nat) (f : FunDef) (hf : coreF f = true) (st0 : St PyLite.World PyLite.HState)
    (h0 : MarkerFree PyLite.Good PyLite.WInv st0) (hnone : st0.hs.events = []) (x : String)
    (hfin : ctlFatal (runRef (recEnv sc cfg) fuel f st0).1 = false) :
    (evNames (runRef (recEnv sc cfg) fuel f st0).2).count ("#loop_" ++ x)
      = (evNames (runRef (recEnv sc cfg) fuel f st0).2).count ("#endloop_" ++ x) := by
  obtain ⟨w, h1, _, h3⟩ := loop_markers_balanced sc cfg hE hX hEr hsym fuel f hf st0 h0 x
  have : evNames st0 = [] := by simp [evNames, hnone]
  rw [h1, this, List.nil_append]
  exact neutral_counts (h3 hfin)

/-- … and along an activation of the rewritten function -/
theorem C06_rewritten_loop_markers_balanced (cfg : Cfg)
    (hE : shouldInstr cfg "#enter" ["enter"] = true) (hX : shouldInstr cfg "#exit" ["exit"] = true)
    (hEr : shouldInstr cfg "#error" [] = true)
    (hsym : ∀ y, shouldInstr cfg ("#endloop_" ++ y) [] = shouldInstr cfg ("#loop_" ++ y) [])
    (fuel : Nat) (f : FunDef) (hf : coreF f = true) (st0 : St PyLite.World PyLite.HState)
    (h0 : MarkerFree PyLite.Good PyLite.WInv st0) (hext : ∀ y ∈ (collect f).external, st0.loc y = none)
    (x : String) :
    ∃ w, evNames (runInstr (ctxOf PyLite.hostObs cfg f fuel).envI fuel (instrument cfg f) st0).2 = evNames st0 ++ w
      ∧ Open x w
      ∧ (ctlFatal (runInstr (ctxOf PyLite.hostObs cfg f fuel).envI fuel (instrument cfg f) st0).1 = false → Neutral x w) := by
  obtain ⟨e1, o1⟩ := instrument_refines PyLite.hostObs cfg f fuel hf
    (libSpec_of_host PyLite.hostObs PyLite.hostSpecObs cfg f fuel hf) st0 hext
  unfold evNames
  rw [e1, o1.hs]
  exact loop_markers_balanced (scopeRef cfg f) cfg hE hX hEr hsym fuel f hf st0 h0 x

/-- `#yield` / `#receive` are paired along a whole activation of the reference semantics -/
theorem C06_yield_receive_paired (sc : String → Bool) (cfg : Cfg)
    (hE : shouldInstr cfg "#enter" ["enter"] = true) (hX : shouldInstr cfg "#exit" ["exit"] = true)
    (hEr : shouldInstr cfg "#error" [] = true)
    (hYR : shouldInstr cfg "#receive" ["enter"] = true → shouldInstr cfg "#yield" ["exit"] = true)
    (fuel : Nat) (f : FunDef) (hf : coreF f = true) (st0 : St PyLite.World PyLite.HState)
    (h0 : MarkerFree PyLite.Good PyLite.WInv st0) :
    ∃ w q, evNames (runRef (recEnv sc cfg) fuel f st0).2 = evNames st0 ++ w ∧ yr false w = some q :=
  yield_receive_paired sc cfg hE hX hEr hYR fuel f hf st0 h0

/-- … and of the rewritten function -/
theorem C06_rewritten_yield_receive_paired (cfg : Cfg)
    (hE : shouldInstr cfg "#enter" ["enter"] = true) (hX : shouldInstr cfg "#exit" ["exit"] = true)
    (hEr : shouldInstr cfg "#error" [] = true)
    (hYR : shouldInstr cfg "#receive" ["enter"] = true → shouldInstr cfg "#yield" ["exit"] = true)
    (fuel : Nat) (f : FunDef) (hf : coreF f = true) (st0 : St PyLite.World PyLite.HState)
    (h0 : MarkerFree PyLite.Good PyLite.WInv st0) (hext : ∀ y ∈ (collect f).external, st0.loc y = none) :
    ∃ w q, evNames (runInstr (ctxOf PyLite.hostObs cfg f fuel).envI fuel (instrument cfg f) st0).2 = evNames st0 ++ w
      ∧ yr false w = some q := by
  obtain ⟨_, o1⟩ := instrument_refines PyLite.hostObs cfg f fuel hf
    (libSpec_of_host PyLite.hostObs PyLite.hostSpecObs cfg f fuel hf) st0 hext
  unfold evNames
  rw [o1.hs]
  exact yield_receive_paired (scopeRef cfg f) cfg hE hX hEr hYR fuel f hf st0 h0

/-- PARTIAL (no `with`, no `finally`): `#value` is recorded exactly once, with the value returned, when the
    activation of the reference semantics returns, and not at all otherwise -/
theorem C06_value_once_partial (sc : String → Bool) (cfg : Cfg)
    (hE : shouldInstr cfg "#enter" ["enter"] = true) (hX : shouldInstr cfg "#exit" ["exit"] = true)
    (hEr : shouldInstr cfg "#error" [] = true) (hVal : shouldInstr cfg "#value" [] = true)
    (fuel : Nat) (f : FunDef) (hf : coreF f = true) (hp : plainB (bodyWithReturn f) = true)
    (st0 : St PyLite.World PyLite.HState) (h0 : MarkerFree PyLite.Good PyLite.WInv st0) :
    ∃ w, (runRef (recEnv sc cfg) fuel f st0).2.hs.events = st0.hs.events ++ w
      ∧ ValProp (runRef (recEnv sc cfg) fuel f st0).1 w :=
  value_once sc cfg hE hX hEr hVal fuel f hf hp st0 h0

/-- … and of the rewritten function -/
theorem C06_rewritten_value_once_partial (cfg : Cfg)
    (hE : shouldInstr cfg "#enter" ["enter"] = true) (hX : shouldInstr cfg "#exit" ["exit"] = true)
    (hEr : shouldInstr cfg "#error" [] = true) (hVal : shouldInstr cfg "#value" [] = true)
    (fuel : Nat) (f : FunDef) (hf : coreF f = true) (hp : plainB (bodyWithReturn f) = true)
    (st0 : St PyLite.World PyLite.HState) (h0 : MarkerFree PyLite.Good PyLite.WInv st0)
    (hext : ∀ y ∈ (collect f).external, st0.loc y = none) :
    ∃ w, (runInstr (ctxOf PyLite.hostObs cfg f fuel).envI fuel (instrument cfg f) st0).2.hs.events = st0.hs.events ++ w
      ∧ ValProp (runInstr (ctxOf PyLite.hostObs cfg f fuel).envI fuel (instrument cfg f) st0).1 w := by
  obtain ⟨e1, o1⟩ := instrument_refines PyLite.hostObs cfg f fuel hf
    (libSpec_of_host PyLite.hostObs PyLite.hostSpecObs cfg f fuel hf) st0 hext
  rw [e1, o1.hs]
  exact value_once (scopeRef cfg f) cfg hE hX hEr hVal fuel f hf hp st0 h0

/-- counting form: from an empty record, the number of `#value` events is 1 if the activation returns, else 0 -/
theorem C06_value_count_partial (sc : String → Bool) (cfg : Cfg)
    (hE : shouldInstr cfg "#enter" ["enter"] = true) (hX : shouldInstr cfg "#exit" ["exit"] = true)
    (hEr : shouldInstr cfg "#error" [] = true) (hVal : shouldInstr cfg "#value" [] = true)
    (fuel : Nat) (f : FunDef) (hf : coreF f = true) (hp : plainB (bodyWithReturn f) = true)
    (st0 : St PyLite.World PyLite.HState) (h0 : MarkerFree PyLite.Good PyLite.WInv st0)
    (hnone : st0.hs.events = []) :
    ((runRef (recEnv sc cfg) fuel f st0).2.hs.events.filter isValueEv).length
      = match (runRef (recEnv sc cfg) fuel f st0).1 with
        | .ret _ => 1
        | _ => 0 := by
  obtain ⟨w, h1, h2⟩ := value_once sc cfg hE hX hEr hVal fuel f hf hp st0 h0
  rw [h1, hnone, List.nil_append]
  unfold ValProp at h2
  cases hc : (runRef (recEnv sc cfg) fuel f st0).1 <;> rw [hc] at h2 <;> simp only at h2 ⊢
  case ret v =>
    have := congrArg List.length h2
    simpa using this
  all_goals (rw [h2]; rfl)

/-- the automaton: an answered yield, an unanswered one followed by the next, a `#receive` out of the blue -/
example : yr false ["#enter", "#yield", "#receive", "a", "#yield", "#yield", "#receive", "#exit"] = some false
    ∧ yr false ["#yield", "#receive", "#yield"] = some true
    ∧ yr false ["#enter", "#receive"] = none := by decide

/-- the hypothesis on the capture set holds for the generic capture (everything is captured) -/
theorem C06_generic_capture_symmetric (y : String) :
    shouldInstr [⟨none, none⟩] ("#endloop_" ++ y) [] = shouldInstr [⟨none, none⟩] ("#loop_" ++ y) [] := by
  simp [shouldInstr, checkEl, matchTag]

/-- the depth function on the events of the example below: balanced, and it does go up (non-vacuity) -/
example : depth "i" 0 ["#enter", "T", "a", "#loop_i", "i", "b", "#endloop_i", "#loop_i", "i", "b", "#endloop_i",
    "#value", "#exit"] = some 0
    ∧ depth "i" 0 ["#enter", "T", "a", "#loop_i", "i", "b"] = some 1
    ∧ depth "i" 0 ["#endloop_i"] = none := by decide

/-- `def f(a): for i in T(1, 'tuple', 2): b = i` followed by `return a` -/
def sample : FunDef :=
  { name := "f", params := [{ name := "a", ann := none }], defaults := [], returns := none, doc := none,
    body := [.for (.name "i") (.call (.name "T") [.int 1, .str "tuple", .int 2]) [.assign [.name "b"] (.name "i")] [],
             .ret (some (.name "a"))], freevars := [] }

def sampleState : St PyLite.World PyLite.HState :=
  { loc := initLoc ["a"] [.int 5], w := {}, hs := {}, inp := [], out := [], cur := [] }

/-- the hypotheses of the partial `#value` theorem hold of the example (non-vacuity) -/
example : coreF Ptera.Props.C06.sample = true ∧ plainB (bodyWithReturn Ptera.Props.C06.sample) = true := by
  decide +kernel

/-- `def g(): try: return 1 finally: return 2` -/
def sampleFinally : FunDef :=
  { name := "g", params := [], defaults := [], returns := none, doc := none,
    body := [.try [.ret (some (.int 1))] [] [] [.ret (some (.int 2))]], freevars := [] }

/-- the witness that the FULL `#value` statement is false (finding F7c, in the model): the function is in the core
    fragment, completes once by returning, and two `#value` events are recorded -/
theorem C06_value_twice_with_finally :
    coreF Ptera.Props.C06.sampleFinally = true
    ∧ plainB (bodyWithReturn Ptera.Props.C06.sampleFinally) = false
    ∧ ((runInstr (ctxOf PyLite.host [⟨none, none⟩] Ptera.Props.C06.sampleFinally 5).envI 5
        (instrument [⟨none, none⟩] Ptera.Props.C06.sampleFinally)
        { loc := initLoc [] [], w := {}, hs := {}, inp := [], out := [], cur := [] }).2.hs.events.map (·.name))
      = ["#enter", "#value", "#value", "#exit"] := by
  decide +kernel

/-- a test: the events of a loop of two iterations, everything captured, through the rewritten code -/
theorem C06_example_brackets :
    ((runInstr (ctxOf PyLite.host [⟨none, none⟩] Ptera.Props.C06.sample 5).envI 5
        (instrument [⟨none, none⟩] Ptera.Props.C06.sample) Ptera.Props.C06.sampleState).2.hs.events.map (·.name))
      = ["#enter", "T", "a", "#loop_i", "i", "b", "#endloop_i", "#loop_i", "i", "b", "#endloop_i", "#value", "#exit"] := by
  decide +kernel

end Ptera.Props.C06
