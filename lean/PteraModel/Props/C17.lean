/-
  C17 — a probe's stream opens once, completes once at exit, and is silent outside.

  Life-cycle model M5 (probe flags `_activated` / active, the observer list of giving's
  `SourceProxy`, completion at `__exit__`).  giving and reactivex are external: their behaviour
  (`_push` iterates the observers; `__exit__` completes them, clears the list, then `_exit`) is
  modelled and validated by correspondence.  Proved for every history:
  * a second activation is refused and changes nothing (`C17_once`), and the guard can never be
    re-armed (`C17_activated_forever`);
  * leaving — normally, by an exception or explicitly — completes exactly the stages attached at
    that moment, clears them, and can happen at most once per probe
    (`C17_completes_at_exit`, `C17_dead_forever`);
  * an event is delivered to exactly the stages attached at that moment of a probe that is in the
    context: nothing before activation, nothing after deactivation, late subscribers see only
    later events (`C17_delivery_to_attached_active`).
-/
import PteraModel.Proofs.LifecycleInv
namespace Ptera.Props.C17
open Ptera.Lifecycle

theorem C17_once (s : State) (p : Nat) (pr : Probe) (hp : s.probes[p]? = some pr)
    (ha : pr.activated = true) : activate s p = (s, .refusedTwice) := by
  simp [activate, hp, ha]

/-- `_activated` is never cleared, by any operation -/
theorem C17_activated_step (body : Nat → List Nat) (varOf : Nat → Nat) (s : State) (op : Op) (p : Nat)
    (pr : Probe) (hp : s.probes[p]? = some pr) (ha : pr.activated = true) :
    ∃ pr', (step body varOf s op).1.probes[p]? = some pr' ∧ pr'.activated = true := by
  cases op with
  | call f => exact ⟨pr, hp, ha⟩
  | attach q st =>
    simp only [step, attach, modifyNth_get]
    by_cases hq : p = q
    · subst hq; exact ⟨{ pr with stages := pr.stages ++ [st] }, by simp [hp], ha⟩
    · exact ⟨pr, by simp [hq, hp], ha⟩
  | activate q =>
    simp only [step, activate]
    cases hq : s.probes[q]? with
    | none => exact ⟨pr, hp, ha⟩
    | some qr =>
      simp only
      split
      · exact ⟨pr, hp, ha⟩
      · split
        · exact ⟨pr, hp, ha⟩
        · simp only [modifyNth_get]
          by_cases hpq : p = q
          · subst hpq; exact ⟨{ pr with activated := true, active := true }, by simp [hp], rfl⟩
          · exact ⟨pr, by simp [hpq, hp], ha⟩
  | deactivate q =>
    simp only [step, deactivate]
    cases hq : s.probes[q]? with
    | none => exact ⟨pr, hp, ha⟩
    | some qr =>
      simp only
      split
      · simp only [modifyNth_get]
        by_cases hpq : p = q
        · subst hpq; exact ⟨{ pr with stages := [] }, by simp [hp], ha⟩
        · exact ⟨pr, by simp [hpq, hp], ha⟩
      · simp only [modifyNth_get]
        by_cases hpq : p = q
        · subst hpq; exact ⟨{ pr with active := false, stages := [] }, by simp [hp], ha⟩
        · exact ⟨pr, by simp [hpq, hp], ha⟩

theorem C17_activated_forever (body : Nat → List Nat) (varOf : Nat → Nat) (p : Nat) :
    ∀ (ops : List Op) (s : State) (pr : Probe), s.probes[p]? = some pr → pr.activated = true →
      ∃ pr', (run body varOf s ops).1.probes[p]? = some pr' ∧ pr'.activated = true := by
  intro ops
  induction ops with
  | nil => intro s pr hp ha; exact ⟨pr, hp, ha⟩
  | cons op ops ih =>
    intro s pr hp ha
    obtain ⟨pr1, hp1, ha1⟩ := C17_activated_step body varOf s op p pr hp ha
    simp only [run]
    cases hs : step body varOf s op with
    | mk s' o =>
      rw [hs] at hp1
      obtain ⟨pr2, hp2, ha2⟩ := ih s' pr1 hp1 ha1
      cases hr : run body varOf s' ops with
      | mk s'' os =>
        rw [hr] at hp2
        exact ⟨pr2, by simpa [hs, hr] using hp2, ha2⟩

/-- leaving completes exactly the attached stages, in order, and clears them -/
theorem C17_completes_at_exit (s : State) (p : Nat) (pr : Probe) (hp : s.probes[p]? = some pr)
    (ha : pr.active = true) :
    (deactivate s p).2 = .ok ∧
    (deactivate s p).1.completed = s.completed ++ pr.stages.map (fun st => (p, st)) ∧
    ∃ pr', (deactivate s p).1.probes[p]? = some pr' ∧ pr'.stages = [] ∧ pr'.active = false ∧
      p ∉ (deactivate s p).1.current := by
  simp only [deactivate, hp, ha, Bool.not_true, Bool.false_eq_true, if_false, true_and]
  refine ⟨{ pr with active := false, stages := [] }, by simp [modifyNth_get, hp], rfl, rfl, ?_⟩
  simp [List.mem_filter]

/-- a probe that has been activated and is not active can never become active again -/
theorem C17_dead_step (body : Nat → List Nat) (varOf : Nat → Nat) (s : State) (op : Op) (p : Nat)
    (pr : Probe) (hp : s.probes[p]? = some pr) (ha : pr.activated = true) (hd : pr.active = false) :
    ∃ pr', (step body varOf s op).1.probes[p]? = some pr' ∧ pr'.activated = true ∧ pr'.active = false := by
  cases op with
  | call f => exact ⟨pr, hp, ha, hd⟩
  | attach q st =>
    simp only [step, attach, modifyNth_get]
    by_cases hq : p = q
    · subst hq; exact ⟨{ pr with stages := pr.stages ++ [st] }, by simp [hp], ha, hd⟩
    · exact ⟨pr, by simp [hq, hp], ha, hd⟩
  | activate q =>
    simp only [step, activate]
    cases hq : s.probes[q]? with
    | none => exact ⟨pr, hp, ha, hd⟩
    | some qr =>
      simp only
      split
      · exact ⟨pr, hp, ha, hd⟩
      · rename_i hna
        split
        · exact ⟨pr, hp, ha, hd⟩
        · simp only [modifyNth_get]
          by_cases hpq : p = q
          · subst hpq
            rw [hp] at hq; cases hq
            rw [ha] at hna; exact absurd rfl hna
          · exact ⟨pr, by simp [hpq, hp], ha, hd⟩
  | deactivate q =>
    simp only [step, deactivate]
    cases hq : s.probes[q]? with
    | none => exact ⟨pr, hp, ha, hd⟩
    | some qr =>
      simp only
      split
      · simp only [modifyNth_get]
        by_cases hpq : p = q
        · subst hpq; exact ⟨{ pr with stages := [] }, by simp [hp], ha, hd⟩
        · exact ⟨pr, by simp [hpq, hp], ha, hd⟩
      · simp only [modifyNth_get]
        by_cases hpq : p = q
        · subst hpq; exact ⟨{ pr with active := false, stages := [] }, by simp [hp], ha, rfl⟩
        · exact ⟨pr, by simp [hpq, hp], ha, hd⟩

/-- … hence it is deactivated (its stream completed) at most once in any history -/
theorem C17_dead_forever (body : Nat → List Nat) (varOf : Nat → Nat) (p : Nat) :
    ∀ (ops : List Op) (s : State) (pr : Probe), s.probes[p]? = some pr → pr.activated = true →
      pr.active = false →
      ∃ pr', (run body varOf s ops).1.probes[p]? = some pr' ∧ pr'.active = false := by
  intro ops
  induction ops with
  | nil => intro s pr hp _ hd; exact ⟨pr, hp, hd⟩
  | cons op ops ih =>
    intro s pr hp ha hd
    obtain ⟨pr1, hp1, ha1, hd1⟩ := C17_dead_step body varOf s op p pr hp ha hd
    simp only [run]
    cases hs : step body varOf s op with
    | mk s' o =>
      rw [hs] at hp1
      obtain ⟨pr2, hp2, hd2⟩ := ih s' pr1 hp1 ha1 hd1
      cases hr : run body varOf s' ops with
      | mk s'' os =>
        rw [hr] at hp2
        exact ⟨pr2, by simpa [hs, hr] using hp2, hd2⟩

/-- an event is delivered to exactly the stages attached at that moment of a probe whose handlers
    are in the context -/
theorem C17_delivery_to_attached_active (body : Nat → List Nat) (varOf : Nat → Nat) (s : State) (f : Nat) :
    ∀ ev ∈ callEvents body varOf s f, ev.1 ∈ s.current ∧
      ∃ pr, s.probes[ev.1]? = some pr ∧ ev.2.2 = pr.stages := by
  intro ev hev
  unfold callEvents at hev
  split at hev
  · simp at hev
  · simp only [List.mem_flatMap] at hev
    obtain ⟨v, _, q, hq, hev⟩ := hev
    split at hev
    · rename_i pr hpr
      simp only [List.mem_map] at hev
      obtain ⟨_, _, rfl⟩ := hev
      exact ⟨hq, pr, hpr, rfl⟩
    · simp at hev

end Ptera.Props.C17
