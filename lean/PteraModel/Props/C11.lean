/-
  C11 — tag selectors capture exactly the bindings that carry the tag.

  Over the runtime model M3: `matchTag` / `checkElement` (ptera/tags.py `match_tag`,
  ptera/selector.py `check_element`), the working set of an interaction
  (`WorkingFrame.__init__`) and `fitsSelector` (function-position tags).
-/
import PteraModel.Model.Handlers
namespace Ptera.Props.C11
open Ptera.Handlers

/-- a tag restriction matches exactly the annotations that are that tag or a tag set containing it -/
theorem C11_match_iff (t : String) (cat : Cat) :
    matchTag (some t) cat = true ↔ ∃ ts, cat = .tags ts ∧ t ∈ ts := by
  cases cat with
  | none => simp [matchTag]
  | other => simp [matchTag]
  | tags ts => simp [matchTag]

/-- an unrestricted capture matches every annotation, including none at all -/
theorem C11_unrestricted (cat : Cat) : matchTag Option.none cat = true := by
  cases cat <;> rfl

/-- a generic capture restricted to a tag (`$x:@T`, `*:@T`) applies to a binding iff the binding's
    annotation carries the tag — whatever the variable is called -/
theorem C11_generic_iff (e : El) (t : String) (hn : e.name = Option.none) (hc : e.category = some t)
    (varname : String) (cat : Cat) :
    e.check varname cat = true ↔ ∃ ts, cat = .tags ts ∧ t ∈ ts := by
  simp [El.check, checkElement, hn, hc, C11_match_iff]

/-- a named capture with a tag (`v:@T`) additionally requires the name -/
theorem C11_named_iff (e : El) (n t : String) (hn : e.name = some n) (hc : e.category = some t)
    (varname : String) (cat : Cat) :
    e.check varname cat = true ↔ n = varname ∧ ∃ ts, cat = .tags ts ∧ t ∈ ts := by
  simp [El.check, checkElement, hn, hc, C11_match_iff]

/-- tag sets behave as sets: matching depends only on membership (order and repetition of `&`
    are irrelevant) -/
theorem C11_tagset_is_set (t : Option String) (ts ts' : List String) (h : ∀ x, x ∈ ts ↔ x ∈ ts') :
    matchTag t (.tags ts) = matchTag t (.tags ts') := by
  cases t with
  | none => rfl
  | some t =>
    simp only [matchTag]
    have := h t
    by_cases h1 : t ∈ ts
    · have h2 := this.mp h1; simp [h1, h2]
    · have h2 : t ∉ ts' := fun h' => h1 (this.mpr h'); simp [h1, h2]

/-- `_merge`: the union of two tag sets; commutative, associative and idempotent as far as matching
    can tell -/
def merge (a b : List String) : List String := a ++ b

theorem C11_merge_comm (t : Option String) (a b : List String) :
    matchTag t (.tags (merge a b)) = matchTag t (.tags (merge b a)) :=
  C11_tagset_is_set t _ _ (by intro x; simp [merge, or_comm])

theorem C11_merge_assoc (t : Option String) (a b c : List String) :
    matchTag t (.tags (merge (merge a b) c)) = matchTag t (.tags (merge a (merge b c))) :=
  C11_tagset_is_set t _ _ (by intro x; simp [merge, or_assoc])

theorem C11_merge_idem (t : Option String) (a : List String) :
    matchTag t (.tags (merge a a)) = matchTag t (.tags a) :=
  C11_tagset_is_set t _ _ (by intro x; simp [merge])

/-- the working set of an interaction holds exactly the registered elements that apply to this
    binding (name and annotation), in registration order — nothing else is logged or triggered -/
theorem C11_working_set_exact (handlers : Array Handler) (heap : Heap) (it : Interactor)
    (varname : String) (cat : Cat) :
    (workingSet handlers heap it varname cat).2.map Prod.fst
      = ((((it.accs.find? (·.1 == varname)).map (·.2)).getD []).filter
          (fun p => p.1.check varname cat)).map Prod.fst := by
  unfold workingSet
  generalize ((it.accs.find? (·.1 == varname)).map (·.2)).getD [] = regs
  -- generalise the accumulator of the fold
  have key : ∀ (regs : List (El × Nat)) (heap : Heap) (ws : List (El × Nat)),
      (regs.foldl (fun (st : Heap × List (El × Nat)) (p : El × Nat) =>
        if !p.1.check varname cat then (st.1, st.2) else
        if (((st.1[p.2]?.bind fun acc => handlers[acc.handler]?).map (·.kind)).getD .immediate == .total
            && p.1.focus) = true then
          ((fork st.1 p.2 (some p.1)).1, st.2 ++ [(p.1, (fork st.1 p.2 (some p.1)).2)])
        else (st.1, st.2 ++ [(p.1, p.2)])) (heap, ws)).2.map Prod.fst
      = ws.map Prod.fst ++ ((regs.filter fun p => p.1.check varname cat).map Prod.fst) := by
    intro regs
    induction regs with
    | nil => intro heap ws; simp
    | cons p rest ih =>
      intro heap ws
      simp only [List.foldl_cons]
      by_cases hc : p.1.check varname cat = true
      · simp only [hc, Bool.not_true, Bool.false_eq_true, if_false, List.filter_cons, if_true]
        split
        · rw [ih]; simp
        · rw [ih]; simp
      · have hc' : p.1.check varname cat = false := by simpa using hc
        simp only [hc', Bool.not_false, if_true, List.filter_cons]
        rw [ih]; simp
  have := key regs heap []
  simpa using this

/-- a tag on the function position selects only functions whose return annotation carries it -/
theorem C11_function_position (fnId : Nat) (info : FnInfo) (sel : Sel) (t : String)
    (hc : sel.fcat = some t) (capmap : List (El × List String))
    (h : fitsSelector fnId info sel = some capmap) :
    ∃ ts, info.ret = .tags ts ∧ t ∈ ts := by
  have hm : matchTag (some t) info.ret = true := by
    cases hm : matchTag (some t) info.ret
    · -- then `fits_selector` answers False
      exfalso
      unfold fitsSelector at h
      simp [hc, hm] at h
    · rfl
  exact (C11_match_iff t info.ret).mp hm

/-- non-vacuity -/
example : matchTag (some "T") (.tags ["U", "T"]) = true := by decide
example : matchTag (some "T") (.tags ["U"]) = false := by decide
example : matchTag (some "T") .other = false := by decide

end Ptera.Props.C11
