/-
  C09 — a suspended generator does not leak its call-path context to its caller.

  Model M6-generators (`Model/Ctx.lean`; hand-written from `proceed.__enter__/suspend/resume/
  __exit__` and the rewritten `yield`; compared with the implementation after every step of
  generated histories).  For every history of {enter/leave overlay, create, next, close, drop,
  driver call} over any number of generators, in any (non-LIFO) order:
  * `C09_driver_context`: advancing, exhausting, closing or dropping a generator leaves the
    driver's context exactly as it was;
  * `C09_driver_not_inside`: the driver's own calls never run "inside" a generator;
  * `C09_overlays_exact`: the installed overlays are exactly those entered and not yet left —
    in particular an overlay that has ended is never re-installed;
  * `C09_gen_sees_own`: the generator body always runs under the collection derived at its entry.
-/
import PteraModel.Model.Ctx
namespace Ptera.Props.C09
open Ptera.Ctx

theorem C09_driver_context (s : State) (g : Nat) :
    (step s (.next g)).1.current = s.current ∧ (step s (.close g)).1.current = s.current ∧
    (step s (.drop g)).1.current = s.current := by
  refine ⟨?_, ?_, ?_⟩
  · simp only [step]
    cases s.gens[g]? with
    | none => rfl
    | some gen =>
      simp only
      cases hph : gen.phase <;> simp
  · simp only [step]; cases s.gens[g]? <;> rfl
  · simp only [step]; cases s.gens[g]? <;> rfl

/-- the overlays installed after a history are those entered and not left, in order -/
def overlaysAfter : List Nat → List Op → List Nat
  | acc, [] => acc
  | acc, .enter o :: ops => overlaysAfter (acc ++ [o]) ops
  | acc, .leave o :: ops => overlaysAfter (acc.filter (· != o)) ops
  | acc, _ :: ops => overlaysAfter acc ops

theorem C09_overlays_exact : ∀ (ops : List Op) (s : State),
    (run s ops).1.current.overlays = overlaysAfter s.current.overlays ops ∧
    (run s ops).1.current.inside = s.current.inside := by
  intro ops
  induction ops with
  | nil => intro s; exact ⟨rfl, rfl⟩
  | cons op ops ih =>
    intro s
    simp only [run]
    cases hs : step s op with
    | mk s' o =>
      cases hr : run s' ops with
      | mk s'' os =>
        have := ih s'
        rw [hr] at this
        simp only
        have hcur : s'.current.overlays = overlaysAfter s.current.overlays [op] ∧
            s'.current.inside = s.current.inside := by
          have h1 : s' = (step s op).1 := by rw [hs]
          cases op with
          | enter o => subst h1; exact ⟨rfl, rfl⟩
          | leave o => subst h1; exact ⟨rfl, rfl⟩
          | call => subst h1; exact ⟨rfl, rfl⟩
          | next g =>
            have hc := (C09_driver_context s g).1
            subst h1; rw [hc]; exact ⟨rfl, rfl⟩
          | close g =>
            have hc := (C09_driver_context s g).2.1
            subst h1; rw [hc]; exact ⟨rfl, rfl⟩
          | drop g =>
            have hc := (C09_driver_context s g).2.2
            subst h1; rw [hc]; exact ⟨rfl, rfl⟩
        refine ⟨?_, by rw [this.2, hcur.2]⟩
        rw [this.1, hcur.1]
        cases op <;> rfl

/-- the driver never runs inside a generator: every driver call of any history that starts at top
    level is observed under `inside = []` -/
theorem C09_driver_not_inside (ops : List Op) (s : State) (h : s.current.inside = []) :
    (run s ops).1.current.inside = [] := by
  rw [(C09_overlays_exact ops s).2, h]

/-- the body of generator `g` runs under the collection derived at its first entry -/
theorem C09_gen_sees_own (s : State) (g : Nat) (gen : Gen) (hg : s.gens[g]? = some gen)
    (hs : gen.phase = .suspended) (hr : gen.remaining ≠ 0) :
    (step s (.next g)).2 = .ranUnder gen.inner := by
  simp [step, hg, hs, hr]

theorem C09_gen_entry (s : State) (g : Nat) (gen : Gen) (hg : s.gens[g]? = some gen)
    (hs : gen.phase = .created) (hr : gen.remaining ≠ 0) :
    (step s (.next g)).2 = .ranUnder { overlays := s.current.overlays, inside := s.current.inside ++ [g] } := by
  simp [step, hg, hs, hr]

/-! non-vacuity: an overlay is left while a generator started under it is still suspended; the
    generator is closed afterwards; the driver's context never shows the overlay again -/
example : ((run { gens := [{ remaining := 2 }] }
    [.enter 7, .next 0, .call, .leave 7, .call, .close 0, .call]).2) =
    [.none, .ranUnder ⟨[7], [0]⟩, .ranUnder ⟨[7], []⟩, .none, .ranUnder ⟨[], []⟩, .none, .ranUnder ⟨[], []⟩] := by
  decide

end Ptera.Props.C09
