namespace Ptera.Props.C10
theorem C10_placeholder : True := trivial
end Ptera.Props.C10
