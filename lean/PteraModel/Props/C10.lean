/-
  C10 — every name a function binds or reads is selectable; absent names are refused.

  On model M2: `collect` (Model/Collect) is `ExternalVariableCollector`; it is tied to the code by the AST
  correspondence, which compares ptera's `__ptera_info__` provenance table with the model's for every
  generated function.  Python's own scoping is the independent oracle of the check (`symtable`).
  * `C10_bound_anywhere_is_selectable`: a name bound by ANY statement of the body, however deeply nested
    (inside except / with / for / try / if / while blocks), is in the variable table;
  * `C10_read_is_selectable`: so is every name the body reads;
  * `C10_table_is_exactly_bound_or_read`: and nothing else is — a name occurring nowhere is not in the table,
    which is what makes `f > v` a selector error before anything runs;
  * `C10_every_entry_has_provenance`, `C10_provenance_exclusive`: each entry is classified, as exactly one of
    external / argument / closure / body;
  * `C10_external_iff_read_only_global`: `external` means read, not bound, not a closure variable;
  * `C10_parameter_is_argument`: a parameter is `argument` even if the body assigns it again.
  * `C10_nested_blocks`: concretely, names bound only inside an `except` clause, a `with`, a `for` and a
    nested `try` of a sample function are all entries (kernel evaluation).
-/
import PteraModel.Model.Collect
namespace Ptera.Props.C10
open Ptera.Py

theorem mem_allVars (c : Collected) (x : String) : x ∈ c.allVars ↔ x ∈ c.used ∨ x ∈ c.assigned := by
  simp [Collected.allVars, List.mem_eraseDups]

theorem mem_assigned (f : FunDef) (x : String) :
    x ∈ (collect f).assigned ↔ x ∈ f.params.map (·.name) ++ Stmt.assignedL f.body
      ++ (f.defaults.flatMap Expr.stores) ++ optStores f.returns := by
  simp [collect, List.mem_eraseDups]

/-- a name bound by a statement of the body (at any depth) is an entry of the table -/
theorem C10_bound_anywhere_is_selectable (f : FunDef) (x : String) (h : x ∈ Stmt.assignedL f.body) :
    x ∈ (collect f).allVars := by
  rw [mem_allVars, mem_assigned]
  right
  simp only [List.mem_append]
  exact Or.inl (Or.inl (Or.inr h))

/-- the statements of nested blocks contribute their bindings: except clause, with, for, try, if, while -/
theorem C10_blocks_contribute (x : String) :
    (∀ typ name body, x ∈ Stmt.assignedL body → x ∈ Handler.assigned (.mk typ name body))
    ∧ (∀ typ body, x ∈ Handler.assigned (.mk typ (some x) body))
    ∧ (∀ b hs o fin, x ∈ Handler.assignedL hs → x ∈ Stmt.assigned (.try b hs o fin))
    ∧ (∀ c t b, x ∈ Stmt.assignedL b → x ∈ Stmt.assigned (.with c t b))
    ∧ (∀ c t b, x ∈ t.names → x ∈ Stmt.assigned (.with c (some t) b))
    ∧ (∀ t it b o, x ∈ t.names → x ∈ Stmt.assigned (.for t it b o))
    ∧ (∀ t it b o, x ∈ Stmt.assignedL b → x ∈ Stmt.assigned (.for t it b o))
    ∧ (∀ c b o, x ∈ Stmt.assignedL b → x ∈ Stmt.assigned (.ite c b o))
    ∧ (∀ c b o, x ∈ Stmt.assignedL b → x ∈ Stmt.assigned (.while c b o)) := by
  refine ⟨?_, ?_, ?_, ?_, ?_, ?_, ?_, ?_, ?_⟩ <;> intros <;> simp [Handler.assigned, Stmt.assigned, *]

theorem C10_read_is_selectable (f : FunDef) (x : String) (h : x ∈ (collect f).used) :
    x ∈ (collect f).allVars := by
  rw [mem_allVars]; exact Or.inl h

/-- nothing else is in the table: a name that the function neither reads nor binds is refused -/
theorem C10_table_is_exactly_bound_or_read (f : FunDef) (x : String) :
    x ∈ (collect f).allVars ↔ x ∈ (collect f).used ∨ x ∈ (collect f).assigned := mem_allVars _ x

theorem provenance_mem (c : Collected) (x : String) :
    c.provenance x = (if x ∈ c.external then some "external"
      else if x ∈ c.params then some "argument"
      else if x ∈ c.free then some "closure" else if x ∈ c.assigned then some "body" else none) := by
  simp [Collected.provenance]

theorem mem_external (c : Collected) (x : String) : x ∈ c.external ↔ x ∈ c.used ∧ x ∉ c.assigned ∧ x ∉ c.free := by
  simp [Collected.external]

theorem C10_every_entry_has_provenance (f : FunDef) (x : String) (h : x ∈ (collect f).allVars) :
    (collect f).provenance x ≠ none := by
  rw [mem_allVars] at h
  rw [provenance_mem]
  by_cases he : x ∈ (collect f).external
  · simp [he]
  · by_cases hp : x ∈ (collect f).params
    · simp [he, hp]
    · by_cases hfv : x ∈ (collect f).free
      · simp [he, hp, hfv]
      · by_cases ha : x ∈ (collect f).assigned
        · simp [he, hp, hfv, ha]
        · exfalso
          rcases h with h | h
          · exact he ((mem_external _ x).2 ⟨h, ha, hfv⟩)
          · exact ha h

/-- `external` = read, never bound, not a closure variable -/
theorem C10_external_iff_read_only_global (f : FunDef) (x : String) :
    (collect f).provenance x = some "external" ↔
      x ∈ (collect f).used ∧ x ∉ (collect f).assigned ∧ x ∉ (collect f).free := by
  rw [provenance_mem, ← mem_external]
  by_cases he : x ∈ (collect f).external
  · simp [he]
  · simp only [he, if_false, iff_false]
    split
    · simp
    · split
      · simp
      · split <;> simp

/-- the classes are mutually exclusive by construction: one answer per name -/
theorem C10_provenance_exclusive (f : FunDef) (x : String) (p q : String)
    (hp : (collect f).provenance x = some p) (hq : (collect f).provenance x = some q) : p = q := by
  rw [hp] at hq; exact Option.some.inj hq

/-- a parameter is an `argument`, whatever the body does with the name afterwards -/
theorem C10_parameter_is_argument (f : FunDef) (x : String) (h : x ∈ f.params.map (·.name)) :
    (collect f).provenance x = some "argument" := by
  have hp : x ∈ (collect f).params := by
    simp only [collect, List.mem_append]
    exact Or.inl (Or.inl (Or.inl h))
  have ha : x ∈ (collect f).assigned := by
    rw [mem_assigned]
    simp only [List.mem_append]
    exact Or.inl (Or.inl (Or.inl h))
  have he : x ∉ (collect f).external := fun hm => ((mem_external _ x).1 hm).2.1 ha
  rw [provenance_mem]
  simp [he, hp]

/-- a function binding names only in nested blocks:
    `def f(p): try: (with CM() as w: pass) except E as e: (for i in p: (try: q = 1 finally: pass))` ; reads `G` -/
def sample : FunDef :=
  { name := "f", params := [{ name := "p", ann := none }], defaults := [], returns := none, doc := none,
    body := [.try [.with (.call (.name "CM") []) (some (.name "w")) [.pass]]
              [.mk (some (.name "E")) (some "e")
                [.for (.name "i") (.name "p") [.try [.assign [.name "q"] (.int 1)] [] [] [.pass]] []]]
              [] [],
             .ret (some (.name "G"))],
    freevars := [] }

theorem C10_nested_blocks :
    ["w", "e", "i", "q", "p", "G", "CM", "E"].all (fun x => (collect sample).allVars.contains x) = true
    ∧ (collect sample).provenance "e" = some "body"
    ∧ (collect sample).provenance "q" = some "body"
    ∧ (collect sample).provenance "p" = some "argument"
    ∧ (collect sample).provenance "G" = some "external"
    ∧ (collect sample).provenance "nowhere" = none := by decide

end Ptera.Props.C10
