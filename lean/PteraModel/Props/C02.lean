/-
  C02 — a probe's stream is exactly the binding history of its focus variable.

  On model M2 (see Props/C01 for the model and its ties).  The *reference semantics* (`runRef` with
  `hk = some cfg`) is Python in which every binding of a captured name — parameter at entry, plain / tuple /
  starred / nested / augmented / annotated assignment, loop target, with-target, exception name, import,
  nested def / class, assignment expression — is followed by ONE call of the handler carrying the value
  bound (`hook`, `postBind`, `paramHook` in Model/PySem, PyRun); nothing else calls it except the meta
  events.  With the recording handler the list of calls *is* the binding history.

  * `C02_events_are_the_reference_history`: for every function of the core fragment, every capture set,
    host, input and generator script, the handler state (the recorded events, in order, with their values)
    after running the REWRITTEN function is the one after running the reference semantics.
  * `C02_one_event_per_binding`, `C02_no_event_when_not_captured`: what a binding contributes to the
    history — exactly one event with the value bound when the name is captured, nothing otherwise.
  * `C02_rebinding_reports_current_value`: the re-binding after Python's own unpacking reports the value
    the name has at that moment and stores what the handler answers.
  That the reference semantics' events are what a real probe delivers is the executable correspondence
  (model events vs `probing('f > x')`), and against Python's own bindings the twin oracle.
-/
import PteraModel.Proofs.PyLiteSpec
namespace Ptera.Props.C02
open Ptera.Py Ptera.Sem

variable {W HS : Type}

/-- the events recorded while running the rewritten function are those of the reference semantics -/
theorem C02_events_are_the_reference_history (host : Host W HS) (hh : HostSpec host) (cfg : Cfg) (f : FunDef)
    (fuel : Nat) (hf : coreF f = true) (st0 : St W HS) (hinit : ∀ x ∈ (collect f).external, st0.loc x = none) :
    (runInstr (ctxOf host cfg f fuel).envI fuel (instrument cfg f) st0).2.hs
      = (runRef (ctxOf host cfg f fuel).envR fuel f st0).2.hs :=
  (instrument_refines host cfg f fuel hf (libSpec_of_host host hh cfg f fuel hf) st0 hinit).2.hs

/-- the recording handler of the generated programs: one more event, the value goes through -/
theorem C02_one_event_per_binding (cfg : Cfg) (sc : String → Bool) (name : String) (ann : Option Ann) (v : Val)
    (hv : v ≠ .absent) (hon : shouldInstr cfg name (annTags ann) = true)
    (st : St PyLite.World PyLite.HState) (hno : st.hs.override = none) :
    let env : Env PyLite.World PyLite.HState := { host := PyLite.host, sc := sc, hk := some cfg }
    ((hook env name ann v : M _ _ Val) st).1 = .ok v
    ∧ ((hook env name ann v : M _ _ Val) st).2.hs.events
        = st.hs.events ++ [{ name := name, key := .noneV, ann := PyLite.annVal (annArg ann), value := v, ovr := true }] := by
  simp only [hook, hon, if_true, interactSem, PyLite.host, PyLite.hnd, hno, annValOpt]
  cases v <;> first | exact absurd rfl hv | simp

theorem C02_no_event_when_not_captured (env : Env W HS) (cfg : Cfg) (henv : env.hk = some cfg) (name : String)
    (ann : Option Ann) (v : Val) (hoff : shouldInstr cfg name (annTags ann) = false) (st : St W HS) :
    (hook env name ann v : M W HS Val) st = (.ok v, st) := by
  unfold hook
  simp only [henv, hoff, Bool.false_eq_true, if_false]
  rfl

/-- after Python has bound `x` itself: the handler is shown the current value of `x`, and `x` is bound to
    its answer -/
theorem C02_rebinding_reports_current_value (env : Env W HS) (cfg : Cfg) (henv : env.hk = some cfg) (x : String) :
    postBind1 env x = (lookup env x >>= fun v => hook env x none v >>= fun r => setLoc x (some r)) := by
  unfold postBind1
  simp [henv]

/-- a captured closure variable contributes exactly one event per call, at entry, with the value of the cell, and
    marked as not overridable -/
theorem C02_closure_one_event_at_entry (cfg : Cfg) (sc : String → Bool) (x : String) (v : Val)
    (hv : v ≠ .absent) (hon : shouldInstr cfg x [] = true)
    (st : St PyLite.World PyLite.HState) (hno : st.hs.override = none)
    (hcell : lookupV ({ host := PyLite.host, sc := sc, hk := some cfg } : Env PyLite.World PyLite.HState) st x = some v) :
    let env : Env PyLite.World PyLite.HState := { host := PyLite.host, sc := sc, hk := some cfg }
    (freeHook env x st).1 = .ok ()
    ∧ (freeHook env x st).2.hs.events
        = st.hs.events ++ [{ name := x, key := .noneV, ann := PyLite.annVal (annArg none), value := v, ovr := false }] := by
  intro env
  have hl : lookup env x st = (.ok v, st) := by
    unfold lookup
    rw [show lookupV env st x = some v from hcell]
  unfold freeHook
  simp only [env]
  rw [bind_def_M, show lookup ({ host := PyLite.host, sc := sc, hk := some cfg } : Env PyLite.World PyLite.HState) x st
    = (.ok v, st) from hl]
  simp only [hon, if_true, interactSem, PyLite.host, PyLite.hnd, hno, annValOpt]
  cases v <;> first | exact absurd rfl hv | simp

end Ptera.Props.C02
