namespace Ptera.Props.C02
theorem C02_placeholder : True := trivial
end Ptera.Props.C02
