/-
  C18 — malformed selectors are rejected with a syntax or selector error.

  `parse` / `select0` are the models of `ptera.selector.parse` / `_select`
  (lexer → operator-precedence parser → evaluator); the operator table is the
  one regenerated from the source on this run.  Termination is by construction:
  the lexer and the parser loop run on fuel that is proved sufficient, the
  evaluator is structural.
-/
import PteraModel.Proofs.LexTotal
import PteraModel.Proofs.ParseTotal
import PteraModel.Proofs.EvalTotal
import PteraModel.Generated.Tables
namespace Ptera.Props.C18
open Ptera.Lex Ptera.Parse Ptera.Selector

def tbl : Table := Ptera.Generated.Tables.operators

/-- the lexer consumes at least one character per token (so it terminates), for every
    classification of non-ASCII characters -/
theorem C18_lexer_progress (code : List Ch) : 1 ≤ (lexStep code).2 := lexStep_pos code

/-- the lexer's answer does not depend on the fuel: the model never truncates a token list -/
theorem C18_lexer_total (code : List Ch) (extra : Nat) :
    lexAux ((strip code).length + extra) (strip code) 0 = lex code := lex_fuel_indep code extra

/-- the parser loop terminates and never pops an empty stack: its only failure is the
    "Invalid token" syntax error.  For EVERY operator table and token list. -/
theorem C18_parser_total (t : Table) (tokens : List Token) (e : PErr)
    (h : process t tokens = .error e) : ∃ off, e = .invalidToken off :=
  process_total t tokens e h

/-- no registered evaluation action can fail with an internal error, for every parse tree -/
theorem C18_evaluate_total (ctx : Ctx) (t : PTree) (e : Err) (h : evaluate ctx t = .error e) :
    e.isInternal = false := evaluate_noInt ctx t e h

theorem C18_value_evaluate_total (t : PTree) (e : Err) (h : valueEvaluate t = .error e) :
    e.isInternal = false := valueEvaluate_noInt t e h

/-- `parse(s)`: for every string (and every operator table) the result is a selector item or a
    syntax error — never an assertion, index, attribute or type error. -/
theorem C18_parse_total (t : Table) (code : List Ch) (e : Err) (h : parse t code = .error e) :
    e.isInternal = false := by
  unfold parse at h
  simp only [bind, Except.bind] at h
  split at h
  · rename_i e' hp
    cases h
    cases hq : process t (lex code) with
    | ok r => simp [hq, liftP] at hp
    | error pe =>
      obtain ⟨off, rfl⟩ := process_total t _ pe hq
      simp [hq, liftP] at hp
      subst hp; rfl
  · split at h
    · cases h; rfl
    · exact evaluate_noInt _ _ e h

/-- `_select(s)`: additionally a top-level sequence is a `SelectorError` -/
theorem C18_select_total (t : Table) (code : List Ch) (e : Err) (h : select0 t code = .error e) :
    e.isInternal = false := by
  unfold select0 at h
  simp only [bind, Except.bind] at h
  split at h
  · rename_i e' hp; cases h; exact C18_parse_total t code _ hp
  · split at h
    · cases h
    · cases h
    · cases h; rfl

/-- a selector is returned only for a non-empty token stream -/
theorem C18_empty_refused (t : Table) (code : List Ch) (h : lex code = []) :
    parse t code = .error (.syntax 1) := by
  simp [parse, h, process, run, PState.init, step, order, bind, Except.bind, pure, Except.pure, liftP]

/-- an unknown meta-variable is refused by the static verification: a `#name` is accepted only if
    it is a documented meta-variable or a loop marker -/
theorem C18_hashvar_refused (name : String)
    (h : hashvarAccepted Ptera.Generated.Tables.validHashvars name = true) :
    name ∈ Ptera.Generated.Tables.validHashvars ∨
    isPrefixOf "#loop_".toList name.toList = true ∨ isPrefixOf "#endloop_".toList name.toList = true := by
  unfold hashvarAccepted at h
  simp only [Bool.or_eq_true, List.contains_eq_mem, decide_eq_true_eq] at h
  rcases h with (h | h) | h
  · exact Or.inr (Or.inl h)
  · exact Or.inr (Or.inr h)
  · exact Or.inl h

/-- in particular a name that merely extends a documented one is refused -/
theorem C18_hashvar_extension_refused :
    hashvarAccepted Ptera.Generated.Tables.validHashvars "#values" = false ∧
    hashvarAccepted Ptera.Generated.Tables.validHashvars "#entered" = false ∧
    hashvarAccepted Ptera.Generated.Tables.validHashvars "#loop" = false ∧
    hashvarAccepted Ptera.Generated.Tables.validHashvars "#loop_i" = true ∧
    hashvarAccepted Ptera.Generated.Tables.validHashvars "#value" = true := by decide

/-! ties to the source (regenerated on every run) -/

def sameKeys (a b : List (String × String)) : Bool :=
  a.all (fun x => b.contains x) && b.all (fun x => a.contains x)

/-- the actions the model implements are exactly the registered ones (key ↦ function name) -/
theorem C18_tie_registry :
    sameKeys Ptera.Generated.Tables.evaluateActions evaluateKeys = true ∧
    sameKeys Ptera.Generated.Tables.valueEvaluateActions valueEvaluateKeys = true := by
  decide

/-- the three lexer definitions the hand-written matchers implement -/
theorem C18_tie_lexer : Ptera.Generated.Tables.lexerDefs =
    [("\\s*(?:\\bas\\b|>>|!+|\\[\\[|\\]\\]|[(){}\\[\\]>:,$=~])\\s*|\\s+", "OPERATOR"),
     ("[a-zA-Z_0-9#@*./-]+", "WORD"),
     ("'[^']*'", "STRING")] := by
  decide

theorem C18_tie_hashvars : Ptera.Generated.Tables.validHashvars =
    ["#enter", "#error", "#exit", "#receive", "#value", "#yield"] := by decide

/-! non-vacuity: concrete malformed inputs reach the error branches, well-formed ones succeed -/
def isErr {α} (x : Except Err α) (e : Err) : Bool :=
  match x with | .error e' => e' == e | _ => false
def isOk {α} (x : Except Err α) : Bool := match x with | .ok _ => true | _ => false

example : isErr (select0 tbl (ofString "a,a")) .selector = true := by decide
example : isErr (parse tbl (ofString "")) (.syntax 1) = true := by decide
example : isErr (parse tbl (ofString "f():1")) (.syntax 1) = true := by decide
example : isErr (parse tbl (ofString "f(%)")) (.syntax 3) = true := by decide
example : isErr (parse tbl (ofString "(*#value*,$)=:")) (.syntax 1) = true := by decide
example : isOk (parse tbl (ofString "f(a) > g(!b as c:@T=1)")) = true := by decide

end Ptera.Props.C18
