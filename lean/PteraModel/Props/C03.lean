/-
  C03 — call-path selectors fire once per way the path matches the live call stack.

  Model M3 (`Model/Handlers.lean`, hand-written, tied to ptera by correspondence on generated
  call trees).  What is proved here, for chain selectors `l₁ > l₂ > … > l_k` of ANY length, ANY
  stack of activations (any depth, recursion, gaps), any function table and any accumulators:

  * the selector component of the real collection (`proceedEnter`) does not depend on the
    accumulator heap (`C03_collection_is_heap_free`);
  * after any stack, the pending selectors are exactly the entries of the embedding invariant
    (`C03_collection_chain`), each suffix occurring once per embedding of the matched prefix
    (`C03_pending_count`);
  * hence the number of pairs ready to fire at a binding in the top activation equals the number
    of embeddings of the chain into the live stack that end at the top, and is 0 when there is
    none (`C03_count`, `C03_none`).
  The payload part of the property (latest values from precisely the matched activations) is
  checked by correspondence and by the reference oracle, not proved (`C03Full`).
-/
import PteraModel.Proofs.HandlersSkeleton
namespace Ptera.Props.C03
open Ptera.Handlers Ptera.Embeddings

theorem C03_collection_is_heap_free (handlers : Array Handler) (infos : Array FnInfo) (fnId : Nat)
    (coll : Coll) (heap heap' : Heap) :
    (proceedEnter handlers infos fnId coll heap).2.1.map Prod.fst
      = (proceedEnter handlers infos fnId coll heap').2.1.map Prod.fst := by
  rw [proceedEnter_sels, proceedEnter_sels]

theorem C03_collection_chain (handlers : Array Handler) (infos : Array FnInfo) (coll0 : Coll)
    (heap0 : Heap) (c : List Level) (hc : c ≠ []) (h0 : coll0.map Prod.fst = [chainSel c])
    (rs : List Nat) :
    (collAfter handlers infos coll0 heap0 rs).1.map Prod.fst
      = (pending (levelFits infos) c rs).map fun e => chainSel e.2 :=
  collAfter_chain handlers infos coll0 heap0 c hc h0 rs

/-- each pending copy of a suffix corresponds to one embedding of the matched prefix -/
theorem C03_pending_count (infos : Array FnInfo) (c : List Level) (hc : c ≠ []) (rs : List Nat)
    (d t : List Level) (hdt : d.reverse ++ t = c) (ht : t ≠ []) :
    (pending (levelFits infos) c rs).count (d, t) = emb (levelFits infos) d rs :=
  pending_count _ c hc rs d t hdt ht

/-- exactly one ready-to-fire pair per embedding of the whole chain that ends at the top activation -/
theorem C03_count (infos : Array FnInfo) (outer : List Level) (last : Level) (top : Nat)
    (below : List Nat) :
    firing (levelFits infos) top (pending (levelFits infos) (outer.reverse ++ [last]) below)
      = embTop (levelFits infos) (last :: outer) (top :: below) :=
  firing_pending _ outer last top below

/-- no embedding, no event -/
theorem C03_none (infos : Array FnInfo) (outer : List Level) (last : Level) (top : Nat)
    (below : List Nat) (h : embTop (levelFits infos) (last :: outer) (top :: below) = 0) :
    firing (levelFits infos) top (pending (levelFits infos) (outer.reverse ++ [last]) below) = 0 := by
  rw [C03_count]; exact h

/-! non-vacuity (levels and activations are function numbers, `fits a l := a = l`):
    `f > f > x` with `f` re-entered: 2 embeddings end at the third activation; `f > g > x`
    with g called indirectly through h -/
def fitsEq : Nat → Nat → Bool := fun a l => a == l
example : embTop fitsEq [0, 0] [0, 0, 0] = 2 := by decide
example : firing fitsEq 0 (pending fitsEq [0, 0] [0, 0]) = 2 := by decide
example : embTop fitsEq [0, 0] [0] = 0 := by decide
example : firing fitsEq 1 (pending fitsEq [0, 1] [2, 0]) = 1 := by decide
example : firing fitsEq 1 (pending fitsEq [0, 1] [2, 2]) = 0 := by decide

end Ptera.Props.C03
