/-
  C01 — instrumentation is transparent when nothing is overridden.

  Model M2: the PyLite fragment of Python's `ast` (Model/PyAst), ptera's rewriter as a function on it
  (`instrument`, Model/Instrument — tied to `ptera/transform.py` by the AST correspondence), an executable
  semantics (Model/PySem, PyRun — tied to CPython and to real probes by the executable correspondence).

  `C01_rewrite_refines_reference` (= `instrument_refines`): for EVERY function of the core fragment
  (`coreF`: names, tuple / nested / starred targets, attribute and subscript stores — also element
  assignment `x[i] = v` through a variable with a constant or a computed index, whose rewriting keeps value and
  index in temporaries —, chained assignment `a = b = v` (a temporary again), augmented and annotated
  assignment, declarations, walrus, yield, if / while / for / try / with, nested def / class / import,
  return / raise / break / continue; closures — the function may read variables of enclosing functions, which
  the rewritten code shows to the handler at entry without letting it override them; `global` / `nonlocal`
  statements, annotated assignment to attributes or elements, and the statement forms the model keeps opaque
  are outside), every capture set, every host (whatever calls, arithmetic, iteration, context managers … do),
  every handler, every input, every driving script of a generator and every loop bound, the rewritten
  function ends the same way as the reference semantics of the original — same result or exception, same
  world (side effects, in order), same handler state (events), same values yielded and received.

  The reference semantics is plain Python in which the bindings of captured names consult the handler.
  `C01_observer_changes_nothing`: a handler that observes (answers the value it is shown) makes such a
  binding store exactly what Python would have stored.

  `C01_transparent` — the full statement on the model: for every function of the core fragment WITHOUT bare
  declarations (the documented exception) — a closure variable whose cell is still empty when the function is
  called is left alone at entry (`hcell` only says that the function does not re-bind its closure variables: no
  `nonlocal` in the fragment) —, every capture set, every host that never hands ptera's marker to
  the program (`HostGood`: closure of a predicate `Good` on values under all host operations), every handler
  that only observes, every input / generator script / loop bound: the REWRITTEN function ends the same way
  as the UNTOUCHED one under plain Python semantics (`hk = none`), with the same world (side effects in
  order) and the same values yielded.  It is `instrument_refines` composed with `erasure`
  (Proofs/Erase*.lean: the reference semantics with an observing handler is plain Python — globals read at
  entry equal globals read at use because globals do not change during the call, the re-binding of a name to
  itself is a no-op because Python's own stores leave it bound, meta events only touch the handler state).
-/
import PteraModel.Proofs.PyLiteSpec
import PteraModel.Proofs.EraseFun
import PteraModel.Proofs.PyLiteGood
namespace Ptera.Props.C01
open Ptera.Py Ptera.Sem

variable {W HS : Type}

/-- the full statement of the property on the model: under an observing handler the rewritten function
    behaves as the untouched one (plain Python: `hk = none`) -/
def Transparent (host : Host W HS) (cfg : Cfg) (f : FunDef) (fuel : Nat) (st0 : St W HS) : Prop :=
    (runInstr (ctxOf host cfg f fuel).envI fuel (instrument cfg f) st0).1
      = (runRef { host := host, sc := scopeOf f, hk := none } fuel f st0).1
    ∧ (runInstr (ctxOf host cfg f fuel).envI fuel (instrument cfg f) st0).2.w
      = (runRef { host := host, sc := scopeOf f, hk := none } fuel f st0).2.w
    ∧ (runInstr (ctxOf host cfg f fuel).envI fuel (instrument cfg f) st0).2.out
      = (runRef { host := host, sc := scopeOf f, hk := none } fuel f st0).2.out
    ∧ (runInstr (ctxOf host cfg f fuel).envI fuel (instrument cfg f) st0).2.inp
      = (runRef { host := host, sc := scopeOf f, hk := none } fuel f st0).2.inp

/-- **Transparency.**  Instrumentation with an observing handler changes nothing the caller can see. -/
theorem C01_transparent (host : Host W HS) (hh : HostSpec host) (Good : Val → Prop) (WInv : W → Prop)
    (hg : HostGood host Good WInv) (hobs : Observer host) (pne : PneSpec host)
    (cfg : Cfg) (f : FunDef) (fuel : Nat) (hf : coreF f = true) (hnd : noDeclB (bodyWithReturn f) = true)
    (st0 : St W HS)
    (hext : ∀ x ∈ (collect f).external, st0.loc x = none)
    (hcell : ∀ x ∈ f.freevars, (collect f).assigned.contains x = false)
    (hpar : ∀ p ∈ f.params, st0.loc p.name ≠ none)
    (hgood : ∀ x v, st0.loc x = some v → Good v) (hinp : ∀ cmd ∈ st0.inp, GoodCmd Good cmd)
    (hcur : ∀ e ∈ st0.cur, Good e) (hw : WInv st0.w) :
    Transparent host cfg f fuel st0 := by
  have h1 := instrument_refines host cfg f fuel hf (libSpec_of_host host hh cfg f fuel hf) st0 hext
  have h2 := erasure host cfg f fuel Good WInv hg hobs pne hf hnd st0 hext hcell hpar hgood hinp hcur hw
  obtain ⟨e1, o1⟩ := h1
  obtain ⟨e2, _, r2⟩ := h2
  have eR : (ectxOf host cfg f fuel Good WInv).envR = (ctxOf host cfg f fuel).envR := rfl
  have eP : (ectxOf host cfg f fuel Good WInv).envP = { host := host, sc := scopeOf f, hk := none } := rfl
  rw [eR, eP] at e2 r2
  exact ⟨e1.trans e2, o1.w.trans r2.w, o1.out.trans r2.out, o1.inp.trans r2.inp⟩

/-- the rewritten function refines the reference semantics of the original: result, world, events,
    generator traffic -/
theorem C01_rewrite_refines_reference_partial (host : Host W HS) (hh : HostSpec host) (cfg : Cfg) (f : FunDef)
    (fuel : Nat) (hf : coreF f = true) (st0 : St W HS) (hinit : ∀ x ∈ (collect f).external, st0.loc x = none) :
    (runInstr (ctxOf host cfg f fuel).envI fuel (instrument cfg f) st0).1
      = (runRef (ctxOf host cfg f fuel).envR fuel f st0).1
    ∧ Obs (runInstr (ctxOf host cfg f fuel).envI fuel (instrument cfg f) st0).2
        (runRef (ctxOf host cfg f fuel).envR fuel f st0).2 :=
  instrument_refines host cfg f fuel hf (libSpec_of_host host hh cfg f fuel hf) st0 hinit

/-- at a binding, an observing handler leaves the value as it is (unless it is ptera's marker, which no
    program value is): the reference semantics stores what Python stores -/
theorem C01_observer_changes_nothing (env : Env W HS) (hobs : Observer env.host) (name : String)
    (key ann v : Val) (ovr : Bool) (hv : v ≠ .absent) (st : St W HS) :
    (interactSem env name key ann v ovr st).1 = .ok v
    ∧ (interactSem env name key ann v ovr st).2.loc = st.loc
    ∧ (interactSem env name key ann v ovr st).2.w = st.w
    ∧ (interactSem env name key ann v ovr st).2.out = st.out := by
  unfold interactSem
  have h := hobs { name := name, key := key, ann := ann, value := v, ovr := ovr } st.hs
  rcases hh : env.host.hnd { name := name, key := key, ann := ann, value := v, ovr := ovr } st.hs with ⟨r, hs1⟩
  rw [hh] at h
  simp only at h
  subst h
  cases v <;> first | exact absurd rfl hv | exact ⟨rfl, rfl, rfl, rfl⟩

/-- variables outside the capture set are not touched at all: their bindings do not consult the handler -/
theorem C01_uncaptured_untouched (env : Env W HS) (cfg : Cfg) (henv : env.hk = some cfg) (name : String)
    (ann : Option Ann) (v : Val) (hoff : shouldInstr cfg name (annTags ann) = false) :
    hook env name ann v = pure v := by
  unfold hook
  simp [henv, hoff]

/-- the theorem instantiated with the host of the generated programs and a recording handler: for every
    function of the fragment, capture set, integer arguments, condition script, driver script and loop bound,
    the rewritten function does what the untouched one does (none of the hypotheses about hosts is left) -/
theorem C01_transparent_generated (cfg : Cfg) (f : FunDef) (fuel : Nat) (hf : coreF f = true)
    (hnd : noDeclB (bodyWithReturn f) = true)
    (hcell : ∀ x ∈ f.freevars, (collect f).assigned.contains x = false)
    (args : List Int) (hlen : f.params.length ≤ args.length)
    (script : List Bool) (inp : List GenCmd) (hinp : ∀ cmd ∈ inp, GoodCmd PyLite.Good cmd) :
    Transparent PyLite.hostObs cfg f fuel
      { loc := initLoc (f.params.map (·.name)) (args.map Val.int), w := { script := script }, hs := {},
        inp := inp, out := [], cur := [] } := by
  have hf' := hf
  simp only [coreF, Bool.and_eq_true, List.all_eq_true] at hf'
  obtain ⟨⟨⟨⟨⟨_, _⟩, _⟩, _⟩, _⟩, hparam⟩ := hf'
  refine C01_transparent PyLite.hostObs PyLite.hostSpecObs PyLite.Good PyLite.WInv PyLite.hostGood PyLite.observer
    PyLite.pne cfg f fuel hf hnd _ ?_ hcell ?_ ?_ hinp (by intro e he; simp at he) ⟨rfl, rfl, by intro p hp; simp at hp⟩
  · intro x hx
    apply initLoc_none
    intro hm
    simp only [List.mem_map] at hm
    obtain ⟨p, hp, rfl⟩ := hm
    have ha := hparam p hp
    simp only [Collected.external, List.mem_filter, Bool.and_eq_true, Bool.not_eq_true'] at hx
    rw [ha] at hx
    exact absurd hx.2.1 (by decide)
  · intro p hp
    obtain ⟨v, _, hv⟩ := initLoc_some p.name (f.params.map (·.name)) (args.map Val.int)
      (List.mem_map.2 ⟨p, hp, rfl⟩) (by simpa using hlen)
    simp only
    rw [hv]; simp
  · intro x v hv
    by_cases hm : x ∈ f.params.map (·.name)
    · obtain ⟨u, hu, hi⟩ := initLoc_some x (f.params.map (·.name)) (args.map Val.int) hm (by simpa using hlen)
      simp only at hv
      rw [hi] at hv
      injection hv with hv
      subst hv
      simp only [List.mem_map] at hu
      obtain ⟨n, _, rfl⟩ := hu
      rfl
    · simp only at hv
      rw [initLoc_none x _ _ hm] at hv
      simp at hv

/-- the hypotheses are satisfiable: the host of the generated programs is one -/
theorem C01_host_exists : HostSpec PyLite.host := PyLite.hostSpec

/-- …and a concrete function of the fragment (`def f(a): b = a; return b`) runs to its result through
    the rewritten code (checked by evaluation in the kernel) -/
def sample : FunDef :=
  { name := "f", params := [{ name := "a", ann := none }], defaults := [], returns := none, doc := none,
    body := [.assign [.name "b"] (.name "a"), .ret (some (.name "b"))], freevars := [] }

theorem C01_sample_in_fragment : coreF sample = true := by decide

def sampleState : St PyLite.World PyLite.HState :=
  { loc := initLoc ["a"] [.int 5], w := {}, hs := {}, inp := [], out := [], cur := [] }

def isRetInt : Ctl → Int → Bool
  | .ret (.int n), m => n == m
  | _, _ => false

/-- a test, not a theorem about all programs: `f(5)` run through the rewritten code, every variable
    captured, returns 5 and reports `#enter, a, b, #value, #exit` -/
theorem C01_sample_runs :
    isRetInt (runInstr (ctxOf PyLite.host [⟨none, none⟩] sample 5).envI 5
        (instrument [⟨none, none⟩] sample) sampleState).1 5 = true
    ∧ ((runInstr (ctxOf PyLite.host [⟨none, none⟩] sample 5).envI 5
        (instrument [⟨none, none⟩] sample) sampleState).2.hs.events.map (·.name))
      = ["#enter", "a", "b", "#value", "#exit"] := by decide

/-- a function with a chained assignment and an element assignment through a variable with a computed index
    (`def f(a): c = b = a; O[b + 1] = c; return c`): both forms need temporaries in the rewritten code and are in
    the fragment of the theorems -/
def sample2 : FunDef :=
  { name := "f", params := [{ name := "a", ann := none }], defaults := [], returns := none, doc := none,
    body := [.assign [.name "c", .name "b"] (.name "a"),
             .assign [.sub (.name "O") (.binop "Add" (.name "b") (.int 1))] (.name "c"),
             .ret (some (.name "c"))], freevars := [] }

theorem C01_sample2_in_fragment : coreF sample2 = true := by decide

/-- a test: run through the rewritten code with every variable captured — the container `O` is reported when it
    is fetched and again (keyed by the index) when its element is assigned -/
theorem C01_sample2_runs :
    isRetInt (runInstr (ctxOf PyLite.host [⟨none, none⟩] sample2 5).envI 5
        (instrument [⟨none, none⟩] sample2) sampleState).1 5 = true
    ∧ ((runInstr (ctxOf PyLite.host [⟨none, none⟩] sample2 5).envI 5
        (instrument [⟨none, none⟩] sample2) sampleState).2.hs.events.map (·.name))
      = ["#enter", "O", "a", "c", "b", "O", "#value", "#exit"] := by decide +kernel

/-- a closure (`def f(a): b = a + K1; return b` inside a function whose variable `K1` holds 31): in the fragment,
    and the hypothesis on the cells holds -/
def sample3 : FunDef :=
  { name := "f", params := [{ name := "a", ann := none }], defaults := [], returns := none, doc := none,
    body := [.assign [.name "b"] (.binop "Add" (.name "a") (.name "K1")), .ret (some (.name "b"))],
    freevars := ["K1"] }

theorem C01_sample3_in_fragment : coreF sample3 = true
    ∧ ∀ x ∈ sample3.freevars, (collect sample3).assigned.contains x = false := by
  decide +kernel

/-- a test: the closure variable is shown to the handler at entry, before the parameters -/
theorem C01_sample3_runs :
    isRetInt (runInstr (ctxOf PyLite.host [⟨none, none⟩] sample3 5).envI 5
        (instrument [⟨none, none⟩] sample3) sampleState).1 36 = true
    ∧ ((runInstr (ctxOf PyLite.host [⟨none, none⟩] sample3 5).envI 5
        (instrument [⟨none, none⟩] sample3) sampleState).2.hs.events.map (·.name))
      = ["#enter", "K1", "a", "b", "#value", "#exit"] := by decide +kernel

/-- a closure whose cell is still empty when it is called (`NOCELL` is bound later by the enclosing function and
    not used on this path): the read at entry fails, the failure is caught, nothing is reported for it, the call
    goes on (finding F38: before the repair the rewritten function raised `NameError` at entry) -/
def sample4 : FunDef :=
  { name := "f", params := [{ name := "a", ann := none }], defaults := [], returns := none, doc := none,
    body := [.assign [.name "b"] (.name "a"), .ret (some (.name "b"))], freevars := ["NOCELL"] }

theorem C01_sample4_runs :
    coreF sample4 = true
    ∧ isRetInt (runInstr (ctxOf PyLite.host [⟨none, none⟩] sample4 5).envI 5
        (instrument [⟨none, none⟩] sample4) sampleState).1 5 = true
    ∧ ((runInstr (ctxOf PyLite.host [⟨none, none⟩] sample4 5).envI 5
        (instrument [⟨none, none⟩] sample4) sampleState).2.hs.events.map (·.name))
      = ["#enter", "a", "b", "#value", "#exit"] := by decide +kernel

end Ptera.Props.C01
