namespace Ptera.Props.C01
theorem C01_placeholder : True := trivial
end Ptera.Props.C01
