/-
  C01 — instrumentation is transparent when nothing is overridden.

  Model M2: the PyLite fragment of Python's `ast` (Model/PyAst), ptera's rewriter as a function on it
  (`instrument`, Model/Instrument — tied to `ptera/transform.py` by the AST correspondence), an executable
  semantics (Model/PySem, PyRun — tied to CPython and to real probes by the executable correspondence).

  `C01_rewrite_refines_reference` (= `instrument_refines`): for EVERY function of the core fragment
  (`coreF`: names, tuple / nested / starred targets, attribute and subscript stores, augmented and annotated
  assignment, declarations, walrus, yield, if / while / for / try / with, nested def / class / import,
  return / raise / break / continue; chained assignment and computed subscripts of a named container are
  outside), every capture set, every host (whatever calls, arithmetic, iteration, context managers … do),
  every handler, every input, every driving script of a generator and every loop bound, the rewritten
  function ends the same way as the reference semantics of the original — same result or exception, same
  world (side effects, in order), same handler state (events), same values yielded and received.

  The reference semantics is plain Python in which the bindings of captured names consult the handler.
  `C01_observer_changes_nothing`: a handler that observes (answers the value it is shown) makes such a
  binding store exactly what Python would have stored.

  Full statement (`Transparent`) = refinement + erasure of the observing handler over whole runs.  The
  erasure over whole runs is not proved here (`…_partial`); it is what the differential oracle of the check
  explores (untouched function vs tooled / tooled in place / probed on subsets of its variables).
-/
import PteraModel.Proofs.PyLiteSpec
namespace Ptera.Props.C01
open Ptera.Py Ptera.Sem

variable {W HS : Type}

/-- a handler that only observes: it answers the value it is shown -/
def Observer (host : Host W HS) : Prop := ∀ i hs, (host.hnd i hs).1 = .ok i.value

/-- the full statement of the property on the model: under an observing handler the rewritten function
    behaves as the untouched one (plain Python: `hk = none`) -/
def Transparent (host : Host W HS) (cfg : Cfg) (f : FunDef) : Prop :=
  Observer host → ∀ fuel (st0 : St W HS), (∀ x ∈ (collect f).external, st0.loc x = none) →
    (runInstr (ctxOf host cfg f fuel).envI fuel (instrument cfg f) st0).1
      = (runRef { host := host, sc := scopeOf f, hk := none } fuel f st0).1
    ∧ (runInstr (ctxOf host cfg f fuel).envI fuel (instrument cfg f) st0).2.w
      = (runRef { host := host, sc := scopeOf f, hk := none } fuel f st0).2.w
    ∧ (runInstr (ctxOf host cfg f fuel).envI fuel (instrument cfg f) st0).2.out
      = (runRef { host := host, sc := scopeOf f, hk := none } fuel f st0).2.out

/-- the rewritten function refines the reference semantics of the original: result, world, events,
    generator traffic -/
theorem C01_rewrite_refines_reference_partial (host : Host W HS) (hh : HostSpec host) (cfg : Cfg) (f : FunDef)
    (fuel : Nat) (hf : coreF f = true) (st0 : St W HS) (hinit : ∀ x ∈ (collect f).external, st0.loc x = none) :
    (runInstr (ctxOf host cfg f fuel).envI fuel (instrument cfg f) st0).1
      = (runRef (ctxOf host cfg f fuel).envR fuel f st0).1
    ∧ Obs (runInstr (ctxOf host cfg f fuel).envI fuel (instrument cfg f) st0).2
        (runRef (ctxOf host cfg f fuel).envR fuel f st0).2 :=
  instrument_refines host cfg f fuel hf (libSpec_of_host host hh cfg f fuel hf) st0 hinit

/-- at a binding, an observing handler leaves the value as it is (unless it is ptera's marker, which no
    program value is): the reference semantics stores what Python stores -/
theorem C01_observer_changes_nothing (env : Env W HS) (hobs : Observer env.host) (name : String)
    (key ann v : Val) (ovr : Bool) (hv : v ≠ .absent) (st : St W HS) :
    (interactSem env name key ann v ovr st).1 = .ok v
    ∧ (interactSem env name key ann v ovr st).2.loc = st.loc
    ∧ (interactSem env name key ann v ovr st).2.w = st.w
    ∧ (interactSem env name key ann v ovr st).2.out = st.out := by
  unfold interactSem
  have h := hobs { name := name, key := key, ann := ann, value := v, ovr := ovr } st.hs
  rcases hh : env.host.hnd { name := name, key := key, ann := ann, value := v, ovr := ovr } st.hs with ⟨r, hs1⟩
  rw [hh] at h
  simp only at h
  subst h
  cases v <;> first | exact absurd rfl hv | exact ⟨rfl, rfl, rfl, rfl⟩

/-- variables outside the capture set are not touched at all: their bindings do not consult the handler -/
theorem C01_uncaptured_untouched (env : Env W HS) (cfg : Cfg) (henv : env.hk = some cfg) (name : String)
    (ann : Option Ann) (v : Val) (hoff : shouldInstr cfg name (annTags ann) = false) :
    hook env name ann v = pure v := by
  unfold hook
  simp [henv, hoff]

/-- the hypotheses are satisfiable: the host of the generated programs is one -/
theorem C01_host_exists : HostSpec PyLite.host := PyLite.hostSpec

/-- …and a concrete function of the fragment (`def f(a): b = a; return b`) runs to its result through
    the rewritten code (checked by evaluation in the kernel) -/
def sample : FunDef :=
  { name := "f", params := [{ name := "a", ann := none }], defaults := [], returns := none, doc := none,
    body := [.assign [.name "b"] (.name "a"), .ret (some (.name "b"))], freevars := [] }

theorem C01_sample_in_fragment : coreF sample = true := by decide

def sampleState : St PyLite.World PyLite.HState :=
  { loc := initLoc ["a"] [.int 5], w := {}, hs := {}, inp := [], out := [], cur := [] }

def isRetInt : Ctl → Int → Bool
  | .ret (.int n), m => n == m
  | _, _ => false

/-- a test, not a theorem about all programs: `f(5)` run through the rewritten code, every variable
    captured, returns 5 and reports `#enter, a, b, #value, #exit` -/
theorem C01_sample_runs :
    isRetInt (runInstr (ctxOf PyLite.host [⟨none, none⟩] sample 5).envI 5
        (instrument [⟨none, none⟩] sample) sampleState).1 5 = true
    ∧ ((runInstr (ctxOf PyLite.host [⟨none, none⟩] sample 5).envI 5
        (instrument [⟨none, none⟩] sample) sampleState).2.hs.events.map (·.name))
      = ["#enter", "a", "b", "#value", "#exit"] := by decide

end Ptera.Props.C01
