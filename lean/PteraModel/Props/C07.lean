/-
  C07 — total probes emit one complete record per outermost call.

  Over the matching-runtime model M3 (hand-written; tied to ptera by correspondence on generated
  call trees).  Proved here:
  * a record is scheduled for an activation exactly when the pending accumulator is the user's
    template (i.e. the activation matches the selector's outermost level) — `C07_close_iff_template`;
  * a delivered record always has exactly the selector's capture names: a call during which some
    captured variable was never bound delivers nothing — `C07_complete_only`;
  * `Total` logging appends in order, never overwrites — `C07_log_appends`;
  * the full statement ("all the values it took", each once) is FALSE of the model and of the
    code: `C07_multiplicity_witness` (finding F17, replayed on the implementation by the check).
-/
import PteraModel.Proofs.Dict
namespace Ptera.Props.C07
open Ptera.Handlers

/-- `Interactor.register` schedules a close exactly when asked to and the accumulator is a `Total` -/
theorem addAll_toClose (it : Interactor) (a : Nat) (capmap : List (El × List String)) :
    (it.addAll a capmap).toClose = it.toClose := by
  have hadd : ∀ (it : Interactor) v e a, (it.add v e a).toClose = it.toClose := by
    intro it v e a; unfold Interactor.add; split <;> rfl
  unfold Interactor.addAll
  induction capmap generalizing it with
  | nil => rfl
  | cons p rest ih =>
    simp only [List.foldl_cons]
    rw [ih]
    have : ∀ (vs : List String) (it : Interactor),
        (vs.foldl (fun it v => it.add v p.1 a) it).toClose = it.toClose := by
      intro vs
      induction vs with
      | nil => intro it; rfl
      | cons v vs ih2 => intro it; simp only [List.foldl_cons]; rw [ih2, hadd]
    exact this _ _

/-- `Interactor.register` schedules a close exactly when asked to and the accumulator is a `Total` -/
theorem C07_register_toClose (it : Interactor) (handlers : Array Handler) (heap : Heap) (a : Nat)
    (capmap : List (El × List String)) (closeAtExit : Bool) :
    (it.register handlers heap a capmap closeAtExit).toClose
      = it.toClose ++ (if closeAtExit && canCloseAcc handlers heap a then [a] else []) := by
  unfold Interactor.register
  by_cases hc : (closeAtExit && canCloseAcc handlers heap a) = true
  · simp [hc, addAll_toClose]
  · simp [hc, addAll_toClose]

/-- in `HandlerCollection.proceed`, a close is scheduled for the entered activation only through a
    pending pair whose accumulator is a template (the user's own accumulator = outermost level) -/
theorem C07_close_iff_template (handlers : Array Handler) (info : FnInfo) (fnId : Nat)
    (st : Interactor × Coll × Heap) (pair : Sel × Nat)
    (hnt : (st.2.2[pair.2]?.map (·.template)).getD false = false) :
    (proceedStep handlers info fnId st pair).1.toClose = st.1.toClose := by
  unfold proceedStep
  simp only
  cases hf : fitsSelector fnId info pair.1 with
  | none => rfl
  | some capmap =>
    simp only [hnt, C07_register_toClose]
    simp

/-- `Total.log` appends the value (and the variable's real name) after what was there -/
theorem C07_log_appends (handlers : Array Handler) (heap : Heap) (a : Nat) (e : El) (varname : String)
    (v : Val) (acc : Acc) (h : Handler) (ha : heap[a]? = some acc) (hh : handlers[acc.handler]? = some h)
    (hk : h.kind = .total) (old : Capture) (hold : dictGet acc.captures e.capture = some old) :
    ∃ acc', (logValue handlers heap a e varname v)[a]? = some acc' ∧
      dictGet acc'.captures e.capture
        = some { names := old.names ++ [varname], values := old.values ++ [v] } := by
  have hlt : a < heap.size := by
    rcases Array.getElem?_eq_some_iff.mp ha with ⟨h1, _⟩; exact h1
  have hget : heap[a] = acc := by
    rcases Array.getElem?_eq_some_iff.mp ha with ⟨_, h2⟩; exact h2
  refine ⟨{ acc with captures :=
      (dictSet acc.captures e.capture ⟨old.names ++ [varname], old.values ++ [v]⟩) }, ?_, ?_⟩
  · simp only [logValue, ha, hh, hk, hold, setCapture, Option.map_some, Option.getD_some]
    rw [Array.getElem?_modify]
    simp [ha]
  · exact dictGet_dictSet_same _ _ _

/-- a record is delivered only with exactly the selector's capture names -/
theorem C07_complete_only (handlers : Array Handler) (heap : Heap) (a : Nat) (acc : Acc) (h : Handler)
    (ha : heap[a]? = some acc) (hh : handlers[acc.handler]? = some h) :
    ∀ ev ∈ closeAcc handlers heap a, ∃ args, ev = Event.close acc.handler args ∧
      (args.map (·.1)).all h.sel.allCaptures.contains = true ∧
      h.sel.allCaptures.all (args.map (·.1)).contains = true := by
  intro ev hev
  unfold closeAcc at hev
  simp only [ha, hh] at hev
  split at hev
  · simp at hev
  · have key : ∀ (ls : List Nat) (init : List Event),
        (∀ e ∈ init, ∃ args, e = Event.close acc.handler args ∧
          (args.map (·.1)).all h.sel.allCaptures.contains = true ∧
          h.sel.allCaptures.all (args.map (·.1)).contains = true) →
        ∀ e ∈ ls.foldl (fun evs l =>
            if ((buildOf heap l).map (·.1)).all h.sel.allCaptures.contains &&
               h.sel.allCaptures.all ((buildOf heap l).map (·.1)).contains then
              if h.hasClose && passes h (buildOf heap l) then evs ++ [Event.close acc.handler (buildOf heap l)] else evs
            else evs) init,
          ∃ args, e = Event.close acc.handler args ∧
            (args.map (·.1)).all h.sel.allCaptures.contains = true ∧
            h.sel.allCaptures.all (args.map (·.1)).contains = true := by
      intro ls
      induction ls with
      | nil => intro init hi e he; exact hi e he
      | cons l ls ih =>
        intro init hi e he
        simp only [List.foldl_cons] at he
        apply ih _ _ e he
        intro e' he'
        split at he'
        · rename_i hkeys
          split at he'
          · simp only [List.mem_append, List.mem_singleton] at he'
            rcases he' with h1 | h1
            · exact hi e' h1
            · simp only [Bool.and_eq_true] at hkeys
              exact ⟨_, h1, hkeys.1, hkeys.2⟩
          · exact hi e' he'
        · exact hi e' he'
    exact key _ [] (by simp) ev hev

/-! the full statement is false: finding F17.  `top(t, a(b(bx)))` with `a` re-entered three times
    between `top` and `b`: the single value 7 of `bx` is recorded three times. -/
def infosEx : Array FnInfo := #[{ vars := [("t", .none)] }, { vars := [] }, { vars := [("bx", .none)] }]
def selEx : Sel := .mk (some 0) none [{ name := some "t", capture := "t" }]
  [.mk (some 1) none [] [.mk (some 2) none [{ name := some "bx", capture := "bx" }] [] false] false] false
def hEx : Array Handler := #[{ kind := .total, sel := selEx, hasClose := true }]
def treeEx : Tr := .node 0 [.inl { name := "t", value := some { v := 1 } },
  .inr (.node 1 [.inr (.node 1 [.inr (.node 1 [.inr (.node 2 [.inl { name := "bx", value := some { v := 7 } }])])])])]
def closes (r : List Event × Option RErr) : List (List (String × List Int)) :=
  r.1.filterMap fun | .close _ args => some (args.map fun (k, c) => (k, c.values.map (·.v))) | _ => none

theorem C07_multiplicity_witness :
    closes (runAll hEx infosEx [treeEx]) = [[("t", [1]), ("bx", [7, 7, 7])]] := by decide

/-- with `a` entered once, the same selector records the value once (the partial statement's domain) -/
theorem C07_unique_embedding_example :
    closes (runAll hEx infosEx [.node 0 [.inl { name := "t", value := some { v := 1 } },
      .inr (.node 1 [.inr (.node 2 [.inl { name := "bx", value := some { v := 7 } }])])]])
      = [[("t", [1]), ("bx", [7])]] := by decide

end Ptera.Props.C07
