/-
  C12 — value conditions (arithmetic half).

  The definitions under `Ptera.Generated.Tools` are regenerated from
  `ptera/tools.py` on every run, so these theorems are re-checked against what
  the code says now.  Python `%` is floored modulo (`Int.fmod`).
-/
import PteraModel.Generated.Tools
namespace Ptera.Props.C12
open Ptera.PyVal Ptera.Generated.Tools

theorem fmod_eq_zero_iff (a m : Int) : Int.fmod a m = 0 ↔ m ∣ a := by
  rw [Int.fmod_eq_emod]
  by_cases h : 0 ≤ m ∨ m ∣ a
  · rw [if_pos h]; simp [Int.dvd_iff_emod_eq_zero]
  · have hm : m < 0 := by omega
    have hd : ¬ m ∣ a := fun hd => h (Or.inr hd)
    rw [if_neg h]
    constructor
    · intro h0
      have h1 := Int.emod_nonneg a (Int.ne_of_lt hm)
      have h2 := Int.emod_lt_of_neg a hm
      omega
    · intro hd'; exact absurd hd' hd

/-- `every(n, start, end)` for all integers, `n ≠ 0`:
    holds exactly for `start ≤ v < end` with `v - start` divisible by `n`. -/
theorem C12_every (n start stop v : Int) (hn : n ≠ 0) :
    ((every (.int n) (.int start) (.int stop)).call (.int v)).map Prod.fst
      = .ok (.bool (decide (start ≤ v ∧ v < stop ∧ n ∣ (v - start)))) := by
  have key := fmod_eq_zero_iff (v - start) n
  by_cases h1 : v < start
  · have : ¬ start ≤ v := by omega
    simp [every, Range.init, Range.call, pyAnd, lift1, lift2, pyIsNotNone, pyLt,
      arith, PyV.num?, PyV.truthy, Except.map, bind, Except.bind, pure, Except.pure, h1, this]
  · have h1' : start ≤ v := by omega
    by_cases h2 : v ≥ stop
    · have : ¬ v < stop := by omega
      simp [every, Range.init, Range.call, pyAnd, lift1, lift2, pyIsNotNone, pyLt, pyGe,
        arith, PyV.num?, PyV.truthy, Except.map, bind, Except.bind, pure, Except.pure, h1, this, h2]
    · have h2' : v < stop := by omega
      by_cases h3 : start = 0
      · subst h3
        simp [every, Range.init, Range.call, pyAnd, pyOr, lift1, lift2, pyIsNotNone, pyLt, pyGe,
          pyEq, pyMod, pyAdd, pySub, arith, PyV.num?, PyV.truthy, Except.map, bind, Except.bind,
          pure, Except.pure, h1, h2, hn, h1', h2']
        simpa using key
      · simp [every, Range.init, Range.call, pyAnd, pyOr, lift1, lift2, pyIsNotNone, pyLt, pyGe,
          pyEq, pyMod, pyAdd, pySub, arith, PyV.num?, PyV.truthy, Except.map, bind, Except.bind,
          pure, Except.pure, h1, h2, hn, h1', h2', h3]
        exact key

/-- `every(n)` with the defaults `start = 0`, `end = None`. -/
theorem C12_every_default (n v : Int) (hn : n ≠ 0) :
    ((every (.int n)).call (.int v)).map Prod.fst
      = .ok (.bool (decide (0 ≤ v ∧ n ∣ v))) := by
  have key := fmod_eq_zero_iff v n
  by_cases h1 : v < 0
  · have : ¬ 0 ≤ v := by omega
    simp [every, Range.init, Range.call, pyAnd, lift1, lift2, pyIsNotNone, pyLt,
      arith, PyV.num?, PyV.truthy, Except.map, bind, Except.bind, pure, Except.pure, h1, this]
  · have h1' : 0 ≤ v := by omega
    simp [every, Range.init, Range.call, pyAnd, pyOr, lift1, lift2, pyIsNotNone, pyIsNone, pyLt,
      pyGe, pyEq, pyMod, pyAdd, pySub, arith, PyV.num?, PyV.truthy, Except.map, bind, Except.bind,
      pure, Except.pure, h1, hn, h1']
    exact key

/-- `every(0)` is outside the stated domain: the code divides by zero (recorded, not hidden). -/
theorem C12_every_zero_raises (v : Int) (hv : 0 ≤ v) :
    (every (.int 0)).call (.int v) = .error .zeroDivision := by
  have : ¬ v < 0 := by omega
  simp [every, Range.init, Range.call, pyAnd, pyOr, lift1, lift2, pyIsNotNone, pyLt, pyGe,
      pyEq, pyMod, pyAdd, pySub, arith, PyV.num?, PyV.truthy, bind, Except.bind, pure,
      Except.pure, this]

/-- `between(a, b)` holds exactly for `a ≤ v < b`. -/
theorem C12_between (a b v : Int) :
    ((between (.int a) (.int b)).call (.int v)).map Prod.fst
      = .ok (.bool (decide (a ≤ v ∧ v < b))) := by
  by_cases h1 : v < a
  · have : ¬ a ≤ v := by omega
    simp [between, Range.init, Range.call, pyAnd, lift1, lift2, pyIsNotNone, pyLt,
      arith, PyV.num?, PyV.truthy, Except.map, bind, Except.bind, pure, Except.pure, h1, this]
  · have h1' : a ≤ v := by omega
    by_cases h2 : v ≥ b
    · have : ¬ v < b := by omega
      simp [between, Range.init, Range.call, pyAnd, lift1, lift2, pyIsNotNone, pyLt, pyGe,
        arith, PyV.num?, PyV.truthy, Except.map, bind, Except.bind, pure, Except.pure, h1, this, h2]
    · have h2' : v < b := by omega
      simp [between, Range.init, Range.call, pyAnd, lift1, lift2, pyIsNotNone, pyLt, pyGe,
        arith, PyV.num?, PyV.truthy, Except.map, bind, Except.bind, pure, Except.pure, h1, h2,
        h1', h2']

theorem C12_lt (e v : Int) : lt (.int e) (.int v) = .ok (.bool (decide (v < e))) := by
  simp [lt, lift2, pyLt, arith, PyV.num?, bind, Except.bind, pure, Except.pure]
theorem C12_gt (s v : Int) : gt (.int s) (.int v) = .ok (.bool (decide (v > s))) := by
  simp [gt, lift2, pyGt, arith, PyV.num?, bind, Except.bind, pure, Except.pure]
theorem C12_lte (e v : Int) : lte (.int e) (.int v) = .ok (.bool (decide (v ≤ e))) := by
  simp [lte, lift2, pyLe, arith, PyV.num?, bind, Except.bind, pure, Except.pure]
theorem C12_gte (s v : Int) : gte (.int s) (.int v) = .ok (.bool (decide (v ≥ s))) := by
  simp [gte, lift2, pyGe, arith, PyV.num?, bind, Except.bind, pure, Except.pure]

/-- the generated module defines exactly the stock predicates the property names -/
theorem C12_names :
    definedNames = ["Range", "every", "between", "lt", "gt", "lte", "gte", "throttle"] := by
  decide

-- non-vacuity: concrete instances (negative modulus, negative values)
example : ((every (.int (-3)) (.int (-4)) (.int 10)).call (.int 5)).map Prod.fst
    = .ok (.bool true) := by rw [C12_every _ _ _ _ (by decide)]; congr 2
example : ((every (.int 3) (.int 1) (.int 10)).call (.int 10)).map Prod.fst
    = .ok (.bool false) := by rw [C12_every _ _ _ _ (by decide)]; congr 2
example : ((between (.int (-2)) (.int 2)).call (.int (-2))).map Prod.fst
    = .ok (.bool true) := by rw [C12_between]; congr 2

end Ptera.Props.C12
