/-
  C12 — value conditions (arithmetic half).

  The definitions under `Ptera.Generated.Tools` are regenerated from
  `ptera/tools.py` on every run, so these theorems are re-checked against what
  the code says now.  Python `%` is floored modulo (`Int.fmod`).
-/
import PteraModel.Generated.Tools
import PteraModel.Model.Handlers
namespace Ptera.Props.C12
open Ptera.PyVal Ptera.Generated.Tools

theorem fmod_eq_zero_iff (a m : Int) : Int.fmod a m = 0 ↔ m ∣ a := by
  rw [Int.fmod_eq_emod]
  by_cases h : 0 ≤ m ∨ m ∣ a
  · rw [if_pos h]; simp [Int.dvd_iff_emod_eq_zero]
  · have hm : m < 0 := by omega
    have hd : ¬ m ∣ a := fun hd => h (Or.inr hd)
    rw [if_neg h]
    constructor
    · intro h0
      have h1 := Int.emod_nonneg a (Int.ne_of_lt hm)
      have h2 := Int.emod_lt_of_neg a hm
      omega
    · intro hd'; exact absurd hd' hd

/-- `every(n, start, end)` for all integers, `n ≠ 0`:
    holds exactly for `start ≤ v < end` with `v - start` divisible by `n`. -/
theorem C12_every (n start stop v : Int) (hn : n ≠ 0) :
    ((every (.int n) (.int start) (.int stop)).call (.int v)).map Prod.fst
      = .ok (.bool (decide (start ≤ v ∧ v < stop ∧ n ∣ (v - start)))) := by
  have key := fmod_eq_zero_iff (v - start) n
  by_cases h1 : v < start
  · have : ¬ start ≤ v := by omega
    simp [every, Range.init, Range.call, pyAnd, lift1, lift2, pyIsNotNone, pyLt,
      arith, PyV.num?, PyV.truthy, Except.map, bind, Except.bind, pure, Except.pure, h1, this]
  · have h1' : start ≤ v := by omega
    by_cases h2 : v ≥ stop
    · have : ¬ v < stop := by omega
      simp [every, Range.init, Range.call, pyAnd, lift1, lift2, pyIsNotNone, pyLt, pyGe,
        arith, PyV.num?, PyV.truthy, Except.map, bind, Except.bind, pure, Except.pure, h1, this, h2]
    · have h2' : v < stop := by omega
      by_cases h3 : start = 0
      · subst h3
        simp [every, Range.init, Range.call, pyAnd, pyOr, lift1, lift2, pyIsNotNone, pyLt, pyGe,
          pyEq, pyMod, pyAdd, pySub, arith, PyV.num?, PyV.truthy, Except.map, bind, Except.bind,
          pure, Except.pure, h1, h2, hn, h1', h2']
        simpa using key
      · simp [every, Range.init, Range.call, pyAnd, pyOr, lift1, lift2, pyIsNotNone, pyLt, pyGe,
          pyEq, pyMod, pyAdd, pySub, arith, PyV.num?, PyV.truthy, Except.map, bind, Except.bind,
          pure, Except.pure, h1, h2, hn, h1', h2', h3]
        exact key

/-- `every(n)` with the defaults `start = 0`, `end = None`. -/
theorem C12_every_default (n v : Int) (hn : n ≠ 0) :
    ((every (.int n)).call (.int v)).map Prod.fst
      = .ok (.bool (decide (0 ≤ v ∧ n ∣ v))) := by
  have key := fmod_eq_zero_iff v n
  by_cases h1 : v < 0
  · have : ¬ 0 ≤ v := by omega
    simp [every, Range.init, Range.call, pyAnd, lift1, lift2, pyIsNotNone, pyLt,
      arith, PyV.num?, PyV.truthy, Except.map, bind, Except.bind, pure, Except.pure, h1, this]
  · have h1' : 0 ≤ v := by omega
    simp [every, Range.init, Range.call, pyAnd, pyOr, lift1, lift2, pyIsNotNone, pyIsNone, pyLt,
      pyGe, pyEq, pyMod, pyAdd, pySub, arith, PyV.num?, PyV.truthy, Except.map, bind, Except.bind,
      pure, Except.pure, h1, hn, h1']
    exact key

/-- `every(0)` is outside the stated domain: the code divides by zero (recorded, not hidden). -/
theorem C12_every_zero_raises (v : Int) (hv : 0 ≤ v) :
    (every (.int 0)).call (.int v) = .error .zeroDivision := by
  have : ¬ v < 0 := by omega
  simp [every, Range.init, Range.call, pyAnd, pyOr, lift1, lift2, pyIsNotNone, pyLt, pyGe,
      pyEq, pyMod, pyAdd, pySub, arith, PyV.num?, PyV.truthy, bind, Except.bind, pure,
      Except.pure, this]

/-- `between(a, b)` holds exactly for `a ≤ v < b`. -/
theorem C12_between (a b v : Int) :
    ((between (.int a) (.int b)).call (.int v)).map Prod.fst
      = .ok (.bool (decide (a ≤ v ∧ v < b))) := by
  by_cases h1 : v < a
  · have : ¬ a ≤ v := by omega
    simp [between, Range.init, Range.call, pyAnd, lift1, lift2, pyIsNotNone, pyLt,
      arith, PyV.num?, PyV.truthy, Except.map, bind, Except.bind, pure, Except.pure, h1, this]
  · have h1' : a ≤ v := by omega
    by_cases h2 : v ≥ b
    · have : ¬ v < b := by omega
      simp [between, Range.init, Range.call, pyAnd, lift1, lift2, pyIsNotNone, pyLt, pyGe,
        arith, PyV.num?, PyV.truthy, Except.map, bind, Except.bind, pure, Except.pure, h1, this, h2]
    · have h2' : v < b := by omega
      simp [between, Range.init, Range.call, pyAnd, lift1, lift2, pyIsNotNone, pyLt, pyGe,
        arith, PyV.num?, PyV.truthy, Except.map, bind, Except.bind, pure, Except.pure, h1, h2,
        h1', h2']

theorem C12_lt (e v : Int) : lt (.int e) (.int v) = .ok (.bool (decide (v < e))) := by
  simp [lt, lift2, pyLt, arith, PyV.num?, bind, Except.bind, pure, Except.pure]
theorem C12_gt (s v : Int) : gt (.int s) (.int v) = .ok (.bool (decide (v > s))) := by
  simp [gt, lift2, pyGt, arith, PyV.num?, bind, Except.bind, pure, Except.pure]
theorem C12_lte (e v : Int) : lte (.int e) (.int v) = .ok (.bool (decide (v ≤ e))) := by
  simp [lte, lift2, pyLe, arith, PyV.num?, bind, Except.bind, pure, Except.pure]
theorem C12_gte (s v : Int) : gte (.int s) (.int v) = .ok (.bool (decide (v ≥ s))) := by
  simp [gte, lift2, pyGe, arith, PyV.num?, bind, Except.bind, pure, Except.pure]

/-- the generated module defines exactly the stock predicates the property names -/
theorem C12_names :
    definedNames = ["Range", "every", "between", "lt", "gt", "lte", "gte", "throttle"] := by
  decide

/-! end-to-end filter, over the runtime model M3 (`Model/Handlers.lean`) -/
open Ptera.Handlers in
/-- the predicates of the runtime model are the translated `tools.py` definitions -/
theorem C12_model_pred_every (n start stop v : Int) (hn : n ≠ 0) :
    ((every (.int n) (.int start) (.int stop)).call (.int v)).map Prod.fst
      = .ok (.bool (Pred.holds (.every n start (some stop)) v)) := by
  rw [C12_every n start stop v hn]
  congr 2
  have key := fmod_eq_zero_iff (v - start) n
  by_cases h1 : start ≤ v <;> by_cases h2 : v < stop <;> by_cases h3 : n ∣ v - start <;>
    simp [Pred.holds, h1, h2, h3, hn, key]

open Ptera.Handlers in
theorem C12_model_pred_between (a b v : Int) :
    ((between (.int a) (.int b)).call (.int v)).map Prod.fst
      = .ok (.bool (Pred.holds (.between a b) v)) := by
  rw [C12_between]
  congr 2
  simp [Pred.holds]

open Ptera.Handlers in
/-- what the `__check` wrapper tests: every constrained capture that is PRESENT has only values
    satisfying its condition; a constrained variable that has not been captured yet imposes nothing -/
theorem C12_check_iff (sel : Sel) (args : Snapshot) :
    checkCaptures sel args = true ↔
      ∀ el ∈ sel.allValues, ∀ cond cap, el.value = some cond → dictGet args el.capture = some cap →
        ∀ v ∈ cap.values, cond.holds v = true := by
  unfold checkCaptures
  simp only [List.all_eq_true]
  constructor
  · intro h el hel cond cap hc hg v hv
    have := h el hel
    simp only [hc, hg, List.all_eq_true] at this
    exact this v hv
  · intro h el hel
    cases hc : el.value with
    | none => rfl
    | some cond =>
      cases hg : dictGet args el.capture with
      | none => rfl
      | some cap =>
        simp only [List.all_eq_true]
        exact h el hel cond cap hc hg

open Ptera.Handlers in
/-- a constrained variable that is not captured yet imposes no condition -/
theorem C12_absent_imposes_nothing (sel : Sel) (args : Snapshot)
    (h : ∀ el ∈ sel.allValues, dictGet args el.capture = Option.none) :
    checkCaptures sel args = true := by
  rw [C12_check_iff]
  intro el hel cond cap _ hg
  rw [h el hel] at hg; cases hg

open Ptera.Handlers in
/-- every record delivered at the exit of an activation satisfies the handler's conditions
    (`close` goes through the same `__check` wrapper as `trigger` and `intercept`) -/
theorem C12_close_filtered (handlers : Array Handler) (heap : Heap) (a : Nat) (acc : Acc) (h : Handler)
    (ha : heap[a]? = some acc) (hh : handlers[acc.handler]? = some h) :
    ∀ ev ∈ closeAcc handlers heap a, ∃ args, ev = Event.close acc.handler args ∧ passes h args = true := by
  intro ev hev
  unfold closeAcc at hev
  simp only [ha, hh] at hev
  split at hev
  · simp at hev
  · have key : ∀ (ls : List Nat) (init : List Event),
        (∀ e ∈ init, ∃ args, e = Event.close acc.handler args ∧ passes h args = true) →
        ∀ e ∈ ls.foldl (fun evs l =>
            if ((buildOf heap l).map (·.1)).all h.sel.allCaptures.contains &&
               h.sel.allCaptures.all ((buildOf heap l).map (·.1)).contains then
              if h.hasClose && passes h (buildOf heap l) then evs ++ [Event.close acc.handler (buildOf heap l)] else evs
            else evs) init,
          ∃ args, e = Event.close acc.handler args ∧ passes h args = true := by
      intro ls
      induction ls with
      | nil => intro init hi e he; exact hi e he
      | cons l ls ih =>
        intro init hi e he
        simp only [List.foldl_cons] at he
        apply ih _ _ e he
        intro e' he'
        split at he'
        · split at he'
          · rename_i hp
            simp only [List.mem_append, List.mem_singleton] at he'
            rcases he' with h1 | h1
            · exact hi e' h1
            · simp only [Bool.and_eq_true] at hp
              exact ⟨_, h1, hp.2⟩
          · exact hi e' he'
        · exact hi e' he'
    exact key _ [] (by simp) ev hev

-- non-vacuity: concrete instances (negative modulus, negative values)
example : ((every (.int (-3)) (.int (-4)) (.int 10)).call (.int 5)).map Prod.fst
    = .ok (.bool true) := by rw [C12_every _ _ _ _ (by decide)]; congr 2
example : ((every (.int 3) (.int 1) (.int 10)).call (.int 10)).map Prod.fst
    = .ok (.bool false) := by rw [C12_every _ _ _ _ (by decide)]; congr 2
example : ((between (.int (-2)) (.int 2)).call (.int (-2))).map Prod.fst
    = .ok (.bool true) := by rw [C12_between]; congr 2

end Ptera.Props.C12
