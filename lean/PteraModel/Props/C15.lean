/-
  C15 — the documented selector notations are interchangeable.

  Three layers, all over the operator table regenerated from the source:
  (1) evaluator laws for ALL operand parse trees (Proofs/EvalLaws.lean), restated here;
  (2) for every documented equation, both spellings — as token lists whose word operands
      have ARBITRARY text — compile to the same selector (`C15_eqn_*`);
  (3) interning: two compiled selectors are the same object iff they are structurally
      equal, provided value equality is lawful (the `VKeyword.__eq__` defect was exactly
      a violation of that proviso); the focus of a selector.
  The full statement over all compound operands (`C15Full`) needs the operand-absorption
  lemma for the precedence parser and is covered by bounded-exhaustive correspondence.
-/
import PteraModel.Proofs.EvalLaws
import PteraModel.Proofs.Intern
import PteraModel.Generated.Tables
namespace Ptera.Props.C15
open Ptera.Lex Ptera.Parse Ptera.Selector

def tbl : Table := Ptera.Generated.Tables.operators

/-- an operand token: a WORD whose text is not an operator key, not `*`, not empty -/
structure IsWord (t : Token) : Prop where
  ty : t.type = .word
  notop : tbl.find? t.value = none
  notstar : t.value ≠ "*"
  nonempty : t.value ≠ ""

theorem resolve_word (t : Token) (h : IsWord t) : resolve tbl t = .ok (1000, 1001) := by
  simp only [resolve, h.notop, h.ty, TokType.pyName]
  rfl

theorem resolve_op (t : Token) (s : String) (p : Int × Int) (hv : t.value = s)
    (hp : tbl.find? s = some p) : resolve tbl t = .ok p := by
  simp only [resolve, hv, hp]

/-- compile a token list at top level: `evaluate(parser.process(tokens))` -/
def compileToks (toks : List Token) : Except Err Item := do
  match ← liftP (process tbl toks) with
  | none => .error (.syntax 1)
  | some t => evaluate .root t

macro "parse_simp" : tactic => `(tactic|
  simp [compileToks, liftP, process, run, step, order, PState.init, PState.next, finalize,
    bind, Except.bind, pure, Except.pure, evaluate, makeSymbol, makeNestedImm, makeCallCapture,
    makeFocus, makeAs, makeEquals, makeDollar, makeSequence, listify, guaranteeCall, nameToCapture,
    Element.withFocus, Call.element, Call.children, Call.captures, Call.immediate, valueEvaluate, *])

section equations
variable (f g h x a b c r v : Token) (gt gt2 lp rp lp2 rp2 bang comma as_ eq dollar star hv : Token)

/-- what `f > x` compiles to (non-vacuity of the equations below) -/
theorem C15_gt_value (hf : IsWord f) (hx : IsWord x) (hgt : gt.value = ">") :
    compileToks [f, gt, x] = .ok (.call (.mk { name := .vsym f.value } []
      [{ name := .str x.value, capture := some x.value, tag1 := true }] false)) := by
  have r1 := resolve_word _ hf
  have r2 := resolve_word _ hx
  have r3 : resolve tbl gt = .ok (100, 99) := resolve_op gt ">" _ hgt (by decide)
  have n1 := hf.notstar; have n2 := hx.notstar; have n3 := hf.nonempty
  parse_simp

/-- `f > x` ≡ `f(!x)` -/
theorem C15_eqn_gt_bang (hf : IsWord f) (hx : IsWord x)
    (hgt : gt.value = ">") (hlp : lp.value = "(") (hrp : rp.value = ")") (hb : bang.value = "!") :
    compileToks [f, gt, x] = compileToks [f, lp, bang, x, rp] := by
  have r1 := resolve_word _ hf
  have r2 := resolve_word _ hx
  have r3 : resolve tbl gt = .ok (100, 99) := resolve_op gt ">" _ hgt (by decide)
  have r4 : resolve tbl lp = .ok (200, 0) := resolve_op lp "(" _ hlp (by decide)
  have r5 : resolve tbl rp = .ok (0, 501) := resolve_op rp ")" _ hrp (by decide)
  have r6 : resolve tbl bang = .ok (375, 376) := resolve_op bang "!" _ hb (by decide)
  have n1 := hf.notstar; have n2 := hx.notstar; have n3 := hf.nonempty
  parse_simp

/-- `f(a) > x` ≡ `f(a, !x)` -/
theorem C15_eqn_call_gt (hf : IsWord f) (ha : IsWord a) (hx : IsWord x)
    (hgt : gt.value = ">") (hlp : lp.value = "(") (hrp : rp.value = ")") (hb : bang.value = "!")
    (hcm : comma.value = ",") :
    compileToks [f, lp, a, rp, gt, x] = compileToks [f, lp, a, comma, bang, x, rp] := by
  have r1 := resolve_word _ hf
  have r2 := resolve_word _ hx
  have r2' := resolve_word _ ha
  have r3 : resolve tbl gt = .ok (100, 99) := resolve_op gt ">" _ hgt (by decide)
  have r4 : resolve tbl lp = .ok (200, 0) := resolve_op lp "(" _ hlp (by decide)
  have r5 : resolve tbl rp = .ok (0, 501) := resolve_op rp ")" _ hrp (by decide)
  have r6 : resolve tbl bang = .ok (375, 376) := resolve_op bang "!" _ hb (by decide)
  have r7 : resolve tbl comma = .ok (10, 9) := resolve_op comma "," _ hcm (by decide)
  have n1 := hf.notstar; have n2 := hx.notstar; have n3 := hf.nonempty; have n4 := ha.notstar
  parse_simp

/-- `a > b > c` ≡ `a > (b > c)` -/
theorem C15_eqn_nest_group (ha : IsWord a) (hb' : IsWord b) (hc : IsWord c)
    (hgt : gt.value = ">") (hgt2 : gt2.value = ">") (hlp : lp.value = "(") (hrp : rp.value = ")") :
    compileToks [a, gt, b, gt2, c] = compileToks [a, gt, lp, b, gt2, c, rp] := by
  have r1 := resolve_word _ ha
  have r2 := resolve_word _ hb'
  have r2' := resolve_word _ hc
  have r3 : resolve tbl gt = .ok (100, 99) := resolve_op gt ">" _ hgt (by decide)
  have r3' : resolve tbl gt2 = .ok (100, 99) := resolve_op gt2 ">" _ hgt2 (by decide)
  have r4 : resolve tbl lp = .ok (200, 0) := resolve_op lp "(" _ hlp (by decide)
  have r5 : resolve tbl rp = .ok (0, 501) := resolve_op rp ")" _ hrp (by decide)
  have n1 := ha.notstar; have n2 := hb'.notstar; have n3 := hc.notstar
  have n4 := ha.nonempty; have n5 := hb'.nonempty
  parse_simp

/-- `a > b > c` ≡ `a(b(!c))` -/
theorem C15_eqn_nest_call (ha : IsWord a) (hb' : IsWord b) (hc : IsWord c)
    (hgt : gt.value = ">") (hgt2 : gt2.value = ">") (hlp : lp.value = "(") (hrp : rp.value = ")")
    (hlp2 : lp2.value = "(") (hrp2 : rp2.value = ")") (hb : bang.value = "!") :
    compileToks [a, gt, b, gt2, c] = compileToks [a, lp, b, lp2, bang, c, rp2, rp] := by
  have r1 := resolve_word _ ha
  have r2 := resolve_word _ hb'
  have r2' := resolve_word _ hc
  have r3 : resolve tbl gt = .ok (100, 99) := resolve_op gt ">" _ hgt (by decide)
  have r3' : resolve tbl gt2 = .ok (100, 99) := resolve_op gt2 ">" _ hgt2 (by decide)
  have r4 : resolve tbl lp = .ok (200, 0) := resolve_op lp "(" _ hlp (by decide)
  have r5 : resolve tbl rp = .ok (0, 501) := resolve_op rp ")" _ hrp (by decide)
  have r4' : resolve tbl lp2 = .ok (200, 0) := resolve_op lp2 "(" _ hlp2 (by decide)
  have r5' : resolve tbl rp2 = .ok (0, 501) := resolve_op rp2 ")" _ hrp2 (by decide)
  have r6 : resolve tbl bang = .ok (375, 376) := resolve_op bang "!" _ hb (by decide)
  have n1 := ha.notstar; have n2 := hb'.notstar; have n3 := hc.notstar
  have n4 := ha.nonempty; have n5 := hb'.nonempty
  parse_simp

/-- `f() as r` ≡ `f(!#value as r)` -/
theorem C15_eqn_as_value (hf : IsWord f) (hr : IsWord r) (hhv : hv.value = "#value")
    (hhvt : hv.type = .word)
    (hlp : lp.value = "(") (hrp : rp.value = ")") (hb : bang.value = "!") (has : as_.value = "as") :
    compileToks [f, lp, rp, as_, r] = compileToks [f, lp, bang, hv, as_, r, rp] := by
  have r1 := resolve_word _ hf
  have r2 := resolve_word _ hr
  have r2' : resolve tbl hv = .ok (1000, 1001) :=
    resolve_word _ ⟨hhvt, by rw [hhv]; decide, by rw [hhv]; decide, by rw [hhv]; decide⟩
  have r4 : resolve tbl lp = .ok (200, 0) := resolve_op lp "(" _ hlp (by decide)
  have r5 : resolve tbl rp = .ok (0, 501) := resolve_op rp ")" _ hrp (by decide)
  have r6 : resolve tbl bang = .ok (375, 376) := resolve_op bang "!" _ hb (by decide)
  have r7 : resolve tbl as_ = .ok (350, 349) := resolve_op as_ "as" _ has (by decide)
  have n1 := hf.notstar; have n2 := hr.notstar; have n3 := hf.nonempty
  parse_simp

/-- the same equation where the call stands to the right of a `>` path: `g > f() as r` ≡ `g > f(!#value as r)` -/
theorem C15_eqn_as_value_under_gt (hg : IsWord g) (hf : IsWord f) (hr : IsWord r)
    (hhv : hv.value = "#value") (hhvt : hv.type = .word) (hgt : gt.value = ">")
    (hlp : lp.value = "(") (hrp : rp.value = ")") (hb : bang.value = "!") (has : as_.value = "as") :
    compileToks [g, gt, f, lp, rp, as_, r] = compileToks [g, gt, f, lp, bang, hv, as_, r, rp] := by
  have r0 := resolve_word _ hg
  have r1 := resolve_word _ hf
  have r2 := resolve_word _ hr
  have r2' : resolve tbl hv = .ok (1000, 1001) :=
    resolve_word _ ⟨hhvt, by rw [hhv]; decide, by rw [hhv]; decide, by rw [hhv]; decide⟩
  have r3 : resolve tbl gt = .ok (100, 99) := resolve_op gt ">" _ hgt (by decide)
  have r4 : resolve tbl lp = .ok (200, 0) := resolve_op lp "(" _ hlp (by decide)
  have r5 : resolve tbl rp = .ok (0, 501) := resolve_op rp ")" _ hrp (by decide)
  have r6 : resolve tbl bang = .ok (375, 376) := resolve_op bang "!" _ hb (by decide)
  have r7 : resolve tbl as_ = .ok (350, 349) := resolve_op as_ "as" _ has (by decide)
  have n1 := hf.notstar; have n2 := hr.notstar; have n3 := hf.nonempty
  have n4 := hg.notstar; have n5 := hg.nonempty
  parse_simp

/-- `$x` ≡ `* as x` -/
theorem C15_eqn_dollar (hx : IsWord x) (hd : dollar.value = "$") (has : as_.value = "as")
    (hst : star.value = "*") (hstt : star.type = .word) :
    compileToks [dollar, x] = compileToks [star, as_, x] := by
  have r2 := resolve_word _ hx
  have r1 : resolve tbl star = .ok (1000, 1001) := by
    simp only [resolve, hst, hstt, TokType.pyName]; rfl
  have r6 : resolve tbl dollar = .ok (400, 401) := resolve_op dollar "$" _ hd (by decide)
  have r7 : resolve tbl as_ = .ok (350, 349) := resolve_op as_ "as" _ has (by decide)
  have n2 := hx.notstar
  parse_simp

/-- `f(b)=c` ≡ `f(b, #value=c)` -/
theorem C15_eqn_call_equals (hf : IsWord f) (hb' : IsWord b) (hc : IsWord c)
    (hhv : hv.value = "#value") (hhvt : hv.type = .word)
    (hlp : lp.value = "(") (hrp : rp.value = ")") (heq : eq.value = "=") (hcm : comma.value = ",") :
    compileToks [f, lp, b, rp, eq, c] = compileToks [f, lp, b, comma, hv, eq, c, rp] := by
  have r1 := resolve_word _ hf
  have r2 := resolve_word _ hb'
  have r2'' := resolve_word _ hc
  have r2' : resolve tbl hv = .ok (1000, 1001) :=
    resolve_word _ ⟨hhvt, by rw [hhv]; decide, by rw [hhv]; decide, by rw [hhv]; decide⟩
  have r4 : resolve tbl lp = .ok (200, 0) := resolve_op lp "(" _ hlp (by decide)
  have r5 : resolve tbl rp = .ok (0, 501) := resolve_op rp ")" _ hrp (by decide)
  have r6 : resolve tbl eq = .ok (120, 121) := resolve_op eq "=" _ heq (by decide)
  have r7 : resolve tbl comma = .ok (10, 9) := resolve_op comma "," _ hcm (by decide)
  have n1 := hf.notstar; have n2 := hb'.notstar; have n3 := hf.nonempty
  parse_simp

end equations

/-! evaluator laws for ALL operand trees (proofs in Proofs/EvalLaws.lean) -/

/-- `(T)` ≡ `T` for every tree `T` -/
theorem C15_law_group (ctx : Ctx) (X : PTree) (lp rp : Token)
    (hlp : lp.value = "(") (hrp : rp.value = ")") :
    evaluate ctx (.node none [(lp, some X), (rp, none)]) = evaluate ctx X :=
  law_group ctx X lp rp hlp hrp

/-- `F > X` ≡ `F(!X)` for every function operand tree `F` and variable operand tree `X` -/
theorem C15_law_gt_bang (ctx : Ctx) (F X : PTree) (gt lp rp bang : Token) (r i : Element)
    (hgt : gt.value = ">") (hlp : lp.value = "(") (hrp : rp.value = ")")
    (hbang : bang.value = "!") (hX : VarOperand ctx X r i) :
    evaluate ctx (.node (some F) [(gt, some X)]) =
    evaluate ctx (.node (some F) [(lp, some (.node none [(bang, some X)])), (rp, none)]) :=
  law_gt_bang ctx F X gt lp rp bang r i hgt hlp hrp hbang hX

/-- `F(A) > X` ≡ `F(A, !X)` -/
theorem C15_law_call_gt_bang (ctx : Ctx) (F A X : PTree) (gt lp rp lp' rp' bang comma : Token)
    (r i : Element)
    (hgt : gt.value = ">") (hlp : lp.value = "(") (hrp : rp.value = ")")
    (hlp' : lp'.value = "(") (hrp' : rp'.value = ")")
    (hbang : bang.value = "!") (hcomma : comma.value = ",") (hX : VarOperand ctx X r i)
    (hA : ∀ xs, evaluate .incall A ≠ .ok (.list xs)) :
    evaluate ctx (.node (some (.node (some F) [(lp, some A), (rp, none)])) [(gt, some X)]) =
    evaluate ctx (.node (some F)
      [(lp', some (.node (some A) [(comma, some (.node none [(bang, some X)]))])), (rp', none)]) :=
  law_call_gt_bang ctx F A X gt lp rp lp' rp' bang comma r i hgt hlp hrp hlp' hrp' hbang hcomma hX hA

/-- `F() as R` ≡ `F(!#value as R)` -/
theorem C15_law_call_as (F : PTree) (R hv : Token) (lp rp lp' rp' as_ as' bang : Token)
    (hlp : lp.value = "(") (hrp : rp.value = ")") (hlp' : lp'.value = "(") (hrp' : rp'.value = ")")
    (has : as_.value = "as") (has' : as'.value = "as") (hbang : bang.value = "!")
    (hhv : hv.value = "#value") (hR : R.value ≠ "*") :
    evaluate .root (.node (some (.node (some F) [(lp, none), (rp, none)])) [(as_, some (.tok R))]) =
    evaluate .root (.node (some F)
      [(lp', some (.node (some (.node none [(bang, some (.tok hv))])) [(as', some (.tok R))])),
       (rp', none)]) :=
  law_call_as F R hv lp rp lp' rp' as_ as' bang hlp hrp hlp' hrp' has has' hbang hhv hR

/-- `$x` ≡ `* as x` -/
theorem C15_law_dollar (ctx : Ctx) (x star : Token) (dollar as_ : Token)
    (hd : dollar.value = "$") (has : as_.value = "as") (hstar : star.value = "*")
    (hx : x.value ≠ "*") :
    evaluate ctx (.node none [(dollar, some (.tok x))]) =
    evaluate ctx (.node (some (.tok star)) [(as_, some (.tok x))]) :=
  law_dollar ctx x star dollar as_ hd has hstar hx

/-- `F(B) = V` ≡ `F(B, #value = V)` -/
theorem C15_law_call_equals (ctx : Ctx) (F B V : PTree) (hv : Token)
    (lp rp lp' rp' eq eq' comma : Token)
    (hlp : lp.value = "(") (hrp : rp.value = ")") (hlp' : lp'.value = "(") (hrp' : rp'.value = ")")
    (heq : eq.value = "=") (heq' : eq'.value = "=") (hcomma : comma.value = ",")
    (hhv : hv.value = "#value")
    (hFl : ∀ xs, evaluate ctx F ≠ .ok (.list xs))
    (hB : ∀ xs, evaluate .incall B ≠ .ok (.list xs)) :
    evaluate ctx (.node (some (.node (some F) [(lp, some B), (rp, none)])) [(eq, some V)]) =
    evaluate ctx (.node (some F)
      [(lp', some (.node (some B) [(comma, some (.node (some (.tok hv)) [(eq', some V)]))])),
       (rp', none)]) :=
  law_call_equals ctx F B V hv lp rp lp' rp' eq eq' comma hlp hrp hlp' hrp' heq heq' hcomma hhv hFl hB

/-- every word token is a variable operand (so the laws above apply to it) -/
theorem C15_word_is_var_operand (ctx : Ctx) (tk : Token) : ∃ r i, VarOperand ctx (.tok tk) r i :=
  varOperand_tok ctx tk

/-! interning (`InternedMC`): a cache keyed by the constructor fields; the identity of an
    object is its position in the cache (proofs in Proofs/Intern.lean) -/
open Ptera.Intern in
/-- structurally equal fields give the same object, whatever was interned in between
    (needs a reflexive key equality: the `VKeyword.__eq__` defect violated exactly this) -/
theorem C15_intern_same {K} (eq : K → K → Bool) (hrefl : ∀ a, eq a a = true)
    (cache others : List K) (k : K) :
    (intern eq (internAll eq (intern eq cache k).1 others) k).2 = (intern eq cache k).2 :=
  intern_same eq hrefl cache others k

open Ptera.Intern in
/-- the same object is only ever returned for equal fields -/
theorem C15_intern_inj {K} [DecidableEq K] (cache others : List K) (k k2 : K) :
    (intern (fun a b => decide (a = b))
      (internAll (fun a b => decide (a = b)) (intern (fun a b => decide (a = b)) cache k).1 others) k2).2
      = (intern (fun a b => decide (a = b)) cache k).2 → k2 = k :=
  intern_inj cache others k k2

open Ptera.Intern in
/-- witness: with an equality that is not reflexive, interning the same key twice gives two objects -/
theorem C15_intern_needs_reflexivity :
    (intern (fun (_ _ : Nat) => false) (intern (fun (_ _ : Nat) => false) [] 7).1 7).2
      ≠ (intern (fun (_ _ : Nat) => false) [] 7).2 := by decide

/-! the focus -/

/-- `Call.main`: the first focused capture, else the first child that has one -/
def Element.main (e : Element) : Option Element := if e.tag1 then some e else none

/-- after `F > X` the focus is `X` (the variable standing after the last `>`), whenever the
    captures written in `F`'s parentheses carry no `!` themselves -/
theorem C15_focus_after_gt (ctx : Ctx) (F X : PTree) (gt : Token) (r : Element) (pc : Call)
    (hgt : gt.value = ">") (hX : evaluate ctx X = .ok (.elem r))
    (hF : evaluate ctx F = .ok (.call pc)) (hnf : ∀ e ∈ pc.captures, e.tag1 = false) :
    ∃ c, evaluate ctx (.node (some F) [(gt, some X)]) = .ok (.call c) ∧
      c.captures.find? (·.tag1) = some r.withFocus := by
  refine ⟨.mk pc.element pc.children (pc.captures ++ [r.withFocus]) pc.immediate, ?_, ?_⟩
  · simp [evaluate, hgt, hX, hF, bind, Except.bind, makeNestedImm, guaranteeCall, pure, Except.pure]
  · have : pc.captures.find? (·.tag1) = none := by
      simp only [List.find?_eq_none]; intro e he; simp [hnf e he]
    simp only [Call.captures] at this ⊢
    simp [List.find?_append, this, Element.withFocus]

/-! ties and non-vacuity -/

theorem C15_tie_priorities :
    tbl.find? ">" = some (100, 99) ∧ tbl.find? "," = some (10, 9) ∧ tbl.find? "as" = some (350, 349) ∧
    tbl.find? "!" = some (375, 376) ∧ tbl.find? "$" = some (400, 401) ∧ tbl.find? ":" = some (300, 301) ∧
    tbl.find? "=" = some (120, 121) ∧ tbl.find? "(" = some (200, 0) ∧ tbl.find? ")" = some (0, 501) ∧
    tbl.find? ": WORD" = some (1000, 1001) := by decide

def w (s : String) (p : Nat) : Token := { value := s, type := .word, start := p, stop := p + s.length }
def o (s : String) (p : Nat) : Token := { value := s, type := .operator, start := p, stop := p + s.length }

example : IsWord (w "loss" 0) := ⟨rfl, by decide, by decide, by decide⟩
example : compileToks [w "f" 0, o ">" 1, w "x" 2] = compileToks [w "f" 0, o "(" 1, o "!" 2, w "x" 3, o ")" 4] :=
  C15_eqn_gt_bang (w "f" 0) (w "x" _) (o ">" 1) (o "(" 1) (o ")" 4) (o "!" 2)
    ⟨rfl, by decide, by decide, by decide⟩ ⟨rfl, by decide, by decide, by decide⟩ rfl rfl rfl rfl

end Ptera.Props.C15
