/-
  C14 — absolute references keep resolving to the same function across probing.

  Registry model M7 (`Model/Registry.lean`; codefind is external: modelled and validated by
  correspondence).  For every history of installs (a probe by name or by reference starts, ends,
  or changes the set of captured variables of a function; new variants are compiled, which
  re-registers the original code) and lookups, over any number of functions:
  * `C14_inv`: each function's path points at the code installed on it, and no code is registered
    under a path of another function;
  * `C14_resolves`: resolving the reference of `f` yields `f` — before, during and after any number
    of probes, on any functions;
  * `C14_pollution_witness`: if a code of one function is registered under the path of another (what
    executing the rewritten definition of a method `K.m` did to `/mod/m`), the reference of that
    other function stops resolving to it.
-/
import PteraModel.Proofs.RegistryInv
namespace Ptera.Props.C14
open Ptera.Registry

/-- histories that only name existing functions -/
def wellFormed (n : Nat) : List Op → Prop
  | [] => True
  | .install f _ _ :: rest => f < n ∧ wellFormed n rest
  | .resolve _ :: rest => wellFormed n rest

theorem C14_inv (n : Nat) : ∀ (ops : List Op) (s : State), Inv n s → wellFormed n ops →
    Inv n (run s ops).1 := by
  intro ops
  induction ops with
  | nil => intro s h _; exact h
  | cons op rest ih =>
    intro s h hw
    simp only [run]
    cases op with
    | install f caps fresh =>
      have h1 := install_inv n s f caps fresh hw.1 h
      have h2 := ih (step s (.install f caps fresh)).1 h1 hw.2
      cases hs : step s (.install f caps fresh) with
      | mk s' o =>
        rw [hs] at h2
        cases hr : run s' rest with
        | mk s'' os => rw [hr] at h2; simpa [hs, hr] using h2
    | resolve f =>
      have h2 := ih s h hw
      simp only [step]
      cases hr : run s rest with
      | mk s'' os => rw [hr] at h2; simpa [hr] using h2

/-- after ANY well-formed history starting from the imported module, the reference of every
    function resolves to that very function -/
theorem C14_resolves (n : Nat) (ops : List Op) (hw : wellFormed n ops) (f : Nat) (hf : f < n) :
    resolve (run (init n) ops).1 f = .ok f :=
  resolve_ok n _ (C14_inv n ops (init n) (init_inv n) hw) f hf

/-- two functions: 0 = `m` (module level), 1 = `K.m`.  Registering K.m's variant code under the path
    of `m` (the effect of executing the rewritten definition under codefind's audit hook) and then
    putting K.m back on its original code makes `/mod/m` resolve to `K.m`. -/
theorem C14_pollution_witness :
    let s0 := init 2
    let s1 := applyCode s0 1 (.variant 1 [7])                       -- probe on K.m starts
    let s2 := setCodePaths s1 [0] (.variant 1 [7])                   -- the polluting registration
    let s3 := applyCode s2 1 (.orig 1)                               -- probe ends
    resolve s1 0 = .ok 0 ∧ resolve s3 0 = .ok 1 := by decide

/-- non-vacuity: a nested history on two functions -/
example : (run (init 2) [.install 1 (some [3]) true, .resolve 1, .resolve 0, .install 1 (some [3, 4]) true,
    .install 0 (some [1]) true, .resolve 0, .install 1 none false, .resolve 1, .install 0 none false,
    .resolve 0]).2.filterMap id = [.ok 1, .ok 0, .ok 0, .ok 1, .ok 0] := by decide

end Ptera.Props.C14
