"""PyLite: generated Python functions for the rewrite properties (C01, C02, C04, C06, C10, C16).

A program is a small structured AST (nested tuples) from which several texts are rendered:
  * the function itself,
  * a *twin* that additionally records every binding Python makes (the generator's own knowledge of
    where bindings happen — nothing of ptera is involved),
  * a *substituted twin* in which the bindings of one variable store what an override function answers.
Every opaque sub-expression is a call of a logging helper, every condition is drawn from a script,
so that all control-flow paths are reachable and all side effects are observable.
"""
import itertools

HELPERS = '''
import functools
LOG = []
SCRIPT = []
BLOG = []
GLOB1 = 11
GLOB2 = 22

class Boom(Exception):
    pass

class Quit(BaseException):
    """raised by RQ: not an Exception (like KeyboardInterrupt / SystemExit) — no `except Exception` catches it"""

class Obj:
    def __init__(self):
        self.a = 0
        self.b = 0
        self.items = {}
    def __setitem__(self, k, v):
        self.items[k] = v
    def __getitem__(self, k):
        return self.items[k]
    def state(self):
        return (self.a, self.b, sorted(self.items.items(), key=repr))
    @property
    def tick(self):
        """an attribute whose every read shows: it counts them"""
        LOG.append(("tick",))
        self.items["ticks"] = self.items.get("ticks", 0) + 1
        return self.items["ticks"]

O = Obj()

def H(k, *args):
    """opaque operation number k: logged, returns a value that depends on its arguments"""
    LOG.append(("H", k, tuple(_plain(a) for a in args)))
    s = k
    for a in args:
        s = s * 3 + (a if isinstance(a, int) else len(repr(_plain(a))))
    return s % 1000

def R(k):
    """an operation that raises"""
    LOG.append(("R", k))
    raise Boom(k)

def RQ(k):
    """an operation that raises something that is not an Exception"""
    LOG.append(("RQ", k))
    raise Quit(k)

def SUB(k, n):
    """a sub-generator for `yield from`: yields n values, logs what it is sent, returns a sum of it"""
    total = 0
    try:
        for i in range(n):
            got = yield k * 100 + i
            LOG.append(("SUB", k, _plain(got)))
            if isinstance(got, int):
                total += got
    except BaseException as e:
        # what the sub-generator is left by (thrown into it, or GeneratorExit when it is closed) is its business
        LOG.append(("SUB-exc", k, type(e).__name__))
        raise
    finally:
        LOG.append(("SUB-end", k))
    return total

def C(k):
    """a condition: the next boolean of the script (False when exhausted)"""
    v = SCRIPT.pop(0) if SCRIPT else False
    LOG.append(("C", k, v))
    return v

def T(k, kind, n):
    """an iterable of n elements of the requested kind"""
    LOG.append(("T", k, kind, n))
    vals = [k * 10 + i for i in range(n)]
    if kind == "tuple":
        return tuple(vals)
    if kind == "list":
        return vals
    if kind == "gen":
        return (v for v in vals)
    if kind == "dict":
        return {v: v + 1 for v in vals}
    if kind == "nested":
        return tuple((v, v + 1) for v in vals)
    raise ValueError(kind)

class CM:
    """a context manager whose entry and exit are logged"""
    def __init__(self, k, swallow=False):
        self.k = k
        self.swallow = swallow
    def __enter__(self):
        LOG.append(("enter", self.k))
        return self.k * 7
    def __exit__(self, typ, exc, tb):
        LOG.append(("exit", self.k, None if typ is None else typ.__name__))
        return self.swallow and typ is not None and issubclass(typ, Boom)

def _plain(a):
    if isinstance(a, (int, str, bool, type(None))):
        return a
    if isinstance(a, (tuple, list)):
        return tuple(_plain(x) for x in a)
    return type(a).__name__

LATEST = {}
CLOG = []

def _snap(a):
    """the value as it is NOW (lists are mutable: `x += ...` changes what an earlier entry would show)"""
    if isinstance(a, list):
        return [_snap(x) for x in a]
    if isinstance(a, tuple):
        return tuple(_snap(x) for x in a)
    return a

def BL(name, value):
    """twin only: record one binding (and the latest value of every variable, in binding order)"""
    BLOG.append((name, _snap(value)))
    LATEST[name] = value
    CLOG.append({k: _snap(v) for k, v in LATEST.items()})
    return value
'''

VARS = ["a", "b", "c", "d", "e"]


class Gen:
    """random program generator; every choice comes from the given PRNG"""

    def __init__(self, rng, features=None, nparams=None, weights=None):
        self.weights = weights or {}
        self.rng = rng
        self.k = itertools.count(1)
        self.features = features or {
            "tuple", "star", "nested", "attr", "sub", "chain", "aug", "ann", "for", "while", "if", "try",
            "with", "walrus", "import", "def", "class", "lambda", "comp", "global", "return", "raise",
            "breakcont", "decl", "auglist",
        }
        self.nparams = nparams
        self.is_generator = False
        self.uses_global = set()

    def nk(self):
        return next(self.k)

    # ---- expressions (text)
    def expr(self, bound, depth=0):
        r = self.rng.random()
        names = [v for v in bound]
        if depth > 1 or r < 0.3:
            if names and self.rng.random() < 0.7:
                return self.rng.choice(names)
            return str(self.rng.randrange(0, 9))
        if r < 0.7:
            n = self.rng.randrange(0, 3)
            args = ", ".join(self.expr(bound, depth + 1) for _ in range(n))
            return "H(%d%s)" % (self.nk(), ", " + args if args else "")
        if r < 0.8 and "lambda" in self.features:
            return "(lambda q: q + %s)(%s)" % (self.expr(bound, 2), self.expr(bound, 2))
        if r < 0.85 and "comp" in self.features:
            return "sum([z * 2 for z in T(%d, 'list', %d)])" % (self.nk(), self.rng.randrange(0, 3))
        if r < 0.88:
            return "GLOB1 + %s" % self.expr(bound, depth + 1)
        if r < 0.92:
            # an attribute read (of the object the attribute stores write to)
            return "O.%s" % self.rng.choice(["a", "b"])
        return "(%s, %s)" % (self.expr(bound, depth + 1), self.expr(bound, depth + 1))

    # ---- statements: return (list of stmt tuples, new bound set)
    def block(self, bound, depth, budget, in_loop=False):
        stmts = []
        bound = set(bound)
        n = self.rng.randrange(1, 4 if depth else 6)
        for _ in range(n):
            if budget[0] <= 0:
                break
            budget[0] -= 1
            s, bound = self.stmt(bound, depth, budget, in_loop)
            stmts.append(s)
        if not stmts:
            stmts.append(("pass",))
        return stmts, bound

    def stmt(self, bound, depth, budget, in_loop):
        F = self.features
        rng = self.rng
        choices = ["assign"] * 5
        for f, w in (("tuple", 2), ("star", 1), ("nested", 1), ("attr", 1), ("sub", 1), ("chain", 1), ("aug", 2),
                     ("ann", 2), ("import", 1), ("expr", 1), ("decl", 0), ("walrus", 1), ("undef", 0), ("auglist", 1),
                     ("yieldfrom", 0)):
            if f in F or f == "expr" or f in self.weights:
                choices += [f] * self.weights.get(f, w)
        if depth < 2:
            for f, w in (("for", 3), ("while", 1), ("if", 3), ("try", 2), ("with", 2), ("def", 1), ("class", 1)):
                if f in F:
                    choices += [f] * w
        if "return" in F:
            choices += ["return"]
        if "raise" in F:
            choices += ["raise"]
        if in_loop and "breakcont" in F:
            choices += ["break", "continue"]
        if self.is_generator:
            choices += ["yield"] * 3
        kind = rng.choice(choices)
        v = rng.choice(VARS)
        if kind == "yieldfrom" and not self.is_generator:
            kind = "assign"
        if kind == "yieldfrom":
            # delegation to a sub-generator (what is sent goes to it) or to a plain iterable
            tgt = rng.choice([None, v])
            src = "SUB(%d, %d)" % (self.nk(), rng.randrange(0, 3)) if rng.random() < 0.7 else \
                "T(%d, 'list', %d)" % (self.nk(), rng.randrange(0, 3))
            return ("yieldfrom", tgt, src), (bound | {tgt}) if tgt else bound
        if kind == "assign":
            return ("assign", [("name", v)], self.expr(bound)), bound | {v}
        if kind == "tuple":
            n = rng.randrange(2, 4)
            vs = rng.sample(VARS, n)
            src_kind = rng.choice(["tuple", "list", "gen", "dict", "tuple"])
            m = n if rng.random() < 0.85 else n + rng.choice([-1, 1])
            return ("assign", [("tuple", [("name", x) for x in vs])], "T(%d, %r, %d)" % (self.nk(), src_kind, m)), \
                bound | set(vs)
        if kind == "star":
            vs = rng.sample(VARS, 2)
            tg = [("name", vs[0]), ("star", vs[1])]
            if rng.random() < 0.4:
                tg.reverse()          # *init, last = ...
            return ("assign", [("tuple", tg)],
                    "T(%d, %r, %d)" % (self.nk(), rng.choice(["tuple", "list", "gen"]), rng.randrange(1, 4))), \
                bound | set(vs)
        if kind == "nested":
            vs = rng.sample(VARS, 3)
            inner = ("tuple", [("name", vs[1]), ("name", vs[2])])
            if rng.random() < 0.4:
                # the nested target first: (b, c), a = ...
                return ("assign", [("tuple", [inner, ("name", vs[0])])],
                        "(T(%d, 'tuple', 2), %s)" % (self.nk(), self.expr(bound))), bound | set(vs)
            return ("assign", [("tuple", [("name", vs[0]), inner])],
                    "(%s, T(%d, 'tuple', 2))" % (self.expr(bound), self.nk())), bound | set(vs)
        if kind == "auglist":
            # in-place operators on an aliased list: `+=` extends the object, `+` would rebind
            vs = rng.sample(VARS, 2)
            return ("auglist", vs[0], vs[1], self.nk(), rng.choice(["tuple", "list", "gen"]), rng.randrange(0, 3),
                    self.nk()), bound | set(vs)
        if kind == "attr":
            return ("assign", [("attr", "O", rng.choice(["a", "b"]))], self.expr(bound)), bound
        if kind == "sub":
            return ("assign", [("sub", "O", "H(%d)" % self.nk())], self.expr(bound)), bound
        if kind == "chain":
            vs = rng.sample(VARS, 2)
            r = rng.random()
            # the value of a chained assignment is evaluated ONCE, also when it is a bare attribute read
            value = "O.tick" if r < 0.15 else "O.%s" % rng.choice(["a", "b"]) if r < 0.3 else self.expr(bound)
            return ("assign", [("name", vs[0]), ("name", vs[1])], value), bound | set(vs)
        if kind == "aug":
            cands = [x for x in VARS if x in bound]
            if not cands:
                return ("assign", [("name", v)], self.expr(bound)), bound | {v}
            return ("aug", ("name", rng.choice(cands)), rng.choice(["+", "*", "-"]), self.expr(bound)), bound
        if kind == "ann":
            return ("ann", v, rng.choice(["int", "'@T'", "'@T & @U'"]), self.expr(bound)), bound | {v}
        if kind == "walrus":
            w = rng.choice([x for x in VARS if x != v])
            if rng.random() < 0.15:
                # the assignment expression sits in the index of an assignment target
                return ("subwalrus", w, self.expr(bound), self.expr(bound)), bound | {w}
            if v in bound and rng.random() < 0.35:
                # the assignment expression is the value of an augmented assignment: v += (w := e)
                return ("walrus", v, w, self.expr(bound), "aug"), bound | {v, w}
            return ("walrus", v, w, self.expr(bound)), bound | {v, w}
        if kind == "undef":
            return ("assign", [("name", v)], "UNDEF%d + %s" % (rng.randrange(1, 3), self.expr(bound, 2))), bound | {v}
        if kind == "decl":
            return ("ann", v, rng.choice(["int", "'@T'"]), None), bound
        if kind == "import":
            if rng.random() < 0.6:
                # `import os.path` binds `os`
                return ("import", rng.choice(["math", "os.path"]), rng.choice([None, None, "e"])), bound
            return ("from", "math", "floor", rng.choice([None, "d"])), bound
        if kind == "expr":
            return ("expr", self.expr(bound)), bound
        if kind == "return":
            if rng.random() < 0.2:
                # an assignment expression inside the returned expression: a binding like any other
                w = rng.choice([x for x in VARS if x != v])
                inner, rest = self.expr(bound), self.expr(bound, 2)
                return ("return", "(%s := %s) + %s" % (w, inner, rest), (w, inner, rest)), bound | {w}
            return ("return", self.expr(bound) if rng.random() < 0.85 else None), bound
        if kind == "raise":
            return ("expr", "%s(%d)" % ("RQ" if rng.random() < 0.25 else "R", self.nk())), bound
        if kind == "break":
            return ("break",), bound
        if kind == "continue":
            return ("continue",), bound
        if kind == "yield":
            tgt = rng.choice([None, None, v])
            return ("yield", tgt, self.expr(bound)), (bound | {tgt}) if tgt else bound
        if kind == "for":
            shape = rng.choice(["name", "name", "tuple"])
            if shape == "name":
                tgt, it, bnew = ("name", v), "T(%d, %r, %d)" % (self.nk(), rng.choice(["list", "gen", "tuple"]), rng.randrange(0, 4)), {v}
            elif rng.random() < 0.3:
                # ((a, b), c) as loop target: pairs of (pair, scalar)
                vs = rng.sample(VARS, 3)
                tgt = ("tuple", [("tuple", [("name", vs[0]), ("name", vs[1])]), ("name", vs[2])])
                it = "[(p, %d) for p in T(%d, 'nested', %d)]" % (rng.randrange(0, 9), self.nk(), rng.randrange(0, 3))
                bnew = set(vs)
            else:
                vs = rng.sample(VARS, 2)
                tgt, it, bnew = ("tuple", [("name", vs[0]), ("name", vs[1])]), "T(%d, 'nested', %d)" % (self.nk(), rng.randrange(0, 3)), set(vs)
            body, _ = self.block(bound | bnew, depth + 1, budget, True)
            orelse = []
            if rng.random() < 0.25:
                orelse, _ = self.block(bound, depth + 1, budget, False)
                r2 = rng.random()
                if r2 < 0.35:
                    # the way out of the function may be the else clause of a loop
                    orelse.append(("return", self.expr(bound)))
                elif r2 < 0.55 and getattr(self, "is_generator", False):
                    orelse.append(("yield", None, self.expr(bound)))
                elif r2 < 0.7:
                    w = rng.choice(VARS)
                    orelse.append(("for", ("name", w), "T(%d, 'list', %d)" % (self.nk(), rng.randrange(0, 3)),
                                   [("expr", "H(%d, %s)" % (self.nk(), w))], []))
            return ("for", tgt, it, body, orelse), bound
        if kind == "while":
            body, _ = self.block(bound, depth + 1, budget, True)
            return ("while", "C(%d)" % self.nk(), body), bound
        if kind == "if":
            body, b1 = self.block(bound, depth + 1, budget, in_loop)
            orelse = []
            b2 = bound
            if rng.random() < 0.5:
                orelse, b2 = self.block(bound, depth + 1, budget, in_loop)
            return ("if", "C(%d)" % self.nk(), body, orelse), (b1 & b2) if orelse else bound
        if kind == "try":
            body, _ = self.block(bound, depth + 1, budget, in_loop)
            handlers = []
            if rng.random() < 0.8:
                hname = rng.choice([None, "e", v])
                hb, _ = self.block(bound | ({hname} if hname else set()), depth + 1, budget, in_loop)
                handlers.append((rng.choice(["Boom", "Exception", "(Boom, ValueError)"]), hname, hb))
            final = []
            if rng.random() < 0.5 or not handlers:
                final, _ = self.block(bound, depth + 1, budget, in_loop)
            return ("try", body, handlers, [], final), bound
        if kind == "with":
            tgt = rng.choice([None, v, v])
            body, _ = self.block(bound | ({tgt} if tgt else set()), depth + 1, budget, in_loop)
            return ("with", "CM(%d%s)" % (self.nk(), ", True" if rng.random() < 0.3 else ""), tgt, body), bound
        if kind == "def":
            name = rng.choice(["inner", "helper"])
            prm = rng.choice(["q", "q", "q"] + VARS + ["GLOB1"])
            return ("def", name, prm, [("return", "%s + %s" % (prm, self.expr(bound - {prm}, 2)))]), bound | {name}
        if kind == "class":
            name = rng.choice(["Cls", "Rec"])
            body = [("assign", [("name", "field")], self.expr(bound, 2))]
            if rng.random() < 0.3:
                # a declaration in the body of the class belongs to the class, not to the function around it
                body = [("raw", "global GLOB2"), ("assign", [("name", "GLOB2")], "GLOB2 + %d" % rng.randrange(1, 4))] + body
            return ("class", name, body), bound | {name}
        raise ValueError(kind)

    def function(self, name="f", generator=False, size=10):
        self.is_generator = generator
        np = self.nparams if self.nparams is not None else self.rng.randrange(0, 4)
        params = VARS[:np]
        body, _ = self.block(set(params), 0, [size])
        r = self.rng.random()
        if r < 0.15:
            # the function ENDS with a compound statement whose own last statement is a return, and that
            # return may not be reached: a swallowed exception falls off the end of the function
            ret = ("return", self.expr(set(params) | set(VARS[:2])))
            maybe = ("if", "C(%d)" % self.nk(), [("expr", "R(%d)" % self.nk())], [])
            if self.rng.random() < 0.6:
                body.append(("with", "CM(%d, True)" % self.nk(), None, [maybe, ret]))
            else:
                body.append(("try", [maybe, ret], [("Boom", None, [("pass",)])], [], []))
        elif not generator and r < 0.75:
            body.append(("return", self.expr(set(params) | set(VARS[:2]))))
        return {"name": name, "params": params, "body": body, "generator": generator}


# ---------------------------------------------------------------------------
# rendering
# ---------------------------------------------------------------------------

def target_text(t):
    if t[0] == "name":
        return t[1]
    if t[0] == "star":
        return "*" + t[1]
    if t[0] == "tuple":
        return "(" + ", ".join(target_text(x) for x in t[1]) + ("," if len(t[1]) == 1 else "") + ")"
    if t[0] == "attr":
        return "%s.%s" % (t[1], t[2])
    if t[0] == "sub":
        return "%s[%s]" % (t[1], t[2])
    raise ValueError(t)


def target_names(t):
    if t[0] in ("name", "star"):
        return [t[1]]
    if t[0] == "tuple":
        return [n for x in t[1] for n in target_names(x)]
    return []


def render(fn, twin=False, subst=None, ann_params=None, decl=None):
    """source text of the function.
    twin: add BL(name, value) after every binding Python makes.
    subst: (varname, "SUBST") — twin in which every binding of varname re-stores SUBST(name, value, locals())"""
    lines = []
    params = fn["params"]
    ptxt = ", ".join((p + (": " + ann_params[p] if ann_params and p in ann_params else "")) for p in params)
    lines.append("def %s(%s):" % (fn["name"], ptxt))

    def post_bind(names, ind):
        out = []
        for n in names:
            if subst and n == subst[0]:
                out.append("%s%s = %s(%r, %s, LATEST)" % (ind, n, subst[1], n, n))
            if twin:
                out.append("%sBL(%r, %s)" % (ind, n, n))
        return out

    if twin:
        # every call is a call of its own: what an earlier call bound is not a value of this one
        lines.append("    LATEST.clear()")
    lines += post_bind(params, "    ")

    def emit(stmts, ind):
        for s in stmts:
            k = s[0]
            if k == "assign":
                tg = " = ".join(target_text(t) for t in s[1])
                if subst and len(s[1]) == 1 and s[1][0][0] == "attr" and subst[0] == "%s.%s" % (s[1][0][1], s[1][0][2]):
                    lines.append("%s%s = %s(%r, %s, LATEST)" % (ind, tg, subst[1], subst[0], s[2]))
                    continue
                lines.append("%s%s = %s" % (ind, tg, s[2]))
                lines.extend(post_bind([n for t in s[1] for n in target_names(t)], ind))
            elif k == "walrus":
                # the inner binding happens even if the rest of the statement raises: log it in place
                inner = s[3]
                if subst and s[2] == subst[0]:
                    inner = "%s(%r, %s, LATEST)" % (subst[1], s[2], inner)
                if twin:
                    inner = "BL(%r, %s)" % (s[2], inner)
                if len(s) > 4 and s[4] == "aug":
                    lines.append("%s%s += (%s := %s)" % (ind, s[1], s[2], inner))
                else:
                    lines.append("%s%s = (%s := %s) + 1" % (ind, s[1], s[2], inner))
                lines.extend(post_bind([s[1]], ind))
            elif k == "subwalrus":
                # O[(w := inner)] = value: the value is evaluated first, then the index (a binding like any other)
                inner = s[2]
                if subst and s[1] == subst[0]:
                    inner = "%s(%r, %s, LATEST)" % (subst[1], s[1], inner)
                if twin:
                    inner = "BL(%r, %s)" % (s[1], inner)
                lines.append("%sO[(%s := %s)] %s %s" % (ind, s[1], inner, "+=" if len(s) > 4 and s[4] == "aug" else "=", s[3]))
            elif k == "aug":
                lines.append("%s%s %s= %s" % (ind, target_text(s[1]), s[2], s[3]))
                lines.extend(post_bind(target_names(s[1]), ind))
            elif k == "auglist":
                # a = T(..'list'..); b = a; a += T(..); H(k, b)
                lines.append("%s%s = T(%d, 'list', 2)" % (ind, s[1], s[3]))
                lines.extend(post_bind([s[1]], ind))
                lines.append("%s%s = %s" % (ind, s[2], s[1]))
                lines.extend(post_bind([s[2]], ind))
                lines.append("%s%s += T(%d, %r, %d)" % (ind, s[1], s[6], s[4], s[5]))
                lines.extend(post_bind([s[1]], ind))
                lines.append("%sH(%d, %s, %s)" % (ind, s[6] + 1000, s[2], s[1]))
            elif k == "ann":
                if s[3] is None and decl is not None:
                    # twin of a declaration: what ptera's documented semantics says happens there
                    lines.append("%s%s" % (ind, decl(s[1])))
                elif s[3] is None:
                    lines.append("%s%s: %s" % (ind, s[1], s[2]))
                else:
                    lines.append("%s%s: %s = %s" % (ind, s[1], s[2], s[3]))
                    lines.extend(post_bind([s[1]], ind))
            elif k == "import":
                lines.append("%simport %s%s" % (ind, s[1], " as " + s[2] if s[2] else ""))
                lines.extend(post_bind([s[2] or s[1].split(".")[0]], ind))
            elif k == "from":
                lines.append("%sfrom %s import %s%s" % (ind, s[1], s[2], " as " + s[3] if s[3] else ""))
                lines.extend(post_bind([s[3] or s[2]], ind))
            elif k == "expr":
                lines.append("%s%s" % (ind, s[1]))
            elif k == "return":
                if len(s) > 2:
                    w, inner, rest = s[2]
                    if subst and w == subst[0]:
                        inner = "%s(%r, %s, LATEST)" % (subst[1], w, inner)
                    if twin:
                        inner = "BL(%r, %s)" % (w, inner)
                    lines.append("%sreturn (%s := %s) + %s" % (ind, w, inner, rest))
                else:
                    lines.append("%sreturn%s" % (ind, " " + s[1] if s[1] is not None else ""))
            elif k in ("break", "continue", "pass"):
                lines.append(ind + k)
            elif k == "yieldfrom":
                if s[1]:
                    lines.append("%s%s = yield from %s" % (ind, s[1], s[2]))
                    lines.extend(post_bind([s[1]], ind))
                else:
                    lines.append("%syield from %s" % (ind, s[2]))
            elif k == "yield":
                if s[1]:
                    lines.append("%s%s = yield %s" % (ind, s[1], s[2]))
                    lines.extend(post_bind([s[1]], ind))
                else:
                    lines.append("%syield %s" % (ind, s[2]))
            elif k == "for":
                lines.append("%sfor %s in %s:" % (ind, target_text(s[1]), s[2]))
                lines.extend(post_bind(target_names(s[1]), ind + "    "))
                emit(s[3], ind + "    ")
                if s[4]:
                    lines.append(ind + "else:")
                    emit(s[4], ind + "    ")
            elif k == "while":
                lines.append("%swhile %s:" % (ind, s[1]))
                emit(s[2], ind + "    ")
            elif k == "if":
                lines.append("%sif %s:" % (ind, s[1]))
                emit(s[2], ind + "    ")
                if s[3]:
                    lines.append(ind + "else:")
                    emit(s[3], ind + "    ")
            elif k == "try":
                lines.append(ind + "try:")
                emit(s[1], ind + "    ")
                for (typ, name, hb) in s[2]:
                    lines.append("%sexcept %s%s:" % (ind, typ, " as " + name if name else ""))
                    lines.extend(post_bind([name] if name else [], ind + "    "))
                    emit(hb, ind + "    ")
                if s[3]:
                    lines.append(ind + "else:")
                    emit(s[3], ind + "    ")
                if s[4]:
                    lines.append(ind + "finally:")
                    emit(s[4], ind + "    ")
            elif k == "with":
                lines.append("%swith %s%s:" % (ind, s[1], " as " + s[2] if s[2] else ""))
                lines.extend(post_bind([s[2]] if s[2] else [], ind + "    "))
                emit(s[3], ind + "    ")
            elif k == "def":
                lines.append("%sdef %s(%s):" % (ind, s[1], s[2]))
                emit_plain(s[3], ind + "    ")
                lines.extend(post_bind([s[1]], ind))
            elif k == "raw":
                lines.append(ind + s[1])
            elif k == "class":
                lines.append("%sclass %s:" % (ind, s[1]))
                emit_plain(s[2], ind + "    ")
                lines.extend(post_bind([s[1]], ind))
            else:
                raise ValueError(k)

    def emit_plain(stmts, ind):
        # nested scopes: their bindings are not the function's
        nonlocal twin, subst
        t, sb = twin, subst
        twin, subst = False, None
        try:
            emit(stmts, ind)
        finally:
            twin, subst = t, sb

    emit(fn["body"], "    ")
    return "\n".join(lines) + "\n"


def stmt_kinds(fn):
    out = set()

    def rec(stmts):
        for s in stmts:
            out.add(s[0])
            if s[0] == "assign":
                for t in s[1]:
                    out.add("target:" + t[0])
                if len(s[1]) > 1:
                    out.add("chain")
            for part in s[1:]:
                if isinstance(part, list) and part and isinstance(part[0], tuple) and isinstance(part[0][0], str) \
                        and part[0][0] in ("assign", "aug", "ann", "expr", "return", "pass", "for", "while", "if", "try",
                                           "with", "def", "class", "import", "from", "break", "continue", "yield"):
                    rec(part)
            if s[0] == "try":
                for h in s[2]:
                    rec(h[2])
    rec(fn["body"])
    return out


def bound_names(fn):
    """names the function's own body binds (params, assignment/loop/with/except/import targets, walrus is
    not tracked here)"""
    names = list(fn["params"])

    def rec(stmts):
        for s in stmts:
            k = s[0]
            if k == "assign":
                for t in s[1]:
                    names.extend(target_names(t))
            elif k == "aug":
                names.extend(target_names(s[1]))
            elif k == "walrus":
                names.extend([s[2], s[1]])
            elif k == "return" and len(s) > 2:
                names.append(s[2][0])
            elif k == "auglist":
                names.extend([s[1], s[2]])
            elif k == "ann" and s[3] is not None:
                names.append(s[1])
            elif k == "import":
                names.append(s[2] or s[1].split(".")[0])
            elif k == "from":
                names.append(s[3] or s[2])
            elif k in ("yield", "yieldfrom") and s[1]:
                names.append(s[1])
            elif k == "subwalrus":
                names.append(s[1])
            elif k == "for":
                names.extend(target_names(s[1]))
                rec(s[3]); rec(s[4])
            elif k == "while":
                rec(s[2])
            elif k == "if":
                rec(s[2]); rec(s[3])
            elif k == "try":
                rec(s[1])
                for h in s[2]:
                    if h[1]:
                        names.append(h[1])
                    rec(h[2])
                rec(s[3]); rec(s[4])
            elif k == "with":
                if s[2]:
                    names.append(s[2])
                rec(s[3])
            elif k in ("def", "class"):
                names.append(s[1])
    rec(fn["body"])
    seen = []
    for n in names:
        if n not in seen:
            seen.append(n)
    return seen
