"""Translator: regenerate lean/PteraModel/Generated/*.lean from /repo's working tree.

Run with /venv/bin/python.  Every generated file is written only when its
content changes so that an unchanged tree costs a no-op `lake build`.

Generated artefacts
  Tools.lean    Python-AST -> Lean translation of ptera/tools.py (Range, every,
                between, lt, gt, lte, gte, throttle)
  Tables.lean   operator table, lexer definitions, evaluator action registries,
                valid hashvars, standard meta-variable info (introspection of
                the imported modules)
  Steps.lean    atomic step skeletons of the life-cycle functions (AST walk)

Anything outside the translated subset raises ExtractError: a broken tie.
"""
import ast
import importlib
import inspect
import os
import sys

REPO = os.environ.get("PTERA_REPO", "/repo")
HERE = os.path.dirname(os.path.abspath(__file__))
GEN = os.path.join(os.path.dirname(HERE), "lean", "PteraModel", "Generated")

LEAN_KEYWORDS = {
    "end", "at", "from", "in", "do", "then", "else", "if", "fun", "let",
    "have", "show", "open", "namespace", "section", "def", "theorem", "where",
    "with", "match", "structure", "class", "instance", "local", "private",
    "protected", "export", "import", "universe", "variable", "deriving",
    "by", "calc", "true", "false", "return", "for", "unless", "try", "catch",
    "finally", "mut", "type", "Type", "Prop", "Sort",
}


class ExtractError(Exception):
    pass


def lname(n):
    return n + "_" if n in LEAN_KEYWORDS else n


def lstr(s):
    out = ['"']
    for ch in s:
        if ch == '"':
            out.append('\\"')
        elif ch == "\\":
            out.append("\\\\")
        elif ch == "\n":
            out.append("\\n")
        elif ch == "\t":
            out.append("\\t")
        elif ord(ch) < 32 or ord(ch) > 126:
            out.append("\\u{%x}" % ord(ch))
        else:
            out.append(ch)
    out.append('"')
    return "".join(out)


def write_if_changed(path, content):
    os.makedirs(os.path.dirname(path), exist_ok=True)
    try:
        with open(path) as f:
            if f.read() == content:
                return False
    except FileNotFoundError:
        pass
    tmp = path + ".tmp%d" % os.getpid()
    with open(tmp, "w") as f:
        f.write(content)
    os.replace(tmp, path)
    return True


# ---------------------------------------------------------------------------
# tools.py  ->  Generated/Tools.lean
# ---------------------------------------------------------------------------

BINOPS = {ast.Add: "pyAdd", ast.Sub: "pySub", ast.Mod: "pyMod"}
CMPOPS = {
    ast.Lt: "pyLt", ast.LtE: "pyLe", ast.Gt: "pyGt", ast.GtE: "pyGe",
    ast.Eq: "pyEq", ast.NotEq: "pyNe",
}


class ToolsTranslator:
    def __init__(self, tree):
        self.tree = tree
        self.classes = {}   # name -> dict(fields=[...], init=FunctionDef, call=FunctionDef)
        self.out = []

    def const(self, v):
        if v is None:
            return "PyV.none"
        if v is True:
            return "(PyV.bool true)"
        if v is False:
            return "(PyV.bool false)"
        if isinstance(v, int):
            return "(PyV.int (%d))" % v
        raise ExtractError("constant outside subset: %r" % (v,))

    def expr(self, e, selfname=None):
        """-> Lean term of type PyM PyV"""
        X = lambda x: self.expr(x, selfname)
        if isinstance(e, ast.Constant):
            return "(pure %s)" % self.const(e.value)
        if isinstance(e, ast.Name):
            return "(pure %s)" % lname(e.id)
        if isinstance(e, ast.Attribute):
            if isinstance(e.value, ast.Name) and e.value.id == selfname:
                return "(pure self.%s)" % lname(e.attr)
            raise ExtractError("attribute read outside subset: %s" % ast.dump(e))
        if isinstance(e, ast.BinOp):
            op = BINOPS.get(type(e.op))
            if op is None:
                raise ExtractError("binary operator outside subset: %s" % ast.dump(e.op))
            return "(lift2 %s %s %s)" % (op, X(e.left), X(e.right))
        if isinstance(e, ast.UnaryOp) and isinstance(e.op, ast.Not):
            return "(lift1 pyNot %s)" % X(e.operand)
        if isinstance(e, ast.UnaryOp) and isinstance(e.op, ast.USub) and isinstance(e.operand, ast.Constant):
            return "(pure %s)" % self.const(-e.operand.value)
        if isinstance(e, ast.BoolOp):
            fn = "pyAnd" if isinstance(e.op, ast.And) else "pyOr"
            vals = [X(v) for v in e.values]
            acc = vals[-1]
            for v in reversed(vals[:-1]):
                acc = "(%s %s (fun _ => %s))" % (fn, v, acc)
            return acc
        if isinstance(e, ast.Compare):
            if len(e.ops) != 1:
                raise ExtractError("chained comparison outside subset")
            op, right = e.ops[0], e.comparators[0]
            if isinstance(op, (ast.Is, ast.IsNot)):
                if not (isinstance(right, ast.Constant) and right.value is None):
                    raise ExtractError("`is` only against None")
                fn = "pyIsNone" if isinstance(op, ast.Is) else "pyIsNotNone"
                return "(lift1 %s %s)" % (fn, X(e.left))
            fn = CMPOPS.get(type(op))
            if fn is None:
                raise ExtractError("comparison outside subset: %s" % ast.dump(op))
            return "(lift2 %s %s %s)" % (fn, X(e.left), X(right))
        raise ExtractError("expression outside subset: %s" % ast.dump(e))

    def stmts(self, body, selfname, ind):
        """-> Lean term of type PyM (PyV × Self); continuation-duplicating."""
        pad = "  " * ind
        if not body:
            return pad + "pure (PyV.none, self)"
        s, rest = body[0], body[1:]
        if isinstance(s, ast.Expr) and isinstance(s.value, ast.Constant) and isinstance(s.value.value, str):
            return self.stmts(rest, selfname, ind)
        if isinstance(s, ast.Return):
            val = self.expr(s.value, selfname) if s.value is not None else "(pure PyV.none)"
            return pad + "(do let r ← %s; pure (r, self))" % val
        if isinstance(s, ast.If):
            c = self.expr(s.test, selfname)
            a = self.stmts(list(s.body) + rest, selfname, ind + 1)
            b = self.stmts(list(s.orelse) + rest, selfname, ind + 1)
            return "%s(do\n%s  let c ← %s\n%s  if c.truthy then\n%s\n%s  else\n%s)" % (
                pad, pad, c, pad, a, pad, b)
        if isinstance(s, (ast.Assign, ast.AugAssign)):
            if isinstance(s, ast.Assign):
                if len(s.targets) != 1:
                    raise ExtractError("chained assignment outside subset")
                tgt, val = s.targets[0], self.expr(s.value, selfname)
            else:
                tgt = s.target
                op = BINOPS.get(type(s.op))
                if op is None:
                    raise ExtractError("augmented operator outside subset")
                load = ast.Attribute(value=tgt.value, attr=tgt.attr, ctx=ast.Load()) \
                    if isinstance(tgt, ast.Attribute) else ast.Name(id=tgt.id, ctx=ast.Load())
                val = "(lift2 %s %s %s)" % (op, self.expr(load, selfname), self.expr(s.value, selfname))
            k = self.stmts(rest, selfname, ind + 1)
            if isinstance(tgt, ast.Attribute) and isinstance(tgt.value, ast.Name) and tgt.value.id == selfname:
                return "%s(do\n%s  let v ← %s\n%s  let self := { self with %s := v }\n%s)" % (
                    pad, pad, val, pad, lname(tgt.attr), k)
            if isinstance(tgt, ast.Name):
                return "%s(do\n%s  let %s ← %s\n%s)" % (pad, pad, lname(tgt.id), val, k)
            raise ExtractError("assignment target outside subset")
        raise ExtractError("statement outside subset: %s" % ast.dump(s))

    def params(self, fn, skip_self):
        a = fn.args
        if a.vararg or a.kwarg or a.kwonlyargs or a.posonlyargs:
            raise ExtractError("parameter kinds outside subset")
        args = a.args[1:] if skip_self else a.args
        defaults = [None] * (len(args) - len(a.defaults)) + list(a.defaults)
        res = []
        for arg, d in zip(args, defaults):
            if d is not None:
                if not isinstance(d, ast.Constant):
                    raise ExtractError("default outside subset")
                res.append((arg.arg, self.const(d.value)))
            else:
                res.append((arg.arg, None))
        return res

    def sig(self, params):
        parts = []
        for n, d in params:
            if d is None:
                parts.append("(%s : PyV)" % lname(n))
            else:
                parts.append("(%s : PyV := %s)" % (lname(n), d))
        return " ".join(parts)

    def do_class(self, node):
        init = call = None
        for item in node.body:
            if isinstance(item, ast.FunctionDef) and item.name == "__init__":
                init = item
            elif isinstance(item, ast.FunctionDef) and item.name == "__call__":
                call = item
            elif isinstance(item, ast.Expr) and isinstance(item.value, ast.Constant):
                pass
            else:
                raise ExtractError("class member outside subset: %s.%s" % (node.name, getattr(item, "name", item)))
        if init is None or call is None:
            raise ExtractError("class %s needs __init__ and __call__" % node.name)
        selfname = init.args.args[0].arg
        fields = []
        inits = []
        for s in init.body:
            if isinstance(s, ast.Expr) and isinstance(s.value, ast.Constant):
                continue
            if not (isinstance(s, ast.Assign) and len(s.targets) == 1
                    and isinstance(s.targets[0], ast.Attribute)
                    and isinstance(s.targets[0].value, ast.Name)
                    and s.targets[0].value.id == selfname):
                raise ExtractError("__init__ statement outside subset in %s" % node.name)
            f = s.targets[0].attr
            if f in fields:
                raise ExtractError("field assigned twice in __init__")
            if isinstance(s.value, ast.Name):
                v = lname(s.value.id)
            elif isinstance(s.value, ast.Constant):
                v = self.const(s.value.value)
            else:
                raise ExtractError("__init__ value outside subset")
            fields.append(f)
            inits.append((f, v))
        cname = node.name
        self.classes[cname] = fields
        o = self.out
        o.append("structure %s where" % cname)
        for f in fields:
            o.append("  %s : PyV" % lname(f))
        o.append("  deriving DecidableEq, Repr")
        o.append("")
        ip = self.params(init, True)
        o.append("def %s.init %s : %s :=" % (cname, self.sig(ip), cname))
        o.append("  { " + ", ".join("%s := %s" % (lname(f), v) for f, v in inits) + " }")
        o.append("")
        cselfname = call.args.args[0].arg
        cp = self.params(call, True)
        o.append("def %s.call (self : %s) %s : PyM (PyV × %s) :=" % (cname, cname, self.sig(cp), cname))
        body = self.stmts(call.body, cselfname, 1)
        if cselfname != "self":
            raise ExtractError("receiver must be called self")
        o.append(body)
        o.append("")

    def do_function(self, node):
        body = [s for s in node.body
                if not (isinstance(s, ast.Expr) and isinstance(s.value, ast.Constant))]
        if len(body) != 1 or not isinstance(body[0], ast.Return):
            raise ExtractError("function %s outside subset" % node.name)
        r = body[0].value
        p = self.params(node, False)
        o = self.out
        if isinstance(r, ast.Call) and isinstance(r.func, ast.Name) and r.func.id in self.classes:
            if r.args:
                raise ExtractError("positional constructor arguments outside subset")
            kws = []
            for kw in r.keywords:
                if not isinstance(kw.value, ast.Name):
                    raise ExtractError("constructor keyword value outside subset")
                kws.append("(%s := %s)" % (lname(kw.arg), lname(kw.value.id)))
            o.append("def %s %s : %s :=" % (lname(node.name), self.sig(p), r.func.id))
            o.append("  %s.init %s" % (r.func.id, " ".join(kws)))
            o.append("")
        elif isinstance(r, ast.Lambda):
            lp = [a.arg for a in r.args.args]
            if r.args.defaults or r.args.vararg or r.args.kwarg:
                raise ExtractError("lambda parameters outside subset")
            o.append("def %s %s %s : PyM PyV :=" % (
                lname(node.name), self.sig(p), " ".join("(%s : PyV)" % lname(x) for x in lp)))
            o.append("  " + self.expr(r.body))
            o.append("")
        else:
            raise ExtractError("return value of %s outside subset" % node.name)

    def run(self):
        o = self.out
        o.append("-- GENERATED by harness/extract.py from ptera/tools.py — do not edit")
        o.append("import PteraModel.Model.PyVal")
        o.append("namespace Ptera.Generated.Tools")
        o.append("open Ptera.PyVal")
        o.append("")
        names = []
        for node in self.tree.body:
            if isinstance(node, ast.ClassDef):
                self.do_class(node)
                names.append(node.name)
            elif isinstance(node, ast.FunctionDef):
                self.do_function(node)
                names.append(node.name)
            elif isinstance(node, ast.Expr) and isinstance(node.value, ast.Constant):
                continue
            else:
                raise ExtractError("top-level statement outside subset: %s" % ast.dump(node)[:80])
        o.append("def definedNames : List String := [%s]" % ", ".join(lstr(n) for n in names))
        o.append("")
        o.append("end Ptera.Generated.Tools")
        return "\n".join(o) + "\n"


def gen_tools():
    path = os.path.join(REPO, "ptera", "tools.py")
    with open(path) as f:
        tree = ast.parse(f.read(), path)
    return ToolsTranslator(tree).run()


FALLBACK = {
    "Steps.lean": """-- GENERATED (fallback: extraction failed: %s)
import PteraModel.Model.Sched
namespace Ptera.Generated.Steps
open Ptera.Sched
def toolerLines : List (String × Nat × List Step) := []
def untoolerLines : List (String × Nat × List Step) := []
def bystanderLines : List (String × Nat × List Step) := []
end Ptera.Generated.Steps
""",
    "Tables.lean": """-- GENERATED (fallback: extraction failed: %s)
namespace Ptera.Generated.Tables
def operators : List (String × Int × Int) := []
def lexerDefs : List (String × String) := []
def evaluateActions : List (String × String) := []
def valueEvaluateActions : List (String × String) := []
def validHashvars : List String := []
def standardInfo : List (String × String) := []
end Ptera.Generated.Tables
""",
    "Tools.lean": """-- GENERATED (fallback: extraction failed: %s)
import PteraModel.Model.PyVal
namespace Ptera.Generated.Tools
def extractionFailed : Bool := true
end Ptera.Generated.Tools
""",
}


def main():
    sys.path.insert(0, REPO)
    results = {}
    gens = [("Tools.lean", gen_tools)]
    from extract_tables import GENS as more
    gens += more
    from extract_steps import GENS as more2
    gens += more2
    status = 0
    for fname, fn in gens:
        try:
            content = fn()
            results[fname] = "ok"
        except Exception as e:  # a broken tie, reported by the caller
            msg = "%s: %s" % (type(e).__name__, e)
            results[fname] = "FAILED " + msg
            content = FALLBACK.get(fname, "-- GENERATED (fallback: extraction failed: %s)\n") % msg.replace("\n", " ")
            status = 3
        changed = write_if_changed(os.path.join(GEN, fname), content)
        print("extract %s: %s%s" % (fname, results[fname], " (updated)" if changed else ""))
    return status


if __name__ == "__main__":
    sys.exit(main())
