"""Independent reference semantics for call-path selectors, computed from the call tree alone
(the property's own words; nothing of ptera's handler mechanism is reused).

A selector is the JSON produced by treegen.sel_json.  The reference covers selectors without value
conditions and with pairwise distinct capture keys."""


def walk(tree, stack, hist, counter):
    """history of binds: list of (var, cat, value, stack of (activation id, fn)), in time order"""
    counter[0] += 1
    me = (counter[0], tree["fn"])
    st = stack + [me]
    for it in tree["items"]:
        if "call" in it:
            walk(it["call"], st, hist, counter)
        elif it["name"] == "!raise" or it["value"] is None:
            pass            # (a declaration without a value binds nothing)
        else:
            hist.append((it["name"], it["cat"], it["value"]["v"] if it["value"] else None, st))


def level_fits(level, fn, infos):
    if level["fn"] is not None and level["fn"] != fn:
        return False
    if level["fcat"] is not None:
        ret = infos[fn]["ret"]
        if not isinstance(ret, list) or level["fcat"] not in ret:
            return False
    names = [v[0] for v in infos[fn]["vars"]]
    for c in level["captures"]:
        if c["name"] is None:
            if not any(cat_matches(c["category"], ann) for _, ann in infos[fn]["vars"]):
                return False
        elif not c["name"].startswith("#") and c["name"].split(".")[0] not in names:
            return False
    return True


def cat_matches(want, cat):
    if want is None:
        return True
    return isinstance(cat, list) and want in cat


def cap_applies(c, var, cat):
    return (c["name"] is None or c["name"] == var) and cat_matches(c["category"], cat)


def embeddings(levels, stack, infos, must_end_at_top=True):
    """all strictly increasing position tuples matching levels into stack"""
    out = []

    def rec(i, start, acc):
        if i == len(levels):
            if not must_end_at_top or (acc and acc[-1] == len(stack) - 1):
                out.append(tuple(acc))
            return
        for p in range(start, len(stack)):
            if level_fits(levels[i], stack[p][1], infos):
                rec(i + 1, p + 1, acc + [p])
    rec(0, 0, [])
    return out


def focus_path(sel):
    """levels from the root to the level that holds the focus capture, or None"""
    if any(c["focus"] for c in sel["captures"]):
        return [sel]
    for ch in sel["children"]:
        p = focus_path(ch)
        if p:
            return [sel] + p
    return None


def sibling_chains(level, exclude):
    """(chain of levels below `level`, capture) for every capture in subtrees other than `exclude`"""
    out = []

    def rec(node, chain):
        for c in node["captures"]:
            out.append((chain + [node], c))
        for ch in node["children"]:
            rec(ch, chain + [node])
    for ch in level["children"]:
        if ch is not exclude:
            rec(ch, [])
    return out


def all_capture_keys(sel):
    keys = [c["capture"] for c in sel["captures"]]
    for ch in sel["children"]:
        keys += all_capture_keys(ch)
    return keys


def supported(sel):
    def novalue(s):
        return all(c["value"] is None and not c["tag2"] for c in s["captures"]) and all(novalue(ch) for ch in s["children"])
    keys = all_capture_keys(sel)
    return novalue(sel) and len(keys) == len(set(keys)) and focus_path(sel) is not None


def immediate_events(sel, trees, infos):
    """-> list (one entry per binding of anything, in time order) of lists of payload dicts"""
    hist = []
    counter = [0]
    for t in trees:
        walk(t, [], hist, counter)
    path = focus_path(sel)
    focus_level = path[-1]
    focus_caps = [c for c in focus_level["captures"] if c["focus"]]
    groups = []
    for idx, (var, cat, val, stack) in enumerate(hist):
        payloads = []
        for fc in focus_caps:
            if not cap_applies(fc, var, cat):
                continue
            for emb in embeddings(path, stack, infos):
                payload = {fc["capture"]: val}
                for i, lvl in enumerate(path):
                    act = stack[emb[i]]
                    # own captures of the level: latest binding in that very activation
                    for c in lvl["captures"]:
                        if c is fc:
                            continue
                        for (v2, cat2, val2, st2) in hist[:idx + 1]:
                            if st2[-1] == act and cap_applies(c, v2, cat2):
                                payload[c["capture"]] = val2
                    # captures of sibling calls: latest binding made underneath that activation
                    nxt = path[i + 1] if i + 1 < len(path) else None
                    for chain, c in sibling_chains(lvl, nxt):
                        for (v2, cat2, val2, st2) in hist[:idx + 1]:
                            if len(st2) > emb[i] and st2[emb[i]] == act and cap_applies(c, v2, cat2):
                                below = st2[emb[i] + 1:]
                                if below and embeddings(chain, below, infos):
                                    payload[c["capture"]] = val2
                payloads.append(payload)
        if payloads:
            groups.append(payloads)
    return groups


# ---------------------------------------------------------------------------
# total (focus-free) selectors
# ---------------------------------------------------------------------------

def walk_acts(tree, stack, hist, acts, counter):
    """like walk, and also the list of activations in EXIT order with their stacks"""
    counter[0] += 1
    me = (counter[0], tree["fn"])
    st = stack + [me]
    for it in tree["items"]:
        if "call" in it:
            walk_acts(it["call"], st, hist, acts, counter)
        elif it["name"] == "!raise" or it["value"] is None:
            pass            # (a declaration without a value binds nothing)
        else:
            hist.append((it["name"], it["cat"], it["value"]["v"] if it["value"] else None, st))
    acts.append(st)


def all_nodes(sel):
    out = []

    def rec(node, chain):
        out.append((chain + [node], node))
        for ch in node["children"]:
            rec(ch, chain + [node])
    rec(sel, [])
    return out


def total_records(sel, trees, infos, per_embedding):
    """one record per activation matching the root level, at its exit: capture -> list of values.
    per_embedding=False is the property (each value once); True counts a value once per way the
    path from the root activation to the binding activation matches (the recorded finding F17)."""
    hist, acts, counter = [], [], [0]
    for t in trees:
        walk_acts(t, [], hist, acts, counter)
    nodes = all_nodes(sel)
    names = set(all_capture_keys(sel))
    records = []
    for st in acts:
        root_pos = len(st) - 1
        if not level_fits(sel, st[root_pos][1], infos):
            continue
        rec = {}
        for (var, cat, val, st2) in hist:
            if len(st2) <= root_pos or st2[root_pos] != st[root_pos]:
                continue
            for chain, node in nodes:
                for c in node["captures"]:
                    if not cap_applies(c, var, cat):
                        continue
                    if len(chain) == 1:
                        n = 1 if len(st2) == root_pos + 1 else 0
                    else:
                        below = st2[root_pos + 1:]
                        n = len(embeddings(chain[1:], below, infos)) if below else 0
                    if n:
                        rec.setdefault(c["capture"], []).extend([val] * (n if per_embedding else 1))
        if set(rec) == names:
            records.append(rec)
    return records
