import sys, random, json, collections
sys.path.insert(0, '/verif/harness')
import core, pylite, progrun, pyprog, rewritecorr, astjson
drv = core.Driver()
rng = random.Random(int(sys.argv[1]) if len(sys.argv) > 1 else 0)
N = int(sys.argv[2]) if len(sys.argv) > 2 else 200
stats = collections.Counter()
shown = 0
FEATURES = {"tuple", "star", "nested", "attr", "sub", "chain", "aug", "ann", "for", "while", "if", "try",
            "with", "walrus", "import", "def", "class", "return", "raise", "breakcont"}

def norm_real(res, gen):
    out = res["outcome"]
    if out[0] == "exc":
        o = ["exc", out[1], out[2] if out[1] in ("NameError", "Boom") else ""]
    else:
        o = ["ret", out[1]]
    ys = [y[1] for y in res["yields"] if y[0] == "y"]
    stop = [y[1] for y in res["yields"] if y[0] == "stop"]
    if gen:
        if stop:
            o = ["ret", stop[0]]
        elif out[0] == "ret":
            o = ["open"]
    a, b, items = res["obj"]
    return {"outcome": o, "log": res["log"], "yields": ys, "obj": [a, b, sorted(items, key=repr)]}

def plainj(v):
    return v

def norm_model(ans, gen, real_open):
    c = ans["ctl"]
    if c[0] == "ret":
        o = ["ret", c[1]]
    elif c[0] == "exc":
        e = c[1]
        if isinstance(e, dict) and "exc" in e:
            cls = e["exc"]
            arg = e["args"][0] if e["args"] else ""
            if cls == "PteraNameError":
                cls = "NameError"
            o = ["exc", cls, str(arg) if cls in ("NameError", "Boom") else ""]
        else:
            o = ["exc", "?", json.dumps(e)]
    else:
        o = [c[0]]
    if gen and real_open:
        o = ["open"]
    a, b, items = ans["obj"]
    return {"outcome": o, "log": ans["log"], "yields": ans["out"], "obj": [a, b, sorted([[k, v] for k, v in items], key=lambda kv: repr(kv[0]))]}

def unmodelled(ans):
    return "Unmodelled" in json.dumps(ans["ctl"]) or "Unmodelled" in json.dumps(ans["log"]) or '"fuel"' in json.dumps(ans["ctl"]) or "unmodelled" in json.dumps(ans["ctl"])

for i in range(N):
    g = pylite.Gen(rng, features=FEATURES)
    gen = rng.random() < 0.3
    fn = g.function(generator=gen, size=rng.randrange(3, 14))
    src = pylite.render(fn)
    gen = gen and "yield" in src
    fn["generator"] = gen
    args, script, gscript = progrun.gen_inputs(rng, fn)
    if gen:
        gscript = [["next"]] + [op for op in gscript[1:] if op[0] in ("next", "send", "throw")]
    mod = progrun.make(src, "ex_%d" % i)
    f = getattr(mod, "f")
    try:
        fj = rewritecorr.model_input(f)
    except astjson.Unsupported as e:
        stats["unsupported"] += 1
        continue
    real = progrun.drive(mod, f, args, script, gscript)
    pyprog.drop_module(mod)
    inp = []
    if gen:
        for op in gscript[1:]:
            inp.append(["send", None] if op[0] == "next" else op)
    req = {"op": "exec", "fn": fj, "cfg": [], "mode": "plain", "args": args, "script": script, "inp": inp, "fuel": 60}
    ans = drv.ask(req)
    if unmodelled(ans):
        stats["unmodelled"] += 1
        continue
    r = norm_real(real, gen)
    m = norm_model(ans, gen, r["outcome"] == ["open"])
    if json.loads(json.dumps(r)) == m:
        stats["agree"] += 1
    else:
        stats["differ"] += 1
        if shown < 5:
            shown += 1
            print(src); print(args, script, gscript)
            for k in r:
                if json.loads(json.dumps(r[k])) != m[k]:
                    print(" ", k, "\n   real ", json.dumps(r[k])[:600], "\n   model", json.dumps(m[k])[:600])
    # model-internal: instrumented vs reference
    names = pylite.bound_names(fn) + ["GLOB1", "H", "#value", "#enter", "#exit", "#error", "#yield", "#receive", "#loop_a", "#endloop_a"]
    cfgs = [[[None, None]], [[rng.choice(names), None] for _ in range(rng.randrange(1, 3))]]
    for cfg in cfgs:
        a1 = drv.ask(dict(req, cfg=cfg, mode="ref"))
        a2 = drv.ask(dict(req, cfg=cfg, mode="instr"))
        if a1 == a2:
            stats["sim-agree"] += 1
        else:
            stats["sim-differ"] += 1
            if shown < 8:
                shown += 1
                print(src); print(args, script, gscript, cfg)
                for k in a1:
                    if a1[k] != a2[k]:
                        print(" ", k, "\n   ref  ", json.dumps(a1[k])[:700], "\n   instr", json.dumps(a2[k])[:700])
print(dict(stats))
