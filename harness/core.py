"""Shared machinery of every check: extract, build, audit, driver, evidence, verdict.

Run with /venv/bin/python (ptera and its dependencies are installed there).
"""
import fcntl
import json
import os
import random
import re
import subprocess
import sys
import time

HERE = os.path.dirname(os.path.abspath(__file__))
VERIF = os.path.dirname(HERE)
LEAN = os.path.join(VERIF, "lean")
REPO = os.environ.get("PTERA_REPO", "/repo")
PY = "/venv/bin/python"
DRV = os.path.join(LEAN, ".lake", "build", "bin", "pteradrv")
ALLOWED_AXIOMS = {"propext", "Classical.choice", "Quot.sound"}
FORBIDDEN = re.compile(
    r"\b(sorry|admit|native_decide|bv_decide|implemented_by|unsafe)\b|^axiom\s|maxHeartbeats\s+0\b",
    re.M,
)
TRUSTED_BASE = [
    "Lean 4.33.0 kernel (lake build; leanchecker re-check in the thorough tier)",
    "axioms per theorem audited on every run: subset of {propext, Classical.choice, Quot.sound}; no native_decide / bv_decide / sorry",
    "harness/extract.py (translator from /repo sources to lean/PteraModel/Generated)",
    "the correspondence harness (harness/*.py) and its generators: model and implementation are shown to agree on the explored inputs only",
]


class Infra(Exception):
    """infrastructure failure: exit 2, never a violation"""


def log(*a):
    print(*a, flush=True)


# ---------------------------------------------------------------------------
# extract + build (serialised: checks may be launched in parallel)
# ---------------------------------------------------------------------------

class Lock:
    def __enter__(self):
        os.makedirs(os.path.join(LEAN, ".lake"), exist_ok=True)
        self.f = open(os.path.join(LEAN, ".lake", "verif.lock"), "w")
        fcntl.flock(self.f, fcntl.LOCK_EX)
        return self

    def __exit__(self, *a):
        fcntl.flock(self.f, fcntl.LOCK_UN)
        self.f.close()


def run_extract():
    """-> dict file -> status string ('ok' or 'FAILED ...')"""
    p = subprocess.run([PY, os.path.join(HERE, "extract.py")], capture_output=True, text=True,
                       env={**os.environ, "PTERA_REPO": REPO, "PYTHONHASHSEED": "0"}, cwd=HERE)
    res = {}
    for line in p.stdout.splitlines():
        m = re.match(r"extract (\S+): (.*?)( \(updated\))?$", line)
        if m:
            res[m.group(1)] = m.group(2)
    if p.returncode not in (0, 3) or not res:
        raise Infra("extract.py crashed: %s\n%s" % (p.returncode, p.stderr[-2000:]))
    return res


_ERR = re.compile(r"^error: (\S+?\.lean):(\d+):(\d+): (.*)$")


def lake_build(targets, timeout=900):
    """-> (ok, errors) with errors = list of dict(file, line, msg)"""
    try:
        p = subprocess.run(["lake", "build", *targets], cwd=LEAN, capture_output=True, text=True,
                           timeout=timeout)
    except subprocess.TimeoutExpired:
        subprocess.run(["pkill", "-x", "lean"], capture_output=True)
        return False, [{"file": "?", "line": 0, "msg": "lake build of %s did not finish within %d s "
                        "(a proof obligation no longer checks in reasonable time)" % (targets[0], timeout)}]
    errors = []
    for line in (p.stdout + "\n" + p.stderr).splitlines():
        m = _ERR.match(line)
        if m:
            errors.append({"file": m.group(1), "line": int(m.group(2)), "msg": m.group(4)})
    ok = p.returncode == 0
    if not ok and not errors:
        tail = (p.stdout + p.stderr)[-3000:]
        if "error" not in tail:
            raise Infra("lake build failed without a Lean error:\n" + tail)
        errors.append({"file": "?", "line": 0, "msg": tail[-500:]})
    return ok, errors


def theorems_in(relpath):
    """theorem names (fully qualified through `namespace` lines) with their line numbers"""
    path = os.path.join(LEAN, relpath)
    out = []
    ns = []
    with open(path) as f:
        for i, line in enumerate(f, 1):
            m = re.match(r"namespace\s+(\S+)", line)
            if m:
                ns.append(m.group(1))
                continue
            m = re.match(r"end\s+(\S+)", line)
            if m and ns and ns[-1] == m.group(1):
                ns.pop()
                continue
            m = re.match(r"(?:@\[[^\]]*\]\s*)?(?:private\s+|protected\s+)?theorem\s+(\S+)", line)
            if m:
                out.append((".".join(ns + [m.group(1)]), i))
    return out


def enclosing_theorem(relpath, line):
    best = None
    for name, ln in theorems_in(relpath):
        if ln <= line:
            best = name
    return best


def source_scan(relpaths):
    """forbidden constructs outside comments"""
    hits = []
    for rp in relpaths:
        with open(os.path.join(LEAN, rp)) as f:
            src = f.read()
        src = re.sub(r"/-.*?-/", lambda m: "\n" * m.group(0).count("\n"), src, flags=re.S)
        src = re.sub(r"--.*", "", src)
        for m in FORBIDDEN.finditer(src):
            hits.append("%s:%d:%s" % (rp, src.count("\n", 0, m.start()) + 1, m.group(0).strip()))
    return hits


def audit(module, names):
    """`#print axioms` on every property theorem -> dict name -> [axioms]; raises on failure"""
    src = "import %s\n" % module + "".join("#print axioms %s\n" % n for n in names)
    p = subprocess.run(["lake", "env", "lean", "--stdin"], cwd=LEAN, input=src,
                       capture_output=True, text=True, timeout=600)
    out = p.stdout + p.stderr
    res = {}
    for m in re.finditer(r"'([^']+)' depends on axioms: \[([^\]]*)\]", out, flags=re.S):
        res[m.group(1)] = [a.strip() for a in m.group(2).replace("\n", " ").split(",") if a.strip()]
    for m in re.finditer(r"'([^']+)' does not depend on any axioms", out):
        res[m.group(1)] = []
    missing = [n for n in names if n not in res]
    if missing or p.returncode != 0:
        return res, "audit could not print axioms for %s: %s" % (missing, out[-800:])
    return res, None


def lean_modules_of(module):
    """transitive PteraModel imports of a module -> relative paths"""
    seen, todo = [], [module]
    while todo:
        m = todo.pop()
        rp = m.replace(".", "/") + ".lean"
        if rp in seen or not os.path.exists(os.path.join(LEAN, rp)):
            continue
        seen.append(rp)
        with open(os.path.join(LEAN, rp)) as f:
            for line in f:
                mm = re.match(r"import\s+(PteraModel\.\S+)", line)
                if mm:
                    todo.append(mm.group(1))
    return seen


# ---------------------------------------------------------------------------
# model driver (line protocol, JSON)
# ---------------------------------------------------------------------------

class Driver:
    def __init__(self):
        if not os.path.exists(DRV):
            raise Infra("model driver not built: " + DRV)
        self.p = subprocess.Popen([DRV], stdin=subprocess.PIPE, stdout=subprocess.PIPE,
                                  text=True, bufsize=1)
        self.n = 0

    def ask(self, obj):
        self.p.stdin.write(json.dumps(obj, separators=(",", ":")) + "\n")
        self.p.stdin.flush()
        line = self.p.stdout.readline()
        if not line:
            raise Infra("model driver died on %s" % json.dumps(obj)[:300])
        self.n += 1
        return json.loads(line)

    def ask_many(self, objs):
        """pipeline a batch; a writer thread avoids the pipe-buffer deadlock"""
        import threading
        objs = list(objs)
        data = "".join(json.dumps(o, separators=(",", ":")) + "\n" for o in objs)

        def writer():
            try:
                self.p.stdin.write(data)
                self.p.stdin.flush()
            except Exception:
                pass

        th = threading.Thread(target=writer, daemon=True)
        th.start()
        out = []
        for _ in objs:
            line = self.p.stdout.readline()
            if not line:
                raise Infra("model driver died")
            out.append(json.loads(line))
        th.join()
        self.n += len(objs)
        return out

    def close(self):
        try:
            self.p.stdin.close()
            self.p.wait(timeout=10)
        except Exception:
            self.p.kill()


# ---------------------------------------------------------------------------
# known findings
# ---------------------------------------------------------------------------

def load_known(prop):
    path = os.path.join(VERIF, "known_findings.json")
    try:
        with open(path) as f:
            data = json.load(f)
    except FileNotFoundError:
        return []
    return [e for e in data.get("findings", []) if e.get("property") == prop and e.get("status") == "open"]


# ---------------------------------------------------------------------------
# one check
# ---------------------------------------------------------------------------

class Check:
    """State of one run of one property's check."""

    def __init__(self, prop, tier, seed):
        self.prop = prop
        self.tier = tier
        self.seed = seed
        self.rng = random.Random("%s/%s" % (prop, seed))
        self.t0 = time.time()
        self.violations = []      # list of dict(kind, what, replay)
        self.known_hits = {}      # finding id -> description
        self.known = load_known(prop)
        self.cov = {
            "obligations": 0, "discharged": 0,
            "checker_cmd": "cd lean && lake build PteraModel.Props.%s && lake env lean --stdin <<< '#print axioms …'" % prop,
            "trusted_base": list(TRUSTED_BASE),
            "evaluations": 0, "distinct_nontrivial": 0, "rule": "", "samples": [],
            "theorems": [], "axioms": {}, "correspondence": {}, "oracle": {}, "distribution": {},
        }
        self.assumptions = []
        self.broken = []          # broken proof obligations / ties: list of str
        self.props_module = "PteraModel.Props.%s" % prop
        self.props_path = "PteraModel/Props/%s.lean" % prop
        self.driver = None
        self._distinct = set()
        try:
            os.remove(os.path.join(VERIF, "replays", "%s-%s-%d.json" % (prop, tier, seed)))
        except OSError:
            pass

    # -- proof leg ----------------------------------------------------------
    def proof_leg(self, extra_targets=()):
        with Lock():
            ex = run_extract()
            self.cov["extract"] = ex
            for fname, st in ex.items():
                if st != "ok":
                    self.broken.append("extract:%s: %s" % (fname, st))
            ok, errors = lake_build([self.props_module, "pteradrv", *extra_targets])
        ths = theorems_in(self.props_path)
        names = [n for n, _ in ths]
        self.cov["obligations"] = len(names)
        failed = set()
        other = []
        for e in errors:
            rp = e["file"]
            if rp.endswith(self.props_path):
                th = enclosing_theorem(self.props_path, e["line"])
                failed.add(th or "?")
                self.broken.append("theorem:%s: %s" % (th, e["msg"][:200]))
            else:
                other.append(e)
                self.broken.append("build:%s:%d: %s" % (rp, e["line"], e["msg"][:200]))
        if other and not failed:
            # a dependency does not build: none of the property theorems is checked
            failed = set(names)
        self.cov["discharged"] = len([n for n in names if n not in failed])
        self.cov["theorems"] = names
        self.build_ok = ok
        if ok:
            hits = source_scan(lean_modules_of(self.props_module))
            if hits:
                self.broken.append("forbidden construct in proof sources: %s" % hits[:5])
                self.cov["discharged"] = 0
            ax, err = audit(self.props_module, names)
            self.cov["axioms"] = {k.split(".")[-1]: v for k, v in ax.items()}
            bad = {k: v for k, v in ax.items() if not set(v) <= ALLOWED_AXIOMS}
            if err:
                self.broken.append(err)
            if bad:
                self.broken.append("axioms outside the allowed set: %s" % bad)
                self.cov["discharged"] -= len(bad)
        if not os.path.exists(DRV):
            raise Infra("model driver did not build; errors: %s" % errors[:3])
        return ok

    def thorough_recheck(self):
        """independent re-check of the compiled proofs with leanchecker"""
        mods = [rp[:-5].replace("/", ".") for rp in lean_modules_of(self.props_module)]
        p = subprocess.run(["lake", "env", "leanchecker", *mods], cwd=LEAN, capture_output=True,
                           text=True, timeout=1800)
        self.cov["leanchecker"] = {"modules": mods, "exit": p.returncode}
        if p.returncode != 0:
            self.broken.append("leanchecker rejected: %s" % (p.stdout + p.stderr)[-500:])

    def open_driver(self):
        if self.driver is None:
            self.driver = Driver()
        return self.driver

    # -- bookkeeping --------------------------------------------------------
    def count(self, key, nontrivial=True, n=1):
        self.cov["evaluations"] += n
        if nontrivial and key is not None:
            self._distinct.add(key)

    def dist(self, label, n=1):
        d = self.cov["distribution"]
        d[label] = d.get(label, 0) + n

    def sample(self, obj, limit=6):
        if len(self.cov["samples"]) < limit:
            self.cov["samples"].append(obj)

    def violation(self, kind, what, replay):
        """kind: 'oracle' (the property fails on the implementation for this input),
        'correspondence' (model and implementation differ)"""
        self.violations.append({"kind": kind, "what": what, "replay": replay})

    def known_finding(self, fid, what):
        if fid not in self.known_hits:
            self.known_hits[fid] = what

    def is_known(self, fid):
        return any(e["id"] == fid for e in self.known)

    # -- verdict ------------------------------------------------------------
    def finish(self):
        if self.driver:
            self.driver.close()
        self.cov["distinct_nontrivial"] = len(self._distinct)
        wall = time.time() - self.t0
        os.makedirs(os.path.join(VERIF, "replays"), exist_ok=True)
        os.makedirs(os.path.join(VERIF, "evidence"), exist_ok=True)
        oracle_v = [v for v in self.violations if v["kind"] == "oracle"]
        corr_v = [v for v in self.violations if v["kind"] != "oracle"]
        lines = []
        code = 0
        for fid, what in sorted(self.known_hits.items()):
            lines.append("KNOWN-FINDING: property=%s %s: %s" % (self.prop, fid, what))
        if oracle_v:
            path = os.path.join(VERIF, "replays", "%s-%s-%d.json" % (self.prop, self.tier, self.seed))
            with open(path, "w") as f:
                json.dump({"property": self.prop, "kind": "failing-input", "violations": oracle_v[:20],
                           "broken_obligations": self.broken[:20],
                           "model_disagreements": corr_v[:5]}, f, indent=1, default=str)
            lines.append("VIOLATION property=%s replay=%s" % (self.prop, path))
            code = 1
        elif self.broken or corr_v:
            path = os.path.join(VERIF, "replays", "%s-%s-%d.json" % (self.prop, self.tier, self.seed))
            with open(path, "w") as f:
                json.dump({"property": self.prop, "kind": "no-failing-input-found",
                           "no_longer_checks": self.broken[:40],
                           "model_disagreements": corr_v[:20],
                           "note": "the property is no longer shown to hold: a proof obligation or the "
                                   "model/implementation correspondence is broken, and the search found no "
                                   "input on which the implementation violates the property"},
                          f, indent=1, default=str)
            lines.append("VIOLATION property=%s replay=%s no-failing-input-found" % (self.prop, path))
            code = 1
        ev = {
            "property_id": self.prop, "tier": self.tier, "seed": self.seed, "level": "proof",
            "coverage": self.cov, "assumptions": self.assumptions, "wall_s": round(wall, 2),
            "violations": len(oracle_v) + (1 if (self.broken or corr_v) and not oracle_v else 0),
        }
        ev["coverage"]["known_findings_reproduced"] = sorted(self.known_hits)
        ev["coverage"]["broken_obligations"] = self.broken[:40]
        tmp = os.path.join(VERIF, "evidence", ".%s.json.tmp" % self.prop)
        with open(tmp, "w") as f:
            json.dump(ev, f, indent=1, default=str)
        os.replace(tmp, os.path.join(VERIF, "evidence", "%s.json" % self.prop))
        for l in lines:
            log(l)
        log("%s %s seed=%d: obligations %d/%d, evaluations %d (distinct non-trivial %d), %.1fs -> exit %d" % (
            self.prop, self.tier, self.seed, self.cov["discharged"], self.cov["obligations"],
            self.cov["evaluations"], self.cov["distinct_nontrivial"], wall, code))
        return code


def setup_ptera_path():
    """make `import ptera` resolve to REPO's working tree"""
    if REPO not in sys.path:
        sys.path.insert(0, REPO)
