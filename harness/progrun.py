"""Run generated PyLite functions on the implementation: untouched, tooled, tooled in place, probed."""
import pylite
import pyprog


def make(src_fn, name):
    return pyprog.make_module(pylite.HELPERS + "\n" + src_fn, name)


def plain(v):
    if isinstance(v, (int, str, bool, type(None), float)):
        return v
    if isinstance(v, (tuple, list)):
        return [plain(x) for x in v]
    if isinstance(v, dict):
        return {"dict": sorted((repr(k), plain(x)) for k, x in v.items())}
    return {"obj": type(v).__name__}


def outcome_of(call):
    try:
        return ["ret", plain(call())]
    except NameError as e:
        # UnboundLocalError is a NameError: ptera reads globals at entry (documented), so a name that
        # is not defined is reported by the same family of exception, not necessarily the same subclass
        import re
        m = re.search(r"'([^']+)'", str(e))
        return ["exc", "NameError", getattr(e, "varname", None) or (m.group(1) if m else "")]
    except BaseException as e:  # noqa
        return ["exc", type(e).__name__, str(e)[:80]]


def drive(mod, fn, args, script, gen_script=None):
    """call fn(*args) in module mod with the condition script; for a generator, drive it by gen_script
    -> dict(outcome, log, obj, globs, yields)"""
    mod.SCRIPT[:] = list(script)
    del mod.LOG[:]
    del mod.BLOG[:]
    mod.LATEST.clear()
    del mod.CLOG[:]
    yields = []
    if gen_script is None:
        out = outcome_of(lambda: fn(*args))
    else:
        def run():
            it = fn(*args)
            for op in gen_script:
                try:
                    if op[0] == "next":
                        yields.append(["y", plain(next(it))])
                    elif op[0] == "send":
                        yields.append(["y", plain(it.send(op[1]))])
                    elif op[0] == "throw":
                        yields.append(["y", plain(it.throw(mod.Boom(op[1])))])
                    elif op[0] == "throwq":
                        # something that is not an Exception (the kind KeyboardInterrupt / SystemExit are)
                        yields.append(["y", plain(it.throw(mod.Quit(op[1])))])
                    elif op[0] == "close":
                        it.close()
                        yields.append(["closed"])
                    elif op[0] == "drop":
                        it = iter(())
                        import gc
                        gc.collect()
                        yields.append(["dropped"])
                except StopIteration as e:
                    yields.append(["stop", plain(e.value)])
                    break
            return None
        out = outcome_of(run)
    # UnboundLocalError is a NameError (see outcome_of): the class name reaches the log through the
    # context-manager helper's exit entry or as an argument of a logged helper
    import json as _json
    log = _json.loads(_json.dumps([list(map(plain, e)) for e in mod.LOG]).replace('"UnboundLocalError"', '"NameError"'))
    obj = _json.loads(_json.dumps(plain(mod.O.state())).replace('"UnboundLocalError"', '"NameError"'))
    return {"outcome": out, "log": log, "obj": obj,
            "globs": [mod.GLOB1, mod.GLOB2], "yields": yields}


def gen_inputs(rng, fn):
    args = [rng.randrange(0, 9) for _ in fn["params"]]
    script = [rng.random() < 0.6 for _ in range(12)]
    gscript = None
    if fn["generator"]:
        gscript = []
        for _ in range(rng.randrange(1, 7)):
            r = rng.random()
            if r < 0.55:
                gscript.append(["next"])
            elif r < 0.75:
                gscript.append(["send", rng.randrange(0, 9)])
            elif r < 0.85:
                gscript.append(["throw", rng.randrange(0, 9)])
            elif r < 0.93:
                gscript.append(["close"])
                break
            else:
                gscript.append(["drop"])
                break
    return args, script, gscript
