"""AST correspondence for the rewrite model: real `ptera.transform.transform()` vs the model's `instrument`.

`compare(drv, fn, cfg)` feeds the same function and capture set to both and reports the first difference
between the two rewritten trees, and between ptera's `__ptera_info__` provenance table and the model's."""
import ast
import importlib
import inspect
from textwrap import dedent

import astjson


def elements(cfg):
    from ptera.selector import Element
    from ptera.tags import tag
    return [Element(name=n, category=None if c is None else getattr(tag, c), capture=n) for (n, c) in cfg]


def real_rewrite(fn, cfg):
    """run the real transform, catching the tree it compiles; returns (tree json, info provenance dict)"""
    tr = importlib.import_module("ptera.transform")
    caught = {}
    orig_compile = tr._compile

    def spy(filename, tree, freevars):
        caught["tree"] = astjson.transformed_json(tree, fn.__globals__)
        return orig_compile(filename, tree, freevars)

    tr._compile = spy
    try:
        new_fn = tr.transform(fn, proceed=_PROCEED, to_instrument=elements(cfg), set_conformer=False)
    finally:
        tr._compile = orig_compile
    meta = {"#enter", "#exit", "#receive", "#yield"}
    info = {k: v["provenance"] for k, v in new_fn.__ptera_info__.items() if k not in meta}
    return caught["tree"], info


class _Proceed:
    pass


_PROCEED = _Proceed()


def model_input(fn):
    src = dedent(inspect.getsource(fn))
    node = ast.parse(src).body[0]
    node.decorator_list = []
    return astjson.fun_json(node, fn.__code__.co_freevars, fn.__globals__)


def compare(drv, fn, cfg):
    """None when model and implementation agree; otherwise a dict describing the first difference.
    Raises astjson.Unsupported for programs outside the modelled fragment."""
    fj = model_input(fn)
    real_tree, real_info = real_rewrite(fn, cfg)
    ans = drv.ask({"op": "rewrite", "fn": fj, "cfg": [[n, c] for (n, c) in cfg]})
    if "err" in ans:
        return {"what": "model rejects the function", "err": ans["err"]}
    model_tree = {"name": ans["name"], "doc": ans["doc"], "declarations": ans["declarations"],
                  "head": astjson.EXPECTED_HEAD(), "body": ans["body"]}
    a, b = astjson.canon(real_tree), astjson.canon(model_tree)
    d = astjson.first_difference(a, b)
    if d:
        return {"what": "rewritten trees differ", "at": d[0], "implementation": d[1], "model": d[2]}
    model_info = {k: v for k, v in ans["info"]}
    if model_info != real_info:
        diff = {k: (real_info.get(k), model_info.get(k)) for k in set(real_info) | set(model_info)
                if real_info.get(k) != model_info.get(k)}
        return {"what": "provenance tables differ (implementation, model)", "names": diff}
    return None
