"""Selector compiler: implementation-side observation in the model driver's JSON format."""
import re

ALPHABET = [
    "a", "f", "x", "*", "#value", "#foo", "@T", "1", "'s'", "(", ")", ",", ">", ">>", "!", "!!",
    "$", ":", "=", "~", " as ", "[", "]", "{", "}", "[[", "]]", " ", "%", "!!!", "as", "-1.5",
]
EXTRA_CHARS = ["\t", "\n", " ", " ", "é", "٠", "'", "\x1c", "as", "b", ".", "/"]


def flags(s):
    out = []
    for i, ch in enumerate(s):
        if ord(ch) >= 128:
            out.append([i, ch.isspace(), bool(re.match(r"\w", ch))])
    return out


def req(op, s):
    r = {"op": op, "s": s}
    fl = flags(s)
    if fl:
        r["flags"] = fl
    return r


def dump_v(v):
    from ptera import selector as S
    if v is S.MatchFunction:
        return "MatchFunction"
    if isinstance(v, S.VSymbol):
        return {"sym": v.value}
    if isinstance(v, S.VCall):
        return {"call": [dump_v(v.fn), [dump_v(a) for a in v.args]]}
    if isinstance(v, S.VKeyword):
        return {"kw": [v.key.value, dump_v(v.value)]}
    if isinstance(v, list):
        return {"list": [dump_v(a) for a in v]}
    return {"other": repr(v)}


def dump_item(x):
    from ptera import selector as S
    from ptera.utils import ABSENT
    if isinstance(x, S.Element):
        if x.name is None:
            name = None
        elif isinstance(x.name, S.VSymbol):
            name = {"v": x.name.value}
        elif isinstance(x.name, str):
            name = {"s": x.name}
        else:
            name = {"other": repr(x.name)}
        return {"E": {
            "name": name,
            "value": None if x.value is ABSENT else dump_v(x.value),
            "category": None if x.category is None else dump_v(x.category),
            "capture": x.capture,
            "tags": sorted(x.tags),
        }}
    if isinstance(x, S.Call):
        return {"C": {
            "element": dump_item(x.element),
            "children": [dump_item(c) for c in x.children],
            "captures": [dump_item(c) for c in x.captures],
            "immediate": x.immediate,
        }}
    if isinstance(x, list):
        return {"L": [dump_item(c) for c in x]}
    return {"other": repr(x)}


def err(e):
    from ptera.selector import SelectorError
    from ptera.utils import CodeNotFoundError
    if isinstance(e, SyntaxError):
        return {"err": "SyntaxError", "offset": e.offset, "msg": str(e.msg)[:60]}
    if isinstance(e, SelectorError):
        return {"err": "SelectorError"}
    if isinstance(e, CodeNotFoundError):
        return {"err": "CodeNotFoundError"}
    if isinstance(e, TypeError) and "category can only be a Tag" in str(e):
        return {"err": "TypeError:category"}
    return {"err": type(e).__name__, "msg": str(e)[:120]}


ALLOWED = {"SyntaxError", "SelectorError", "CodeNotFoundError", "TypeError:category"}


def impl_lex(s):
    from ptera import selector as S
    try:
        toks = S.parser.lexer(s)
    except RecursionError:
        raise
    except Exception as e:
        return err(e)
    return {"ok": [[t.value, str(t.type), t.location.start, t.location.end] for t in toks]}


def dump_tree(t):
    from ptera import opparse
    if t is None:
        return None
    if isinstance(t, opparse.Token):
        return [t.value, str(t.type), t.location.start, t.location.end]
    return {"key": t.key, "args": [dump_tree(a) for a in t.args]}


def impl_ptree(s):
    from ptera import selector as S
    try:
        return {"ok": dump_tree(S.parser(s))}
    except Exception as e:
        return err(e)


def impl_parse(s):
    from ptera import selector as S
    try:
        return {"ok": dump_item(S.parse(s))}
    except Exception as e:
        return err(e)


def impl_select0(s):
    from ptera import selector as S
    try:
        return {"ok": dump_item(S._select(s))}
    except Exception as e:
        return err(e)


IMPL = {"lex": impl_lex, "ptree": impl_ptree, "parse": impl_parse, "select0": impl_select0}


def normalize(j):
    """model output and implementation output in one canonical shape"""
    return j


def enumerate_strings(alphabet, n):
    import itertools
    for k in range(0, n + 1):
        for toks in itertools.product(alphabet, repeat=k):
            yield "".join(toks)


# ---------------------------------------------------------------------------
# grammar of documented selectors (for C15 / mutation source for C18)
# ---------------------------------------------------------------------------

NAMES = ["a", "b", "x", "y", "f", "g", "h", "loss", "#value", "#enter"]
FUNCS = ["f", "g", "h", "K.m", "mod.sub.fn"]
TAGS = ["@T", "@U", "T"]
VALUES = ["1", "-2", "3.5", "'s'", "v", "every(3)", "between(1, 5)", "p(k=1)", "p(1, k=2, j='x')"]


def gen_var(rng, depth=0, allow_focus=True):
    """a variable operand (returns text); never contains > or parentheses"""
    kind = rng.choice(["name", "name", "name", "dollar", "star", "alias", "tagged", "valued", "match"])
    base = rng.choice(NAMES)
    if kind == "name":
        t = base
    elif kind == "dollar":
        t = "$" + rng.choice(["q", "r"])
    elif kind == "star":
        t = "* as " + rng.choice(["q", "r"])
    elif kind == "alias":
        t = "%s as %s" % (base, rng.choice(["q", "r", "s"]))
    elif kind == "tagged":
        t = rng.choice([base, "*", "$q"]) + ":" + rng.choice(TAGS)
    elif kind == "valued":
        t = "%s=%s" % (base, rng.choice(VALUES))
    else:
        t = "%s~%s" % (base, rng.choice(VALUES))
    return t


def gen_call(rng, depth, focus_inside):
    """f(caps…, children…) with the focus (if focus_inside) somewhere inside, marked with !"""
    fn = rng.choice(FUNCS)
    n = rng.randrange(0, 3)
    parts = [gen_var(rng) for _ in range(n)]
    if depth > 0 and rng.random() < 0.5:
        parts.append(gen_call(rng, depth - 1, False))
    if focus_inside:
        if depth > 0 and rng.random() < 0.4:
            parts.append(gen_call(rng, depth - 1, True))
        else:
            parts.append("!" + gen_var(rng))
    rng.shuffle(parts)
    return "%s(%s)" % (fn, ", ".join(parts))


def respace(rng, s):
    """insert whitespace / newlines next to operator characters (never inside words or quotes)"""
    out = []
    inq = False
    for i, ch in enumerate(s):
        if ch == "'":
            inq = not inq
        if not inq and ch in "(),>:=~$!" and rng.random() < 0.5:
            ws = rng.choice([" ", "  ", "\n", "\t", " \n "])
            # a space between `!` and `!`, or between `>` and `>`, changes the token
            prev = s[i - 1] if i else ""
            nxt = s[i + 1] if i + 1 < len(s) else ""
            left = ws if not (ch in "!>" and prev == ch) else ""
            right = ws if not (ch in "!>" and nxt == ch) else ""
            out.append(left + ch + right)
        else:
            out.append(ch)
    return "".join(out)
