#!/bin/sh
# usage: harness/verify_seed.sh <seed dir name> — confirm a seeded change in a scratch worktree of /repo HEAD:
# demo passes on the unchanged code, fails with the patch, and the test-suite still passes with the patch
S=/verif/seeded/$1
W=/tmp/wt/verify_$1
git -C /repo worktree remove --force $W 2>/dev/null
git -C /repo worktree add -q --detach $W HEAD || exit 2
cd $W
/venv/bin/python $S/demo.py >/dev/null 2>&1; echo "demo on unchanged code: exit $?"
git apply --3way $S/patch.diff 2>/dev/null || git apply $S/patch.diff || { echo "PATCH DOES NOT APPLY"; git -C /repo worktree remove --force $W; exit 3; }
/venv/bin/python $S/demo.py >/dev/null 2>&1; echo "demo with patch: exit $?"
/venv/bin/python -m pytest -q -p no:cacheprovider --timeout=900 2>&1 | tail -1
cd /; git -C /repo worktree remove --force $W
