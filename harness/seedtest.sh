#!/bin/sh
# usage: harness/seedtest.sh <seed dir name> <check id> [tier]  — apply a seeded change to /repo, run the check, undo
cd /verif || exit 2
P=seeded/$1/patch.diff
git -C /repo apply --3way $PWD/$P 2>/dev/null || git -C /repo apply $PWD/$P || { echo "patch does not apply"; exit 3; }
./check $2 ${3:-quick}; rc=$?
git -C /repo reset -q --hard HEAD ; git -C /repo status --short | head -3
echo "seed $1 -> check $2 exit=$rc"
