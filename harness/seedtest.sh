#!/bin/sh
# usage: harness/seedtest.sh <seed dir name> <check id> [tier]  — apply a seeded change to /repo, run the check, undo
cd /verif || exit 2
P=$PWD/seeded/$1/patch.diff
git -C /repo status --short | grep -q . && { echo "/repo is dirty"; exit 3; }
if ! git -C /repo apply $P 2>/dev/null; then
  git -C /repo apply --3way $P 2>/dev/null || { git -C /repo reset -q --hard HEAD; echo "patch does not apply"; exit 3; }
fi
./check $2 ${3:-quick}; rc=$?
git -C /repo reset -q --hard HEAD ; git -C /repo status --short | head -3
echo "seed $1 -> check $2 exit=$rc"
