"""Histories of probe activations / deactivations / calls on the implementation, observed after
every step, in the shape of the life-cycle model M5."""
import pyprog

SRC = '''
def f0(x):
    a = x + 1
    b = a * 2
    c = b - x
    return c

def f1(x):
    a = x * 3
    b = a + 7
    return b

class Oops(Exception):
    pass

def h1(x):
    q = x + 1
    return q

def h0(x):
    p = x * 2
    return h1(p)

def hgen(n):
    for i in range(n):
        q = h1(i)
        yield q
'''
VARS = ["x", "a", "b", "c", "#value"]
BODY = [[0, 1, 2, 3, 4], [0, 1, 2, 4]]
SELECTORS = ["f0 > a", "f0 > b", "f0(a) > b", "f0(a, b) > c", "f0(x) > a", "f1 > a", "f1(a) > b", "f1(x) > b",
             "f0 > x", "f0(!a, b)"]
REFUSED = ["f0 > nope", "f1(zz) > a", "f0 > #foo"]


class Universe:
    def __init__(self):
        self.mod = pyprog.make_module(SRC, "verif_lifecycle")
        self.funs = [self.mod.f0, self.mod.f1]
        self.orig = [f.__code__ for f in self.funs]
        # an instrumented generator (outside the model): it is advanced in the middle of histories and must hand
        # the handler context back exactly as it found it
        import ptera
        ptera.tooled.inplace(self.mod.hgen)
        self.gen = None
        self.elems = []          # Element objects (identity) -> id
        self.var_of = []

    def elem_id(self, el):
        for i, e in enumerate(self.elems):
            if e is el:
                return i
        self.elems.append(el)
        self.var_of.append(VARS.index(el.name) if el.name in VARS else 99)
        return len(self.elems) - 1

    def spec(self, selectors):
        """model ProbeSpec of a probe made of these selector strings"""
        from ptera.selector import select
        targets, focus, refused = [], [], False
        for s in selectors:
            if s in REFUSED:
                refused = True
            sel = select(s, env=self.mod.__dict__)

            def rec(call):
                fi = self.funs.index(call.element.name)
                caps = []
                for c in call.captures:
                    if c.name in VARS:
                        cid = self.elem_id(c)
                        caps.append(cid)
                        if 1 in c.tags:
                            focus.append(cid)
                targets.append([fi, caps])
                for ch in call.children:
                    rec(ch)
            if not refused:
                rec(sel)
        return {"targets": targets, "focus": focus, "refused": refused}

    def fn_state(self):
        out = []
        for f, o in zip(self.funs, self.orig):
            st = getattr(f, "__ptera_stack__", None)
            caps = []
            if st is not None:
                for el, n in st.captures.items():
                    if n > 0:
                        caps.append([self.elem_id(el), n])
            out.append({"count": 0 if st is None else st.instrument_count, "caps": sorted(caps),
                        "orig": f.__code__ is o})
        return out

    def drop(self):
        pyprog.drop_module(self.mod)


def current_probes(probes):
    from ptera.overlay import HandlerCollection
    cur = HandlerCollection.current.get()
    out = []
    if cur is None:
        return out
    for sel, acc in cur.handler_pairs:
        for i, p in enumerate(probes):
            if p is not None and any(acc is h for h in p._ol.handlers):
                if not out or out[-1] != i:
                    out.append(i)
    return out


class Run:
    """one history on fresh Probe objects"""

    def __init__(self, uni, probe_selectors):
        import ptera
        self.uni = uni
        self.sels = probe_selectors
        self.probes = [ptera.Probe(*s, env=uni.mod.__dict__) for s in probe_selectors]
        self.stage_events = {}      # (p, stage) -> list of events
        self.completed = []
        self.nstages = [0] * len(self.probes)

    def attach(self, p, kind="accum"):
        st = self.nstages[p]
        self.nstages[p] += 1
        self.stage_events[(p, st)] = []
        self.probes[p].subscribe(on_next=self.stage_events[(p, st)].append,
                                 on_completed=lambda p=p, st=st: self.completed.append([p, st]))
        return st

    def step(self, op):
        """-> out string/dict as the model prints it"""
        before = {k: len(v) for k, v in self.stage_events.items()}
        kind = op["op"]
        out = "ok"
        if kind == "activate":
            try:
                # with-statement protocol or the explicit API of global probes (odd probes)
                if op["p"] % 2:
                    self.probes[op["p"]].activate()
                else:
                    self.probes[op["p"]].__enter__()
            except Exception as e:
                from ptera.selector import SelectorError
                if isinstance(e, SelectorError):
                    out = "refused-selector"
                elif "only be entered once" in str(e):
                    out = "refused-twice"
                else:
                    out = "exception:%s:%s" % (type(e).__name__, e)
        elif kind == "deactivate":
            try:
                if op.get("exc"):
                    exc = self.uni.mod.Oops("boom")
                    self.probes[op["p"]].__exit__(type(exc), exc, None)
                elif op["p"] % 2:
                    self.probes[op["p"]].deactivate()
                else:
                    self.probes[op["p"]].__exit__(None, None, None)
            except Exception as e:
                out = "exception:%s:%s" % (type(e).__name__, e)
        elif kind == "attach":
            self.attach(op["p"])
        elif kind == "resume":
            from ptera.overlay import HandlerCollection

            def pairs():
                cur = HandlerCollection.current.get()
                return [] if cur is None else [(id(a), id(b)) for a, b in cur.handler_pairs]
            how = op.get("how", "next")
            if how in ("short-start", "short-end"):
                # a generator that is started at one moment and runs to its end at another (other probes may have
                # been activated / deactivated in between): whoever advances it keeps its context
                short = getattr(self.uni, "shortgen", None)
                before_pairs = pairs()
                if how == "short-start" or short is None:
                    self.uni.shortgen = self.uni.mod.hgen(2)
                    next(self.uni.shortgen)
                else:
                    for _ in short:
                        pass
                    self.uni.shortgen = None
                return {"context_same": pairs() == before_pairs}
            if self.uni.gen is None and how != "next":
                self.uni.gen = self.uni.mod.hgen(10 ** 6)
                next(self.uni.gen)
            before_pairs = pairs()
            if self.uni.gen is None:
                self.uni.gen = self.uni.mod.hgen(10 ** 6)
            if how == "next":
                next(self.uni.gen)
            elif how == "close":
                self.uni.gen.close()
                self.uni.gen = None
            else:
                self.uni.gen = None
                import gc
                gc.collect()
            out = {"context_same": pairs() == before_pairs}
        elif kind == "storm":
            # outside the model: a call (of other functions) under an overlay with a nested selector and a total
            # handler that raises when the call ends — the call is left by that exception, then the with-block;
            # the handler context must be exactly what it was
            from ptera.overlay import BaseOverlay, autotool, HandlerCollection
            from ptera.interpret import Immediate, Total
            from ptera.selector import select
            env = self.uni.mod.__dict__

            def boom(args):
                raise self.uni.mod.Oops("handler")
            seen = []
            s1, s2 = select("h0 > h1 > q", env=env), select("h0(p)", env=env)

            def pairs():
                cur = HandlerCollection.current.get()
                return [] if cur is None else [(id(a), id(b)) for a, b in cur.handler_pairs]
            before_pairs = pairs()
            autotool(s1)
            autotool(s2)
            raised = False
            try:
                try:
                    with BaseOverlay(Immediate(s1, trigger=lambda args: seen.append(1)), Total(s2, close=boom)):
                        self.uni.mod.h0(op.get("x", 1))
                except self.uni.mod.Oops:
                    raised = True
            finally:
                autotool(s2, undo=True)
                autotool(s1, undo=True)
            out = {"raised": raised, "seen": len(seen), "context_same": pairs() == before_pairs}
        elif kind == "call":
            ret = self.uni.funs[op["f"]](op.get("x", 2))
            want = [lambda x: ((x + 1) * 2) - x, lambda x: x * 3 + 7][op["f"]](op.get("x", 2))
            evs = []
            # group the new events per probe: every stage of a probe receives the same events
            newp = {}
            for (p, st), lst in self.stage_events.items():
                newp.setdefault(p, {})[st] = lst[before[(p, st)]:]
            out = {"events": [], "ret_ok": ret == want, "per_probe": {}}
            for p, stages in newp.items():
                out["per_probe"][p] = {st: evs_ for st, evs_ in stages.items()}
        return out

    def observe(self):
        return {"fns": self.uni.fn_state(), "current": current_probes(self.probes),
                "completed": list(self.completed)}

    def cleanup(self):
        """bring the implementation back to quiescence whatever the history did"""
        from ptera.overlay import HandlerCollection
        from ptera.probe import global_probes
        for p in self.probes:
            if p in global_probes:
                try:
                    p.__exit__(None, None, None)
                except Exception:
                    pass
        HandlerCollection.current.set(None)
