"""Python `ast` <-> the JSON trees of the Lean rewrite model (PteraModel/Model/PyAst.lean).

Two uses:
  * the function a program generator produced is serialised and sent to the model (`fun_json`);
  * the tree the real `ptera.transform.transform()` hands to `_compile` is serialised the same way
    (`transformed_json`) and compared with what the model's `instrument` answers.
Nodes the rewriter does not distinguish become Opaque nodes (source text + the names they load/store).
"""
import ast
import re


class Unsupported(Exception):
    pass


_TRANSFORMED_INSIDE = (ast.NamedExpr, ast.Yield, ast.YieldFrom, ast.Await, ast.FunctionDef, ast.AsyncFunctionDef,
                       ast.ClassDef)


def _opaque_names(node):
    loads, stores, args = [], [], []
    for sub in ast.walk(node):
        if isinstance(sub, ast.Name):
            (loads if isinstance(sub.ctx, ast.Load) else stores).append(sub.id)
        elif isinstance(sub, ast.arg):
            args.append(sub.arg)
    return loads, stores, args


def _check_opaque(node):
    for sub in ast.walk(node):
        if sub is not node and isinstance(sub, _TRANSFORMED_INSIDE):
            raise Unsupported("%s inside %s" % (type(sub).__name__, type(node).__name__))
        if isinstance(sub, ast.Yield) or isinstance(sub, ast.NamedExpr):
            raise Unsupported(type(sub).__name__)


def norm_name(s):
    if re.fullmatch(r"__ptera_\d+", s):
        return "__ptera_proceed"
    return s


def expr_json(e):
    if isinstance(e, ast.Constant):
        v = e.value
        if isinstance(v, bool):
            return ["Bool", v]
        if isinstance(v, int):
            return ["Int", v]
        if isinstance(v, str):
            return ["Str", v]
        if v is None:
            return ["None"]
        return ["ConstOther", repr(v)]
    if isinstance(e, ast.Name):
        return ["Name", norm_name(e.id)]
    if isinstance(e, ast.Call):
        if (isinstance(e.func, ast.Attribute) and isinstance(e.func.value, ast.Name)
                and e.func.value.id == "__ptera_frame" and e.func.attr == "interact" and len(e.args) == 5
                and not e.keywords and isinstance(e.args[0], ast.Constant) and isinstance(e.args[4], ast.Constant)):
            return ["Interact", e.args[0].value, expr_json(e.args[1]), expr_json(e.args[2]), expr_json(e.args[3]),
                    bool(e.args[4].value)]
        if not e.keywords and not any(isinstance(a, ast.Starred) for a in e.args):
            return ["Call", expr_json(e.func), [expr_json(a) for a in e.args]]
    elif isinstance(e, ast.Attribute):
        return ["Attr", expr_json(e.value), e.attr]
    elif isinstance(e, ast.Subscript) and not isinstance(e.slice, ast.Slice):
        return ["Sub", expr_json(e.value), expr_json(e.slice)]
    elif isinstance(e, ast.Tuple):
        if not any(isinstance(a, ast.Starred) for a in e.elts):
            return ["Tuple", [expr_json(a) for a in e.elts]]
    elif isinstance(e, ast.List):
        if not any(isinstance(a, ast.Starred) for a in e.elts):
            return ["List", [expr_json(a) for a in e.elts]]
    elif isinstance(e, ast.BinOp):
        return ["BinOp", type(e.op).__name__, expr_json(e.left), expr_json(e.right)]
    elif isinstance(e, ast.Compare) and len(e.ops) == 1:
        return ["BinOp", type(e.ops[0]).__name__, expr_json(e.left), expr_json(e.comparators[0])]
    elif isinstance(e, ast.NamedExpr):
        return ["Walrus", e.target.id, expr_json(e.value)]
    elif isinstance(e, ast.Yield):
        return ["Yield", None if e.value is None else expr_json(e.value)]
    _check_opaque(e)
    loads, stores, args = _opaque_names(e)
    return ["Opaque", ast.unparse(e), loads, stores, args]


def _no_binding_inside(node, what):
    for sub in ast.walk(node):
        if isinstance(sub, (ast.NamedExpr, ast.Yield, ast.YieldFrom, ast.Await)):
            raise Unsupported("%s inside %s" % (type(sub).__name__, what))


def target_json(t):
    if isinstance(t, ast.Name):
        return ["TName", t.id]
    if isinstance(t, ast.Tuple):
        return ["TTuple", [target_json(x) for x in t.elts]]
    if isinstance(t, ast.List):
        return ["TList", [target_json(x) for x in t.elts]]
    if isinstance(t, ast.Starred):
        return ["TStar", target_json(t.value)]
    if isinstance(t, ast.Attribute):
        return ["TAttr", expr_json(t.value), t.attr]
    if isinstance(t, ast.Subscript) and not isinstance(t.slice, ast.Slice):
        return ["TSub", expr_json(t.value), expr_json(t.slice)]
    raise Unsupported("target %s" % type(t).__name__)


def ann_tags(ann, glb):
    """what PteraTransformer._evaluate(_ann(annotation)) gives, as a list of tag names"""
    from ptera.tags import Tag, TagSet, get_tags
    if ann is None:
        return []
    try:
        if isinstance(ann, ast.Constant) and isinstance(ann.value, str) and ann.value.startswith("@"):
            val = get_tags(*[t[1:] for t in re.split(r" *& *", ann.value) if t.startswith("@")])
        else:
            val = eval(compile(ast.Expression(ann), "<ann>", "eval"), glb, glb)
    except Exception:
        return []
    if isinstance(val, Tag):
        return [val.name]
    if isinstance(val, TagSet):
        return sorted(m.name for m in val.members)
    return []


def _scope_loads(exprs):
    out = []
    for e in exprs:
        for sub in ast.walk(e):
            if isinstance(sub, ast.Name) and isinstance(sub.ctx, ast.Load):
                out.append(sub.id)
    return out


def stmt_json(s, glb):
    B = lambda body: [stmt_json(x, glb) for x in body]
    if isinstance(s, ast.Assign):
        return ["Assign", [target_json(t) for t in s.targets], expr_json(s.value)]
    if isinstance(s, ast.AugAssign):
        return ["AugAssign", target_json(s.target), type(s.op).__name__, expr_json(s.value)]
    if isinstance(s, ast.AnnAssign):
        if s.value is None and not isinstance(s.target, ast.Name):
            raise Unsupported("declaration of a non-name")
        return ["AnnAssign", target_json(s.target), expr_json(s.annotation), ann_tags(s.annotation, glb),
                None if s.value is None else expr_json(s.value)]
    if isinstance(s, ast.Expr):
        return ["Expr", expr_json(s.value)]
    if isinstance(s, ast.Return):
        return ["Return", None if s.value is None else expr_json(s.value)]
    if isinstance(s, ast.Pass):
        return ["Pass"]
    if isinstance(s, ast.Break):
        return ["Break"]
    if isinstance(s, ast.Continue):
        return ["Continue"]
    if isinstance(s, ast.Raise) and s.cause is None:
        return ["Raise", None if s.exc is None else expr_json(s.exc)]
    if isinstance(s, ast.If):
        return ["If", expr_json(s.test), B(s.body), B(s.orelse)]
    if isinstance(s, ast.While):
        return ["While", expr_json(s.test), B(s.body), B(s.orelse)]
    if isinstance(s, ast.For):
        return ["For", target_json(s.target), expr_json(s.iter), B(s.body), B(s.orelse)]
    if isinstance(s, ast.Try):
        return ["Try", B(s.body),
                [["Handler", None if h.type is None else expr_json(h.type), h.name, B(h.body)] for h in s.handlers],
                B(s.orelse), B(s.finalbody)]
    if isinstance(s, ast.With):
        if len(s.items) != 1:
            raise Unsupported("with: several items")
        it = s.items[0]
        return ["With", expr_json(it.context_expr),
                None if it.optional_vars is None else target_json(it.optional_vars), B(s.body)]
    if isinstance(s, ast.FunctionDef):
        for h in [*s.decorator_list, *s.args.defaults, *[d for d in s.args.kw_defaults if d is not None]]:
            _no_binding_inside(h, "the header of a nested def")
        loads = _scope_loads([*s.decorator_list, *s.args.defaults, *[d for d in s.args.kw_defaults if d is not None]])
        return ["Def", s.name, ast.unparse(s), loads]
    if isinstance(s, ast.ClassDef):
        for h in [*s.bases, *[k.value for k in s.keywords], *s.decorator_list]:
            _no_binding_inside(h, "the header of a nested class")
        return ["Class", s.name, ast.unparse(s), _scope_loads([*s.bases, *[k.value for k in s.keywords], *s.decorator_list])]
    if isinstance(s, (ast.Import, ast.ImportFrom)):
        bound = [(a.asname or a.name.split(".")[0]) for a in s.names]
        if "*" in bound:
            raise Unsupported("import *")
        return ["Import", bound, ast.unparse(s)]
    if isinstance(s, ast.Global):
        return ["Global", list(s.names)]
    if isinstance(s, ast.Nonlocal):
        return ["Nonlocal", list(s.names)]
    if isinstance(s, (ast.Delete, ast.Assert)):
        _check_opaque(s)
        loads, stores, args = _opaque_names(s)
        return ["SOpaque", ast.unparse(s), loads, stores + args]
    raise Unsupported("statement %s" % type(s).__name__)


def fun_json(node, freevars, glb):
    """the (parsed, decorator-free) function definition as the model's FunDef"""
    a = node.args
    arglist = [*getattr(a, "posonlyargs", []), *a.args, *a.kwonlyargs, a.vararg, a.kwarg]
    params = []
    for arg in arglist:
        if arg is None:
            continue
        ann = arg.annotation
        params.append([arg.arg, None if ann is None else expr_json(ann), ann_tags(ann, glb)])
    first = node.body[0]
    doc = None
    if isinstance(first, ast.Expr) and isinstance(first.value, ast.Constant) and isinstance(first.value.value, str):
        doc = first.value.value
    return {
        "name": node.name,
        "params": params,
        "defaults": [expr_json(d) for d in [*a.defaults, *[d for d in a.kw_defaults if d is not None]]],
        "returns": None if node.returns is None else expr_json(node.returns),
        "doc": doc,
        "body": [stmt_json(s, glb) for s in node.body],
        "freevars": list(freevars),
    }


def transformed_json(tree, glb):
    """the tree `transform()` hands to `_compile`, in the shape of the model's `Instrumented`"""
    body = list(tree.body)
    doc = None
    if body and isinstance(body[0], ast.Expr) and isinstance(body[0].value, ast.Constant) \
            and isinstance(body[0].value.value, str):
        doc = body[0].value.value
        body = body[1:]
    decls = []
    while body and isinstance(body[0], (ast.Global, ast.Nonlocal)):
        decls.append(stmt_json(body[0], glb))
        body = body[1:]
    if len(body) != 1 or not isinstance(body[0], ast.With):
        raise Unsupported("rewritten function does not consist of docstring, declarations and one with-block")
    w = body[0]
    it = w.items[0]
    head = [expr_json(it.context_expr), None if it.optional_vars is None else target_json(it.optional_vars)]
    return {"name": tree.name, "doc": doc, "declarations": decls, "head": head,
            "body": [stmt_json(s, glb) for s in w.body]}


EXPECTED_HEAD = lambda: [["Call", ["Name", "__ptera_proceed"], [["Name", "_ptera__0"]]], ["TName", "__ptera_frame"]]


def canon(tree):
    """rename the gensyms by order of first appearance; sort runs of `#loop_` / `#endloop_` interactions
    (ptera iterates over a set there)"""
    names = {}

    def ren(x):
        if isinstance(x, str):
            if re.fullmatch(r"_ptera__\d+", x):
                if x not in names:
                    names[x] = "_ptera__%d" % len(names)
                return names[x]
            return x
        if isinstance(x, list):
            out = [ren(y) for y in x]
            return sort_runs(out)
        if isinstance(x, dict):
            return {k: ren(v) for k, v in x.items()}
        return x

    def is_loop_marker(s):
        return (isinstance(s, list) and len(s) == 2 and s[0] == "Expr" and isinstance(s[1], list) and s[1]
                and s[1][0] == "Interact" and isinstance(s[1][1], str)
                and (s[1][1].startswith("#loop_") or s[1][1].startswith("#endloop_")))

    def sort_runs(lst):
        out, i = [], 0
        while i < len(lst):
            if is_loop_marker(lst[i]):
                j = i
                while j < len(lst) and is_loop_marker(lst[j]):
                    j += 1
                out.extend(sorted(lst[i:j], key=lambda s: s[1][1]))
                i = j
            else:
                out.append(lst[i])
                i += 1
        return out

    return ren(tree)


def first_difference(a, b, path="$"):
    if type(a) != type(b):
        return path, a, b
    if isinstance(a, list):
        for i, (x, y) in enumerate(zip(a, b)):
            d = first_difference(x, y, "%s[%d]" % (path, i))
            if d:
                return d
        if len(a) != len(b):
            return path + "(length)", a[len(b):] if len(a) > len(b) else None, b[len(a):] if len(b) > len(a) else None
        return None
    if isinstance(a, dict):
        for k in sorted(set(a) | set(b)):
            if k not in a or k not in b:
                return "%s.%s" % (path, k), a.get(k), b.get(k)
            d = first_difference(a[k], b[k], "%s.%s" % (path, k))
            if d:
                return d
        return None
    return None if a == b else (path, a, b)
