"""Generated/Steps.lean — the atomic step skeleton of the tooling life-cycle functions.

Walks the AST of overlay._tooler / _untooler and inlines SyncedStackedTransforms.push / pop /
_apply and StackedTransforms.push / pop / get, emitting (line, steps) groups: every access to the
shared instrumentation state of a function, in program order, with the lock operations around them.
Anything the walker does not recognise raises ExtractError (a broken tie)."""
import ast
import os

from extract import REPO, ExtractError, lstr


def parse(path):
    with open(os.path.join(REPO, path)) as f:
        return ast.parse(f.read(), path)


def find_class(tree, name):
    for n in tree.body:
        if isinstance(n, ast.ClassDef) and n.name == name:
            return n
    raise ExtractError("class %s not found" % name)


def find_func(body, name):
    for n in body:
        if isinstance(n, ast.FunctionDef) and n.name == name:
            return n
    raise ExtractError("function %s not found" % name)


def is_attr(node, obj, attr):
    return (isinstance(node, ast.Attribute) and node.attr == attr
            and isinstance(node.value, ast.Name) and node.value.id == obj)


def is_hasattr(node, attr):
    return (isinstance(node, ast.Call) and isinstance(node.func, ast.Name) and node.func.id == "hasattr"
            and len(node.args) == 2 and isinstance(node.args[1], ast.Constant) and node.args[1].value == attr)


class Walker:
    def __init__(self):
        self.tr = parse("ptera/transform.py")
        self.ov = parse("ptera/overlay.py")
        self.base = find_class(self.tr, "StackedTransforms")
        self.synced = find_class(self.tr, "SyncedStackedTransforms")
        self.out = []       # (file, line, [steps])

    def emit(self, f, node, *steps):
        self.out.append((f, node.lineno, list(steps)))

    # ---- StackedTransforms.push / pop
    def base_pushpop(self, name):
        fn = find_func(self.base.body, name)
        sign = "Inc" if name == "push" else "Dec"
        op = ast.Add if name == "push" else ast.Sub
        for s in fn.body:
            if isinstance(s, ast.AugAssign) and is_attr(s.target, "self", "instrument_count") and isinstance(s.op, op):
                self.emit("transform.py", s, "readCount", "writeCount" + sign)
            elif (isinstance(s, ast.For) and len(s.body) == 1 and isinstance(s.body[0], ast.AugAssign)
                  and isinstance(s.body[0].target, ast.Subscript)
                  and is_attr(s.body[0].target.value, "self", "captures") and isinstance(s.body[0].op, op)):
                self.emit("transform.py", s.body[0], "caps" + ("Add" if name == "push" else "Sub"))
            else:
                raise ExtractError("StackedTransforms.%s: unrecognised statement at line %d" % (name, s.lineno))

    # ---- StackedTransforms.get
    def base_get(self):
        fn = find_func(self.base.body, "get")
        if len(fn.body) != 2 or not isinstance(fn.body[0], ast.If) or not isinstance(fn.body[1], ast.Return):
            raise ExtractError("StackedTransforms.get has an unexpected shape")
        test = fn.body[0].test
        if not (isinstance(test, ast.Compare) and is_attr(test.left, "self", "instrument_count")
                and isinstance(test.ops[0], ast.Eq) and isinstance(test.comparators[0], ast.Constant)
                and test.comparators[0].value == 0):
            raise ExtractError("StackedTransforms.get: condition is not `instrument_count == 0`")
        self.emit("transform.py", fn.body[0], "getReadCount")
        orelse = fn.body[0].orelse
        ok = (len(orelse) == 1 and isinstance(orelse[0], ast.Assign) and isinstance(orelse[0].value, ast.ListComp)
              and is_attr(orelse[0].value.generators[0].iter.func.value, "self", "captures"))
        cond = orelse[0].value.generators[0].ifs if ok else []
        ok = ok and len(cond) == 1 and isinstance(cond[0], ast.Compare) and isinstance(cond[0].ops[0], ast.Gt) \
            and isinstance(cond[0].comparators[0], ast.Constant) and cond[0].comparators[0].value == 0
        if not ok:
            raise ExtractError("StackedTransforms.get: captures are not filtered by `count > 0`")
        self.emit("transform.py", orelse[0], "getReadCaps")
        self.emit("transform.py", fn.body[1], "lookupVariant")

    # ---- SyncedStackedTransforms._apply
    def apply(self):
        fn = find_func(self.synced.body, "_apply")
        for s in fn.body:
            if isinstance(s, ast.Assign) and isinstance(s.value, ast.Call) and is_attr(s.value.func, "self", "get"):
                self.base_get()
            elif isinstance(s, ast.Try):
                for t in s.body:
                    for n in ast.walk(t):
                        if is_attr(n, "fn", "__code__") and isinstance(n.ctx, ast.Load):
                            self.emit("transform.py", t, "readCode")
            elif isinstance(s, ast.Assign) and is_attr(s.targets[0], "fn", "__code__"):
                if not (isinstance(s.value, ast.Name) and s.value.id == "code"):
                    raise ExtractError("_apply assigns something else than the variant's code to fn.__code__")
                self.emit("transform.py", s, "writeCode")
            elif isinstance(s, ast.Assign) and isinstance(s.targets[0], ast.Attribute) \
                    and s.targets[0].attr.startswith("__ptera_"):
                self.emit("transform.py", s, "writeMeta")
            elif isinstance(s, ast.If):
                # `if info is not None:` / `if info is None:` — the branch taken is decided by the variant
                t = s.test
                if not (isinstance(t, ast.Compare) and isinstance(t.left, ast.Name) and t.left.id == "info"
                        and len(t.ops) == 1 and isinstance(t.ops[0], (ast.Is, ast.IsNot))
                        and isinstance(t.comparators[0], ast.Constant) and t.comparators[0].value is None):
                    raise ExtractError("_apply: unrecognised condition at line %d" % s.lineno)
                pol = "some" if isinstance(t.ops[0], ast.IsNot) else "none"
                # (the test itself reads a local variable: not a step)
                for branch, bp in ((s.body, pol), (s.orelse, "none" if pol == "some" else "some")):
                    for n in branch:
                        if isinstance(n, ast.Assign) and isinstance(n.targets[0], ast.Subscript) \
                                and is_attr(n.targets[0].value, "fn", "__globals__"):
                            # `fn.__globals__[token] = fn`: the variant's self-reference
                            if bp != "some":
                                raise ExtractError("_apply: the token is written for the original code (line %d)" % n.lineno)
                            self.emit("transform.py", n, "writeToken")
                        elif isinstance(n, ast.Assign) and is_attr(n.targets[0], "fn", "__ptera_info__"):
                            if bp != "some":
                                raise ExtractError("_apply: __ptera_info__ assigned for the original code (line %d)" % n.lineno)
                            self.emit("transform.py", n, "setInfo")
                        elif isinstance(n, ast.Assign) and isinstance(n.targets[0], ast.Attribute) \
                                and n.targets[0].attr.startswith("__ptera_"):
                            self.emit("transform.py", n, "writeMeta")
                        elif isinstance(n, ast.For) and any(
                                isinstance(c, ast.Call) and isinstance(c.func, ast.Name) and c.func.id == "delattr"
                                for c in ast.walk(n)) and any(
                                isinstance(c, ast.Constant) and c.value == "__ptera_info__" for c in ast.walk(n.iter)):
                            if bp != "none":
                                raise ExtractError("_apply: __ptera_info__ removed for a variant (line %d)" % n.lineno)
                            self.emit("transform.py", n, "dropInfo")
                        else:
                            raise ExtractError("_apply: unrecognised statement at line %d" % n.lineno)
            else:
                raise ExtractError("_apply: unrecognised statement at line %d" % s.lineno)

    # ---- SyncedStackedTransforms.push / pop
    def synced_pushpop(self, name):
        fn = find_func(self.synced.body, name)
        self.block(fn.body, name)

    def block(self, body, name):
        for s in body:
            if isinstance(s, ast.With):
                item = s.items[0].context_expr
                if not (isinstance(item, ast.Name) and item.id == "tooling_lock"):
                    raise ExtractError("unknown context manager at line %d" % s.lineno)
                self.emit("transform.py", s, "acquire")
                self.block(s.body, name)
                self.out.append(("transform.py", s.body[-1].end_lineno, ["release"]))
            elif isinstance(s, ast.Expr) and isinstance(s.value, ast.Call):
                c = s.value
                if (isinstance(c.func, ast.Attribute) and c.func.attr == name and isinstance(c.func.value, ast.Call)
                        and isinstance(c.func.value.func, ast.Name) and c.func.value.func.id == "super"):
                    self.base_pushpop(name)
                elif is_attr(c.func, "self", "_apply"):
                    self.apply()
                else:
                    raise ExtractError("SyncedStackedTransforms.%s: unknown call at line %d" % (name, s.lineno))
            else:
                raise ExtractError("SyncedStackedTransforms.%s: unrecognised statement at line %d" % (name, s.lineno))

    # ---- overlay._tooler / _untooler
    def tooler(self):
        fn = find_func(self.ov.body, "_tooler")
        self.ov_block(fn.body, "push")

    def untooler(self):
        fn = find_func(self.ov.body, "_untooler")
        self.ov_block(fn.body, "pop")

    def ov_block(self, body, name):
        for s in body:
            if isinstance(s, ast.With):
                item = s.items[0].context_expr
                if not (isinstance(item, ast.Name) and item.id == "tooling_lock"):
                    raise ExtractError("unknown context manager at line %d" % s.lineno)
                self.emit("overlay.py", s, "acquire")
                self.ov_block(s.body, name)
                self.out.append(("overlay.py", s.body[-1].end_lineno, ["release"]))
            elif isinstance(s, ast.If) and isinstance(s.test, ast.UnaryOp) and is_hasattr(s.test.operand, "__code__"):
                continue
            elif isinstance(s, ast.If) and is_hasattr(s.test, "__ptera_stack__"):
                self.emit("overlay.py", s, "readStack")
                # then-branch: use the existing stack (and, in _untooler, pop); else: create it
                for t in s.body:
                    if isinstance(t, ast.Assign):
                        continue
                    self.ov_block([t], name)
                todo = list(s.orelse)
                while todo:
                    t = todo.pop(0)
                    if isinstance(t, ast.Assign) and any(
                            isinstance(x, ast.Attribute) and x.attr == "__ptera_stack__" for x in t.targets):
                        self.emit("overlay.py", t, "createStackIfAbsent")
                    elif isinstance(t, ast.If) and isinstance(t.test, ast.Call) and isinstance(t.test.func, ast.Name) \
                            and t.test.func.id == "is_tooled" and all(isinstance(u, ast.Return) for u in t.body):
                        # `elif is_tooled(fn): return fn` — a function tooled once and for all keeps its
                        # instrumentation. The functions of the thread model are tooled by probes only: without a
                        # stack they are not tooled, the test fails (it is made under the lock) and the stack is created
                        todo = list(t.orelse) + todo
                    else:
                        raise ExtractError("_tooler: unrecognised else-branch at line %d" % t.lineno)
            elif isinstance(s, ast.Expr) and isinstance(s.value, ast.Call) and is_attr(s.value.func, "st", name):
                self.synced_pushpop(name)
            elif isinstance(s, ast.Return):
                continue
            else:
                raise ExtractError("overlay tooling: unrecognised statement at line %d" % s.lineno)


def bystander_lines(w):
    """a thread whose probe is on another function calls the shared function: the code object is read at the
    call, and the code it got reads its function's `__ptera_info__` in overlay.fits_selector"""
    fn = find_func(w.ov.body, "fits_selector")
    for s in fn.body:
        if isinstance(s, ast.Assign) and isinstance(s.targets[0], ast.Name) and s.targets[0].id == "fvars":
            v = s.value
            if is_attr(v, "pfn", "__ptera_info__"):
                return [("call", 0, ["callFetch"]), ("overlay.py", s.lineno, ["callEnter"])]
            if (isinstance(v, ast.Call) and isinstance(v.func, ast.Name) and v.func.id == "getattr" and len(v.args) == 3
                    and isinstance(v.args[0], ast.Name) and v.args[0].id == "pfn"
                    and isinstance(v.args[1], ast.Constant) and v.args[1].value == "__ptera_info__"):
                return [("call", 0, ["callFetch"]), ("overlay.py", s.lineno, ["callEnterTolerant"])]
            raise ExtractError("fits_selector: unrecognised read of the variable table at line %d" % s.lineno)
    raise ExtractError("fits_selector does not read the variable table into `fvars`")


def gen_steps():
    w = Walker()
    by = bystander_lines(w)
    w.tooler()
    tool = w.out
    w.out = []
    w.untooler()
    untool = w.out

    def render(name, groups):
        rows = []
        for f, line, steps in groups:
            rows.append("  (%s, %d, [%s])" % (lstr(f), line, ", ".join("Step." + s for s in steps)))
        return "def %s : List (String × Nat × List Step) := [\n%s]\n" % (name, ",\n".join(rows))
    o = ["-- GENERATED by harness/extract_steps.py from ptera/overlay.py, ptera/transform.py — do not edit",
         "import PteraModel.Model.Sched", "namespace Ptera.Generated.Steps", "open Ptera.Sched", "",
         "/-- `_tooler(fn, captures)`: (file, line, atomic steps of that line), in program order -/",
         render("toolerLines", tool),
         "/-- `_untooler(fn, captures)` -/", render("untoolerLines", untool),
         "/-- a call of the function by a thread whose own probe is on another function -/",
         render("bystanderLines", by),
         "end Ptera.Generated.Steps"]
    return "\n".join(o) + "\n"


GENS = [("Steps.lean", gen_steps)]
