"""Create real Python modules from generated source so that inspect.getsource works."""
import linecache
import sys
import types
import itertools

_ctr = itertools.count()


def make_module(src, name=None):
    n = next(_ctr)
    name = name or "verifgen_%d" % n
    fname = "<verifgen-%d-%s>" % (n, name)
    linecache.cache[fname] = (len(src), None, src.splitlines(True), fname)
    mod = types.ModuleType(name)
    mod.__file__ = fname
    sys.modules[name] = mod
    code = compile(src, fname, "exec")
    exec(code, mod.__dict__)
    return mod


def drop_module(mod):
    sys.modules.pop(mod.__name__, None)
    linecache.cache.pop(getattr(mod, "__file__", ""), None)
